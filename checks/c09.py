"""C09 — well-formed input is accepted regardless of declaration order and layout; groups behave as inlined.

Proof:  Pdlv/Thm/C09.lean (scope verdict is permutation invariant; group inlining lemmas)
Tie:    generated well-formed descriptions must be accepted; all permutations of their declarations (<= 5
        declarations; sampled beyond), token-level re-layouts (whitespace, CR/LF, tabs, comments, literal
        radix) and group-vs-hand-inlined pairs go through the real parser, analyzer and back ends:
        verdict / error-code set / analyzed declarations (source ranges stripped, sorted by id) / emitted
        Rust, Python and C++ text are compared; the Lean analyzer model is run on every variant.
"""
import itertools
import json
import os
import random
import re
import sys

sys.path.insert(0, os.path.dirname(os.path.dirname(os.path.abspath(__file__))))
from vlib import common as C
from vlib import gen_descr as GD
from vlib import gen_groups as GG
from vlib import gen_illformed as GI
from checks.c08 import compare_model


def strip(x):
    if isinstance(x, dict):
        return {k: strip(v) for k, v in x.items() if k != "loc"}
    if isinstance(x, list):
        return [strip(v) for v in x]
    return x


def decl_set(file_json):
    ds = strip(file_json["declarations"])
    return json.dumps(sorted(ds, key=lambda d: json.dumps(d.get("id"))), sort_keys=True)


def split_decls(text):
    """(endianness line, [declaration texts]) of a generated description"""
    head, rest = text.split("\n", 1)
    parts = re.split(r"\n(?=(?:packet|struct|enum|group|custom_field|checksum|test)\b)", "\n" + rest)
    return head, [p.strip() for p in parts if p.strip()]


TOKEN = re.compile(r"\"[^\"]*\"|0[xX][0-9a-fA-F]+|[A-Za-z_][A-Za-z0-9_]*|\d+|\.\.|[{}()\[\]:,=+]")


def relayout(rng, text):
    """Same tokens, different whitespace / comments / literal radix.  Keywords keep one following
    whitespace character (grammar rule `ENUM = @{ "enum" ~ WHITESPACE }` etc.)."""
    toks = TOKEN.findall(text)
    out = []
    kw = {"enum", "packet", "struct", "group", "custom_field", "checksum", "test", "little_endian_packets", "big_endian_packets"}
    for i, t in enumerate(toks):
        if re.fullmatch(r"\d+", t) and rng.random() < 0.5 and not (i > 0 and toks[i - 1] == "+"):
            t = ("0x%x" if rng.random() < 0.7 else "0x%X") % int(t)
        elif re.fullmatch(r"0[xX][0-9a-fA-F]+", t) and rng.random() < 0.5:
            t = str(int(t, 16))
        out.append(t)
        if t in kw:
            out.append(rng.choice([" ", "\n", "\t", "\r\n"]))
        if i + 1 < len(toks) and toks[i] == "+":
            continue      # size modifier `+N` is one atomic token
        sep = rng.choice(["", " ", "  ", "\n", "\t", "\r\n", " /* c */ ", " // line\n", "\n\n"])
        if sep == "" and i + 1 < len(toks) and re.match(r"[A-Za-z0-9_]", toks[i + 1][0]) and re.match(r"[A-Za-z0-9_]", t[-1]):
            sep = " "
        if t in kw and sep.lstrip().startswith("/"):
            sep = " " + sep
        out.append(sep)
    return "".join(out)


def main(argv):
    a = C.std_args(argv)
    run = C.Run("C09", a.tier, a.seed)
    rng = random.Random(a.seed)
    proof = C.proof_audit("C09")
    ok, out = C.build_driver()
    if not ok:
        run.violation("corr", "pdl-driver does not build: " + out[-500:], {"stage": "build"}, found_input=False)
        return run.finish(proof)
    drv, mdl = C.driver(), C.pdlv()
    n = 25 if a.tier == "quick" else 200
    opts = GD.Opts(greedy_structs=True, copy_parents=False, array_modifier=True)

    def analyze(text):
        r = drv.ask({"op": "analyze", "text": text})
        return r or {"status": "dead", "message": drv.last_death}

    def gen(text, be):
        g = drv.ask({"op": "gen", "backend": be, "text": text})
        return g["text"] if g and g.get("status") == "ok" else None

    # -- order independence ---------------------------------------------------------------
    texts = [t for t, _ in GD.stratified(rng, opts)]
    for k in range(n):
        texts.append(GD.generate(rng, opts, n_packets=rng.choice([1, 2]), trees=rng.choice([0, 0, 1]))[0])
    # legal recursion through arrays without static size: accepted in every declaration order
    texts += GD.recursive_descriptions(rng)
    for text in texts:
        base = analyze(text)
        run.case((text, "base"))
        if base.get("status") in ("panic", "dead"):
            continue     # C10
        if base.get("status") != "ok":
            run.violation("impl", "a description built only from well-formed constructs is rejected: %s"
                          % [d["code"] + " " + d["message"] for d in base.get("diagnostics", [])] or base.get("message"),
                          {"pdl": text, "signature": {"class": "well-formed-rejected"}})
            continue
        head, decls = split_decls(text)
        if len(decls) <= 5:
            perms = list(itertools.permutations(decls))
            rng.shuffle(perms)
            perms = perms[:24 if a.tier == "quick" else 120]
        else:
            perms = []
            for _ in range(8 if a.tier == "quick" else 30):
                p = list(decls)
                rng.shuffle(p)
                perms.append(p)
            perms.append(list(reversed(decls)))
            # every declaration moved behind all the others (forward references to each kind of type)
            for j in range(0, len(decls), max(1, len(decls) // 6)):
                perms.append(decls[:j] + decls[j + 1:] + [decls[j]])
        want = decl_set(base["file"])
        for p in perms:
            t2 = head + "\n" + "\n\n".join(p) + "\n"
            r2 = analyze(t2)
            run.case((t2, "perm"))
            run.hist("variants", "permutation")
            if r2.get("status") in ("panic", "dead"):
                run.violation("impl", "the analyzer crashes on a reordering of an accepted description: %s" % r2.get("message"),
                              {"pdl": t2, "original": text, "signature": {"class": "perm-panic", "message": str(r2.get("message"))[:60]}})
            elif r2.get("status") != "ok":
                run.violation("impl", "a reordering of an accepted description is rejected: %s" % [d["code"] for d in r2.get("diagnostics", [])],
                              {"pdl": t2, "original": text, "signature": {"class": "perm-rejected"}})
            elif decl_set(r2["file"]) != want:
                run.violation("impl", "the analyzed declarations depend on the order of the declarations",
                              {"pdl": t2, "original": text, "signature": {"class": "perm-decls-differ"}})
            else:
                compare_model(run, drv, mdl, t2, r2, "permutation")
        # -- layout independence
        for _ in range(3 if a.tier == "quick" else 10):
            t3 = relayout(rng, text)
            r3 = analyze(t3)
            run.case((t3, "layout"))
            run.hist("variants", "relayout")
            if r3.get("status") != "ok" or decl_set(r3["file"]) != want:
                run.violation("impl", "a re-layout (whitespace / comments / literal radix) changes the outcome: %s"
                              % (r3.get("message") or [d["code"] for d in r3.get("diagnostics", [])] or "declarations differ"),
                              {"pdl": t3, "original": text, "signature": {"class": "layout", "status": r3.get("status")}})
        run.sample({"pdl": text[:200], "permutations": len(perms)}, limit=3)
    # -- error-code sets are order independent too
    ill = GI.cases(rng)
    rng.shuffle(ill)
    for body, code in ill[:40 if a.tier == "quick" else 200]:
        if code is None:
            continue
        text = "little_endian_packets\n" + body
        head, decls = split_decls(text)
        if len(decls) < 2:
            continue
        r1 = analyze(text)
        p = list(decls)
        rng.shuffle(p)
        t2 = head + "\n" + "\n".join(p) + "\n"
        r2 = analyze(t2)
        run.case((t2, "ill-perm"))
        run.hist("variants", "ill-formed permutation")
        c1 = sorted(set(d["code"] for d in r1.get("diagnostics", [])))
        c2 = sorted(set(d["code"] for d in r2.get("diagnostics", [])))
        if r1.get("status") != r2.get("status") or c1 != c2:
            run.violation("impl", "the set of reported error codes depends on the declaration order: %s vs %s" % (c1, c2),
                          {"pdl": t2, "original": text, "signature": {"class": "ill-perm", "a": c1, "b": c2}})
    # -- groups as inlined
    n_pay = max(3, n // 2)
    drng = random.Random(a.seed * 4099 + 9)
    for k in range(2 * n + n_pay + max(4, n // 2)):
        if k >= 2 * n + n_pay:
            # different groups in different declarations, own PRNG stream
            ga, gb = GG.gen_distinct_users(drng)
        else:
            ga, gb = GG.gen(rng) if k < n else (GG.gen_shared(rng, force={n: "plain-first", n + 1: "plain-last"}.get(k)) if k < 2 * n
                                                else GG.gen_shared_payload(rng))
        ra, rb = analyze(ga), analyze(gb)
        run.case((ga, "group"))
        run.hist("variants", "group-vs-inlined")
        rep = {"pdl": ga, "inlined": gb}
        if ra.get("status") != "ok" or rb.get("status") != "ok":
            if ra.get("status") != rb.get("status"):
                run.violation("impl", "group version %s, inlined version %s" % (ra.get("status"), rb.get("status")),
                              dict(rep, signature={"class": "group-verdict"}))
            continue
        if decl_set(ra["file"]) != decl_set(rb["file"]):
            run.violation("impl", "a description using groups is not analyzed to the same declarations as its inlined form",
                          dict(rep, signature={"class": "group-decls"}))
            continue
        for be in ("rust", "python", "cxx"):
            xa, xb = gen(ga, be), gen(gb, be)
            if xa != xb:
                run.violation("impl", "the %s code generated from the group version differs from the inlined version's" % be,
                              dict(rep, backend=be, signature={"class": "group-code", "backend": be}))
        compare_model(run, drv, mdl, ga, ra, "groups")
    drv.kill()
    mdl.kill()
    return run.finish(proof, extra_cov={
        "rule": "generated well-formed descriptions x (all permutations of <=5 declarations, sampled beyond, reversal) x "
                "token-level re-layouts; ill-formed cases permuted; group descriptions (nesting <=3, scalar and enum "
                "constraints) vs hand-inlined twins incl. emitted Rust/Python/C++; a case = one source text variant"})


if __name__ == "__main__":
    sys.exit(main(sys.argv[1:]))
