"""C01 — generated Rust parsers are total and memory-safe on arbitrary bytes.

Proof:  Pdlv/Thm/C01.lean (decode_suffix, no-panic theorems over the decoder model, hazard witnesses)
Tie:    decode / decode_mut / decode_full / specialize / TryFrom<&Parent> of the code emitted by the
        pdlc built from /repo, compiled with overflow checks and debug assertions, run on every
        prefix, extensions, bit flips, forced extremes and random strings; outcome class, value and
        remainder compared with the Lean decoder model.
"""
import json
import os
import sys

sys.path.insert(0, os.path.dirname(os.path.dirname(os.path.abspath(__file__))))
from checks.wire_common import WireCheck
from vlib import gen_value as GV
from vlib import wirerun as W

ALLOC_SLACK = 64 << 20


def main(argv):
    wc = WireCheck("C01", argv)
    run = wc.run
    if not wc.setup():
        return wc.finish()
    co = wc.co
    for i, d in enumerate(co.descs):
        idx = d["types"].decls
        for T in co.packet_types(i):
            vals = [v for v, _ in wc.values(i, T, wc.sz["values"])]
            mo = co.model(i, T, [{"k": "enc", "v": v} for v in vals])
            if not isinstance(mo, list):
                run.hist("model_status", str(mo))
                continue
            seeds = [bytes.fromhex(m["hex"]) for m in mo if m.get("r") == "ok"]
            strings = [("empty", b"")]
            for k in run.known:
                w = k.get("witness", {})
                if w.get("pdl", "").strip() == d["text"].strip() and w.get("type") == T:
                    strings.append(("witness", bytes.fromhex(w["input_hex"])))
            for s in seeds[:wc.sz["values"]]:
                strings.append(("valid", s))
                strings += GV.mutants(wc.rng, s, wc.sz["random_strings"])
            seen = set()
            uniq = []
            for k, s in strings:
                if s not in seen:
                    seen.add(s)
                    uniq.append((k, s))
            # the hypothesis of theorems decode_no_panic_ideal / decode_panics_only_at_known_hazards on this layout
            wf = co.model(i, T, [{"k": "len", "v": {}}])
            run.hist("theorem_hypotheses", "decWfBody:%s" % (wf[0].get("decwf") if isinstance(wf, list) else "?"))
            mdec = co.model(i, T, [{"k": "dec", "hex": s.hex()} for _, s in uniq])
            if not isinstance(mdec, list):
                run.violation("corr", "model failed on %s: %s" % (T, mdec), {"pdl": d["text"], "type": T}, found_input=False)
                continue
            kids = [x["id"] for x in d["analyzed"]["declarations"] if x.get("parent_id") == T]
            for (kind, s), m in zip(uniq, mdec):
                run.case((d["text"], T, s))
                run.hist("string_kinds", kind)
                hz = m.get("h") if m.get("r") == "panic" else None
                for op in ("dec", "decmut", "decfull"):
                    r = wc.impl(i, T, op, s.hex())
                    run.hist("outcomes", "%s:%s" % (op, r.get("r")))
                    rep = {"pdl": d["text"], "type": T, "op": op, "input_hex": s.hex(), "kind": kind,
                           "impl": r, "model": m}
                    if r.get("r") not in ("ok", "err"):
                        rep["signature"] = {"class": r.get("r"), "hazard": hz}
                        run.violation("impl", "%s::%s(%s) -> %s %s (model: %s)" % (T, op, s.hex()[:40], r.get("r"), str(r.get("m"))[:120], hz or m.get("r")), rep)
                        continue
                    if r["r"] == "ok" and op != "decfull" and not r.get("suffix", True):
                        run.violation("impl", "%s::%s: remainder is not a suffix of the input" % (T, op), rep)
                    if r["r"] == "err" and op == "decmut" and not r.get("untouched", True):
                        run.violation("impl", "%s::decode_mut modified the slice on failure" % T, rep)
                    if r.get("peak", 0) > ALLOC_SLACK + 64 * len(s):
                        rep["signature"] = {"class": "alloc"}
                        run.violation("impl", "%s::%s allocated %d bytes for a %d-byte input" % (T, op, r["peak"], len(s)), rep)
                    if op == "dec" and hz is None and not W.same_dec(r, m):
                        rep["corr"] = "corr:C01/decode/outcome-value-remainder"
                        run.violation("corr", "decoder model and emitted decoder disagree on %s %s" % (T, s.hex()[:40]), rep, found_input=False)
                    if op == "dec" and hz is not None:
                        # model predicts a panic (known hazard) but the code did not: the defect is gone
                        run.hist("hazard_not_reproduced", hz)
                    if op == "dec" and r["r"] == "ok" and kids:
                        def kid_hazard(kid):
                            mk = co.model(i, kid, [{"k": "dec", "hex": s.hex()}])
                            if isinstance(mk, list) and mk[0].get("r") == "panic":
                                return mk[0].get("h")
                            return None
                        sp = wc.impl(i, T, "spec", r["value"])
                        run.hist("outcomes", "spec:%s" % sp.get("r"))
                        if sp.get("r") not in ("ok", "err"):
                            hzs = [h for h in (kid_hazard(k) for k in kids) if h]
                            run.violation("impl", "%s::specialize -> %s %s" % (T, sp.get("r"), str(sp.get("m"))[:120]),
                                          {"pdl": d["text"], "type": T, "op": "spec", "input_hex": s.hex(), "impl": sp,
                                           "signature": {"class": sp.get("r"), "hazard": hzs[0] if hzs else None}})
                        for kid in kids:
                            fp = wc.impl(i, kid, "from:%s" % T, r["value"])
                            if fp.get("r") not in ("ok", "err"):
                                run.violation("impl", "%s::try_from(&%s) -> %s %s" % (kid, T, fp.get("r"), str(fp.get("m"))[:120]),
                                              {"pdl": d["text"], "type": kid, "op": "from:" + T, "input_hex": s.hex(), "impl": fp,
                                               "signature": {"class": fp.get("r"), "hazard": kid_hazard(kid)}})
            run.sample({"type": T, "strings": len(uniq), "example": uniq[min(3, len(uniq) - 1)][1].hex()}, limit=4)
    return wc.finish(extra_cov={
        "rule": "per generated description and packet/struct type: model encodings of generated values, every prefix, "
                "extensions, bit flips, bytes and multi-byte windows forced to 00/01/7f/80/fe/ff, random strings; "
                "each string through decode, decode_mut, decode_full (+ specialize and TryFrom<&Parent> on decoded parents); "
                "a case = (description, type, byte string), distinct by content"})


if __name__ == "__main__":
    sys.exit(main(sys.argv[1:]))
