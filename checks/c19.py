"""C19 — Java back end: conformance and round trip.

Proof:  Pdlv/Thm/C19.lean — the reference (Pdlv.Ref) with its spec lemmas; size = length of the
        reference encoding for root packets and structs.
Tie:    the module emitted by the pdlc built from /repo is imported in a child process (both
        endiannesses); serialize() vs Ref.encode, parse_all(serialize(v)) vs v, parse_all(b) vs the
        reference decoder on reference encodings, single-fault mutants, all prefixes and random strings;
        `.size` vs len(serialize()).
"""
import os
import random
import sys

sys.path.insert(0, os.path.dirname(os.path.dirname(os.path.abspath(__file__))))
from vlib import common as C
from vlib import gen_descr as GD
from vlib import gen_value as GV
from vlib import wirerun as W
from checks import backend_common as B

NON_DECODE_EXC = ("IndexError", "ValueError", "KeyError", "TypeError", "OverflowError", "AttributeError",
                  "ZeroDivisionError", "AssertionError", "RecursionError", "MemoryError", "error")


UNMODELLED = ("badLayout", "badValue", "nonTermination")


def negative_length(res, chain=None):
    """a size / count read back as a NEGATIVE Java integer (KF-C19-signed-size): the exception says so, and the packet
    has a size / count field exactly as wide as a Java integral type (a narrower one is masked and comes out unsigned)
    whose range the negative number fits"""
    import re
    if res.get("e") not in ("NegativeArraySizeException", "IndexOutOfBoundsException", "IllegalArgumentException"):
        return False
    mt = re.search(r"(?:^|[^0-9A-Za-z])-(\d+)", str(res.get("m") or ""))
    if not mt:
        return False
    neg = int(mt.group(1))
    if chain is None:
        return True
    widths = [f["width"] for dd in chain for f in dd.get("fields", []) if f["kind"] in ("size_field", "count_field")]
    return any(w in (8, 16, 32, 64) and neg <= (1 << (w - 1)) for w in widths)


def model_pass(run, a):
    """Second corpus: packets made of bit-fields only, in groups of every width up to 64 bits and with fields of 24 / 40 /
    48 / 56 bits — shapes the first corpus leaves out because the Java back end deviates there (KF-C19-int-chunk,
    KF-C19-get24).  The emitted classes are compared with their MODEL (Pdlv.Java), which has those deviations."""
    import random
    rng = random.Random(a.seed * 7919 + 37)
    texts = GD.bitfield_packets(rng, 14 if a.tier == "quick" else 80)
    # size and count fields that are a whole 8- / 16-bit group (read back as signed Java integers: KF-C19-signed-size) and
    # ones that are not, arrays of scalars of every element width, sized payloads with and without a modifier
    for e in ("little", "big"):
        texts.append("%s_endian_packets\n\npacket Sz0 {\n  _size_(a) : 8,\n  a : 8[]\n}\n"
                     "packet Sz1 {\n  t : 4,\n  _count_(a) : 12,\n  a : 16[]\n}\n"
                     "packet Sz2 {\n  _size_(_payload_) : 8,\n  k : 8,\n  _payload_\n}\n"
                     "packet Sz3 {\n  _size_(a) : 16,\n  a : 24[],\n  _count_(b) : 8,\n  b : 8[]\n}\n"
                     "packet Sz4 {\n  _size_(_payload_) : 16,\n  _payload_ : [+2],\n  x : 8\n}\n"
                     "packet Sz5 {\n  _count_(a) : 8,\n  a : 40[],\n  c : 32[2]\n}\n" % e)
    be = B.Backend(run, "java", a.tier, a.seed + 11, 0, tag="javam", extra_texts=texts)
    be.generate(stratify=False)
    if not be.descs or not be.build():
        be.close()
        return
    for i, d in enumerate(be.descs):
        types = d["types"]
        for T in be.types(i, roots_only=True):
            vals = [GV.gen_value(types, T, be.rng)[0] for _ in range(4 if a.tier == "quick" else 10)]
            if T.startswith("Sz"):
                # lengths around the sign bit of an 8-bit size / count
                for L in (0, 127, 128, 200):
                    v2 = dict(vals[0])
                    for k2, x in list(v2.items()):
                        if isinstance(x, list) and not (k2 == "c"):
                            v2[k2] = [(x[j % len(x)] if x else 5) for j in range(L)]
                    vals.append(v2)
            mes = be.model(i, T, [{"k": "javaenc", "v": v} for v in vals])
            if not isinstance(mes, list):
                continue
            strings = [b""]
            for v, me in zip(vals, mes):
                r = be.ask(i, T, "enc", v)
                run.case((d["text"], T, W.canon(v), "model-pass"))
                if me.get("r") == "panic" and me.get("h") in UNMODELLED:
                    run.hist("java_model", "enc-unmodelled")
                    continue
                if r.get("r") == "badvalue":
                    continue
                same = r.get("r") == "ok" and me.get("r") == "ok" and me.get("hex") == r.get("hex")
                run.hist("java_model_pass", "enc-agree" if same else "enc-disagree")
                if not same:
                    run.violation("corr", "the model of the emitted Java serializer (Pdlv.Java) and toBytes() disagree on a %s: model %s, emitted %s"
                                  % (T, str(me.get("hex") or me.get("r"))[:40], str(r.get("hex") or r.get("r"))[:40]),
                                  {"pdl": d["text"], "type": T, "value": v, "java": r, "model": me, "corr": "corr:C19/java-chunk-model"},
                                  found_input=False)
                if r.get("r") == "ok":
                    sd = bytes.fromhex(r["hex"])
                    strings.append(sd)
                    strings += [s for _, s in GV.mutants(be.rng, sd, 2)][:12]
            rf = be.model(i, T, [{"k": "ref", "v": v} for v in vals])
            if isinstance(rf, list):
                strings += [bytes.fromhex(x["hex"]) for x in rf if x.get("r") == "ok"]
                for me, x in zip(mes, rf):
                    if me.get("r") == "ok" and x.get("r") == "ok":
                        # how often the modelled (= emitted) bytes are NOT the reference's: the recorded deviations at work
                        run.hist("java_model_pass", "model-is-reference" if me.get("hex") == x.get("hex") else "model-deviates-from-reference")
            uniq = list(dict.fromkeys(strings))
            mds = be.model(i, T, [{"k": "javadec", "hex": s.hex()} for s in uniq])
            if not isinstance(mds, list):
                continue
            for s, md in zip(uniq, mds):
                r = be.ask(i, T, "dec", s.hex())
                run.case((d["text"], T, s, "model-pass"))
                if md.get("r") == "panic" and md.get("h") in UNMODELLED:
                    run.hist("java_model", "dec-unmodelled")
                    continue
                if r.get("r") not in ("ok", "err"):
                    continue
                same = md.get("r") == r.get("r") and (r.get("r") != "ok" or W.canon(md.get("value")) == W.canon(r.get("value")))
                run.hist("java_model_pass", ("dec-agree:%s" % r.get("r")) if same else "dec-disagree")
                if not same:
                    run.violation("corr", "the model of the emitted Java parser (Pdlv.Java) and fromBytes() disagree on %s %s: model %s, emitted %s"
                                  % (T, s.hex()[:40], md.get("r"), r.get("r")),
                                  {"pdl": d["text"], "type": T, "input_hex": s.hex(), "java": r, "model": md,
                                   "corr": "corr:C19/java-chunk-model"}, found_input=False)
    be.close()


def corpus_texts():
    d = os.path.join(B.CORPUS, "java")
    if not os.path.isdir(d):
        return []
    return [(f[:-4], open(os.path.join(d, f)).read()) for f in sorted(os.listdir(d)) if f.endswith(".pdl")]


def root_of(types, T):
    return types.parent_chain(types.decls[T])[-1]["id"]


def main(argv):
    a = C.std_args(argv)
    run = C.Run("C19", a.tier, a.seed)
    proof = C.proof_audit("C19")
    ok, out = C.build_driver()
    if not ok:
        run.violation("corr", "pdl-driver does not build: " + out[-500:], {"stage": "build"}, found_input=False)
        return run.finish(proof)
    n = 30 if a.tier == "quick" else 200
    be = B.Backend(run, "java", a.tier, a.seed, n, extra_texts=corpus_texts())
    be.generate()
    if not be.build():
        be.close()
        return run.finish(proof)
    nvals = 4 if a.tier == "quick" else 10
    for i, d in enumerate(be.descs):
        types = d["types"]
        for T in be.types(i):
            decl = types.decls[T]
            chain = types.parent_chain(decl)
            root = chain[-1]["id"]
            tags = B.features_of(chain, types)
            if d.get("corpus_id"):
                tags = dict(tags, corpus=d["corpus_id"])
            has_kids = any(x.get("parent_id") == T for x in types.decls.values())
            vals = [GV.gen_value(types, T, be.rng)[0] for _ in range(nvals)]
            for k in run.known:
                w = k.get("witness", {})
                if w.get("pdl", "").strip() == d["text"].strip() and w.get("type") == T and w.get("value") is not None:
                    vals.insert(0, w["value"])
            refs = be.model(i, T, [{"k": "ref", "v": v} for v in vals])
            if not isinstance(refs, list):
                run.hist("model_status", str(refs))
                continue
            seeds = []
            # the Lean model of what the Java back end emits for bit-field groups (Pdlv.Java): packets and structs without
            # parent made of bit-fields only; theorem hypotheses (java_packs_groups_up_to_32_bits / java_reads_groups_of_8_16_32_bits)
            mje = be.model(i, T, [{"k": "javaenc", "v": v} for v in vals])
            mje = mje if isinstance(mje, list) else None
            jh = {}
            ser_class = False
            if mje is not None:
                hy = be.model(i, T, [{"k": "len", "v": {}}])
                jh = hy[0] if isinstance(hy, list) else {}
                if decl.get("parent_id"):
                    # java_child_serializer_writes_reference: the statement is about the reference-mode encoder
                    ser_class = bool(jh.get("javachildwf"))
                else:
                    ser_class = bool((jh.get("javawf") or jh.get("javaencwf")) and jh.get("refwf"))
                if any(x.get("r") != "panic" or x.get("h") not in UNMODELLED for x in mje):
                    if decl.get("parent_id"):
                        run.hist("theorem_hypotheses", "Java.encWfChild:%s" % ser_class)
                    else:
                        run.hist("theorem_hypotheses", "Java.wfBody&refWfBody:%s" % bool(jh.get("javawf") and jh.get("refwf")))
                        run.hist("theorem_hypotheses", "Java.encWfItems&refWfBody:%s" % bool(jh.get("javaencwf") and jh.get("refwf")))
            for n_v, (v, rf) in enumerate(zip(vals, refs)):
                if rf.get("r") != "ok":
                    continue
                run.case((d["text"], T, W.canon(v)))
                r = be.ask(i, T, "enc", v)
                rep = {"pdl": d["text"], "type": T, "value": v, "java": r, "reference": rf}
                run.hist("enc_outcomes", str(r.get("r")))
                if mje is not None:
                    me = mje[n_v]
                    if me.get("r") == "panic" and me.get("h") in UNMODELLED:
                        run.hist("java_model", "enc-unmodelled")
                    elif r.get("r") in ("ok",):
                        same = me.get("r") == "ok" and me.get("hex") == r.get("hex")
                        run.hist("java_model", "enc-agree" if same else "enc-disagree")
                        if not same:
                            run.violation("corr", "the model of the emitted Java serializer (Pdlv.Java) and toBytes() disagree on a %s: model %s, emitted %s"
                                          % (T, (me.get("hex") or me.get("r"))[:40], r.get("hex", "")[:40]),
                                          {"pdl": d["text"], "type": T, "value": v, "java": r, "model": me, "corr": "corr:C19/java-chunk-model"},
                                          found_input=False)
                        if ser_class and decl.get("parent_id"):
                            ie = be.model(i, T, [{"k": "enc", "v": v}])
                            want = ie[0].get("hex") if isinstance(ie, list) and ie[0].get("r") == "ok" else None
                        else:
                            want = rf.get("hex")
                        if ser_class and want is not None:
                            run.count("theorem_instances")
                            if me.get("hex") != want:
                                run.violation("corr", "theorem java_packs_groups_up_to_32_bits / java_writes_arrays_and_payloads / java_child_serializer_writes_reference contradicted by evaluation on %s (model bug)" % T,
                                              {"pdl": d["text"], "type": T, "value": v, "model": me, "reference": rf,
                                               "corr": "thm:java_packs_groups_up_to_32_bits"}, found_input=False)
                if r.get("r") == "badvalue":
                    continue
                if r.get("r") != "ok":
                    rep["signature"] = {"class": "serialize-" + str(r.get("r")), "e": r.get("e"), **tags}
                    run.violation("impl", "java %s.serialize() of an in-range value -> %s %s" % (T, r.get("r"), r.get("e") or r.get("m", "")), rep)
                    continue
                if r["hex"] != rf["hex"]:
                    rep["signature"] = {"class": "bytes-differ", **tags}
                    run.violation("impl", "java %s.serialize() = %s, reference encoding %s" % (T, r["hex"][:60], rf["hex"][:60]), rep)
                    continue
                seeds.append(bytes.fromhex(r["hex"]))
                # size: for root packets and structs
                if not decl.get("parent_id") and r.get("len") is not None and r["len"] != len(r["hex"]) // 2:
                    rep["signature"] = {"class": "size", **tags}
                    run.violation("impl", "java %s.size = %s but len(serialize()) = %d" % (T, r["len"], len(r["hex"]) // 2), rep)
                # parse_all(serialize(v)) through the root (types of the round-trippable class only)
                if tags.get("unsized_padded_array"):
                    run.hist("skipped", "roundtrip:unsized-padded-array-out-of-class")
                    continue
                op = "dec"
                back = be.ask(i, T, op, r["hex"])
                if back.get("r") != "ok" and has_kids:
                    mroot = be.model(i, T, [{"k": "decfull", "hex": r["hex"]}])
                    if isinstance(mroot, list) and mroot[0].get("r") == "ok" and \
                            be.model_specialize_chain(i, T, mroot[0]["value"])[0] == "child-error":
                        run.hist("skipped", "parent-value-matches-a-child-that-does-not-parse")
                        continue
                if back.get("r") != "ok":
                    rep["parse"] = back
                    rep["signature"] = {"class": "roundtrip-" + str(back.get("r")), "e": back.get("e"), **tags}
                    if negative_length(back, chain):
                        rep["signature"]["negative_length"] = True
                    run.violation("impl", "java parse_all(serialize(v)) for %s -> %s %s" % (T, back.get("r"), back.get("e") or ""), rep)
                elif back.get("type") == T and W.canon(back["value"]) != W.canon(v):
                    rep["parse"] = back
                    rep["signature"] = {"class": "roundtrip-value", **tags}
                    run.violation("impl", "java parse_all(serialize(v)) for %s has different field values" % T, rep)
                elif back.get("type") != T and not has_kids and all(x.get("constraints") for x in chain[:-1]):
                    rep["parse"] = back
                    rep["signature"] = {"class": "roundtrip-type", "got": back.get("type"), **tags}
                    run.violation("impl", "java parse_all(serialize(v)) of a %s returns a %s" % (T, back.get("type")), rep)
                else:
                    run.count("roundtrips_ok")
            if decl.get("parent_id"):
                continue
            # parse_all on arbitrary bytes, root types
            strings = [("empty", b"")]
            for k in run.known:
                w = k.get("witness", {})
                if w.get("pdl", "").strip() == d["text"].strip() and w.get("type") == T and w.get("input_hex") is not None:
                    strings.append(("witness", bytes.fromhex(w["input_hex"])))
            for s in seeds[:3]:
                strings.append(("valid", s))
                strings += GV.mutants(be.rng, s, 4 if a.tier == "quick" else 10)
            if has_kids:
                # reference encodings of the descendants (what the dispatch has to route), and their mutants; own PRNG stream
                crng = random.Random(a.seed * 104729 + i * 31 + len(T))
                for D in be.types(i):
                    if D == T or root_of(types, D) != T:
                        continue
                    dv = [GV.gen_value(types, D, crng)[0] for _ in range(2 if a.tier == "quick" else 4)]
                    dr = be.model(i, D, [{"k": "ref", "v": v} for v in dv])
                    for x in (dr if isinstance(dr, list) else []):
                        if x.get("r") == "ok":
                            sb = bytes.fromhex(x["hex"])
                            strings.append(("descendant", sb))
                            strings += GV.mutants(crng, sb, 2 if a.tier == "quick" else 5)
            seen, uniq = set(), []
            for k, s in strings:
                if s not in seen:
                    seen.add(s)
                    uniq.append((k, s))
            mo = be.model(i, T, [{"k": "decfull", "hex": s.hex()} for _, s in uniq])
            if not isinstance(mo, list):
                continue
            # (a packet with children is parsed through its children's classes: outside the model)
            mjd = be.model(i, T, [{"k": "javadec", "hex": s.hex()} for _, s in uniq]) if not decl.get("parent_id") and not has_kids else None
            mjd = mjd if isinstance(mjd, list) else None
            # the Lean model of the first-fitting-child dispatch (Pdlv.JavaSpec), for root packets with children
            mspec = None
            if not decl.get("parent_id") and has_kids and be.load(i):
                rs = be.mdl.ask({"op": "inherit", "mode": "ideal", "cases": [{"k": "javaspec", "type": T, "hex": s.hex()} for _, s in uniq]}, timeout=300)
                if rs and rs.get("status") == "ok":
                    mspec = rs["out"]
            for n_s, ((kind, s), m) in enumerate(zip(uniq, mo)):
                r = be.ask(i, T, "dec", s.hex())
                if mspec is not None and r.get("r") in ("ok", "err"):
                    ms = mspec[n_s]
                    if ms.get("r") == "none" or (ms.get("r") == "panic" and ms.get("h") in UNMODELLED):
                        run.hist("java_dispatch_model", "unmodelled")
                    else:
                        same = ms.get("r") == r.get("r") and (r.get("r") != "ok" or (ms.get("type") == r.get("type", T) and
                                                                                  W.canon(ms.get("value")) == W.canon(r.get("value"))))
                        run.hist("java_dispatch_model", ("agree:%s" % r.get("r")) + (":child" if r.get("r") == "ok" and r.get("type", T) != T else "")
                                 if same else "disagree")
                        if not same:
                            run.violation("corr", "the model of the emitted Java dispatch (Pdlv.JavaSpec) and fromBytes() disagree on %s %s: model %s %s, emitted %s %s"
                                          % (T, s.hex()[:40], ms.get("r"), ms.get("type", ""), r.get("r"), r.get("type", "")),
                                          {"pdl": d["text"], "type": T, "input_hex": s.hex(), "java": r, "model": ms,
                                           "corr": "corr:C19/java-dispatch-model"}, found_input=False)
                        if ms.get("r") == "ok" and ms.get("wf"):
                            # theorem java_dispatch_is_sound, evaluated: the reference reaches the returned class with the
                            # returned values
                            run.count("theorem_instances")
                            run.hist("theorem_hypotheses", "JavaSpec.wfNode:True")
                            if m.get("r") != "ok":
                                okk = False
                            elif ms.get("type") == T:
                                okk = W.canon(ms.get("value")) == W.canon(m.get("value"))
                            else:
                                dn = be.model_down(i, T, ms["type"], m["value"])
                                okk = bool(dn) and dn.get("r") == "ok" and W.canon(dn["value"]) == W.canon(ms.get("value"))
                            if not okk:
                                run.violation("corr", "theorem java_dispatch_is_sound contradicted by evaluation on %s %s (model bug)" % (T, s.hex()[:40]),
                                              {"pdl": d["text"], "type": T, "input_hex": s.hex(), "model": ms, "reference": m,
                                               "corr": "thm:java_dispatch_is_sound"}, found_input=False)
                        elif ms.get("r") == "ok":
                            run.hist("theorem_hypotheses", "JavaSpec.wfNode:False")
                if mjd is not None and r.get("r") in ("ok", "err") and r.get("type", T) == T:
                    md = mjd[n_s]
                    if md.get("r") == "panic" and md.get("h") in UNMODELLED:
                        run.hist("java_model", "dec-unmodelled")
                    else:
                        same = md.get("r") == r.get("r") and (r.get("r") != "ok" or W.canon(md.get("value")) == W.canon(r.get("value")))
                        run.hist("java_model", "dec-agree:%s" % r.get("r") if same else "dec-disagree")
                        if not same:
                            run.violation("corr", "the model of the emitted Java parser (Pdlv.Java) and fromBytes() disagree on %s %s: model %s, emitted %s"
                                          % (T, s.hex()[:40], md.get("r"), r.get("r")),
                                          {"pdl": d["text"], "type": T, "input_hex": s.hex(), "java": r, "model": md,
                                           "corr": "corr:C19/java-chunk-model"}, found_input=False)
                        if jh.get("javadecwf"):
                            run.count("theorem_instances")
                            okk = (md.get("r") == "ok") == (m.get("r") == "ok") and (md.get("r") != "ok" or W.canon(md.get("value")) == W.canon(m.get("value")))
                            if not okk:
                                run.violation("corr", "theorem java_reads_groups_of_8_16_32_bits contradicted by evaluation on %s %s (model bug)" % (T, s.hex()[:40]),
                                              {"pdl": d["text"], "type": T, "input_hex": s.hex(), "model": md, "reference": m,
                                               "corr": "thm:java_reads_groups_of_8_16_32_bits"}, found_input=False)
                run.case((d["text"], T, s))
                run.hist("dec_outcomes", str(r.get("r")) + (":" + str(r.get("e")) if r.get("r") in ("err", "exception") else ""))
                rep = {"pdl": d["text"], "type": T, "input_hex": s.hex(), "kind": kind, "java": r, "reference": m}
                if r.get("r") in ("timeout", "abort") or (r.get("r") == "exception"):
                    rep["signature"] = {"class": "parse-" + r["r"], "e": r.get("e"), **tags,
                                        "reference": m.get("r")}
                    run.violation("impl", "java %s.parse_all(%s) raised %s (not a DecodeError)" % (T, s.hex()[:40], r.get("e") or r["r"]), rep)
                    continue
                if r.get("r") == "err":
                    if m.get("r") == "ok":
                        # a child whose constraints match but whose fields do not parse: an error is a
                        # legitimate outcome of parsing with automatic specialization
                        chain_r = be.model_specialize_chain(i, T, m["value"])
                        if chain_r[0] == "child-error":
                            run.hist("dec_outcomes", "err-in-matching-child")
                            continue
                        rep["signature"] = {"class": "rejects-valid", "e": r.get("e"), **tags}
                        if negative_length(r, chain):
                            rep["signature"]["negative_length"] = True
                        run.violation("impl", "java %s.parse_all(%s) raises %s but the reference accepts it" % (T, s.hex()[:40], r.get("e")), rep)
                    continue
                if r.get("r") != "ok":
                    continue
                if m.get("r") != "ok":
                    rep["signature"] = {"class": "accepts-invalid", "reference_error": m.get("e"), **tags}
                    run.violation("impl", "java %s.parse_all(%s) accepts what the reference rejects (%s)" % (T, s.hex()[:40], m.get("e")), rep)
                    continue
                if r.get("type") == T:
                    if W.canon(r["value"]) != W.canon(m["value"]):
                        rep["signature"] = {"class": "value-mismatch", **tags}
                        run.violation("impl", "java %s.parse_all(%s): field values differ from the reference" % (T, s.hex()[:40]), rep)
                else:
                    down = be.model_down(i, T, r["type"], m["value"])
                    if not down or down.get("r") != "ok":
                        rep["model_down"] = down
                        rep["signature"] = {"class": "specialized-to-unparsable-child", **tags}
                        run.violation("impl", "java %s.parse_all(%s) returned a %s although that child does not match / parse"
                                      % (T, s.hex()[:40], r["type"]), rep)
                    elif W.canon(down["value"]) != W.canon(r["value"]):
                        rep["model_down"] = down
                        rep["signature"] = {"class": "value-mismatch-child", **tags}
                        run.violation("impl", "java %s.parse_all(%s) -> %s: field values differ from the reference" % (T, s.hex()[:40], r["type"]), rep)
                    else:
                        run.count("specialized_ok")
            run.sample({"type": T, "strings": len(uniq)}, limit=4)
    be.close()
    model_pass(run, a)
    return run.finish(proof, extra_cov={
        "rule": "java-class descriptions (no element-size/custom fields), both endiannesses; in-range values through "
                "serialize / size / parse_all; reference encodings, mutants, prefixes, random strings through parse_all of "
                "root types; a case = (description, type, value or byte string)"})


if __name__ == "__main__":
    sys.exit(main(sys.argv[1:]))
