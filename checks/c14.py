"""C14 — C++ back end: conformance and sanitizer-clean validation of arbitrary bytes.

Proof:  Pdlv/Thm/C14_cxx.lean — the model of the parsers cxx.rs emits (Pdlv.Cxx: struct Parse, view Parse + getters,
        slice accessor assertions, C++ integer arithmetic of count products, padding) refines the reference decoder on
        the class Cxx.wfBody: same acceptance, values and remainder, and no failed assertion, for every byte string
        (struct_parser_agrees_with_reference, struct_parser_no_undefined_behaviour; view_agrees_with_reference,
        view_no_undefined_behaviour for packet views and their getters); serializer_writes_reference for the model of
        Builder::Serialize; the recorded deviations as theorems about the model.  Pdlv/Thm/C14.lean — the reference (Pdlv.Ref) with its spec lemmas.
Tie:    the module emitted by the pdlc built from /repo is imported in a child process (both
        endiannesses); serialize() vs Ref.encode, parse_all(serialize(v)) vs v, parse_all(b) vs the
        reference decoder on reference encodings, single-fault mutants, all prefixes and random strings;
        `.size` vs len(serialize()).
"""
import os
import sys

sys.path.insert(0, os.path.dirname(os.path.dirname(os.path.abspath(__file__))))
from vlib import common as C
from vlib import gen_value as GV
from vlib import wirerun as W
from checks import backend_common as B

NON_DECODE_EXC = ("IndexError", "ValueError", "KeyError", "TypeError", "OverflowError", "AttributeError",
                  "ZeroDivisionError", "AssertionError", "RecursionError", "MemoryError", "error")


def corpus_texts():
    d = os.path.join(B.CORPUS, "cxx")
    if not os.path.isdir(d):
        return []
    return [open(os.path.join(d, f)).read() for f in sorted(os.listdir(d)) if f.endswith(".pdl")]


UNMODELLED = ("badLayout", "badValue", "nonTermination")


def compare_serializer_with_model(run, d, T, v, r, me):
    """emitted Builder::Serialize / T::Serialize vs its Lean model (Pdlv.Cxx.encBody) on one value"""
    if me.get("r") == "panic" and me.get("h") in UNMODELLED:
        run.hist("cxx_ser_model", "unmodelled:" + str(me.get("h")))
        return
    if r.get("r") == "badvalue":
        return
    cls = "ok" if r.get("r") == "ok" else "fail"
    mcls = "ok" if me.get("r") == "ok" else "fail"
    run.hist("cxx_ser_model", "%s/%s" % (cls, mcls))
    rep = {"pdl": d["text"], "type": T, "value": v, "cxx": r, "model_of_emitted_code": me, "corr": "corr:C14/serialize"}
    if cls != mcls or (cls == "ok" and r.get("hex") != me.get("hex")):
        run.violation("corr", "C++ serializer model and emitted serializer disagree on a %s: emitted %s, model %s" %
                      (T, (r.get("hex") or r.get("r"))[:60], (me.get("hex") or me.get("r"))[:60]), rep, found_input=False)
    else:
        run.count("serializer_model_agreements")


def compare_with_model(run, d, T, s, kind, r, mc, is_struct, tags):
    """emitted C++ parser vs its Lean model (Pdlv.Cxx) on one byte string: acceptance, field values, octets left (structs),
    and failed assertions / sanitizer reports against the model's hazards"""
    if mc.get("r") == "panic" and mc.get("h") in UNMODELLED:
        run.hist("cxx_model", "unmodelled:" + str(mc.get("h")))
        return
    rep = {"pdl": d["text"], "type": T, "input_hex": s.hex(), "kind": kind, "cxx": r, "model_of_emitted_code": mc,
           "corr": "corr:C14/%s" % ("struct-parse" if is_struct else "view")}
    ir = r.get("r")
    if ir in ("exception", "timeout", "abort", "ub"):
        cls = "hazard"
    elif ir == "ok":
        cls = "ok"
    elif ir == "err":
        cls = "err"
    else:
        return
    mcls = {"ok": "ok", "err": "err", "panic": "hazard"}.get(mc.get("r"))
    run.hist("cxx_model", "%s/%s" % (cls, mcls))
    if cls != mcls:
        run.violation("corr", "C++ parser model and emitted parser disagree on %s %s: emitted %s, model %s" %
                      (T, s.hex()[:40], cls, mcls + (":" + str(mc.get("h")) if mcls == "hazard" else "")), rep, found_input=False)
        return
    if cls == "ok" and r.get("type") == T:
        if W.canon(r["value"]) != W.canon(mc.get("value")):
            run.violation("corr", "C++ parser model and emitted parser return different field values on %s %s" % (T, s.hex()[:40]),
                          rep, found_input=False)
        elif is_struct and r.get("rest") != mc.get("rest"):
            run.violation("corr", "C++ parser model and emitted parser leave different octets on %s %s" % (T, s.hex()[:40]),
                          rep, found_input=False)
        else:
            run.count("model_agreements")


def wrap_candidates(enc, big):
    """copies of `enc` with a 3-, 4- or 8-octet window overwritten by a value whose product with a small element size
    wraps around 2^32 / 2^64 to something small"""
    out = []
    L = len(enc)
    for k, top in ((3, 1 << 24), (4, 1 << 32), (8, 1 << 64)):
        for i in range(0, max(0, L - k + 1)):
            for es in (2, 3, 4, 5, 6, 7, 8):
                for delta in (0, 1, 2):
                    v = (-(-top // es) + delta) % (1 << (8 * k))
                    w = v.to_bytes(k, "big" if big else "little")
                    out.append(enc[:i] + w + enc[i + k:])
    return out


def model_pass(run, a):
    """Second corpus: the constructs whose C++ support deviates from the reference (arrays of enums and of structs in
    views, count fields of 24 bits and more, padded counted arrays) are kept out of the first corpus so that the
    recorded findings do not mask anything else; here the emitted parsers are compared with their MODEL only, which
    has those deviations (unvalidated elements, wrapping products, arrays not bounded by their padding)."""
    o = B.opts_for("cxx")
    o.enum_arrays = True
    o.struct_arrays = True
    o.narrow_counts = False
    o.array_modifier = True
    n = 25 if a.tier == "quick" else 150
    be = B.Backend(run, "cxx", a.tier, a.seed + 7, n, tag="cxxm", opts=o)
    be.generate(stratify=False)
    if not be.build():
        be.close()
        return
    for i, d in enumerate(be.descs):
        types = d["types"]
        for T in be.types(i, roots_only=True):
            decl = types.decls[T]
            is_struct = decl["kind"] == "struct_declaration"
            tags = B.features_of(types.parent_chain(decl), types)
            vals = [GV.gen_value(types, T, be.rng)[0] for _ in range(3 if a.tier == "quick" else 8)]
            refs = be.model(i, T, [{"k": "ref", "v": v} for v in vals])
            if not isinstance(refs, list):
                continue
            mes = be.model(i, T, [{"k": "cxxenc", "v": v} for v in vals])
            if isinstance(mes, list):
                # (values the reference assigns an encoding to: beyond them `GetSize()` and the octets written part ways —
                #  an array longer than its padding — and the model's size expression is the reference's)
                for v, me, rf in zip(vals, mes, refs):
                    if rf.get("r") == "ok":
                        compare_serializer_with_model(run, d, T, v, be.ask(i, T, "enc", v), me)
            strings = [("empty", b"")]
            for rf in refs:
                if rf.get("r") == "ok":
                    sd = bytes.fromhex(rf["hex"])
                    strings.append(("valid", sd))
                    strings += GV.mutants(be.rng, sd, 6 if a.tier == "quick" else 14)
            # adversarial counts: values whose product with an element size wraps at 2^32 / 2^64; the model picks
            # the candidates on which it predicts a failed assertion (all of them are run), the rest is sampled
            if tags.get("wide_count"):
                big = d["analyzed"]["endianness"]["value"] == "big_endian" if "endianness" in d["analyzed"] else False
                cands = []
                for rf in refs[:2]:
                    if rf.get("r") == "ok":
                        cands += wrap_candidates(bytes.fromhex(rf["hex"]), big)
                cm = be.model(i, T, [{"k": ("cxxdec" if is_struct else "cxxview"), "hex": sd.hex()} for sd in cands]) if cands else []
                if isinstance(cm, list):
                    hz = [sd for sd, mc in zip(cands, cm) if mc.get("r") == "panic" and mc.get("h") not in UNMODELLED]
                    oth = [sd for sd, mc in zip(cands, cm) if mc.get("r") != "panic"]
                    be.rng.shuffle(oth)
                    strings += [("wrap-hazard", sd) for sd in hz[:40]] + [("wrap", sd) for sd in oth[:20]]
            seen, uniq = set(), []
            for k, sd in strings:
                if sd not in seen:
                    seen.add(sd)
                    uniq.append((k, sd))
            mcs = be.model(i, T, [{"k": ("cxxdec" if is_struct else "cxxview"), "hex": sd.hex()} for _, sd in uniq])
            if not isinstance(mcs, list):
                continue
            for (kind, sd), mc in zip(uniq, mcs):
                r = be.ask(i, T, "dec", sd.hex())
                run.case((d["text"], T, sd, "model-pass"))
                run.hist("model_pass_outcomes", str(r.get("r")))
                compare_with_model(run, d, T, sd, kind, r, mc, is_struct, tags)
    be.close()


def root_of(types, T):
    return types.parent_chain(types.decls[T])[-1]["id"]


def main(argv):
    a = C.std_args(argv)
    run = C.Run("C14", a.tier, a.seed)
    proof = C.proof_audit("C14")
    ok, out = C.build_driver()
    if not ok:
        run.violation("corr", "pdl-driver does not build: " + out[-500:], {"stage": "build"}, found_input=False)
        return run.finish(proof)
    n = 30 if a.tier == "quick" else 200
    be = B.Backend(run, "cxx", a.tier, a.seed, n, extra_texts=corpus_texts())
    be.generate()
    if not be.build():
        be.close()
        return run.finish(proof)
    nvals = 4 if a.tier == "quick" else 10
    for i, d in enumerate(be.descs):
        types = d["types"]
        for T in be.types(i):
            decl = types.decls[T]
            chain = types.parent_chain(decl)
            root = chain[-1]["id"]
            tags = B.features_of(chain, types)
            has_kids = any(x.get("parent_id") == T for x in types.decls.values())
            vals = [GV.gen_value(types, T, be.rng)[0] for _ in range(nvals)]
            refs = be.model(i, T, [{"k": "ref", "v": v} for v in vals])
            if not isinstance(refs, list):
                run.hist("model_status", str(refs))
                continue
            seeds = []
            mes = be.model(i, T, [{"k": "cxxenc", "v": v} for v in vals]) if not decl.get("parent_id") else None
            # theorem serializer_writes_reference: hypotheses on this layout, statement evaluated on every value of the run
            ser_class = False
            if isinstance(mes, list):
                hyp0 = be.model(i, T, [{"k": "len", "v": {}}])
                ser_class = bool(isinstance(hyp0, list) and hyp0[0].get("cxxserwf") and hyp0[0].get("refwf"))
                run.hist("theorem_hypotheses", "Cxx.serWfBody&refWfBody:%s" % ser_class)
                if ser_class:
                    ide = be.model(i, T, [{"k": "enc", "v": v} for v in vals])
                    for v, me, rf, ie in zip(vals, mes, refs, ide if isinstance(ide, list) else []):
                        if ie.get("r") == "ok":
                            run.count("theorem_instances")
                            if me.get("r") != "ok" or me.get("hex") != ie.get("hex") or rf.get("hex") != ie.get("hex"):
                                run.violation("corr", "theorem serializer_writes_reference contradicted by evaluation on %s (model bug)" % T,
                                              {"pdl": d["text"], "type": T, "value": v, "model_of_emitted_code": me, "reference": rf,
                                               "corr": "thm:serializer_writes_reference"}, found_input=False)
            for n_v, (v, rf) in enumerate(zip(vals, refs)):
                if rf.get("r") != "ok":
                    continue
                run.case((d["text"], T, W.canon(v)))
                r = be.ask(i, T, "enc", v)
                rep = {"pdl": d["text"], "type": T, "value": v, "cxx": r, "reference": rf}
                run.hist("enc_outcomes", str(r.get("r")))
                if isinstance(mes, list):
                    compare_serializer_with_model(run, d, T, v, r, mes[n_v])
                if r.get("r") == "badvalue":
                    continue
                if r.get("r") != "ok":
                    rep["signature"] = {"class": "serialize-" + str(r.get("r")), "e": r.get("e"), **tags}
                    run.violation("impl", "cxx %s.serialize() of an in-range value -> %s %s" % (T, r.get("r"), r.get("e") or r.get("m", "")), rep)
                    continue
                if r["hex"] != rf["hex"]:
                    rep["signature"] = {"class": "bytes-differ", **tags}
                    run.violation("impl", "cxx %s.serialize() = %s, reference encoding %s" % (T, r["hex"][:60], rf["hex"][:60]), rep)
                    continue
                seeds.append(bytes.fromhex(r["hex"]))
                # size: for root packets and structs
                if not decl.get("parent_id") and r.get("len") is not None and r["len"] != len(r["hex"]) // 2:
                    rep["signature"] = {"class": "size", **tags}
                    run.violation("impl", "cxx %s.size = %s but len(serialize()) = %d" % (T, r["len"], len(r["hex"]) // 2), rep)
                # parse_all(serialize(v)) through the root (types of the round-trippable class only)
                if tags.get("unsized_padded_array"):
                    run.hist("skipped", "roundtrip:unsized-padded-array-out-of-class")
                    continue
                op = "dec"
                back = be.ask(i, T, op, r["hex"])
                if back.get("r") != "ok":
                    rep["parse"] = back
                    rep["signature"] = {"class": "roundtrip-" + str(back.get("r")), "e": back.get("e"), **tags}
                    run.violation("impl", "cxx parse_all(serialize(v)) for %s -> %s %s" % (T, back.get("r"), back.get("e") or ""), rep)
                elif back.get("type") == T and W.canon(back["value"]) != W.canon(v):
                    rep["parse"] = back
                    rep["signature"] = {"class": "roundtrip-value", **tags}
                    run.violation("impl", "cxx parse_all(serialize(v)) for %s has different field values" % T, rep)
                elif back.get("type") != T and not has_kids and all(x.get("constraints") for x in chain[:-1]):
                    rep["parse"] = back
                    rep["signature"] = {"class": "roundtrip-type", "got": back.get("type"), **tags}
                    run.violation("impl", "cxx parse_all(serialize(v)) of a %s returns a %s" % (T, back.get("type")), rep)
                else:
                    run.count("roundtrips_ok")
            # views on arbitrary bytes (child views are created through their parents' views)
            if decl.get("parent_id"):
                # the child builders are defective (KF-C14-child-builder): the views of a child are also driven with the
                # REFERENCE encodings of its values, whatever the builder wrote
                refseeds = []
                for rf in refs:
                    if rf.get("r") == "ok" and bytes.fromhex(rf["hex"]) not in refseeds:
                        refseeds.append(bytes.fromhex(rf["hex"]))
                seeds = refseeds + [x for x in seeds if x not in refseeds]
            strings = [("empty", b"")]
            for k in run.known:
                w = k.get("witness", {})
                if w.get("pdl", "").strip() == d["text"].strip() and w.get("type") == T and w.get("input_hex") is not None:
                    strings.append(("witness", bytes.fromhex(w["input_hex"])))
            for s in seeds[:3]:
                strings.append(("valid", s))
                strings += GV.mutants(be.rng, s, 4 if a.tier == "quick" else 10)
            seen, uniq = set(), []
            for k, s in strings:
                if s not in seen:
                    seen.add(s)
                    uniq.append((k, s))
            is_struct = decl["kind"] == "struct_declaration"
            mo = be.model(i, T, [{"k": ("dec" if is_struct else "decfull"), "hex": s.hex()} for _, s in uniq])
            if not isinstance(mo, list):
                continue
            # the model of the emitted parser (Pdlv.Cxx): struct Parse / view Parse + getters, types without parent
            # (child packets: the chain of views down to the child, Pdlv.Cxx.viewBody; child structs are not modelled)
            mcs = None
            is_child = bool(decl.get("parent_id"))
            if not is_child or not is_struct:
                mcs = be.model(i, T, [{"k": ("cxxdec" if is_struct else "cxxview"), "hex": s.hex()} for _, s in uniq])
                if not isinstance(mcs, list):
                    mcs = None
            # theorems struct_parser_agrees_with_reference / struct_parser_no_undefined_behaviour (structs) and
            # view_agrees_with_reference / view_no_undefined_behaviour (packets): their hypotheses on this layout (decidable),
            # and the statements evaluated on every input of the run
            in_class = False
            no_ub_class = False
            if mcs is not None:
                hyp = be.model(i, T, [{"k": "len", "v": {}}])
                if is_child:
                    # child_view_accepts_what_the_reference_accepts / child_view_is_reference_or_constraint
                    in_class = bool(isinstance(hyp, list) and hyp[0].get("cxxvchain"))
                    no_ub_class = bool(in_class and hyp[0].get("decwf"))
                    run.hist("theorem_hypotheses", "Cxx.vwfChain:%s" % in_class)
                    run.hist("theorem_hypotheses", "Cxx.vwfChain&decWfBody:%s" % no_ub_class)
                else:
                    key = "cxxwf" if is_struct else "cxxvwf"
                    in_class = bool(isinstance(hyp, list) and hyp[0].get(key) and hyp[0].get("decwf"))
                    run.hist("theorem_hypotheses", "%s&decWfBody:%s" % ("Cxx.wfBody" if is_struct else "Cxx.vwfBody", in_class))
            for n_s, ((kind, s), m) in enumerate(zip(uniq, mo)):
                r = be.ask(i, T, "dec", s.hex())
                if mcs is not None:
                    compare_with_model(run, d, T, s, kind, r, mcs[n_s], is_struct, tags)
                if in_class:
                    mc = mcs[n_s]
                    run.count("theorem_instances")
                    if is_child:
                        # everything the reference accepts is a valid chain of views with the same values; a valid chain is
                        # that, or an input the reference rejects with ConstraintValue
                        if m.get("r") == "ok":
                            same = mc.get("r") == "ok" and W.canon(mc.get("value")) == W.canon(m.get("value"))
                        elif mc.get("r") == "ok":
                            same = m.get("r") == "err" and m.get("e") == "ConstraintValueError"
                        else:
                            same = True
                        if no_ub_class and mc.get("r") == "panic":
                            same = False        # child_view_no_undefined_behaviour
                    else:
                        same = (mc.get("r") == "ok") == (m.get("r") == "ok") and mc.get("r") != "panic" and \
                            (mc.get("r") != "ok" or (W.canon(mc.get("value")) == W.canon(m.get("value")) and mc.get("rest") == m.get("rest")))
                    if not same:
                        thm = "struct_parser_agrees_with_reference" if is_struct else ("child_view_is_reference_or_constraint" if is_child else "view_agrees_with_reference")
                        run.violation("corr", "theorem %s contradicted by evaluation on %s %s (model bug)" % (thm, T, s.hex()[:40]),
                                      {"pdl": d["text"], "type": T, "input_hex": s.hex(), "model_of_emitted_code": mc, "reference": m,
                                       "corr": "thm:" + thm}, found_input=False)
                run.case((d["text"], T, s))
                run.hist("dec_outcomes", str(r.get("r")) + (":" + str(r.get("e")) if r.get("r") in ("err", "exception") else ""))
                rep = {"pdl": d["text"], "type": T, "input_hex": s.hex(), "kind": kind, "cxx": r, "reference": m}
                if r.get("r") in ("exception", "timeout", "abort", "ub"):
                    rep["signature"] = {"class": "parse-" + r["r"], "e": r.get("e") or r.get("kind"), **tags,
                                        "reference": m.get("r")}
                    run.violation("impl", "cxx %s.parse_all(%s) raised %s (not a DecodeError)" % (T, s.hex()[:40], r.get("e") or r["r"]), rep)
                    continue
                if r.get("r") == "err":
                    if m.get("r") == "ok" and not tags.get("unsized_struct_not_last"):
                        rep["signature"] = {"class": "rejects-valid", "e": r.get("e"), **tags}
                        run.violation("impl", "cxx %s.parse_all(%s) raises %s but the reference accepts it" % (T, s.hex()[:40], r.get("e")), rep)
                    continue
                if r.get("r") != "ok":
                    continue
                if m.get("r") != "ok" and tags.get("unsized_padded_array"):
                    run.hist("skipped", "unsized-padded-array-out-of-class")
                    continue
                if tags.get("unsized_struct_not_last"):
                    # the model's reference decoder reads an undelimited struct greedily; what these layouts mean is
                    # fixed by the reference ENCODING only (checked above: bytes, size, parse_all(serialize(v)) = v)
                    run.hist("skipped", "unsized-struct-not-last:reference-decoder-not-applicable")
                    continue
                if m.get("r") != "ok":
                    rep["signature"] = {"class": "accepts-invalid", "reference_error": m.get("e"), **tags}
                    run.violation("impl", "cxx %s.parse_all(%s) accepts what the reference rejects (%s)" % (T, s.hex()[:40], m.get("e")), rep)
                    continue
                if r.get("type") == T:
                    if is_struct and r.get("rest") != m.get("rest"):
                        rep["signature"] = {"class": "struct-rest", **tags}
                        run.violation("impl", "cxx %s::Parse(%s) leaves %s bytes, the reference %s" % (T, s.hex()[:40], r.get("rest"), m.get("rest")), rep)
                    elif W.canon(r["value"]) != W.canon(m["value"]):
                        rep["signature"] = {"class": "value-mismatch", **tags}
                        run.violation("impl", "cxx %s.parse_all(%s): field values differ from the reference" % (T, s.hex()[:40]), rep)
                else:
                    down = be.model_down(i, T, r["type"], m["value"])
                    if not down or down.get("r") != "ok":
                        rep["model_down"] = down
                        rep["signature"] = {"class": "specialized-to-unparsable-child", **tags}
                        run.violation("impl", "cxx %s.parse_all(%s) returned a %s although that child does not match / parse"
                                      % (T, s.hex()[:40], r["type"]), rep)
                    elif W.canon(down["value"]) != W.canon(r["value"]):
                        rep["model_down"] = down
                        rep["signature"] = {"class": "value-mismatch-child", **tags}
                        run.violation("impl", "cxx %s.parse_all(%s) -> %s: field values differ from the reference" % (T, s.hex()[:40], r["type"]), rep)
                    else:
                        run.count("specialized_ok")
            run.sample({"type": T, "strings": len(uniq)}, limit=4)
    be.close()
    model_pass(run, a)
    return run.finish(proof, extra_cov={
        "rule": "cxx-class descriptions (no element-size/custom fields), both endiannesses; in-range values through "
                "serialize / size / parse_all; reference encodings, mutants, prefixes, random strings through parse_all of "
                "root types; a case = (description, type, value or byte string)"})


if __name__ == "__main__":
    sys.exit(main(sys.argv[1:]))
