"""C07 — all back ends agree on the wire format.

Proof:  Pdlv/Thm/C07.lean — `interop`: back ends that each agree with the reference on a value and a byte
        string agree with each other, and what one writes the other reads back.
Tie:    descriptions of the constructs common to the four back ends are compiled by all of them (Rust, Python,
        C++, Java; the pdlc is built from /repo); their serializers are compared PAIRWISE on the same values,
        their parsers pairwise on the same byte strings (acceptance and field values), and each serializer's
        output is read by every other parser — a disagreement is reported with both programs' outputs even when
        one of them agrees with the reference.
"""
import itertools
import json
import os
import random
import sys

sys.path.insert(0, os.path.dirname(os.path.dirname(os.path.abspath(__file__))))
from vlib import common as C
from vlib import gen_descr as GD
from vlib import gen_value as GV
from vlib import rustgen
from vlib import wirerun as W
from checks import backend_common as B


def common_opts():
    o = B.opts_for("java")
    # intersection with the C++ class (see KF-C14-*): no enum/struct arrays, no inheritance
    o.enum_arrays = False
    o.struct_arrays = False
    o.inheritance = False
    o.one_closed_enum_per_decl = True
    o.enum_first_value = True
    o.array_modifier = False   # the Rust back end ignores array size modifiers (KF-C03-array-size-modifier): not a common construct
    return o


def run_class(run, a, rng, opts, names, tag, n, corpus_dirs):
    """one construct class compiled by the back ends `names` (always with rust and python) and compared pairwise"""
    texts = [t for t, _ in GD.stratified(rng, opts)]
    if "java" not in names:
        texts += GD.wide(random.Random(a.seed * 4099 + 5), 2 if a.tier == "quick" else 12)
    # shapes every back end must agree on that random generation rarely produces (corpus/common)
    for cdir in corpus_dirs:
        if os.path.isdir(cdir):
            for f in sorted(os.listdir(cdir)):
                if f.endswith(".pdl") and not f.startswith("KF-"):
                    texts.append(open(os.path.join(cdir, f)).read())
    # the witnesses of the recorded findings are replayed on every run, in the class without Java (their descriptions are
    # not written for the Java class: an 8-bit size field with 128 elements and more meets KF-C19-signed-size)
    if "java" not in names:
        for k in run.known:
            w = k.get("witness", {})
            if w.get("pdl") and w["pdl"] not in texts:
                texts.append(w["pdl"])
    while len(texts) < n:
        texts.append(GD.generate(rng, opts)[0])
    # one Backend per back end over the SAME texts; keep only descriptions every back end builds
    bes = {}
    for name in [x for x in names if x != "rust"]:
        be = B.Backend(run, name, a.tier, a.seed, 0, tag=tag + "-" + name, extra_texts=texts, opts=opts)
        be.generate(stratify=False)
        bes[name] = be
    rust = W.Corpus(run, a.tier, a.seed, 0, opts, tag=tag + "-rust", extra_texts=texts)
    rust.interactions = False
    rust.stratify = False
    rust.generate()
    built = {}
    for name, be in bes.items():
        if not be.build():
            run.violation("corr", "%s harness for the class %s does not build" % (name, tag), {"stage": "build"}, found_input=False)
            for b2 in bes.values():
                b2.close()
            rust.close()
            return
        built[name] = {d["text"]: i for i, d in enumerate(be.descs)}
    if not rust.build():
        return
    built["rust"] = {d["text"]: i for i, d in enumerate(rust.descs)}
    common = [t for t in texts if all(t in built[k] for k in built)]
    run.cov["descriptions"] = run.cov.get("descriptions", 0) + len(common)
    run.cov["descriptions_dropped"] = run.cov.get("descriptions_dropped", 0) + len(texts) - len(common)
    run.hist("classes", "%s: %d descriptions" % (tag, len(common)))
    mdl = bes["python"]

    def ask(name, text, T, op, arg):
        if name == "rust":
            r = rust.harness.ask(built["rust"][text], T, op, arg)
            if op == "dec":
                return r
            return r
        return bes[name].ask(built[name][text], T, op, arg)

    nvals = 4 if a.tier == "quick" else 10
    for text in common:
        ip = built["python"][text]
        d = bes["python"].descs[ip]
        types = d["types"]
        for T in bes["python"].types(ip):
            decl = types.decls[T]
            is_struct = decl["kind"] == "struct_declaration"
            tags = B.features_of(types.parent_chain(decl), types)
            vals = [GV.gen_value(types, T, rng)[0] for _ in range(nvals)]
            refs = mdl.model(ip, T, [{"k": "ref", "v": v} for v in vals])
            if not isinstance(refs, list):
                continue
            seeds = []
            # theorem four_models_interoperate (Thm/C07_models): its hypothesis on this layout (Interop.commonWf, decidable);
            # the statement — every serializer writes the reference encoding, every parser reads it back as the value — is
            # what the comparisons below evaluate on the emitted code of the four back ends
            hyp = mdl.model(ip, T, [{"k": "len", "v": {}}]) if not decl.get("parent_id") else None
            common_class = bool(isinstance(hyp, list) and hyp[0].get("commonwf"))
            if not decl.get("parent_id"):
                run.hist("theorem_hypotheses", "Interop.commonWf:%s" % common_class)
            for v, rf in zip(vals, refs):
                if rf.get("r") != "ok":
                    continue
                run.case((text, T, W.canon(v)))
                enc = {nm: ask(nm, text, T, "enc", v) for nm in names}
                hexes = {nm: e.get("hex") for nm, e in enc.items() if e.get("r") == "ok"}
                if common_class:
                    run.count("theorem_instances")
                    for nm, e in enc.items():
                        if e.get("r") == "ok" and e.get("hex") != rf.get("hex"):
                            run.violation("impl", "%s (in the common class of four_models_interoperate): %s serializes %s, the reference encoding is %s"
                                          % (T, nm, e["hex"][:50], rf["hex"][:50]),
                                          {"pdl": text, "type": T, "value": v, nm: e, "reference": rf,
                                           "signature": {"class": "common-class-serializer", "backend": nm}})
                for x, y in itertools.combinations(names, 2):
                    ex, ey = enc[x], enc[y]
                    if ex.get("r") == "ok" and ey.get("r") == "ok" and ex["hex"] != ey["hex"]:
                        run.violation("impl", "%s: %s serializes %s, %s serializes %s (reference %s)"
                                      % (T, x, ex["hex"][:50], y, ey["hex"][:50], rf["hex"][:50]),
                                      {"pdl": text, "type": T, "value": v, x: ex, y: ey, "reference": rf,
                                       "signature": {"class": "serializers-differ", "a": x, "b": y}})
                    elif (ex.get("r") == "ok") != (ey.get("r") == "ok") and "badvalue" not in (ex.get("r"), ey.get("r")):
                        run.violation("impl", "%s: %s %s the value, %s %s it" % (T, x, "serializes" if ex.get("r") == "ok" else "refuses",
                                                                               y, "serializes" if ey.get("r") == "ok" else "refuses"),
                                      {"pdl": text, "type": T, "value": v, x: ex, y: ey, "reference": rf,
                                       "signature": {"class": "serializer-acceptance", "a": x, "b": y}})
                # cross reading: what A wrote, B reads back (packets; structs have prefix semantics in C++)
                for wname, hx in hexes.items():
                    for rname in names:
                        if rname == wname or (is_struct and rname == "cxx") or tags.get("unsized_padded_array"):
                            continue
                        r = ask(rname, text, T, "dec" if rname != "rust" else "decfull", hx)
                        # (an unsized array in a padded slot absorbs the padding: such a type is outside the round-trippable
                        #  class, every reader returns the padded array; acceptance is still compared)
                        if r.get("r") != "ok" or (r.get("type", T) == T and W.canon(r.get("value")) != W.canon(v)):
                            run.violation("impl", "%s: a value written by %s is %s by %s"
                                          % (T, wname, "rejected (%s)" % (r.get("e") or r.get("r")) if r.get("r") != "ok" else "read back differently", rname),
                                          {"pdl": text, "type": T, "value": v, "written_by": wname, "hex": hx, "read_by": rname, "result": r,
                                           "signature": {"class": "cross-read", "writer": wname, "reader": rname}})
                        else:
                            run.count("cross_reads_ok")
                if rf.get("r") == "ok":
                    seeds.append(bytes.fromhex(rf["hex"]))
            if is_struct:
                continue
            if tags.get("unsized_padded_array"):
                # outside the constructs the back ends share: the C++ views do not bound an array by its padding
                # (KF-C14-padded-array-overrun), an unsized array absorbs it in every back end
                run.hist("skipped", "parsers:unsized-padded-array")
                continue
            strings = [("empty", b"")]
            for k in run.known:
                w = k.get("witness", {})
                if w.get("pdl", "").strip() == text.strip() and w.get("type") == T and w.get("input_hex") is not None:
                    strings.append(("witness", bytes.fromhex(w["input_hex"])))
            for s in seeds[:2]:
                strings += [("valid", s)] + GV.mutants(rng, s, 3)
            seen = set()
            for kind, s in strings:
                if s in seen:
                    continue
                seen.add(s)
                run.case((text, T, s))
                res = {}
                for nm in names:
                    r = ask(nm, text, T, "dec" if nm != "rust" else "decfull", s.hex())
                    res[nm] = r
                acc = {nm: r.get("r") == "ok" for nm, r in res.items()}
                yes = [nm for nm in names if acc[nm]]
                odd = yes[0] if len(yes) == 1 else ([nm for nm in names if not acc[nm]][0] if len(yes) == len(names) - 1 else None)
                bad = [nm for nm, r in res.items() if r.get("r") not in ("ok", "err")]
                for x, y in itertools.combinations(names, 2):
                    if x in bad or y in bad:
                        continue   # crashes / exceptions are C01 / C13 / C14 / C19's business
                    if acc[x] != acc[y]:
                        sig = {"class": "parser-acceptance", "a": x, "b": y, "odd_one": odd, **tags}
                        if "cxx" in (x, y) and not types.decls[T].get("parent_id"):
                            # does the Lean model of the emitted C++ view parser (Pdlv.Cxx) predict what the C++ code did?
                            mc = mdl.model(ip, T, [{"k": "cxxview", "hex": s.hex()}])
                            if isinstance(mc, list) and mc[0].get("r") in ("ok", "err"):
                                sig["cxx_as_modelled"] = (mc[0].get("r") == "ok") == acc["cxx"]
                        run.violation("impl", "%s on %s: %s %s, %s %s" % (T, s.hex()[:40], x, "accepts" if acc[x] else "rejects",
                                                                         y, "accepts" if acc[y] else "rejects"),
                                      {"pdl": text, "type": T, "input_hex": s.hex(), "kind": kind, x: res[x], y: res[y],
                                       "signature": sig})
                    elif acc[x] and res[x].get("type", T) == res[y].get("type", T) and W.canon(res[x]["value"]) != W.canon(res[y]["value"]):
                        run.violation("impl", "%s on %s: %s and %s parse different field values" % (T, s.hex()[:40], x, y),
                                      {"pdl": text, "type": T, "input_hex": s.hex(), "kind": kind, x: res[x], y: res[y],
                                       "signature": {"class": "parser-values", "a": x, "b": y}})
            run.sample({"type": T, "strings": len(seen)}, limit=4)
    for be in bes.values():
        be.close()
    rust.close()


def triple_opts():
    o = B.opts_for("cxx")
    o.enum_arrays = False
    o.struct_arrays = False
    o.inheritance = False
    o.one_closed_enum_per_decl = True
    o.enum_first_value = True
    return o


def main(argv):
    a = C.std_args(argv)
    run = C.Run("C07", a.tier, a.seed)
    proof = C.proof_audit("C07")
    ok, out = C.build_driver()
    if not ok:
        run.violation("corr", "pdl-driver does not build: " + out[-500:], {"stage": "build"}, found_input=False)
        return run.finish(proof)
    rng = random.Random(a.seed + 7)
    # (1) the constructs common to all four back ends; (2) the constructs common to Rust, Python and C++ (wide
    # bit-field groups, padding, 24 / 40 / 48 / 56-bit fields ... that the Java class has to leave out)
    run_class(run, a, rng, common_opts(), ["rust", "python", "cxx", "java"], "c07", 16 if a.tier == "quick" else 100,
              [os.path.join(C.VERIF, "corpus", "common")])
    run_class(run, a, rng, triple_opts(), ["rust", "python", "cxx"], "c07t", 10 if a.tier == "quick" else 60,
              [os.path.join(C.VERIF, "corpus", "common")])
    return run.finish(proof, extra_cov={
        "rule": "descriptions within the constructs common to Rust, Python, C++ and Java (both endiannesses), compiled by all four; "
                "values through every serializer (pairwise byte comparison, cross reading by every other parser); reference encodings "
                "and their mutants through every parser (pairwise acceptance and value comparison)"})


if __name__ == "__main__":
    sys.exit(main(sys.argv[1:]))
