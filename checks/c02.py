"""C02 — Rust encode then decode is the identity on every well-formed value.

Proof:  Pdlv/Thm/C02.lean (byte-level and bit-field round trips; chunk round trip for any field list)
Tie:    real encode_to_vec followed by real decode_full, compared with the generated PartialEq, on
        in-range values of every type of descriptions in the round-trippable class; the same bytes
        decoded as every ancestor and specialized back down.
"""
import os
import sys

sys.path.insert(0, os.path.dirname(os.path.dirname(os.path.abspath(__file__))))
from checks.wire_common import WireCheck
from vlib import wirerun as W


def out_of_class(decl, idx):
    """Reasons that put a type outside the round-trippable class of the property."""
    why = []
    fs = decl["fields"]
    for k, f in enumerate(fs):
        if f["kind"] == "array_field" and f["size"] is None:
            sized = any(g["kind"] in ("size_field", "count_field") and g["field_id"] == f["id"] for g in fs)
            padded = k + 1 < len(fs) and fs[k + 1]["kind"] == "padding_field"
            if not sized and padded:
                why.append("unsized array with padding")
            if not sized and k != len(fs) - 1 and not padded:
                why.append("unsized array not last")
    return why


def shadow_site(decl, idx, sizes):
    """H6: padded array with a size field whose elements have unknown width."""
    fs = decl["fields"]
    for k, f in enumerate(fs):
        if f["kind"] == "array_field" and k + 1 < len(fs) and fs[k + 1]["kind"] == "padding_field":
            has_size = any(g["kind"] == "size_field" and g["field_id"] == f["id"] for g in fs)
            has_esize = any(g["kind"] == "elementsize_field" and g["field_id"] == f["id"] for g in fs)
            if has_size and not has_esize and f["width"] is None and f["type_id"] in sizes and sizes[f["type_id"]] != "static":
                return True
    return False


def main(argv):
    wc = WireCheck("C02", argv)
    run = wc.run
    if not wc.setup():
        return wc.finish()
    co = wc.co
    for i, d in enumerate(co.descs):
        idx = d["types"].decls
        sch = co.drv.ask({"op": "schema", "text": d["text"]})
        sizes = {}
        if sch and sch.get("status") == "ok":
            for x in sch["schema"]:
                sizes[x["id"]] = "static" if isinstance(x["total_size"], dict) else x["total_size"]
        for T in co.packet_types(i):
            chain = d["types"].parent_chain(idx[T])
            reasons = [w for x in chain for w in out_of_class(x, idx)]
            # nested struct types outside the class
            if reasons:
                run.hist("out_of_class", reasons[0])
                continue
            vals = wc.values(i, T, wc.sz["values"] + 2)
            # only values the reference can encode are "well-formed" in the property's sense
            refs = co.model(i, T, [{"k": "ref", "v": v} for v, _ in vals])
            if not isinstance(refs, list):
                run.hist("model_status", str(refs))
                continue
            run.hist("values", "no-reference-encoding", sum(1 for x in refs if x.get("r") != "ok"))
            vals = [x for x, rf in zip(vals, refs) if rf.get("r") == "ok"]
            mo = co.model(i, T, [{"k": "enc", "v": v} for v, _ in vals])
            if not isinstance(mo, list):
                run.hist("model_status", str(mo))
                continue
            decs = co.model(i, T, [{"k": "decfull", "hex": m["hex"]} if m.get("r") == "ok" else {"k": "decfull", "hex": ""} for m in mo])
            # theorems roundtrip / roundtrip_rust: hypothesis on this layout, and the statement evaluated on this
            # run's values (model side): reference-mode encoder ok bs  =>  decode_full (either mode) bs = canonBody v
            hyp = co.model(i, T, [{"k": "len", "v": {}}])
            rtwf = bool(isinstance(hyp, list) and hyp[0].get("rtwf"))
            nomod = bool(isinstance(hyp, list) and hyp[0].get("nomod"))
            derived = bool(isinstance(hyp, list) and hyp[0].get("derived"))
            run.hist("theorem_hypotheses", "rtWfFull:%s noModBody:%s %s" % (rtwf, nomod, "inheriting" if derived else "root"))
            if rtwf:
                idl = co.mdl.ask({"op": "wire", "type": T, "mode": "ideal", "cases": [{"k": "enc", "v": v} for v, _ in vals]}, timeout=300)
                can = co.model(i, T, [{"k": "canon", "v": v} for v, _ in vals])
                if idl and idl.get("status") == "ok" and isinstance(can, list):
                    for (v, _), mi, mc, md in zip(vals, idl["out"], can, decs):
                        if mi.get("r") != "ok" or not mc.get("nocons", True):
                            continue
                        run.count("theorem_instances")
                        if derived:
                            run.count("theorem_instances_inheriting")
                        if not (md.get("r") == "ok" and W.canon(md.get("value")) == W.canon(mc.get("value"))) and nomod:
                            run.violation("corr", "theorem roundtrip_any / roundtrip_rust contradicted by evaluation on %s (model bug)" % T,
                                          {"pdl": d["text"], "type": T, "value": v, "corr": "thm:roundtrip_rust"}, found_input=False)
                        if W.canon(mc.get("value")) != W.canon(v):
                            run.hist("canon", "value-not-in-normal-form")
            for (v, _), m, md in zip(vals, mo, decs):
                r = wc.impl(i, T, "rt", v)
                run.case((d["text"], T, W.canon(v)))
                run.hist("outcomes", str(r.get("r")) + (":eq" if r.get("eq") else ""))
                rep = {"pdl": d["text"], "type": T, "op": "rt", "value": v, "impl": r, "model_encode": m, "model_decode": md}
                if r.get("r") == "badvalue":
                    run.violation("corr", "generated value rejected by serde for %s: %s" % (T, r.get("m")), rep, found_input=False)
                    continue
                if m.get("r") == "ok":
                    pred = ("ok" if md.get("r") == "ok" and W.canon(md.get("value")) == W.canon(v) else
                            "panic:" + md.get("h", "") if md.get("r") == "panic" else
                            "err:" + md.get("e", "") if md.get("r") == "err" else "mismatch")
                else:
                    pred = "encode-" + str(m.get("r"))
                if pred == "mismatch" and any(shadow_site(x, idx, sizes) for x in chain):
                    pred = "mismatch:padded-array-shadowed-head"
                sig = {"class": "roundtrip", "model_predicts": pred}
                if r.get("r") not in ("ok", "err"):
                    rep["signature"] = dict(sig, impl=r.get("r"))
                    run.violation("impl", "%s: encode;decode -> %s %s (model: %s)" % (T, r.get("r"), str(r.get("m"))[:120], pred), rep)
                    continue
                if r["r"] == "err":
                    rep["signature"] = sig
                    run.violation("impl", "%s: encode failed (%s) on an in-range value" % (T, r.get("e")), rep)
                    continue
                if not r.get("eq"):
                    rep["signature"] = sig
                    run.violation("impl", "%s: decode_full(encode(v)) %s (model: %s)"
                                  % (T, ("fails with " + r["dec_err"]) if "dec_err" in r else "differs from v", pred), rep)
                    continue
                if pred != "ok":
                    rep["corr"] = "corr:C02/roundtrip"
                    run.violation("corr", "model predicts %s but the emitted code round-trips %s" % (pred, T), rep, found_input=False)
                # through every ancestor: decode as A, specialize down to T
                for ai, anc in enumerate(chain[1:], 1):
                    A = anc["id"]
                    # a child without constraints of its own cannot be selected from its parent's
                    # field values (specialize() has nothing to match on): not a determinable step
                    if any(not x.get("constraints") for x in chain[:ai]):
                        run.hist("ancestor_paths", "skipped:unconstrained-child")
                        continue
                    run.hist("ancestor_paths", "checked")
                    ra = wc.impl(i, A, "decfull", r["hex"])
                    cur_t, cur_v, ok, steps = A, ra.get("value"), ra.get("r") == "ok", 0
                    path = [x["id"] for x in chain]
                    while ok and cur_t != T and steps < 8:
                        steps += 1
                        sp = wc.impl(i, cur_t, "spec", cur_v)
                        if sp.get("r") != "ok" or not isinstance(sp.get("value"), dict):
                            ok = False
                            ra = sp
                            break
                        (cur_t, cur_v), = sp["value"].items()
                    if not ok or cur_t != T or W.canon(cur_v) != W.canon(v):
                        run.violation("impl", "%s: bytes of a %s value decoded as ancestor %s and specialized down give %s"
                                      % (T, T, A, "failure %s" % ra if not ok else "a different value / type %s" % cur_t),
                                      dict(rep, ancestor=A, signature={"class": "roundtrip-via-ancestor"}))
                    else:
                        run.count("ancestor_roundtrips")
            run.sample({"type": T, "values": len(vals)}, limit=4)
    return wc.finish(extra_cov={
        "rule": "in-range values (0, 1, 2^k, max-1, max biased; empty/one/many arrays; every optional pattern) of every "
                "packet/struct type in the round-trippable class; roundtrip through the real encoder and decoder and through "
                "every ancestor + specialize chain"})


if __name__ == "__main__":
    sys.exit(main(sys.argv[1:]))
