"""C06 — inheritance is coherent: constraints, specialization, parent/child conversion.

Proof:  Pdlv/Thm/C06.lean (select_sound, select_none_iff, select_unique, decPartial_constraint_*)
Tie:    (1) the `specialize()` match table is extracted from the Rust text emitted by the pdlc built from
        /repo and compared structurally with the model's table (translation validation);
        (2) specialize / Child::try_from(&parent) / Parent::try_from(&child) of the emitted code are run on
        parents decoded from arbitrary bytes and on generated child values and compared with the model;
        (3) the property's own oracle (constraints of X or of a descendant of X hold) is evaluated from the
        source description.
"""
import json
import random
import os
import re
import sys

sys.path.insert(0, os.path.dirname(os.path.dirname(os.path.abspath(__file__))))
from checks.wire_common import WireCheck
from vlib import gen_descr as GD
from vlib import gen_enum as GE
from vlib import gen_value as GV
from vlib import wirerun as W


def parse_int(s):
    s = s.replace("_", "")
    for suf in ("usize", "u64", "u32", "u16", "u8"):
        if s.endswith(suf):
            s = s[:-len(suf)]
    return int(s, 16) if s.lower().startswith("0x") else int(s)


def extract_table(rust, name, enums):
    """(scrutinee keys, [(child, [pattern tuples])]) of `<name>::specialize` in prettyplease output"""
    start = rust.find("pub fn specialize(&self) -> Result<%sChild, DecodeError> {" % name)
    if start < 0:
        return None
    end = rust.find("_ => %sChild::None" % name, start)
    if end < 0:
        return None
    text = re.sub(r"\s+", " ", rust[start:end])
    mi = text.find("match ")
    if mi < 0:
        return None
    j = text.index("{", mi)
    scrut = text[mi + 6:j].strip()
    while scrut.startswith("(") and scrut.endswith(")"):
        scrut = scrut[1:-1].strip()
    keys = [k.strip().replace("self.", "") for k in scrut.split(",") if k.strip()]
    body = text[j + 1:]
    arms = []
    for am in re.finditer(r"(?P<pats>[^=;{}]*?)=>\s*\{?\s*%sChild::(?P<child>\w+)\(self\.try_into\(\)\?\)\s*\}?,?" % re.escape(name), body):
        pats = am.group("pats").strip().lstrip(",").strip()
        tuples = []
        for p in pats.split("|"):
            p = p.strip()
            p = p[1:-1] if p.startswith("(") and p.endswith(")") else p
            elems = [e.strip() for e in p.split(",") if e.strip()]
            tup = []
            for e in elems:
                if e == "_":
                    tup.append(None)
                elif "::" in e:
                    en, tag = e.split("::")
                    v = enums.get(en.strip(), {}).get(tag.strip())
                    if v is None:
                        return "unknown tag " + e
                    tup.append(v)
                else:
                    tup.append(parse_int(e))
            tuples.append(tup)
        arms.append((am.group("child"), tuples))
    return keys, arms


def oracle_children(types, P, pv):
    """Children X of P such that the constraints of X or of a descendant of X hold of pv
    (constraints on fields pv carries), with the payload length where known statically."""
    decls = types.decls
    out = []

    def holds(d, acc):
        acc = dict(acc)
        for c in d.get("constraints", []):
            acc[c["id"]] = c
        return acc

    def subtree_matches(d, acc):
        """True when the accumulated, non-empty constraint set of d or of a descendant holds of pv"""
        acc = holds(d, acc)
        ok = bool(acc)
        for k, c in acc.items():
            if k in pv:
                want = c["value"]
                if want is None:
                    want = tag_value(types, P, k, c["tag_id"])
                if pv[k] != want:
                    ok = False
        if ok:
            return True
        return any(subtree_matches(k2, acc) for k2 in decls.values() if k2.get("parent_id") == d["id"])

    for x in decls.values():
        if x.get("parent_id") == P and subtree_matches(x, {}):
            out.append(x["id"])
    return out


def own_static_octets(types, d):
    """Octets of the own fields of declaration d when every one of them has a simple static size; None when the
    declaration has a payload / body or a field whose size depends on the value ("any length"); "?" when a field is of a
    kind this oracle does not size (padding, optional fields, custom fields): no verdict."""
    bits = 0
    for f in d["fields"]:
        k = f["kind"]
        if f.get("cond") or k in ("padding_field", "flag_field", "checksum_field", "group_field"):
            return "?"
        if k in ("payload_field", "body_field"):
            return None
        if k in ("scalar_field", "reserved_field", "size_field", "count_field", "elementsize_field"):
            bits += f["width"]
        elif k == "fixed_field":
            if f.get("width") is not None:
                bits += f["width"]
            else:
                bits += types.decls[f["enum_id"]]["width"]
        elif k == "typedef_field":
            t = types.decls.get(f["type_id"])
            if t is None:
                return "?"
            if t["kind"] == "enum_declaration":
                bits += t["width"]
            elif t["kind"] == "struct_declaration" and not t.get("parent_id"):
                n = own_static_octets(types, t)
                if n is None or n == "?":
                    return n
                bits += 8 * n
            else:
                return "?"
        elif k == "array_field":
            if f.get("size") is None:
                return None
            if f.get("width") is not None:
                bits += f["size"] * f["width"]
            else:
                t = types.decls.get(f["type_id"])
                if t is None:
                    return "?"
                if t["kind"] == "enum_declaration":
                    bits += f["size"] * t["width"]
                elif t["kind"] == "struct_declaration" and not t.get("parent_id"):
                    n = own_static_octets(types, t)
                    if n is None or n == "?":
                        return n
                    bits += 8 * n * f["size"]
                else:
                    return "?"
        else:
            return "?"
    if bits % 8:
        return "?"
    return bits // 8


def oracle_children_sized(types, P, pv):
    """As oracle_children, with the payload length: a node N below child X counts only when the octets of the own fields
    of X .. N (all static, no payload in N) equal the length of pv's payload; a node with a payload or a value-dependent
    size counts for every length.  Returns None when some node cannot be sized by this oracle (no verdict)."""
    decls = types.decls
    plen = len(pv.get("payload") or [])
    out = []
    unsure = [False]

    def walk(d, acc, octets):
        acc = dict(acc)
        for c in d.get("constraints", []):
            acc[c["id"]] = c
        own = own_static_octets(types, d)
        if own == "?":
            unsure[0] = True
            return False
        ok = bool(acc)
        for k, c in acc.items():
            if k in pv:
                want = c["value"]
                if want is None:
                    want = tag_value(types, P, k, c["tag_id"])
                if pv[k] != want:
                    ok = False
        has_payload = any(f["kind"] in ("payload_field", "body_field") for f in d["fields"])
        if own is None and not has_payload:
            total = None            # value-dependent size: any length
        elif has_payload:
            # the static fields around the payload are a lower bound only; deeper nodes are sized from the payload
            total = None
        else:
            total = None if octets is None else octets + own
        if ok and (total is None or total == plen):
            return True
        if not has_payload:
            return False
        # children of d are parsed from d's payload: the octets of d's own fields around it are taken first
        sub = own_static_octets(types, dict(d, fields=[f for f in d["fields"] if f["kind"] not in ("payload_field", "body_field")]))
        if sub == "?":
            unsure[0] = True
            return False
        nxt = None if (octets is None or sub is None) else octets + sub
        return any(walk(k2, acc, nxt) for k2 in decls.values() if k2.get("parent_id") == d["id"])

    for x in decls.values():
        if x.get("parent_id") == P and walk(x, {}, 0):
            out.append(x["id"])
    return None if unsure[0] else out


def tag_value(types, P, field, tag):
    for d in types.parent_chain(types.decls[P]):
        for f in d["fields"]:
            if f.get("id") == field and f["kind"] == "typedef_field":
                e = types.decls[f["type_id"]]
                for t in e["tags"]:
                    if t.get("id") == tag and "value" in t:
                        return t["value"]
                    for n in t.get("tags", []) or []:
                        if n["id"] == tag:
                            return n["value"]
    return None


# inheritance shapes exercised on every run (stratified, independent of the random trees)
SHAPES = [
    # an unconstrained child whose own children constrain DIFFERENT fields of the root
    """little_endian_packets
enum Kind : 8 { KA = 1, KB = 2, KC = 3 }
packet Root { a: 8, b: 8, c: Kind, _size_(_payload_): 8, _payload_ }
packet Alias : Root { _payload_ }
packet G1 : Alias (b = 1) { x: 8 }
packet G2 : Alias (c = KB) { y: 16 }
packet G3 : Alias (b = 7) { z: 8[] }
""",
    # children distinguished only by their constant size, next to constrained ones
    """big_endian_packets
packet Root { t: 4, u: 4, _payload_ }
packet S1 : Root { x: 8 }
packet S2 : Root { x: 16 }
packet S3 : Root { x: 8, y: 16 }
packet C1 : Root (t = 3) { v: 8[] }
""",
    # constraints added at several levels, fields after the payload, grand-grand-children
    """little_endian_packets
enum E : 4 { P = 0, Q = 1, R = 2 }
packet L0 { a: 4, e: E, b: 8, _size_(_payload_): 16, _payload_, crc: 16 }
packet L1 : L0 (a = 1) { c: 8, _payload_ }
packet L1b : L0 (a = 2) { c: 16 }
packet L2 : L1 (e = Q) { d: 8, _payload_ }
packet L2b : L1 (e = R) { d: 24 }
packet L3 : L2 (b = 9) { f: 8 }
packet L3b : L2 (b = 10) { f: 8, g: 8 }
""",
]


def alias_sibling_trees(rng, n):
    """A grandchild below an unconstrained alias child and a direct child of the root that carry the SAME constraint
    values and differ only in their constant size: the root's specialize() has to match on the payload length across
    two levels (added after a seeded change that sized such an arm by the alias instead of the grandchild)."""
    out = []
    for i in range(n):
        alias = rng.choice(["Aa%d", "Mm%d", "Zz%d"]) % i
        pre = rng.choice(["Bb", "Nn", "Yy"])
        sized = rng.random() < 0.4
        decls = ["packet Rq%d {\n  kind: 8,\n  g: 8,\n  %s_payload_\n}\n" % (i, "_size_(_payload_): 8,\n  " if sized else ""),
                 "packet %s : Rq%d {\n  _payload_\n}\n" % (alias, i)]
        vals = rng.sample(range(1, 9), rng.choice([2, 3]))
        for j, v in enumerate(vals):
            s1, s2 = rng.sample([1, 2, 3, 4], 2)
            which = rng.choice(["both", "both", "grand", "direct"])
            if which in ("both", "grand"):
                decls.append("packet %sG%d : %s (kind = %d) {\n  x: %d\n}\n" % (alias, j, alias, v, 8 * s1))
            if which in ("both", "direct"):
                decls.append("packet %s%dD%d : Rq%d (kind = %d) {\n  y: %d\n}\n" % (pre, i, j, i, v, 8 * s2))
        out.append(rng.choice(["little", "big"]) + "_endian_packets\n\n" + "\n".join(decls))
    return out


def main(argv):
    wc = WireCheck("C06", argv)
    run = wc.run
    # more and deeper trees than the common corpus
    import random
    trng = random.Random(wc.a.seed + 6)
    extra = []
    for k in range(8 if wc.a.tier == "quick" else 60):
        g = GD.Gen(trng, GD.Opts(overlap_siblings=(k % 2 == 1)), prefix="")
        try:
            g.inheritance_tree(trng.choice([1, 2, 3, 4]))
            if trng.random() < 0.5:
                g.inheritance_tree(trng.choice([1, 2]))
            extra.append(g.text(trng.choice(["little", "big"])))
        except ValueError:
            pass
    extra += SHAPES
    extra += alias_sibling_trees(random.Random(wc.a.seed * 31 + 66), 4 if wc.a.tier == "quick" else 16)
    import checks.wire_common as WC
    orig = WC.corpus_texts
    WC.corpus_texts = lambda: orig() + extra
    try:
        ok = wc.setup()
    finally:
        WC.corpus_texts = orig
    if not ok:
        return wc.finish()
    co = wc.co
    for i, d in enumerate(co.descs):
        types = d["types"]
        decls = types.decls
        parents = [x["id"] for x in d["analyzed"]["declarations"]
                   if x["kind"] in ("packet_declaration", "struct_declaration")
                   and any(y.get("parent_id") == x["id"] for y in d["analyzed"]["declarations"])]
        if not parents:
            continue
        enums = {}
        for e in d["analyzed"]["declarations"]:
            if e["kind"] == "enum_declaration":
                tv = {}
                for t in e["tags"]:
                    if "value" in t:
                        tv[GE.upper_camel(t["id"])] = t["value"]
                    for n in t.get("tags", []) or []:
                        tv[GE.upper_camel(n["id"])] = n["value"]
                enums[e["id"]] = tv
        if co.loaded != i:
            co.mdl.ask({"op": "load", "file": d["analyzed"]})
            co.loaded = i
        for P in parents:
            kids = [x["id"] for x in decls.values() if x.get("parent_id") == P]
            # (1) table
            tb = co.mdl.ask({"op": "inherit", "cases": [{"k": "table", "type": P}]})
            mt = tb["out"][0] if tb and tb.get("status") == "ok" else None
            et = extract_table(d["rust"], P, enums)
            run.case((d["text"], P, "table"))
            if mt is None or mt.get("r") != "ok" or et is None or isinstance(et, str):
                run.violation("corr", "cannot compare specialize tables of %s (model %s, extracted %s)" % (P, mt, et),
                              {"pdl": d["text"], "type": P, "corr": "corr:C06/specialize-table"}, found_input=False)
            else:
                keys, arms = et
                want_keys = list(mt["ids"]) + (["payload.len()"] if mt["with_size"] else [])
                # (the patterns of an arm as a SET: an or-pattern that lists one alternative twice — two descendants that add no
                #  constraint of their own — matches what the pattern listed once matches)
                def uniq(ps):
                    out = []
                    for x in sorted(ps, key=json.dumps):
                        if not out or out[-1] != x:
                            out.append(x)
                    return out
                want_arms = [(a["child"], uniq([p["t"] + ([p["len"]] if mt["with_size"] else []) for p in a["pats"]]))
                             for a in mt["arms"]]
                got_arms = [(c, uniq(t)) for c, t in arms]
                if keys == want_keys and got_arms == want_arms:
                    run.count("tables_equal")
                else:
                    run.violation("corr", "emitted specialize() table of %s differs from the model's" % P,
                                  {"pdl": d["text"], "type": P, "emitted": [keys, got_arms], "model": [want_keys, want_arms],
                                   "corr": "corr:C06/specialize-table (theorems Pdlv.Inherit.select_* apply to the model table)"},
                                  found_input=False)
            # (2)+(3) behaviour on parent values
            pvals = []
            for kid in kids + [P]:
                for v, _ in wc.values(i, kid, 3):
                    e = wc.impl(i, kid, "enc", v)
                    if e.get("r") == "ok":
                        for kind, s in [("valid", bytes.fromhex(e["hex"]))] + GV.mutants(wc.rng, bytes.fromhex(e["hex"]), 2)[:40]:
                            r = wc.impl(i, P, "dec", s.hex())
                            if r.get("r") == "ok":
                                pvals.append((r["value"], kid if (kind == "valid" and kid != P) else None))
            # directed parent values: every constraint tuple and payload length that occurs in an arm of the emitted table or
            # of the model's table (and the lengths next to them), on top of a decoded parent value — when the two tables
            # differ, the difference is between two such points
            if pvals and mt is not None and mt.get("r") == "ok" and et is not None and not isinstance(et, str):
                ids = list(mt["ids"])
                tuples, lens = set(), {0, 1, 2, 3}
                for arms_ in (want_arms, got_arms):
                    for _, pats in arms_:
                        for pat in pats:
                            tuples.add(tuple(pat[:len(ids)]))
                            if len(pat) > len(ids) and isinstance(pat[len(ids)], int):
                                lens |= {pat[len(ids)], pat[len(ids)] + 1}
                drng = random.Random(wc.a.seed * 65537 + i * 131 + len(P))
                base = pvals[0][0]
                n_dir = 0
                for t in sorted(tuples, key=json.dumps):
                    for L in sorted(lens):
                        if n_dir >= (40 if wc.a.tier == "quick" else 120) or L > 4096:
                            break
                        pv2 = dict(base)
                        for k, val in zip(ids, t):
                            if isinstance(val, int) and k in pv2:
                                pv2[k] = val
                        if "payload" in pv2:
                            pv2["payload"] = [drng.randrange(256) for _ in range(L)]
                        pvals.append((pv2, None))
                        n_dir += 1
                run.count("directed_parent_values", n_dir)
            seen = set()
            for pv, origin in pvals:
                key = W.canon(pv)
                if key in seen:
                    continue
                seen.add(key)
                run.case((d["text"], P, key))
                r = wc.impl(i, P, "spec", pv)
                mo = co.mdl.ask({"op": "inherit", "cases": [{"k": "spec", "type": P, "v": pv}]})
                m = mo["out"][0] if mo and mo.get("status") == "ok" else {"r": "model-failed"}
                rep = {"pdl": d["text"], "type": P, "op": "spec", "parent_value": pv, "impl": r, "model": m}
                if r.get("r") not in ("ok", "err"):
                    continue   # panics: C01
                got = None
                if r["r"] == "ok":
                    got = None if r["value"] == "None" else list(r["value"].items())[0]
                # model correspondence
                if m.get("r") == "ok":
                    mgot = None if m["child"] is None else (m["child"], m["value"])
                    same = (r["r"] == "ok" and ((got is None and mgot is None) or
                                               (got and mgot and got[0] == mgot[0] and W.canon(got[1]) == W.canon(mgot[1]))))
                elif m.get("r") == "err":
                    same = r["r"] == "err" and r.get("e") == m.get("e")
                else:
                    same = m.get("r") == "panic"
                if not same and origin and m.get("r") == "ok" and m.get("child") == origin and r["r"] in ("ok", "err"):
                    # the parent value was decoded from the encoding of an `origin` value: its field values and payload
                    # length match `origin` (the model, whose table the theorems are about, selects it); the emitted
                    # specialize() does not
                    rep["signature"] = {"class": "child-encoding-not-specialized"}
                    run.violation("impl", "%s::specialize() on the parent decoded from the encoding of a %s value returns %s, not %s"
                                  % (P, origin, "an error" if r["r"] == "err" else (got[0] if got else "None"), origin), rep)
                elif not same:
                    rep["corr"] = "corr:C06/specialize"
                    run.violation("corr", "specialize model and emitted specialize() disagree on %s" % P, rep, found_input=False)
                # the property's oracle
                cand = oracle_children(types, P, pv)
                run.hist("oracle_candidates", str(min(len(cand), 3)))
                if len(cand) == 0 and r["r"] == "ok" and got is not None and not (mt and mt.get("with_size")):
                    run.violation("impl", "%s::specialize() returned %s although no child's (or descendant's) constraints hold of the parent" % (P, got[0]), rep)
                if len(cand) == 1 and r["r"] == "ok" and not (mt and mt.get("with_size")):
                    # (a table that matches on the payload length does so in every arm: a parent whose constraint values are
                    #  those of one child only but whose payload has another length is not that child — the sized oracle
                    #  below decides those)
                    if got is None:
                        run.violation("impl", "%s::specialize() returned None although the constraints of %s (or of a descendant) hold" % (P, cand[0]), rep)
                    elif got[0] != cand[0]:
                        run.violation("impl", "%s::specialize() returned %s although only the constraints of %s (or of a descendant) hold" % (P, got[0], cand[0]), rep)
                # ... with the payload length (children that differ only in size)
                cs = oracle_children_sized(types, P, pv)
                if cs is not None:
                    run.hist("oracle_sized_candidates", str(min(len(cs), 3)))
                    if len(cs) == 1 and r["r"] == "ok" and (got is None or got[0] != cs[0]):
                        rep["signature"] = {"class": "sized-oracle"}
                        run.violation("impl", "%s::specialize() returned %s although only %s (or a descendant) matches the parent's field values and payload length"
                                      % (P, got[0] if got else "None", cs[0]), rep)
                # Child::try_from(&parent)
                for kid in kids:
                    fr = wc.impl(i, kid, "from:%s" % P, pv)
                    if fr.get("r") not in ("ok", "err"):
                        continue
                    own = decls[kid].get("constraints", [])
                    viol = False
                    for c in own:
                        want = c["value"] if c["value"] is not None else tag_value(types, P, c["id"], c["tag_id"])
                        if c["id"] in pv and pv[c["id"]] != want:
                            viol = True
                    is_cve = fr.get("r") == "err" and fr.get("e") == "ConstraintValueError"
                    if viol != is_cve and all(c["id"] in pv for c in own):
                        run.violation("impl", "%s::try_from(&%s): constraint violated = %s but result is %s"
                                      % (kid, P, viol, fr.get("e") or "ok"), dict(rep, child=kid, from_parent=fr))
                    mo2 = co.mdl.ask({"op": "inherit", "cases": [{"k": "from", "type": kid, "v": pv}]})
                    m2 = mo2["out"][0] if mo2 and mo2.get("status") == "ok" else {}
                    same2 = (fr["r"] == m2.get("r") and (fr["r"] != "ok" or W.canon(fr["value"]) == W.canon(m2.get("value")))
                             and (fr["r"] != "err" or fr.get("e") == m2.get("e"))) or m2.get("r") == "panic"
                    if not same2:
                        run.violation("corr", "decode_partial model and emitted %s::try_from(&%s) disagree" % (kid, P),
                                      dict(rep, child=kid, from_parent=fr, model_from=m2, corr="corr:C06/from_parent"), found_input=False)
            # (5) child -> parent laws
            for kid in kids:
                for v, _ in wc.values(i, kid, 3):
                    tp = wc.impl(i, kid, "to:%s" % P, v)
                    run.case((d["text"], kid, "to", W.canon(v)))
                    rep = {"pdl": d["text"], "type": kid, "op": "to:" + P, "value": v, "impl": tp}
                    if tp.get("r") != "ok":
                        continue
                    pvv = tp["value"]
                    cs = types.all_constraints(decls[kid])
                    for k, c in cs.items():
                        want = c["value"] if c["value"] is not None else tag_value(types, P, k, c["tag_id"])
                        if k in pvv and pvv[k] != want:
                            run.violation("impl", "%s -> %s: constrained field %s = %s, constraint says %s" % (kid, P, k, pvv[k], want), rep)
                    e1, e2 = wc.impl(i, kid, "enc", v), wc.impl(i, P, "enc", pvv)
                    if e1.get("r") == "ok" and (e2.get("r") != "ok" or e1["hex"] != e2.get("hex")):
                        run.violation("impl", "%s -> %s: parent encodes to %s, child to %s" % (kid, P, e2.get("hex", e2), e1["hex"]), rep)
                    back = wc.impl(i, kid, "from:%s" % P, pvv)
                    if back.get("r") not in ("ok", "err"):
                        continue    # panics are C01's business
                    if back.get("r") != "ok" or W.canon(back.get("value")) != W.canon(v):
                        run.violation("impl", "%s -> %s -> %s does not give the child back (%s)" % (kid, P, kid, back.get("e", back.get("r"))), rep)
                    mo3 = co.mdl.ask({"op": "inherit", "cases": [{"k": "to", "type": kid, "v": v}]})
                    m3 = mo3["out"][0] if mo3 and mo3.get("status") == "ok" else {}
                    if m3.get("r") == "ok" and W.canon(m3["value"]) != W.canon(pvv):
                        run.violation("corr", "to-parent model and emitted %s::try_from(&%s) disagree" % (P, kid),
                                      dict(rep, model=m3, corr="corr:C06/to_parent"), found_input=False)
            run.sample({"parent": P, "children": kids, "parent_values": len(seen)}, limit=4)
    return wc.finish(extra_cov={
        "traces_validated_against_impl": run.cov.get("tables_equal", 0),
        "rule": "inheritance trees of depth 1..4 (scalar and enum constraints, aliases, constant-size children, sized and "
                "unsized payloads, trailers); parents decoded from child encodings and their mutants; child values; "
                "a case = (description, parent type, parent value) or (description, child, value)"})


if __name__ == "__main__":
    sys.exit(main(sys.argv[1:]))
