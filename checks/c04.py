"""C04 — the Rust decoder accepts exactly the reference language and re-encodes canonically.

Proof:  Pdlv/Thm/C04.lean (fault-classification theorems, decode_full characterisation)
Tie:    decode_full of the emitted code on reference encodings, single-fault mutants and random strings,
        compared (a) with the reference decoder (ideal mode of the model, itself tied to Pdlv.Ref) on
        acceptance and value, (b) with the model of the emitted code on the DecodeError variant;
        accepted inputs are re-encoded and compared with the reference encoding of the decoded value.
"""
import os
import sys

sys.path.insert(0, os.path.dirname(os.path.dirname(os.path.abspath(__file__))))
from checks.wire_common import WireCheck
from vlib import gen_value as GV
from vlib import wirerun as W


def main(argv):
    wc = WireCheck("C04", argv)
    run = wc.run
    if not wc.setup():
        return wc.finish()
    co = wc.co
    for i, d in enumerate(co.descs):
        small = len(d["text"]) < 400
        amod = any(f.get("kind") == "array_field" and f.get("size_modifier")
                   for x in d["analyzed"]["declarations"] for f in x.get("fields", []))
        # an `_elementsize_` field too narrow for the constant size of the elements it announces: the decoder (and the
        # reference: the field is not consulted for elements of static size) accepts non-empty arrays that no encoder can
        # write back (SizeOverflow) — cause flag of KF-C04-esize-narrow-static
        from checks.c06 import own_static_octets
        esize_narrow = False
        for x in d["analyzed"]["declarations"]:
            for f in x.get("fields", []):
                if f.get("kind") != "elementsize_field":
                    continue
                arr = [g for g in x["fields"] if g.get("kind") == "array_field" and g.get("id") == f.get("field_id")]
                et = d["types"].decls.get(arr[0].get("type_id")) if arr else None
                if et is not None and et["kind"] == "struct_declaration" and not et.get("parent_id"):
                    n = own_static_octets(d["types"], et)
                    if isinstance(n, int) and n > (1 << f["width"]) - 1:
                        esize_narrow = True
        for T in co.packet_types(i):
            vals = wc.values(i, T, wc.sz["values"])
            refs = co.model(i, T, [{"k": "ref", "v": v} for v, _ in vals])
            if not isinstance(refs, list):
                run.hist("model_status", str(refs))
                continue
            seeds = [bytes.fromhex(m["hex"]) for m in refs if m.get("r") == "ok"]
            strings = [("empty", b"")]
            for s in seeds:
                strings.append(("reference-encoding", s))
                strings += GV.mutants(wc.rng, s, wc.sz["random_strings"])
            if small and wc.a.tier == "thorough":
                strings += [("exhaustive", bytes([a])) for a in range(256)]
                strings += [("exhaustive", bytes([a, b])) for a in range(0, 256, 5) for b in range(0, 256, 3)]
            seen, uniq = set(), []
            for k, s in strings:
                if s not in seen:
                    seen.add(s)
                    uniq.append((k, s))
            mrust = co.model(i, T, [{"k": "decfull", "hex": s.hex()} for _, s in uniq])
            idl = co.mdl.ask({"op": "wire", "type": T, "mode": "ideal", "cases": [{"k": "decfull", "hex": s.hex()} for _, s in uniq]}, timeout=300)
            if not isinstance(mrust, list) or not idl or idl.get("status") != "ok":
                run.hist("model_status", "decode-failed")
                continue
            # theorem decode_full_exact: hypothesis on this layout (decidable), and the statement evaluated on every
            # input of the run the reference decoder accepts: the reference-mode encoder writes the input back
            hyp = co.model(i, T, [{"k": "len", "v": {}}])
            exactwf = bool(isinstance(hyp, list) and hyp[0].get("exactwf"))
            run.hist("theorem_hypotheses", "exactWfBody:%s" % exactwf)
            if exactwf:
                acc = [(s, mi["value"]) for (_, s), mi in zip(uniq, idl["out"]) if mi.get("r") == "ok"]
                back = co.mdl.ask({"op": "wire", "type": T, "mode": "ideal", "cases": [{"k": "enc", "v": v} for _, v in acc]}, timeout=300) if acc else None
                for (s, v), eb in zip(acc, (back or {}).get("out", [])):
                    run.count("theorem_instances")
                    if eb.get("r") != "ok" or eb.get("hex") != s.hex():
                        run.violation("corr", "theorem decode_full_exact contradicted by evaluation on %s (model bug)" % T,
                                      {"pdl": d["text"], "type": T, "input_hex": s.hex(), "corr": "thm:decode_full_exact"}, found_input=False)
            accepted = []
            for (kind, s), mr, mi in zip(uniq, mrust, idl["out"]):
                r = wc.impl(i, T, "decfull", s.hex())
                run.case((d["text"], T, s))
                run.hist("string_kinds", kind)
                run.hist("outcomes", "%s%s" % (r.get("r"), (":" + r.get("e", "")) if r.get("r") == "err" else ""))
                rep = {"pdl": d["text"], "type": T, "op": "decfull", "input_hex": s.hex(), "kind": kind, "impl": r,
                       "model": mr, "reference": mi}
                hz = mr.get("h") if mr.get("r") == "panic" else None
                if r.get("r") not in ("ok", "err"):
                    # a panic / abort is neither acceptance nor a DecodeError.  Where the model of the emitted
                    # code predicts the panic it is one of the recorded decoder hazards (KF-C01-*, reported by
                    # C01); anywhere else it is a fresh violation of this property too
                    if hz is None:
                        rep["signature"] = {"class": str(r.get("r")), "hazard": None}
                        run.violation("impl", "%s::decode_full(%s) -> %s %s where the reference %s" %
                                      (T, s.hex()[:40], r.get("r"), str(r.get("m"))[:100],
                                       "accepts" if mi.get("r") == "ok" else "rejects with %s" % mi.get("e")), rep)
                    continue
                # (a) against the reference
                ref_ok = mi.get("r") == "ok"
                if (r["r"] == "ok") != ref_ok:
                    rep["signature"] = {"class": "accept-mismatch", "impl": r["r"], "agrees_with_model_of_emitted_code": W.same_dec(r, mr), "array_modifier": amod}
                    run.violation("impl", "%s::decode_full(%s) %s but the reference %s it" %
                                  (T, s.hex()[:40], "accepts" if r["r"] == "ok" else "rejects (%s)" % r.get("e"),
                                   "accepts" if ref_ok else "rejects (%s)" % mi.get("e")), rep)
                elif r["r"] == "ok" and W.canon(r["value"]) != W.canon(mi.get("value")):
                    rep["signature"] = {"class": "value-mismatch", "agrees_with_model_of_emitted_code": W.same_dec(r, mr), "array_modifier": amod}
                    run.violation("impl", "%s::decode_full(%s) yields field values that differ from the reference's" % (T, s.hex()[:40]), rep)
                elif r["r"] == "ok":
                    accepted.append((s, r["value"]))
                # (b) against the model of the emitted code: the DecodeError variant
                if hz is None and not W.same_dec(r, mr):
                    rep["corr"] = "corr:C04/decode_full/variant-value"
                    run.violation("corr", "decoder model and emitted decoder disagree on %s %s" % (T, s.hex()[:40]), rep, found_input=False)
            # canonical re-encoding of accepted inputs
            if accepted:
                refs2 = co.model(i, T, [x for _, v in accepted[:40] for x in ({"k": "ref", "v": v}, {"k": "enc", "v": v})])
                refs2 = refs2 if isinstance(refs2, list) else []
                for (s, v), rf, me in zip(accepted[:40], refs2[0::2], refs2[1::2]):
                    e = wc.impl(i, T, "enc", v)
                    rep = {"pdl": d["text"], "type": T, "input_hex": s.hex(), "decoded": v, "reencoded": e, "reference": rf,
                           "signature": {"class": "reencode", "agrees_with_model_of_emitted_code": W.same_enc(e, me), "array_modifier": amod}}
                    if e.get("r") != "ok":
                        if esize_narrow and e.get("e") == "SizeOverflow":
                            rep["signature"]["esize_narrow_static"] = True
                        run.violation("impl", "%s: value decoded from %s does not re-encode (%s)" % (T, s.hex()[:40], e), rep)
                        continue
                    if rf.get("r") == "ok" and e["hex"] != rf["hex"]:
                        run.violation("impl", "%s: encode(decode_full(b)) = %s is not the canonical encoding %s" % (T, e["hex"][:60], rf["hex"][:60]), rep)
                    if len(e["hex"]) != 2 * len(s):
                        run.violation("impl", "%s: re-encoding of an accepted %d-byte input has %d bytes" % (T, len(s), len(e["hex"]) // 2), rep)
                    back = wc.impl(i, T, "decfull", e["hex"])
                    if back.get("r") != "ok" or W.canon(back.get("value")) != W.canon(v):
                        mb = co.model(i, T, [{"k": "decfull", "hex": e["hex"]}])
                        hz2 = mb[0].get("h") if isinstance(mb, list) and mb[0].get("r") == "panic" else None
                        rep["signature"] = {"class": "reencode-redecode", "hazard": hz2}
                        run.violation("impl", "%s: canonical re-encoding %s does not decode back to the same value (%s)"
                                      % (T, e["hex"][:40], back.get("r")), rep)
                    run.count("reencoded")
            run.sample({"type": T, "strings": len(uniq), "accepted": len(accepted)}, limit=4)
    return wc.finish(extra_cov={
        "rule": "reference encodings of generated values, their prefixes, extensions, bit flips, forced extremes, "
                "random strings (thorough: all 1-byte and a lattice of 2-byte strings for small descriptions) through "
                "decode_full; accepted inputs re-encoded; a case = (description, type, byte string)"})


if __name__ == "__main__":
    sys.exit(main(sys.argv[1:]))
