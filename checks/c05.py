"""C05 — the Rust encoder never truncates: out-of-range is an error, length as promised.

Proof:  Pdlv/Thm/C05.lean
Tie:    encode_to_vec / encoded_len of the emitted code on in-range values and on values with one
        injected fault (scalar beyond its width, array/payload one element longer than its
        size/count field or padding can express, unequal element sizes, contradictory optional
        pattern), compared with the Lean encoder model; the reference specification (Pdlv.Ref)
        decides whether an accepted value was truncated.
"""
import json
import os
import sys

sys.path.insert(0, os.path.dirname(os.path.dirname(os.path.abspath(__file__))))
from checks.wire_common import WireCheck
from vlib import wirerun as W

FAULT_ERR = {"scalar_out": "InvalidScalarValue", "elem_out": "InvalidScalarValue", "count_over": "CountOverflow", "size_over": "SizeOverflow",
             "payload_over": "SizeOverflow", "esize_mismatch": "InvalidArrayElementSize",
             "inconsistent": "InconsistentConditionValue"}


def main(argv):
    wc = WireCheck("C05", argv)
    run = wc.run
    if not wc.setup():
        return wc.finish()
    co = wc.co
    for i, d in enumerate(co.descs):
        for T in co.packet_types(i):
            vals = wc.values(i, T, wc.sz["values"], faults=True)
            # the witnesses of the recorded findings are replayed on every run
            for k in run.known:
                w = k.get("witness", {})
                if w.get("pdl", "").strip() == d["text"].strip() and w.get("type") == T:
                    wv = json.loads(w["value_json"]) if "value_json" in w else w.get("value")
                    if wv is not None:
                        vals.append((wv, None))
            cases = []
            for v, inj in vals:
                cases += [{"k": "enc", "v": v}, {"k": "ref", "v": v}, {"k": "len", "v": v}]
            mo = co.model(i, T, cases)
            ideal = co.mdl.ask({"op": "wire", "type": T, "mode": "ideal", "cases": [{"k": "enc", "v": v} for v, _ in vals]})
            if not isinstance(mo, list) or not ideal or ideal.get("status") != "ok":
                run.hist("model_status", str(mo))
                continue
            for k, (v, inj) in enumerate(vals):
                m, ref, mlen, idl = mo[3 * k], mo[3 * k + 1], mo[3 * k + 2], ideal["out"][k]
                r = wc.impl(i, T, "enc", v)
                run.case((d["text"], T, W.canon(v)))
                run.hist("theorem_hypotheses", "LenWFBody:%s" % mlen.get("lenwf"))
                run.hist("faults", inj[0] if inj else "none")
                run.hist("outcomes", "%s%s" % (r.get("r"), (":" + r.get("e", "")) if r.get("r") == "err" else ""))
                rep = {"pdl": d["text"], "type": T, "op": "enc", "value": v, "injected": inj, "impl": r,
                       "model": m, "reference": ref}
                # theorem encBody_no_panic: its hypotheses (the layout's LenWFBody, the value's typedBody - "a value of
                # the generated type") and its statement, evaluated on the model for this value, both modes
                typed = bool(mlen.get("typed"))
                run.hist("theorem_hypotheses", "typedBody:%s serde-accepts:%s" % (typed, r.get("r") != "badvalue"))
                if typed and mlen.get("lenwf"):
                    run.count("theorem_instances_no_panic")
                    if m.get("r") == "panic" or idl.get("r") == "panic":
                        run.violation("corr", "theorem encBody_no_panic contradicted by evaluation on %s (model bug)" % T,
                                      {"pdl": d["text"], "type": T, "value": v, "corr": "thm:encBody_no_panic"}, found_input=False)
                # theorem encode_succeeds_iff_reference: hypothesis convWfBody on the layout; statement on this value:
                # the reference-mode encoder succeeds with bs  <=>  Ref.encode = bs
                if mlen.get("convwf") and typed:
                    run.count("theorem_instances_iff_reference")
                    if (idl.get("r") == "ok") != (ref.get("r") == "ok") or (idl.get("r") == "ok" and idl.get("hex") != ref.get("hex")):
                        run.violation("corr", "theorem encode_succeeds_iff_reference contradicted by evaluation on %s (model bug)" % T,
                                      {"pdl": d["text"], "type": T, "value": v, "corr": "thm:encode_succeeds_iff_reference"}, found_input=False)
                run.hist("theorem_hypotheses", "convWfBody:%s" % bool(mlen.get("convwf")))
                if r.get("r") == "badvalue":
                    continue
                if not typed:
                    # serde accepted a value the model does not take for a value of the generated type: the typing
                    # predicate (a theorem hypothesis) would be narrower than the generated type
                    run.violation("corr", "typedBody rejects a value that serde accepts for %s" % T,
                                  {"pdl": d["text"], "type": T, "value": v, "corr": "corr:C05/typedBody"}, found_input=False)
                if r.get("r") not in ("ok", "err"):
                    rep["signature"] = {"class": r.get("r"), "hazard": m.get("h") if m.get("r") == "panic" else None}
                    run.violation("impl", "%s::encode -> %s %s" % (T, r.get("r"), str(r.get("m"))[:150]), rep)
                    continue
                if r["r"] == "ok":
                    if len(r["hex"]) // 2 != r["len"]:
                        run.violation("impl", "%s: encode wrote %d bytes, encoded_len() = %d" % (T, len(r["hex"]) // 2, r["len"]), rep)
                    if ref.get("r") != "ok":
                        # accepted although the reference gives the value no encoding: what was dropped?
                        site = idl.get("e") if idl.get("r") == "err" else None
                        rep["signature"] = {"class": "truncation", "reference_error": site,
                                            "agrees_with_model_of_emitted_code": W.same_enc(r, m)}
                        # the one documented deviation: array size modifiers are ignored by the Rust back end,
                        # so the size field of `x: 8[+2]` overflows two elements later than in the reference
                        if site == "SizeOverflow" and any(f.get("kind") == "array_field" and f.get("size_modifier")
                                                           for x in d["analyzed"]["declarations"] for f in x.get("fields", [])):
                            rep["signature"]["array_modifier"] = True
                        run.violation("impl", "%s::encode accepted a value the reference cannot encode (reference: %s) "
                                      "and wrote %s" % (T, site, r["hex"][:60]), rep)
                else:
                    if ref.get("r") == "ok":
                        run.violation("impl", "%s::encode refused (%s) a value whose reference encoding is %s"
                                      % (T, r.get("e"), ref["hex"][:60]), rep)
                    # which EncodeError: a value may carry more than the injected fault (e.g. an array
                    # that is also too long for its padding), so the variant is compared with the
                    # model of the emitted code below, and here only for single-fault values
                    if (inj and FAULT_ERR.get(inj[0]) and idl.get("r") == "err" and m.get("r") == "err"
                            and idl.get("e") == m.get("e") == FAULT_ERR[inj[0]] and r.get("e") != idl.get("e")):
                        run.violation("impl", "%s::encode reports %s for an injected %s fault (reference: %s)"
                                      % (T, r.get("e"), inj[0], idl.get("e")), rep)
                if not W.same_enc(r, m):
                    rep["corr"] = "corr:C05/encode/outcome-bytes"
                    run.violation("corr", "encoder model and emitted encoder disagree on %s" % T, rep, found_input=False)
                elif r["r"] == "ok" and mlen.get("lenwf") and r["len"] != mlen.get("enclen"):
                    # theorem encBody_len: for a layout meeting LenWFBody, encode writes exactly encLen octets
                    rep["corr"] = "corr:C05/encLen (right-hand side of theorem encBody_len)"
                    run.violation("corr", "encLen (%s) and emitted encoded_len (%s) disagree on %s"
                                  % (mlen.get("enclen"), r["len"], T), rep, found_input=False)
                elif r["r"] == "ok" and r["len"] != mlen.get("len"):
                    rep["corr"] = "corr:C05/encoded_len"
                    run.violation("corr", "encoded_len model (%s) and emitted encoded_len (%s) disagree on %s"
                                  % (mlen.get("len"), r["len"], T), rep, found_input=False)
            run.sample({"type": T, "values": len(vals)}, limit=4)
    return wc.finish(extra_cov={
        "rule": "per description and packet/struct type: in-range values (boundary-biased) plus one value per "
                "injectable fault class; encode_to_vec + encoded_len on each; distinct by (description, type, value)"})


if __name__ == "__main__":
    sys.exit(main(sys.argv[1:]))
