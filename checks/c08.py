"""C08 — the analyzer rejects every ill-formed description with a renderable diagnostic.

Proof:  Pdlv/Thm/C08.lean — numeric rules against arithmetic (bit_width(v) > w <=> v >= 2^w, scalar_max),
        per-rule theorems, "no description that any pass reports reaches a back end".
Tie:    one rule-violating edit per analyzer rule, at every context (root/child/struct/group, first/last
        field) and numeric boundary, through the real parser and analyzer: rejected, expected code present,
        labels inside the source, `Diagnostics::emit` succeeds; the Lean model of the 16 passes is run on
        the same parsed file and compared on verdict, ordered code list and label ranges (also on the
        well-formed descriptions of the generator and on boundary-valid twins).
"""
import json
import os
import random
import sys

sys.path.insert(0, os.path.dirname(os.path.dirname(os.path.abspath(__file__))))
from vlib import common as C
from vlib import gen_descr as GD
from vlib import gen_illformed as GI


def canon(x):
    return json.dumps(x, sort_keys=True)


def compare_model(run, drv, mdl, text, r, tag):
    """model of analyze vs real analyze on the same parsed file"""
    p = drv.ask({"op": "parse", "text": text})
    if not p or p.get("status") != "ok":
        return
    m = mdl.ask({"op": "analyze", "file": p["file"]}, timeout=120)
    if not m:
        run.violation("corr", "analyzer model crashed / timed out", {"pdl": text, "corr": "corr:C08/analyze"}, found_input=False)
        return
    rs = r.get("status")
    if rs == "panic":
        return
    same = m.get("status") == rs
    if same and rs == "err":
        a = [(d["code"], [(l["start"], l["end"]) for l in d["labels"]]) for d in m["diagnostics"]]
        b = [(d["code"], [(l["start"], l["end"]) for l in d["labels"]]) for d in r["diagnostics"]]
        same = a == b
    if same and rs == "ok":
        same = canon(m["declarations"]) == canon(r["file"]["declarations"])
    if same:
        run.count("model_agrees")
    else:
        run.violation("corr", "analyzer model and analyzer::analyze disagree (%s): model %s / real %s"
                      % (tag, (m.get("status"), [d["code"] for d in m.get("diagnostics", [])], m.get("site")),
                         (rs, [d["code"] for d in r.get("diagnostics", [])])),
                      {"pdl": text, "model": {k: v for k, v in m.items() if k != "declarations"},
                       "real": {k: v for k, v in r.items() if k not in ("file", "parsed")},
                       "corr": "corr:C08/analyze (verdict, ordered codes, label ranges, analyzed declarations)"},
                      found_input=False)


def main(argv):
    a = C.std_args(argv)
    run = C.Run("C08", a.tier, a.seed)
    rng = random.Random(a.seed)
    proof = C.proof_audit("C08")
    ok, out = C.build_driver()
    if not ok:
        run.violation("corr", "pdl-driver does not build: " + out[-500:], {"stage": "build"}, found_input=False)
        return run.finish(proof)
    drv, mdl = C.driver(), C.pdlv()
    rounds = 2 if a.tier == "quick" else 12
    cases = []
    for _ in range(rounds):
        cases += GI.cases(rng)
    if a.replay:
        rp = json.load(open(a.replay)).get("replay", {})
        if rp.get("pdl"):
            cases.insert(0, (rp["pdl"].split("\n", 1)[1] if rp["pdl"].startswith(("little", "big")) else rp["pdl"], rp.get("expected")))
    seen = set()
    for body, code in cases:
        text = rng.choice(["little", "big"]) + "_endian_packets\n" + body
        if body in seen:
            continue
        seen.add(body)
        r = drv.ask({"op": "analyze", "text": text})
        run.case((body,))
        run.hist("expected", code or "accepted")
        rep = {"pdl": text, "expected": code, "result": {k: v for k, v in (r or {}).items() if k not in ("file", "parsed")}}
        if r is None or r.get("status") == "panic":
            rep["signature"] = {"class": "panic", "message": str((r or {}).get("message"))[:80]}
            run.violation("impl", "the analyzer crashed on an ill-formed description (%s): %s" % (code, (r or {}).get("message", drv.last_death)), rep)
            continue
        if r.get("status") == "parse_err":
            run.violation("corr", "ill-formed case does not parse (generator bug): %s" % r.get("message"), rep, found_input=False)
            continue
        codes = [d["code"] for d in r.get("diagnostics", [])]
        if code is None:
            if r.get("status") != "ok":
                rep["signature"] = {"class": "boundary-valid-rejected", "codes": codes}
                run.violation("impl", "a description at the valid side of a numeric boundary is rejected with %s" % codes, rep)
        else:
            if r.get("status") == "ok":
                rep["signature"] = {"class": "accepted", "expected": code}
                run.violation("impl", "an ill-formed description violating rule %s is accepted by the analyzer" % code, rep)
            elif code not in codes:
                rep["signature"] = {"class": "wrong-code", "expected": code, "codes": codes}
                run.violation("impl", "a description violating rule %s is rejected with %s only" % (code, codes), rep)
        if r.get("status") == "err":
            n = len(text.encode())
            for d in r["diagnostics"]:
                if d.get("severity") != "Error" or not d.get("code"):
                    run.violation("impl", "diagnostic without error severity / code: %s" % d, rep)
                for l in d["labels"]:
                    if not (0 <= l["start"] <= l["end"] <= n):
                        run.violation("impl", "diagnostic %s has a label %s outside the source (%d bytes)" % (d["code"], l, n), rep)
            if not r.get("emit_ok") or not r.get("emit_len"):
                run.violation("impl", "Diagnostics::emit failed or rendered nothing for %s" % codes, rep)
        compare_model(run, drv, mdl, text, r, code or "valid")
        run.sample({"expected": code, "pdl": body[:160]}, limit=5)
    # well-formed descriptions: the model must agree there too (acceptance + analyzed declarations)
    nwf = 40 if a.tier == "quick" else 400
    opts = GD.Opts(greedy_structs=True, copy_parents=False, array_modifier=True, overlap_siblings=True)
    for k in range(nwf):
        text, g = GD.generate(rng, opts)
        r = drv.ask({"op": "analyze", "text": text})
        run.case((text,))
        if r is None or r.get("status") == "panic":
            continue      # C10
        compare_model(run, drv, mdl, text, r, "well-formed")
    drv.kill()
    mdl.kill()
    return run.finish(proof, extra_cov={
        "rule": "per analyzer rule E1..E53 (E9/E10 are unreachable: the parser drops test declarations) one "
                "violating edit in root/child/struct/group context, first/middle/last position, and at the numeric "
                "boundaries 2^w vs 2^w-1 for w in 1..63; plus generated well-formed descriptions; a case = one source text"})


if __name__ == "__main__":
    sys.exit(main(sys.argv[1:]))
