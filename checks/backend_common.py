"""Shared driver for the non-Rust back ends (C13 Python, C14 C++, C19 Java; C07 uses all of them).

The oracle is the reference: `Pdlv.Ref.encode` for bytes, the model in ideal mode (tied to Ref)
for parsing.  Every back end is run on generated descriptions of ITS construct class, on
in-range values and on byte strings (reference encodings, single-fault mutants, prefixes, random).
"""
import json
import os
import random
import zlib
import sys

sys.path.insert(0, os.path.dirname(os.path.dirname(os.path.abspath(__file__))))
from vlib import common as C
from vlib import gen_descr as GD
from vlib import gen_value as GV
from vlib import wirerun as W

CORPUS = os.path.join(C.VERIF, "corpus")


def opts_for(backend):
    o = GD.Opts.for_backend(backend)
    o.enum_first_value = True          # C++ F1 / Python empty IntEnum: recorded as findings, kept out of the random corpus
    if backend == "cxx":
        o.struct_payload = False       # F2: does not compile
        o.optional = True
        o.one_closed_enum_per_decl = True   # F3
        # constructs whose C++ support is defective (known findings KF-C14-*) stay out of the random
        # corpus so that they do not mask anything else; each has a witness under corpus/cxx
        o.enum_arrays = False
        o.struct_arrays = False
        # (inheritance is in: child views are modelled — Pdlv.Cxx.viewBody — and their two recorded defects, KF-C14-child-constraint
        #  and KF-C14-child-builder, are matched by cause)
        o.inheritance = True
        o.narrow_counts = True
    if backend == "python":
        pass
    if backend == "java":
        o.array_modifier = True        # `x: T[+n]` behind a `_size_(x)` field (the Rust back end ignores it: not in the common class)
    if backend in ("java", "common"):
        o.no_body = True               # G1
        o.max_literal = (1 << 31) - 1  # C1
        o.java_safe = True
        o.struct_payload = False
    return o


class Backend:
    def __init__(self, run, backend, tier, seed, n_desc, tag=None, extra_texts=(), opts=None):
        self.run, self.backend, self.tier, self.seed = run, backend, tier, seed
        self.rng = random.Random(seed * 31 + zlib.crc32(backend.encode()) % 1000)   # (hash() of a str differs per process)
        self.opts = opts or opts_for(backend)
        self.n_desc = n_desc
        self.tag = tag or backend
        self.extra_texts = list(extra_texts)
        self.drv = C.driver()
        self.mdl = C.pdlv(timeout=120)
        self.descs = []
        self.loaded = None
        self.h = None
        self.gen_failures = []

    # -- corpus -------------------------------------------------------------
    def gen_code(self, text, index):
        if self.backend == "python" and getattr(self, "via_cli", False):
            # through the command-line tool, with a declaration filter that matches nothing: the options given must not
            # change the code of the declarations that are kept (C17 / C11 quantify over configurations)
            import subprocess, tempfile
            with tempfile.TemporaryDirectory(prefix="pdlc-cli-") as td:
                fp = os.path.join(td, "in.pdl")
                open(fp, "w").write(text)
                try:
                    pr = subprocess.run([C.PDLC, "--output-format", "python", "--exclude-declaration", "Zz9NoSuchDeclaration", fp],
                                        capture_output=True, text=True, timeout=60, env=C.ENV)
                except subprocess.TimeoutExpired:
                    return (None, {"status": "timeout"})
            return ("python", pr.stdout) if pr.returncode == 0 else (None, {"status": "cli-error", "stderr": pr.stderr[-300:]})
        if self.backend == "python":
            g = self.drv.ask({"op": "gen", "backend": "python", "text": text})
            return ("python", g["text"]) if g and g.get("status") == "ok" else (None, g or self.drv.last_death)
        if self.backend == "cxx":
            g = self.drv.ask({"op": "gen", "backend": "cxx", "text": text, "namespace": "d%d" % index})
            return ("cxx", g["text"]) if g and g.get("status") == "ok" else (None, g or self.drv.last_death)
        if self.backend == "java":
            from vlib import javagen
            reply = javagen.generate(self.drv, text)
            return ("java_dir", reply["java_dir"]) if reply.get("status") == "ok" else (None, reply)
        raise ValueError(self.backend)

    def add_text(self, text, gen=None, origin="generated"):
        r = self.drv.ask({"op": "analyze", "text": text})
        if r is None or r.get("status") != "ok":
            self.run.hist("descriptions", "rejected-by-analyzer")
            return None
        key, code = self.gen_code(text, len(self.descs))
        if key is None:
            self.gen_failures.append({"pdl": text, "result": code})
            self.run.hist("descriptions", "generator-failed")
            return None
        d = {"text": text, "analyzed": r["file"], key: code, "origin": origin,
             "features": sorted(gen.features) if gen else [], "types": GV.Types(r["file"])}
        self.descs.append(d)
        return d

    def generate(self, stratify=True):
        for t in self.extra_texts:
            if isinstance(t, tuple):
                d = self.add_text(t[1], origin="corpus")
                if d is not None:
                    d["corpus_id"] = t[0]
            else:
                self.add_text(t, origin="corpus")
        if stratify:
            for text, g in GD.stratified(self.rng, self.opts):
                self.add_text(text, g, origin="stratified")
            if self.backend in ("python", "java") and getattr(self.opts, "inheritance", True):
                # middle packets that add no named field (own PRNG stream)
                frng = random.Random(self.seed * 7919 + 11)
                for text in GD.framed(frng, java_safe=self.backend == "java"):
                    self.add_text(text, origin="framed")
                if self.backend == "python":
                    for text in GD.nested_sized_payload(random.Random(self.seed * 7919 + 29)):
                        self.add_text(text, origin="nested-sized-payload")
            if self.backend in ("python", "java", "cxx") and getattr(self.opts, "inheritance", True):
                # a middle packet with a sized payload of its own below an unsized / sized one (own PRNG stream)
                for text in GD.nested_sized_mid(random.Random(self.seed * 7919 + 31)):
                    self.add_text(text, origin="nested-sized-mid")
            if self.backend in ("python", "cxx"):
                # groups and elements wider than 32 bits (own PRNG stream; the Java class leaves them out: KF-C19-int-chunk)
                wrng = random.Random(self.seed * 4099 + 5)
                for text in GD.wide(wrng, 2 if self.tier == "quick" else 12):
                    self.add_text(text, origin="wide")
        floor = (20 if self.tier == "quick" else 80) if self.n_desc > 0 else 0
        want = max(self.n_desc + len(self.extra_texts) - len(self.descs), floor)
        tries, made = 0, 0
        while made < want and tries < 4 * max(self.n_desc, floor):
            tries += 1
            text, g = GD.generate(self.rng, self.opts)
            if self.add_text(text, g) is not None:
                made += 1
        for d in self.descs:
            for f in d["features"]:
                self.run.hist("features", f)

    def build(self):
        """Build the harness; descriptions whose emitted code does not compile / import are
        dropped and remembered (compilability is C10's business)."""
        name = "%s-%s" % (self.tag, self.tier)
        self.not_compiling = []
        for attempt in range(4):
            if self.backend == "python":
                from vlib import pygen
                self.h = pygen.PyHarness(name, self.descs)
                ok = self.h.build()
            elif self.backend == "cxx":
                from vlib import cxxgen
                self.h = cxxgen.CxxHarness(name, self.descs)
                ok = self.h.build()
            else:
                from vlib import javagen
                self.h = javagen.JavaHarness(name, self.descs)
                ok = self.h.build()
            if ok:
                break
            failed = sorted(set(self.h.failed), reverse=True)
            if not failed:
                self.run.violation("corr", "%s harness build failed: %s" % (self.backend, self.h.build_log[-1200:]),
                                   {"stage": "harness-build"}, found_input=False)
                return False
            for i in failed:
                d = self.descs.pop(i)
                self.not_compiling.append({"pdl": d["text"], "log": str(getattr(self.h, "fail_log", {}).get(i, getattr(self.h, "errors", {}).get(i, "")))[:600]})
            # cxx namespaces / java packages depend on the index: regenerate the code of the shifted descriptions
            if self.backend in ("cxx",):
                for j, d in enumerate(self.descs):
                    key, code = self.gen_code(d["text"], j)
                    if key:
                        d[key] = code
        self.run.cov["descriptions"] = len(self.descs)
        self.run.cov["descriptions_not_compiling"] = len(self.not_compiling)
        self.run.cov["descriptions_generator_failed"] = len(self.gen_failures)
        return bool(self.descs)

    # -- model ----------------------------------------------------------------
    def load(self, i):
        if self.loaded != i:
            r = self.mdl.ask({"op": "load", "file": self.descs[i]["analyzed"]})
            self.loaded = i if r and r.get("status") == "ok" else None
        return self.loaded == i

    def model(self, i, T, cases, mode="ideal"):
        if not self.load(i):
            return None
        r = self.mdl.ask({"op": "wire", "type": T, "mode": mode, "cases": cases}, timeout=300)
        if not r or r.get("status") != "ok":
            self.loaded = None if not r else self.loaded
            return (r or {}).get("status")
        return r["out"]

    def model_down(self, i, root, target, root_value):
        """Follow root -> ... -> target with the reference decode_partial."""
        types = self.descs[i]["types"]
        chain = [x["id"] for x in types.parent_chain(types.decls[target])]
        if root not in chain:
            return None
        path = list(reversed(chain[:chain.index(root)]))
        v = root_value
        for t in path:
            r = self.mdl.ask({"op": "inherit", "mode": "ideal", "cases": [{"k": "from", "type": t, "v": v}]})
            if not r or r.get("status") != "ok" or r["out"][0].get("r") != "ok":
                return {"r": "fail", "at": t, "out": r and r.get("out")}
            v = r["out"][0]["value"]
        return {"r": "ok", "value": v}

    def model_specialize_chain(self, i, root, root_value):
        """What full parsing with automatic specialization should give in the reference:
        ("ok", type, value) most derived; ("child-error", type_at, value_at) when a matching child
        fails to parse (a back end may report an error or fall back to the parent)."""
        t, v = root, root_value
        for _ in range(8):
            r = self.mdl.ask({"op": "inherit", "mode": "ideal", "cases": [{"k": "spec", "type": t, "v": v}]})
            if not r or r.get("status") != "ok":
                return ("ok", t, v)
            o = r["out"][0]
            if o.get("r") == "err":
                return ("child-error", t, v)
            if o.get("r") != "ok" or o.get("child") is None:
                return ("ok", t, v)
            t, v = o["child"], o["value"]
        return ("ok", t, v)

    def types(self, i, roots_only=False):
        d = self.descs[i]
        out = []
        for x in d["analyzed"]["declarations"]:
            if x["kind"] in ("packet_declaration", "struct_declaration"):
                if roots_only and x.get("parent_id"):
                    continue
                out.append(x["id"])
        return out

    def ask(self, i, T, op, arg):
        return self.h.ask(i, T, op, arg)

    def close(self):
        self.drv.kill()
        self.mdl.kill()
        if self.h:
            self.h.close()


def features_of(decl_chain, types=None):
    """Cause flags used in violation signatures (which known deviation could explain it)."""
    tags = {}
    # the declarations of the chain plus every struct type reachable through typedef / array fields
    todo, seen = list(decl_chain), set()
    reach = []
    while todo:
        d = todo.pop()
        if d.get("id") in seen:
            continue
        seen.add(d.get("id"))
        reach.append(d)
        if types is not None:
            for f in d.get("fields", []):
                tid = f.get("type_id")
                if tid in types.decls and types.decls[tid]["kind"] in ("struct_declaration", "packet_declaration"):
                    todo += types.parent_chain(types.decls[tid])
    def bit_width(f):
        if f["kind"] == "flag_field":
            return 1
        if "width" in f and f["kind"] != "array_field" and f.get("width") is not None:
            return f["width"]
        tid = f.get("type_id") or f.get("enum_id")
        if types is not None and tid in types.decls and types.decls[tid]["kind"] == "enum_declaration" and f["kind"] != "array_field":
            return types.decls[tid]["width"]
        return None

    if decl_chain and decl_chain[0].get("parent_id"):
        tags["child"] = True
        # what KF-C14-child-builder is about: an ancestor whose payload has a size field, or that has fields after its payload
        for anc in decl_chain[1:]:
            fs = anc.get("fields", [])
            if any(f["kind"] == "size_field" and f.get("field_id") in ("_payload_", "_body_") for f in fs):
                tags["ancestor_sized_or_trailing"] = True
            pi = [k for k, f in enumerate(fs) if f["kind"] in ("payload_field", "body_field")]
            if pi and pi[0] + 1 < len(fs):
                tags["ancestor_sized_or_trailing"] = True
    for d in reach:
        fs = d["fields"]
        for f in fs:
            tid = f.get("type_id") or f.get("enum_id")
            is_enum = types is not None and tid in types.decls and types.decls[tid]["kind"] == "enum_declaration"
            if f["kind"] == "array_field" and is_enum:
                tags["enum_array"] = True
            if f["kind"] == "fixed_field" and "enum_id" in f:
                tags["fixed_enum"] = True
            if f["kind"] in ("count_field", "size_field") and f["width"] >= 24:
                tags["wide_count"] = True
            if f["kind"] == "array_field" and types is not None and f.get("type_id") in types.decls and \
                    types.decls[f["type_id"]]["kind"] == "struct_declaration":
                tags["struct_array"] = True
        # a byte-aligned chunk of exactly 8 bits made of reserved fields only
        bits, only_reserved = 0, True
        for f in fs:
            w = bit_width(f) if not f.get("cond") else None
            if w is None:
                bits, only_reserved = 0, True
                continue
            bits += w
            only_reserved = only_reserved and f["kind"] == "reserved_field"
            if bits % 8 == 0:
                if only_reserved and bits == 8:
                    tags["reserved8"] = True
                bits, only_reserved = 0, True
        for k, f in enumerate(fs):
            tid = f.get("type_id") or f.get("enum_id")
            if types is not None and tid in types.decls and types.decls[tid]["kind"] == "enum_declaration":
                if not any("value" in t for t in types.decls[tid]["tags"]):
                    tags["enum_without_value_tags"] = True
            if f["kind"] == "payload_field" and f.get("size_modifier"):
                tags["payload_modifier"] = True
            if f["kind"] == "array_field" and f.get("size_modifier"):
                tags["array_modifier"] = True
            if f["kind"] == "array_field" and k + 1 < len(fs) and fs[k + 1]["kind"] == "padding_field":
                tags["padded_array"] = True
            if f["kind"] == "array_field" and f["size"] is None and k + 1 < len(fs) and fs[k + 1]["kind"] == "padding_field":
                if not any(g["kind"] in ("size_field", "count_field") and g["field_id"] == f["id"] for g in fs):
                    tags["unsized_padded_array"] = True
            # a struct of unknown size (nothing delimits it: it extends to the end of its span) that is not the last
            # field: only the C++ back end gives it "all but the trailing static fields"; the reference decoder of
            # the model reads structs greedily, so on these layouts only reference ENCODINGS can be compared
            if f["kind"] == "typedef_field" and not f.get("cond") and k + 1 < len(fs) and types is not None and \
                    unknown_size(types, types.decls.get(f.get("type_id"))):
                tags["unsized_struct_not_last"] = True
    return tags


def unknown_size(types, decl, depth=0):
    """analyzer::Size::Unknown for a struct: some field is delimited by nothing but the end of the input"""
    if not decl or decl.get("kind") not in ("struct_declaration", "packet_declaration") or depth > 16:
        return False
    fs = [f for d in types.parent_chain(decl) for f in d.get("fields", [])]
    for k, f in enumerate(fs):
        if f["kind"] in ("payload_field", "body_field"):
            if not any(g["kind"] == "size_field" and g["field_id"] in ("_payload_", "_body_") for g in fs):
                return True
        if f["kind"] == "array_field" and f.get("size") is None:
            padded = k + 1 < len(fs) and fs[k + 1]["kind"] == "padding_field"
            if not padded and not any(g["kind"] in ("size_field", "count_field") and g["field_id"] == f["id"] for g in fs):
                return True
        if f["kind"] == "typedef_field" and not f.get("cond") and unknown_size(types, types.decls.get(f.get("type_id")), depth + 1):
            return True
    return False
