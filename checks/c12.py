"""C12 — parser fidelity: the AST is exactly what was written, with truthful source ranges.

Proof:  Pdlv/Thm/C12.lean — srcloc_correct (SourceLocation::new), integer literal evaluation (as_usize)
Tie:    the Lean model of the parser (PEG interpreter with pest's semantics over the transcribed grammar +
        the tree-to-AST conversion) is compared with parser::parse_inline built from /repo on generated
        descriptions rendered with randomized concrete syntax (radix and case of literals, spaces, tabs, CR/LF,
        block and line comments incl. non-ASCII text, trailing commas), on near-miss texts and token-level
        mutants: acceptance, every declaration / field / tag / constraint / integer, every source range, the
        comments.  Independently of the model: ranges lie within the file, are ordered, line/column are
        recomputed from the byte offset, every range starts at the node's first token, and printing the AST
        back and parsing again gives an equal AST.
"""
import json
import os
import random
import re
import sys

sys.path.insert(0, os.path.dirname(os.path.dirname(os.path.abspath(__file__))))
from vlib import common as C
from vlib import gen_descr as GD
from checks.c09 import strip, TOKEN


def canon(x):
    return json.dumps(x, sort_keys=True)


COMMENTS = [" /* c */ ", " // line\n", "/**/", " /* température €  */ ", "// ünï\n", " /* * / */ ", "\t", "\r\n", "\n", " ", "  ",
            # comment openers and closers inside comments: block comments do not nest, `*/` in a line comment closes nothing
            " /* a /* b */ ", "/*/*/", " /* // */ ", "// */ /* \n", " /* x /* */ // y */\n", "/***/"]


def render(rng, text, upper_hex=True):
    """Same tokens, randomized concrete syntax."""
    toks = TOKEN.findall(text)
    out = []
    kw = {"enum", "packet", "struct", "group", "custom_field", "checksum", "test", "little_endian_packets", "big_endian_packets"}
    depth_stack = []
    paren_is_constraints = False
    for i, t in enumerate(toks):
        if re.fullmatch(r"\d+", t) and not (i > 0 and toks[i - 1] == "+"):
            r = rng.random()
            if r < 0.3:
                t = "0x%x" % int(t)
            elif r < 0.45:
                t = "0x%X" % int(t)
            elif r < 0.55:
                t = "0x%s%x" % ("0" * rng.randint(1, 3), int(t))
            elif r < 0.6 and upper_hex:
                t = "0X%x" % int(t)
            elif r < 0.7:
                t = "0" * rng.randint(1, 2) + t
        elif re.fullmatch(r"0[xX][0-9a-fA-F]+", t) and rng.random() < 0.5:
            t = str(int(t, 16))
        out.append(t)
        # trailing commas before a closing brace of enum tag lists / field lists
        if i + 1 < len(toks) and toks[i + 1] == "}" and t not in ("{", ",") and rng.random() < 0.3 and depth_stack and depth_stack[-1] == "list":
            out.append(rng.choice([",", " ,", ", "]))
        if t == "(":
            paren_is_constraints = i > 0 and toks[i - 1] not in ("_size_", "_count_", "_elementsize_", "_checksum_start_")
        if i + 1 < len(toks) and toks[i + 1] == ")" and t != "(" and paren_is_constraints and rng.random() < 0.3:
            out.append(",")
        if t == "{":
            depth_stack.append("list" if i == 0 or toks[i - 1] not in (")",) else "list")
        if t == "}" and depth_stack:
            depth_stack.pop()
        if t in ("little_endian_packets", "big_endian_packets"):
            out.append(rng.choice([" ", "\n", "\t", "\r"]))     # `${ … ~ WHITESPACE }`
        elif t in kw:
            out.append(rng.choice([" ", "\n", "\t", "\r", "/*k*/", "// k\n"]))
        if i + 1 < len(toks) and toks[i] == "+":
            continue
        sep = rng.choice(["", "", " ", " ", "  "] + COMMENTS)
        if sep == "" and i + 1 < len(toks) and re.match(r"[A-Za-z0-9_]", toks[i + 1][0]) and re.match(r"[A-Za-z0-9_]", t[-1]):
            sep = " "
        if t == "." or (t == ".." and False):
            sep = ""
        out.append(sep)
    return "".join(out)


def near_misses(rng, text):
    """texts that should (mostly) NOT match the grammar"""
    out = []
    n = len(text)
    for _ in range(6):
        i = rng.randrange(n)
        out.append(("delete-char", text[:i] + text[i + 1:]))
        out.append(("insert-char", text[:i] + rng.choice("{}[](),:=+./*\"x0 ") + text[i:]))
    out.append(("glued-keyword", re.sub(r"\b(packet|struct|enum|group) ", lambda m: m.group(1), text, count=1)))
    out.append(("keyword-comment", re.sub(r"\b(packet|struct|enum) ", lambda m: m.group(1) + "/*c*/", text, count=1)))
    out.append(("unterminated-comment", text + "\n/* never closed"))
    out.append(("unterminated-string", text + "\ncustom_field Cq : 8 \"abc"))
    out.append(("no-endianness", text.split("\n", 1)[1] if "\n" in text else text))
    out.append(("endianness-at-eof", text.split("\n", 1)[0]))
    out.append(("double-comma", text.replace(",", ",,", 1)))
    out.append(("huge-int", re.sub(r": \d+", ": 18446744073709551616", text, count=1)))
    out.append(("max-int", re.sub(r": \d+", ": 18446744073709551615", text, count=1)))
    out.append(("enumx", text.replace("enum ", "enumx ", 1)))
    out.append(("ident-like-keyword", text + "\npacket packetx { enumy: 8 }\n"))
    out.append(("constraint-trailing-comma", text + "\npacket Qp { k: 8, _payload_ }\npacket Qc : Qp (k = 1,) { }\n"))
    out.append(("empty", ""))
    out.append(("only-comment", "// nothing\n"))
    return out


def printer(file_json, endian):
    """AST (serde JSON) back to PDL text."""
    def cons(cs):
        return ", ".join("%s = %s" % (c["id"], c["value"] if c["value"] is not None else c["tag_id"]) for c in cs)

    def field(f):
        k = f["kind"]
        if k == "checksum_field": t = "_checksum_start_(%s)" % f["field_id"]
        elif k == "padding_field": t = "_padding_[%d]" % f["size"]
        elif k == "size_field": t = "_size_(%s): %d" % (f["field_id"], f["width"])
        elif k == "count_field": t = "_count_(%s): %d" % (f["field_id"], f["width"])
        elif k == "elementsize_field": t = "_elementsize_(%s): %d" % (f["field_id"], f["width"])
        elif k == "body_field": t = "_body_"
        elif k == "payload_field": t = "_payload_" + ((": [%s]" % f["size_modifier"]) if f.get("size_modifier") else "")
        elif k == "fixed_field": t = ("_fixed_ = %s : %s" % (f["tag_id"], f["enum_id"])) if "enum_id" in f else ("_fixed_ = %d : %d" % (f["value"], f["width"]))
        elif k == "reserved_field": t = "_reserved_: %d" % f["width"]
        elif k == "array_field":
            t = "%s: %s[%s]" % (f["id"], f["width"] if f["width"] is not None else f["type_id"],
                                f["size"] if f["size"] is not None else (f["size_modifier"] or ""))
        elif k == "scalar_field": t = "%s: %d" % (f["id"], f["width"])
        elif k == "typedef_field": t = "%s: %s" % (f["id"], f["type_id"])
        elif k == "group_field": t = f["group_id"] + ((" { %s }" % cons(f["constraints"])) if f["constraints"] else "")
        else: raise ValueError(k)
        if f.get("cond"):
            t += " if %s" % cons([f["cond"]])
        return t

    def tag(t):
        if "value" in t: return "%s = %d" % (t["id"], t["value"])
        if "range" in t:
            s = "%s = %d..%d" % (t["id"], t["range"]["start"], t["range"]["end"])
            if t["tags"]:
                s += " { " + ", ".join(tag(x) for x in t["tags"]) + " }"
            return s
        return "%s = .." % t["id"]

    out = [endian + "_packets"]
    for d in file_json["declarations"]:
        k = d["kind"]
        if k == "enum_declaration":
            out.append("enum %s : %d { %s }" % (d["id"], d["width"], ", ".join(tag(t) for t in d["tags"])))
        elif k in ("packet_declaration", "struct_declaration"):
            h = "%s %s" % (k.split("_")[0], d["id"])
            if d["parent_id"]: h += " : " + d["parent_id"]
            if d["constraints"]: h += " (%s)" % cons(d["constraints"])
            out.append("%s { %s }" % (h, ", ".join(field(f) for f in d["fields"])))
        elif k == "group_declaration":
            out.append("group %s { %s }" % (d["id"], ", ".join(field(f) for f in d["fields"])))
        elif k == "custom_field_declaration":
            out.append("custom_field %s %s\"%s\"" % (d["id"], (": %d " % d["width"]) if d["width"] is not None else "", d["function"]))
        elif k == "checksum_declaration":
            out.append("checksum %s : %d \"%s\"" % (d["id"], d["width"], d["function"]))
    return "\n".join(out) + "\n"


def walk_locs(node, out, path="", parent=None):
    """collects (path, node) for every node carrying a source range; node["_parent_loc"] is the range of the
    nearest enclosing node that has one"""
    if isinstance(node, dict):
        here = parent
        if "loc" in node and isinstance(node["loc"], dict) and "start" in node["loc"]:
            out.append((path, node, parent))
            here = node["loc"]
        for k, v in node.items():
            if k != "loc":
                walk_locs(v, out, path + "/" + k, here)
    elif isinstance(node, list):
        for i, v in enumerate(node):
            walk_locs(v, out, "%s[%d]" % (path, i), parent)


def check_locs(run, text, file_json, rep):
    data = text.encode()
    n = len(data)
    starts = [0] + [i + 1 for i, b in enumerate(data) if b == 10]
    nodes = []
    walk_locs(file_json["declarations"], nodes)
    walk_locs(file_json["comments"], nodes, "/comments")
    nodes.append(("/endianness", file_json["endianness"], None))
    import bisect
    for path, nd, ploc in nodes:
        l = nd["loc"]
        s, e = l["start"], l["end"]
        bad = None
        if not (0 <= s["offset"] <= e["offset"] <= n):
            bad = "range %d..%d outside the file (%d bytes) or unordered" % (s["offset"], e["offset"], n)
        else:
            for p in (s, e):
                line = bisect.bisect_right(starts, p["offset"]) - 1
                if p["line"] != line or p["column"] != p["offset"] - starts[line]:
                    bad = "line/column %d:%d inconsistent with byte offset %d (expected %d:%d)" % (
                        p["line"], p["column"], p["offset"], line, p["offset"] - starts[line])
            seg = data[s["offset"]:e["offset"]].decode(errors="replace")
            first = None
            if "id" in nd and nd.get("kind") in ("scalar_field", "typedef_field", "array_field", "tag", "constraint"):
                first = nd["id"]
            elif nd.get("kind", "").endswith("_declaration") and nd.get("kind") != "endianness_declaration":
                first = nd["kind"].split("_declaration")[0]
            elif path.startswith("/comments"):
                first = "/"
            if first is not None and not seg.startswith(first):
                bad = "range does not start at the node's text: %r (expected to start with %r)" % (seg[:30], first)
            # a node's text contains the text of its parts: the range of a sub-node (a field's condition, a
            # declaration's constraints and fields, an enum's tags, a range's nested tags ...) lies inside its parent's
            if bad is None and ploc is not None and not (ploc["start"]["offset"] <= s["offset"] and e["offset"] <= ploc["end"]["offset"]):
                bad = "nested range %d..%d is not inside the range %d..%d of the enclosing node (%r)" % (
                    s["offset"], e["offset"], ploc["start"]["offset"], ploc["end"]["offset"],
                    data[ploc["start"]["offset"]:ploc["end"]["offset"]].decode(errors="replace")[:40])
        if bad:
            run.violation("impl", "source range of %s: %s" % (path, bad), dict(rep, node=path, loc=l,
                          signature={"class": "loc", "what": bad.split(" ")[0]}))
            return False
    return True


class GiveUp(Exception):
    pass


def main(argv):
    a = C.std_args(argv)
    run = C.Run("C12", a.tier, a.seed)
    rng = random.Random(a.seed)
    proof = C.proof_audit("C12")
    ok, out = C.build_driver()
    if not ok:
        run.violation("corr", "pdl-driver does not build: " + out[-500:], {"stage": "build"}, found_input=False)
        return run.finish(proof)
    drv, mdl = C.driver(), C.pdlv()
    # the model parser runs the grammar translated from /repo's parser.rs on this run; the theorems and the
    # tree-to-AST model were written against the transcribed copy, so the two are compared rule by rule
    same_grammar, ginfo = C.use_translated_grammar(mdl, run)
    n = 40 if a.tier == "quick" else 400
    opts = GD.Opts(greedy_structs=True, copy_parents=False, array_modifier=True)

    model_timeouts = [0]
    driver_deaths = [0]

    def both(text, kind):
        r = drv.ask({"op": "parse", "text": text})
        m = mdl.ask({"op": "parse", "text": text}, timeout=120) if model_timeouts[0] < 3 else None
        if m is None and model_timeouts[0] < 3:
            model_timeouts[0] += 1
        run.case((text,))
        run.hist("texts", kind)
        rep = {"pdl": text, "kind": kind}
        if r is None or r.get("status") == "panic":
            run.violation("impl", "the parser crashed or did not return within %ds: %s" % (int(drv.timeout), (r or {}).get("message") or drv.last_death),
                          dict(rep, signature={"class": "panic"}))
            if r is None:
                driver_deaths[0] += 1
                if driver_deaths[0] >= 4:
                    # (a parser that hangs does so on many texts: each costs the time limit; four are enough to report)
                    raise GiveUp()
            return None
        run.hist("outcomes", r.get("status"))
        if not m:
            if model_timeouts[0] <= 3:
                run.violation("corr", "parser model failed / timed out", dict(rep, corr="corr:C12/parse"), found_input=False)
                if model_timeouts[0] == 3:
                    model_timeouts[0] += 1      # (reported three times; the model is not asked again in this run)
            return r
        same = r.get("status") == m.get("status")
        if same and r["status"] == "ok":
            f = r["file"]
            same = (canon(f["declarations"]) == canon(m["declarations"]) and
                    f["endianness"]["value"] == m["endianness"]["value"] and
                    canon(f["endianness"]["loc"]) == canon(m["endianness"]["loc"]) and
                    canon([(c["loc"], c["text"]) for c in f["comments"]]) == canon([(c["loc"], c["text"]) for c in m["comments"]]))
        if same:
            run.count("model_agrees")
        else:
            if not same_grammar:
                # the model runs the reference grammar, /repo's grammar has changed: this text is parsed differently
                run.violation("impl", "parser::parse_inline and the reference grammar (Pdlv.Syntax, pest semantics) disagree on a %s text "
                              "(real %s, reference %s %s)" % (kind, r.get("status"), m.get("status"), m.get("kind", "")),
                              dict(rep, real_status=r.get("status"), real_message=r.get("message"), model_status=m.get("status"),
                                   model_kind=m.get("kind"), signature={"class": "grammar-changed"}))
            else:
                run.violation("corr", "parser model and parser::parse_inline disagree on a %s text (real %s, model %s %s)"
                              % (kind, r.get("status"), m.get("status"), m.get("kind", "")),
                              dict(rep, real_status=r.get("status"), real_message=r.get("message"), model_status=m.get("status"),
                                   model_kind=m.get("kind"), corr="corr:C12/parse (acceptance, AST, source ranges, comments)"),
                              found_input=False)
        return r

    try:
        for k in range(n):
            text, g = GD.generate(rng, opts, n_packets=rng.choice([1, 2]), trees=rng.choice([0, 1]))
            plain = both(text, "generated")
            if not plain or plain.get("status") != "ok":
                if plain is not None:
                    run.violation("impl", "a syntactically valid generated description does not parse: %s" % plain.get("message"),
                                  {"pdl": text, "signature": {"class": "valid-rejected"}})
                continue
            want = canon(strip(plain["file"]["declarations"]))
            check_locs(run, text, plain["file"], {"pdl": text})
            # print -> parse
            endian = plain["file"]["endianness"]["value"].replace("_endian", "_endian")
            printed = printer(plain["file"], "little_endian" if "little" in endian else "big_endian")
            rp = both(printed, "printed")
            if rp and (rp.get("status") != "ok" or canon(strip(rp["file"]["declarations"])) != want):
                run.violation("impl", "printing the AST back as PDL and parsing again does not give an equal AST",
                              {"pdl": printed, "original": text, "signature": {"class": "print-parse"}})
            # randomized concrete syntax: same AST
            for _ in range(3 if a.tier == "quick" else 8):
                t2 = render(rng, text)
                r2 = both(t2, "rendered")
                if not r2:
                    continue
                rep = {"pdl": t2, "original": text}
                if r2.get("status") != "ok":
                    has_upper = bool(re.search(r"\b0X[0-9a-fA-F]", t2))
                    run.violation("impl", "a re-rendering of a valid description (same tokens; radix/case of literals, whitespace, "
                                  "comments, trailing commas) is rejected: %s" % r2.get("message"),
                                  dict(rep, signature={"class": "rendered-rejected", "upper_hex": has_upper,
                                                       "message": str(r2.get("message"))[:40]}))
                    continue
                if canon(strip(r2["file"]["declarations"])) != want:
                    run.violation("impl", "a re-rendering of a valid description parses to a different AST",
                                  dict(rep, signature={"class": "rendered-ast"}))
                check_locs(run, t2, r2["file"], rep)
            for kind, t3 in near_misses(rng, text)[: (10 if a.tier == "quick" else 40)]:
                r3 = both(t3, "near-miss:" + kind)
                if r3 and r3.get("status") == "ok":
                    check_locs(run, t3, r3["file"], {"pdl": t3})
            run.sample({"pdl": text[:200]}, limit=3)
    except GiveUp:
        run.count("gave_up_after_parser_timeouts")
    # SourceLocation::new itself
    for _ in range(300 if a.tier == "quick" else 3000):
        ls = sorted(set(rng.randrange(0, 200) for _ in range(rng.randint(0, 8))))
        if rng.random() < 0.8:
            ls = [0] + [x for x in ls if x > 0]
        if rng.random() < 0.1:
            rng.shuffle(ls)
        off = rng.randrange(0, 260)
        x = drv.ask({"op": "srcloc", "offset": off, "line_starts": ls})
        y = mdl.ask({"op": "srcloc", "offset": off, "line_starts": ls})
        run.case(("srcloc", off, tuple(ls)))
        if not x or not y or any(x.get(k) != y.get(k) for k in ("offset", "line", "column")):
            run.violation("corr", "SourceLocation::new model and implementation disagree on offset %d, line_starts %s: %s vs %s" % (off, ls, x, y),
                          {"offset": off, "line_starts": ls, "corr": "corr:C12/srcloc (theorem Pdlv.Syntax.srcloc_correct)"}, found_input=False)
    drv.kill()
    mdl.kill()
    if ginfo.get("translated") and not same_grammar:
        # the comparisons above ran the model on the NEW grammar: whatever they report comes with its input; the
        # broken translation validation is reported on its own when they found nothing
        run.violation("corr", "the grammar of parser.rs differs from the transcribed grammar in rules %s" % ginfo.get("differing_rules"),
                      {"corr": "translation:C12/grammar (Pdlv.Syntax.grammar)", "differing_rules": ginfo.get("differing_rules")},
                      found_input=False)
    return run.finish(proof, extra_cov={
        "rule": "generated descriptions; their re-renderings with randomized concrete syntax; the printed AST; near-miss "
                "texts (deleted/inserted characters, glued keywords, keyword followed by a comment, unterminated comment/"
                "string, missing endianness, huge integers, keyword-like identifiers); a case = one source text"})


if __name__ == "__main__":
    sys.exit(main(sys.argv[1:]))
