"""Shared driver for the Rust wire-format properties.  One corpus, one harness build, the same
case families; each property applies its own oracle and reports only its own violations.

  C01  decode never panics / suffix / decode_mut untouched           (byte strings)
  C02  encode ; decode_full = id, also through ancestors             (in-range values)
  C04  decode_full accepts exactly the reference language, canonical re-encoding, fault classes
  C05  encode: no panic, errors for out-of-range, len = encoded_len  (all values)
  C18  Packet trait laws                                             (both)
"""
import json
import os
import random
import sys
import time

sys.path.insert(0, os.path.dirname(os.path.dirname(os.path.abspath(__file__))))
from vlib import common as C
from vlib import gen_descr as GD
from vlib import gen_value as GV
from vlib import wirerun as W

CORPUS_DIR = os.path.join(C.VERIF, "corpus", "wire")

FAULTS = ["scalar_out", "elem_out", "count_over", "size_over", "payload_over", "esize_mismatch", "inconsistent"]


def corpus_texts():
    out = []
    if os.path.isdir(CORPUS_DIR):
        for f in sorted(os.listdir(CORPUS_DIR)):
            if f.endswith(".pdl"):
                out.append(open(os.path.join(CORPUS_DIR, f)).read())
    return out


def sizes(tier):
    if tier == "thorough":
        return dict(n_desc=150, values=12, fault_values=6, random_strings=12)
    return dict(n_desc=30, values=5, fault_values=3, random_strings=6)


def replay_sig(**kw):
    return dict(kw)


class WireCheck:
    def __init__(self, prop, argv, opts=None):
        self.prop = prop
        self.a = C.std_args(argv)
        self.run = C.Run(prop, self.a.tier, self.a.seed)
        self.opts = opts or GD.Opts()
        self.sz = sizes(self.a.tier)
        self.rng = random.Random(self.a.seed * 7919 + 13)
        self.co = None

    def setup(self):
        self.proof = C.proof_audit(self.prop)
        ok, out = C.build_driver()
        if not ok:
            self.run.violation("corr", "pdl-driver does not build against /repo: " + out[-800:],
                               {"stage": "build-driver"}, found_input=False)
            return False
        texts = corpus_texts()
        if self.a.replay:
            rp = json.load(open(self.a.replay)).get("replay", {})
            if rp.get("pdl"):
                texts = [rp["pdl"]] + texts
        self.co = W.Corpus(self.run, self.a.tier, self.a.seed, self.sz["n_desc"], self.opts, tag="wire",
                           extra_texts=texts)
        self.co.generate()
        if not self.co.build():
            return False
        return True

    def finish(self, **kw):
        if self.co:
            self.co.close()
        return self.run.finish(self.proof, **kw)

    # -- case producers ----------------------------------------------------------
    def values(self, i, T, n, faults=False):
        d = self.co.descs[i]
        out = []
        for _ in range(n):
            out.append(GV.gen_value(d["types"], T, self.rng, None))
        if faults:
            for f in FAULTS:
                for _ in range(self.sz["fault_values"]):
                    v, inj = GV.gen_value(d["types"], T, self.rng, f)
                    if inj is not None:
                        out.append((v, inj))
                        break
        return out

    def impl(self, i, T, op, arg):
        r = self.co.harness.ask(i, T, op, arg)
        return r
