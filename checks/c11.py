"""C11 — compilation is a deterministic pure function of the source, on every front-end.

Proof:  Pdlv/Thm/C11.lean — over the models of the passes that consult hash maps in the real code: the result
        is a function of the declaration / field *lists* only (desugar_flags lists the optional fields of a
        flag in field order; the specialize match is emitted from sorted identifiers and is unchanged by any
        permutation of the order in which children and constraints are gathered; exclusion of a leaf
        declaration commutes with the per-declaration passes).
Tie:    for every accepted description of every back end's class
          * the analyzed AST and the output of backends::{json,rust,python,cxx,java}::generate are compared
            byte for byte between two calls in one process and across k fresh processes (fresh hash seeds),
            and with the stdout of the `pdlc` binary built from /repo (CLI vs library call);
          * the Lean analyzer model (a function) is compared with the analyzed AST of every process;
          * `pdlc --exclude-declaration X` for every set of unreferenced, childless leaves: the code blocks of
            all declarations unrelated to X are unchanged;
          * a crate using #[pdl_inline] (pdl-derive built from /repo) is compiled next to the CLI-generated
            modules and both are driven with the same encode / decode requests.
"""
import hashlib
import itertools
import json
import os
import random
import re
import shutil
import subprocess
import sys

sys.path.insert(0, os.path.dirname(os.path.dirname(os.path.abspath(__file__))))
from vlib import common as C
from vlib import gen_descr as GD
from vlib import gen_groups as GG
from vlib import gen_value as GV
from vlib import rustgen

WORK = os.path.join(C.CACHE, "c11")
PDLC_TARGET = C.PDLC_TARGET
PDLC = C.PDLC
TEXT_BACKENDS = ["json", "rust", "python", "cxx"]
build_pdlc = C.build_pdlc


def dir_digest(d):
    h = {}
    for r, _, fs in os.walk(d):
        for f in fs:
            p = os.path.join(r, f)
            h[os.path.relpath(p, d)] = hashlib.sha1(open(p, "rb").read()).hexdigest()
    return h


def shared_flag_texts(rng):
    """Shapes whose analysis goes through hash maps with more than one entry."""
    out = []
    for n in (2, 3, 5):
        fl = ["p: 1", "_reserved_: 7"] + ["o%d: %s if p = %d" % (i, rng.choice(["8", "16", "Inner"]), rng.choice([0, 1])) for i in range(n)]
        out.append("little_endian_packets\nstruct Inner { v: 8 }\npacket Shared%d {\n  %s\n}\n" % (n, ",\n  ".join(fl)))
    kids = "".join("packet K%d : Root (t = %d%s) { x%d: %d }\n" % (i, i % 4, (", u = %d" % (i // 4)) if i >= 4 else "", i, 8 * (1 + i % 3)) for i in range(9))
    out.append("big_endian_packets\npacket Root { t: 8, u: 8, _payload_ }\n" + kids)
    sib = "".join("struct Z%s : Base (k = %d) { %s: 8 }\n" % (c, i, c.lower()) for i, c in enumerate("QWERTYUIOP"))
    out.append("little_endian_packets\nstruct Base { k: 8, _payload_ }\n" + sib)
    enums = "".join("enum E%d : 8 { A%d = %d, B%d = %d..%d, O%d = .. }\n" % (i, i, i, i, 10 + i, 20 + i, i) for i in range(6))
    out.append("little_endian_packets\n" + enums + "packet UsesEnums { %s }\n" % ", ".join("e%d: E%d" % (i, i) for i in range(6)))
    return out


HEADER = {
    "rust": re.compile(r"^(pub(\([a-z]+\))? )?(struct|enum|impl|fn|mod|trait|type|const|static|use|macro_rules)\b"),
    "python": re.compile(r"^(class|def) "),
    "cxx": re.compile(r"^(class|struct|enum|template|inline|using|namespace|constexpr|static|typedef)\b|^\}\s*//"),
}
PRELUDE_LINE = re.compile(r"^(#\[|#!\[|@|///|//|#|$)")


def mentions(text, names):
    return any(re.search(r"(?<![A-Za-z0-9])%s(?![a-z0-9])" % re.escape(n), text) for n in names)


def items(text, lang):
    """Top-level items of emitted code: a header line in column 0 (struct / impl / class / def ...) opens an
    item; attributes, decorators and comments in column 0 directly before a header belong to it."""
    hdr = HEADER[lang]
    out, cur, pending = [], [], []
    for line in text.splitlines():
        if hdr.match(line):
            if cur:
                out.append("\n".join(cur))
            cur = pending + [line]
            pending = []
        elif PRELUDE_LINE.match(line):
            pending.append(line)
        else:
            cur += pending + [line]
            pending = []
    cur += pending
    if cur:
        out.append("\n".join(cur))
    return [x.strip("\n") for x in out]


def frame_violations(full, part, lang, rel):
    """Items of declarations unrelated to the excluded ones that are not identical in the two outputs."""
    import collections
    a = collections.Counter(x for x in items(full, lang) if not mentions(x, rel))
    b = collections.Counter(x for x in items(part, lang) if not mentions(x, rel))
    bad = []
    for x in (a - b):
        bad.append("- " + x[:300])
    for x in (b - a):
        bad.append("+ " + x[:300])
    return bad


def related(analyzed, x):
    """x, its ancestors, and (none, x is a leaf) — the declarations whose code may change."""
    idx = {d["id"]: d for d in analyzed["declarations"] if "id" in d}
    rel = {x}
    p = idx[x].get("parent_id")
    while p and p in idx:
        rel.add(p)
        p = idx[p].get("parent_id")
    return rel


def leaves(analyzed):
    """unreferenced, childless packet / struct declarations"""
    decls = [d for d in analyzed["declarations"] if "id" in d]
    refd = set()
    for d in decls:
        if d.get("parent_id"):
            refd.add(d["parent_id"])
        for f in d.get("fields", []):
            for k in ("type_id", "enum_id"):
                if f.get(k):
                    refd.add(f[k])
    return [d["id"] for d in decls if d["kind"] in ("packet_declaration", "struct_declaration") and d["id"] not in refd]


def run_pdlc(workdir, fmt, extra=()):
    cmd = [PDLC, "--output-format", fmt] + list(extra) + ["stdin"]
    p = subprocess.run(cmd, cwd=workdir, stdout=subprocess.PIPE, stderr=subprocess.PIPE, timeout=120, env=C.ENV)
    return p.returncode, p.stdout.decode(errors="replace"), p.stderr.decode(errors="replace")


DERIVE_TOML = """[package]
name = "c11-derive"
version = "0.1.0"
edition = "2021"

[workspace]

[features]
default = ["serde"]
serde = []

[dependencies]
pdl-runtime = { path = "%(repo)s/pdl-runtime" }
pdl-derive = { path = "%(repo)s/pdl-derive" }
bytes = { version = "1", features = ["serde"] }
serde = { version = "1", features = ["derive"] }
serde_json = "1"
thiserror = "1"

[profile.dev]
overflow-checks = true
debug-assertions = true
opt-level = 0
debug = false
incremental = false
codegen-units = 64
"""


class DeriveHarness(rustgen.RustHarness):
    """The rust-gen harness with every description present twice: module d<2i> holds the text written by the
    command-line generator, module d<2i+1> is `#[pdl_derive::pdl_inline(..)] mod`."""

    def assemble(self):
        super().assemble()
        tmpl = DERIVE_TOML % {"repo": C.REPO}
        rustgen.write_if_changed(os.path.join(self.dir, "Cargo.toml"), tmpl)
        for i, d in enumerate(self.descs):
            if d.get("derive"):
                body = ("#![allow(unused, non_camel_case_types, non_snake_case)]\n"
                        "#[pdl_derive::pdl_inline(r####\"%s\"####)]\npub mod inner {}\npub use inner::*;\n" % d["text"])
                rustgen.write_if_changed(os.path.join(self.dir, "src", "gen", "d%d.rs" % i), body)

    def build(self):
        self.bin = os.path.join(rustgen.TARGET, self.name, "debug", "c11-derive")
        return super().build()


def main(argv):
    a = C.std_args(argv)
    run = C.Run("C11", a.tier, a.seed)
    rng = random.Random(a.seed * 17 + 3)
    quick = a.tier == "quick"
    proof = C.proof_audit("C11")
    ok, out = C.build_driver()
    if not ok:
        run.violation("corr", "pdl-driver does not build: " + out[-500:], {"stage": "build"}, found_input=False)
        return run.finish(proof)
    ok, out = build_pdlc()
    if not ok:
        run.violation("corr", "pdlc does not build: " + out[-800:], {"stage": "build-pdlc"}, found_input=False)
        return run.finish(proof)
    shutil.rmtree(WORK, ignore_errors=True)
    os.makedirs(WORK, exist_ok=True)
    nproc = 4 if quick else 16
    drvs = [C.driver(timeout=60) for _ in range(nproc)]
    mdl = C.pdlv(timeout=120)

    # ---- corpus ---------------------------------------------------------------------------------
    texts = []
    if a.replay:
        rp = json.load(open(a.replay)).get("replay", {})
        if rp.get("pdl"):
            texts.append(("replay", rp["pdl"]))
    cdir = os.path.join(C.VERIF, "corpus", "c11")
    if os.path.isdir(cdir):
        for f in sorted(os.listdir(cdir)):
            if f.endswith(".pdl"):
                texts.append(("corpus", open(os.path.join(cdir, f)).read()))
    for t in shared_flag_texts(rng):
        texts.append(("hash-map-shapes", t))
    for b in ["rust", "python", "cxx", "java"]:
        o = GD.Opts.for_backend(b)
        o.greedy_structs, o.copy_parents, o.overlap_siblings = True, False, (b == "rust")
        for k in range(5 if quick else 40):
            text, g = GD.generate(rng, o, n_packets=rng.randint(1, 3), trees=rng.choice([1, 1, 2]) if o.inheritance else 0)
            texts.append(("class-" + b, text))
    for k in range(4 if quick else 30):
        texts.append(("groups", GG.gen(rng)[0]))
    for k in range(6 if quick else 40):
        texts.append(("shared-groups", GG.gen_shared(rng, force={0: "plain-first", 1: "plain-last"}.get(k))[0]))
    for k in range(4 if quick else 30):
        texts.append(("shared-payload-groups", GG.gen_shared_payload(rng)[0]))

    # ---- determinism --------------------------------------------------------------------------
    accepted = []
    for fam, text in texts:
        r0 = drvs[0].ask({"op": "analyze", "text": text, "with_parsed": True})
        run.case((text,))
        run.hist("families", fam)
        if r0 is None or r0.get("status") != "ok":
            run.hist("skipped", (r0 or {}).get("status", "dead"))
            continue
        analyzed0 = json.dumps(r0["file"], sort_keys=True)
        # model: a function of the parsed file
        m = mdl.ask({"op": "analyze", "file": r0["parsed"]}, timeout=120)
        if not m or m.get("status") != "ok" or json.dumps(m["declarations"], sort_keys=True) != json.dumps(r0["file"]["declarations"], sort_keys=True):
            run.violation("corr", "analyzer model and analyzer::analyze disagree on the analyzed declarations",
                          {"pdl": text, "corr": "corr:C11/analyze (analyzed AST is the model's function of the source)"}, found_input=False)
        outs = {}
        wd = os.path.join(WORK, hashlib.sha1(text.encode()).hexdigest()[:12])
        os.makedirs(wd, exist_ok=True)
        with open(os.path.join(wd, "stdin"), "w") as f:
            f.write(text)
        bad = False
        for p, drv in enumerate(drvs):
            for rep in range(2):
                ra = drv.ask({"op": "analyze", "text": text})
                if ra is None or ra.get("status") != "ok" or json.dumps(ra["file"], sort_keys=True) != analyzed0:
                    run.violation("impl", "the analyzed AST differs between two compilations of the same source (process %d, call %d)" % (p, rep),
                                  {"pdl": text, "stage": "analyze", "signature": {"stage": "analyze", "class": "nondeterministic"}})
                    bad = True
                for b in TEXT_BACKENDS + ["java"]:
                    if b != "json" and not __import__("checks.c10", fromlist=["supports"]).supports(b, r0["file"]):
                        continue
                    req = {"op": "gen", "backend": b, "text": text}
                    if b == "cxx":
                        req["namespace"] = "c11"
                    if b == "java":
                        jd = os.path.join(wd, "java-%d-%d" % (p, rep))
                        shutil.rmtree(jd, ignore_errors=True)
                        os.makedirs(jd)
                        req.update({"output_dir": jd, "package": "p"})
                    g = drv.ask(req)
                    if g is None or g.get("status") != "ok":
                        val = ("failed", (g or {}).get("status"))
                    elif b == "java":
                        val = ("ok", json.dumps(dir_digest(jd), sort_keys=True))
                    else:
                        val = ("ok", g["text"])
                    if b not in outs:
                        outs[b] = val
                    elif outs[b] != val:
                        where = first_diff(outs[b][1], val[1]) if outs[b][0] == val[0] == "ok" and b != "java" else (outs[b][0], val[0])
                        run.violation("impl", "the %s output differs between two compilations of the same source (process %d, call %d): %s"
                                      % (b, p, rep, str(where)[:300]),
                                      {"pdl": text, "stage": "gen", "backend": b, "difference": where,
                                       "signature": {"stage": "gen", "backend": b, "class": "nondeterministic"}})
                        bad = True
                    run.count("generate_calls")
        # a process with no history: every driver above has compiled all the earlier texts of this run (the same ones, in
        # the same order), so state that survives between two compilations in one process is invisible to their comparison;
        # a fresh process compiles this text only
        fresh = C.driver(timeout=60)
        for b in list(outs):
            req = {"op": "gen", "backend": b, "text": text}
            if b == "cxx":
                req["namespace"] = "c11"
            if b == "java":
                jd = os.path.join(wd, "java-fresh")
                shutil.rmtree(jd, ignore_errors=True)
                os.makedirs(jd)
                req.update({"output_dir": jd, "package": "p"})
            g = fresh.ask(req)
            if g is None or g.get("status") != "ok":
                val = ("failed", (g or {}).get("status"))
            elif b == "java":
                val = ("ok", json.dumps(dir_digest(jd), sort_keys=True))
            else:
                val = ("ok", g["text"])
            run.count("fresh_process_calls")
            if outs[b] != val:
                where = first_diff(outs[b][1], val[1]) if outs[b][0] == val[0] == "ok" and b != "java" else \
                    (first_diff(outs[b][1], val[1]) if outs[b][0] == val[0] == "ok" else (outs[b][0], val[0]))
                run.violation("impl", "the %s output of a process that compiled other descriptions before differs from that of a fresh process: %s"
                              % (b, str(where)[:300]),
                              {"pdl": text, "stage": "gen", "backend": b, "difference": where,
                               "signature": {"stage": "gen", "backend": b, "class": "history-dependent"}})
                bad = True
        fresh.kill()
        # CLI vs library
        for b in TEXT_BACKENDS:
            if b not in outs or outs[b][0] != "ok":
                continue
            extra = ["--namespace", "c11"] if b == "cxx" else []
            for rep in range(2 if quick else 4):
                rc, so, se = run_pdlc(wd, b, extra)
                run.count("pdlc_runs")
                # main.rs prints the generated text with println!/print!: one optional trailing newline
                if rc != 0 or so not in (outs[b][1], outs[b][1] + "\n"):
                    run.violation("impl", "pdlc --output-format %s differs from backends::%s::generate on the same source: %s"
                                  % (b, b, ("exit %d %s" % (rc, se[-200:])) if rc else str(first_diff(outs[b][1], so))[:300]),
                                  {"pdl": text, "stage": "cli", "backend": b,
                                   "signature": {"stage": "cli", "backend": b, "class": "cli-differs"}})
                    bad = True
                    break
        if not bad:
            accepted.append((fam, text, r0["file"], outs, wd))

    # ---- exclusion frame ------------------------------------------------------------------------
    for fam, text, analyzed, outs, wd in accepted:
        lv = leaves(analyzed)
        if not lv:
            continue
        sets = [[x] for x in lv]
        if len(lv) > 1:
            sets += [list(c) for c in itertools.combinations(lv, 2)][: (2 if quick else 12)]
        sets = sets[: (4 if quick else 24)]
        names = [d["id"] for d in analyzed["declarations"] if "id" in d]
        for xs in sets:
            rel = set()
            for x in xs:
                rel |= related(analyzed, x)
            for b in ["rust", "python", "cxx"]:
                if b not in outs or outs[b][0] != "ok":
                    continue
                extra = (["--namespace", "c11"] if b == "cxx" else [])
                for x in xs:
                    extra += ["--exclude-declaration", x]
                rc, so, se = run_pdlc(wd, b, extra)
                run.count("exclusion_runs")
                run.case((text, tuple(xs), b))
                if rc != 0:
                    # excluding a leaf may leave a parent without the children its payload needs? no: leaves are childless
                    run.violation("impl", "pdlc --exclude-declaration %s fails (exit %d): %s" % (xs, rc, se[-300:]),
                                  {"pdl": text, "stage": "exclude", "backend": b, "excluded": xs,
                                   "signature": {"stage": "exclude", "backend": b, "class": "fails"}})
                    continue
                diff = frame_violations(outs[b][1], so, b, rel)
                if diff:
                    run.violation("impl", "excluding %s changes the %s code of unrelated declarations: %s" % (xs, b, str(diff[:3])[:300]),
                                  {"pdl": text, "stage": "exclude", "backend": b, "excluded": xs, "difference": diff[:20],
                                   "signature": {"stage": "exclude", "backend": b, "class": "frame"}})
                # what remains must not mention the excluded declaration at all (python / cxx skip it; rust never sees it)
                if b in ("python", "cxx"):
                    for x in xs:
                        if re.search(r"\bclass %s(View|Builder)?\b" % re.escape(x), so):
                            run.violation("impl", "excluded declaration %s is still emitted by the %s back end" % (x, b),
                                          {"pdl": text, "stage": "exclude", "backend": b, "excluded": xs,
                                           "signature": {"stage": "exclude", "backend": b, "class": "still-emitted"}})

    # ---- derive vs CLI ----------------------------------------------------------------------------
    cands = [(fam, text, analyzed, outs) for fam, text, analyzed, outs, wd in accepted
             if outs.get("rust", ("", ""))[0] == "ok" and "custom_field_declaration" not in {d["kind"] for d in analyzed["declarations"]}]
    rng.shuffle(cands)
    cands = cands[: (10 if quick else 60)]
    descs = []
    for fam, text, analyzed, outs in cands:
        descs.append({"text": text, "analyzed": analyzed, "rust": outs["rust"][1]})
        descs.append({"text": text, "analyzed": analyzed, "rust": "", "derive": True})
    if descs:
        h = DeriveHarness("c11-" + a.tier, descs)
        if not h.build():
            log = h.build_log
            badm = sorted(set(int(m) for m in re.findall(r"src/gen/d(\d+)\.rs:\d+:\d+: error", log)))
            derive_only = [i for i in badm if i % 2 == 1 and (i - 1) not in badm]
            if derive_only:
                i = derive_only[0]
                run.violation("impl", "the #[pdl_inline] module does not compile although the module written by pdlc for the same source does: %s"
                              % [l for l in log.splitlines() if ("d%d.rs" % i) in l][:2],
                              {"pdl": descs[i]["text"], "stage": "derive", "signature": {"stage": "derive", "class": "does-not-compile"}})
            else:
                run.violation("corr", "derive harness build failed: %s" % log[-1200:], {"stage": "derive-build"}, found_input=False)
        else:
            for k in range(0, len(descs), 2):
                d = descs[k]
                types = GV.Types(d["analyzed"])
                for x in d["analyzed"]["declarations"]:
                    if x["kind"] not in ("packet_declaration", "struct_declaration"):
                        continue
                    T = x["id"]
                    for _ in range(3 if quick else 8):
                        v, _inj = GV.gen_value(types, T, rng, None)
                        e1, e2 = h.ask(k, T, "enc", v), h.ask(k + 1, T, "enc", v)
                        run.case((d["text"], T, json.dumps(v, sort_keys=True)))
                        run.count("derive_requests", 2)
                        if e1 != e2:
                            run.violation("impl", "%s: encode of the #[pdl_inline] module and of the pdlc-generated module differ: %s / %s" % (T, str(e2)[:120], str(e1)[:120]),
                                          {"pdl": d["text"], "type": T, "value": v, "stage": "derive", "signature": {"stage": "derive", "class": "behaviour"}})
                            continue
                        if e1.get("r") == "ok":
                            hx = e1["hex"]
                            for s in (hx, hx[:-2], hx + "00", hx[:2] + ("ff" * 3)):
                                d1, d2 = h.ask(k, T, "dec", s), h.ask(k + 1, T, "dec", s)
                                run.count("derive_requests", 2)
                                d1.pop("peak", None); d2.pop("peak", None)
                                if d1 != d2:
                                    run.violation("impl", "%s: decode(%s) of the #[pdl_inline] module and of the pdlc-generated module differ" % (T, s[:40]),
                                                  {"pdl": d["text"], "type": T, "input_hex": s, "stage": "derive", "signature": {"stage": "derive", "class": "behaviour"}})
            h.close()
        run.cov["derive_descriptions"] = len(descs) // 2
    for d in drvs:
        d.kill()
    mdl.kill()
    run.cov["processes"] = nproc
    return run.finish(proof, extra_cov={
        "rule": "a case = one source text compiled 2x in each of k driver processes (fresh hash seeds) for the analyzed AST and every "
                "back end, plus pdlc runs, plus one case per (description, excluded leaf set, back end), plus one per derive-vs-CLI value",
        "observed_not_proved": "byte identity of the whole output across processes is observed over these runs; the theorems cover the "
                               "modelled passes (order independence of what the real code keeps in hash maps)"})


def first_diff(a, b):
    if not isinstance(a, str) or not isinstance(b, str):
        return (a, b)
    la, lb = a.splitlines(), b.splitlines()
    for i, (x, y) in enumerate(zip(la, lb)):
        if x != y:
            return {"line": i + 1, "a": x[:200], "b": y[:200]}
    return {"line": min(len(la), len(lb)) + 1, "a_lines": len(la), "b_lines": len(lb)}


if __name__ == "__main__":
    sys.exit(main(sys.argv[1:]))
