"""C13 — Python back end: conformance, round trip, and only DecodeError on bad input.

Proof:  Pdlv/Thm/C13.lean — the model of the parser / serializer python.rs emits (Pdlv.Py) agrees with the reference on
        Py.wfBody / writes Ref.encode; Pdlv/Thm/C13_spec.lean — the model of the try-each-child specialization
        (Pdlv.PySpec): whatever parse_all returns is reached by the reference's decode_partial with the same values, and
        the parent is kept only when the reference accepts no child (python_specialization_is_sound,
        python_keeps_the_parent_only_if_no_child_fits).
Tie:    the module emitted by the pdlc built from /repo is imported in a child process (both
        endiannesses); serialize() vs Ref.encode, parse_all(serialize(v)) vs v, parse_all(b) vs the
        reference decoder on reference encodings, single-fault mutants, all prefixes and random strings;
        `.size` vs len(serialize()).
"""
import os
import sys

sys.path.insert(0, os.path.dirname(os.path.dirname(os.path.abspath(__file__))))
from vlib import common as C
from vlib import gen_value as GV
from vlib import wirerun as W
from checks import backend_common as B

NON_DECODE_EXC = ("IndexError", "ValueError", "KeyError", "TypeError", "OverflowError", "AttributeError",
                  "ZeroDivisionError", "AssertionError", "RecursionError", "MemoryError", "error")


def corpus_texts():
    d = os.path.join(B.CORPUS, "python")
    if not os.path.isdir(d):
        return []
    return [open(os.path.join(d, f)).read() for f in sorted(os.listdir(d)) if f.endswith(".pdl")]


def root_of(types, T):
    return types.parent_chain(types.decls[T])[-1]["id"]


def main(argv):
    a = C.std_args(argv)
    run = C.Run("C13", a.tier, a.seed)
    proof = C.proof_audit("C13")
    ok, out = C.build_driver()
    if not ok:
        run.violation("corr", "pdl-driver does not build: " + out[-500:], {"stage": "build"}, found_input=False)
        return run.finish(proof)
    n = 30 if a.tier == "quick" else 200
    be = B.Backend(run, "python", a.tier, a.seed, n, extra_texts=corpus_texts())
    be.generate()
    if not be.build():
        be.close()
        return run.finish(proof)
    nvals = 4 if a.tier == "quick" else 10
    for i, d in enumerate(be.descs):
        types = d["types"]
        all_seeds, roots = {}, []
        for T in be.types(i):
            decl = types.decls[T]
            chain = types.parent_chain(decl)
            root = chain[-1]["id"]
            tags = B.features_of(chain, types)
            has_kids = any(x.get("parent_id") == T for x in types.decls.values())
            vals = [GV.gen_value(types, T, be.rng)[0] for _ in range(nvals)]
            refs = be.model(i, T, [{"k": "ref", "v": v} for v in vals])
            if not isinstance(refs, list):
                run.hist("model_status", str(refs))
                continue
            # the Lean model of the serializer python.rs emits (Pdlv.Py.encBody), compared with serialize() below
            mser = be.model(i, T, [{"k": "pyenc", "v": v} for v in vals])
            mser = mser if isinstance(mser, list) else [None] * len(vals)
            # theorems python_serializer_writes_reference (root types) / python_child_serializer_writes_reference (children):
            # hypotheses on this layout, statements evaluated on every value the reference-mode encoder accepts
            hyps = be.model(i, T, [{"k": "len", "v": {}}])
            h0 = hyps[0] if isinstance(hyps, list) else {}
            ser_class = bool((h0.get("pyserwf") and h0.get("refwf")) if not decl.get("parent_id") else h0.get("pychildwf"))
            run.hist("theorem_hypotheses", "%s:%s" % ("Py.serWfBody&refWfBody" if not decl.get("parent_id") else "Py.serWfChild", ser_class))
            if ser_class:
                ide = be.model(i, T, [{"k": "enc", "v": v} for v in vals])
                for v, ms, ie in zip(vals, mser, ide if isinstance(ide, list) else []):
                    if ms is not None and ie.get("r") == "ok":
                        run.count("theorem_instances")
                        if ms.get("r") != "ok" or ms.get("hex") != ie.get("hex"):
                            run.violation("corr", "theorem python_%sserializer_writes_reference contradicted by evaluation on %s (model bug)"
                                          % ("child_" if decl.get("parent_id") else "", T),
                                          {"pdl": d["text"], "type": T, "value": v, "model": ms, "reference_mode_encoder": ie,
                                           "corr": "thm:python_serializer_writes_reference"}, found_input=False)
            seeds = []
            for (v, rf), ms in zip(zip(vals, refs), mser):
                if ms is not None and not (ms.get("r") == "panic" and ms.get("h") in ("badLayout", "badValue")):
                    rs = be.ask(i, T, "enc", v)
                    if rs.get("r") in ("ok", "err", "exception"):
                        same = (rs.get("r") == "ok") == (ms.get("r") == "ok") and (rs.get("r") != "ok" or rs.get("hex") == ms.get("hex"))
                        run.hist("py_serializer_model", "agree" if same else "disagree")
                        if not same:
                            run.violation("corr", "the model of the emitted Python serializer (Pdlv.Py.encBody) and serialize() disagree on %s: %s vs %s"
                                          % (T, ms.get("r"), rs.get("r")),
                                          {"pdl": d["text"], "type": T, "value": v, "python": rs, "model": ms,
                                           "corr": "corr:C13/py-serializer-model"}, found_input=False)
                if rf.get("r") != "ok":
                    continue
                run.case((d["text"], T, W.canon(v)))
                r = be.ask(i, T, "enc", v)
                rep = {"pdl": d["text"], "type": T, "value": v, "python": r, "reference": rf}
                run.hist("enc_outcomes", str(r.get("r")))
                if r.get("r") == "badvalue":
                    continue
                if r.get("r") != "ok":
                    rep["signature"] = {"class": "serialize-" + str(r.get("r")), "e": r.get("e"), **tags}
                    run.violation("impl", "python %s.serialize() of an in-range value -> %s %s" % (T, r.get("r"), r.get("e") or r.get("m", "")), rep)
                    continue
                if r["hex"] != rf["hex"]:
                    rep["signature"] = {"class": "bytes-differ", **tags}
                    run.violation("impl", "python %s.serialize() = %s, reference encoding %s" % (T, r["hex"][:60], rf["hex"][:60]), rep)
                    continue
                seeds.append(bytes.fromhex(r["hex"]))
                # size: for root packets and structs
                if not decl.get("parent_id") and r.get("len") is not None and r["len"] != len(r["hex"]) // 2:
                    rep["signature"] = {"class": "size", **tags}
                    run.violation("impl", "python %s.size = %s but len(serialize()) = %d" % (T, r["len"], len(r["hex"]) // 2), rep)
                # parse_all(serialize(v)) through the root (types of the round-trippable class only)
                if tags.get("unsized_padded_array"):
                    run.hist("skipped", "roundtrip:unsized-padded-array-out-of-class")
                    continue
                op = "dec" if root == T else "decroot"
                back = be.ask(i, T, op, r["hex"])
                if back.get("r") != "ok":
                    rep["parse"] = back
                    rep["signature"] = {"class": "roundtrip-" + str(back.get("r")), "e": back.get("e"), **tags}
                    run.violation("impl", "python parse_all(serialize(v)) for %s -> %s %s" % (T, back.get("r"), back.get("e") or ""), rep)
                elif back.get("type") == T and W.canon(back["value"]) != W.canon(v):
                    rep["parse"] = back
                    rep["signature"] = {"class": "roundtrip-value", **tags}
                    run.violation("impl", "python parse_all(serialize(v)) for %s has different field values" % T, rep)
                elif back.get("type") != T and not has_kids and all(x.get("constraints") for x in chain[:-1]) and not any(
                        y.get("parent_id") == x.get("parent_id") and y is not x and not y.get("constraints")
                        for x in chain[:-1] for y in types.decls.values()):
                    # (a sibling without constraints matches whatever its constrained siblings match: the description
                    #  does not determine the child, so the type returned is not compared)
                    rep["parse"] = back
                    rep["signature"] = {"class": "roundtrip-type", "got": back.get("type"), **tags}
                    run.violation("impl", "python parse_all(serialize(v)) of a %s returns a %s" % (T, back.get("type")), rep)
                else:
                    run.count("roundtrips_ok")
            all_seeds[T] = seeds
            if not decl.get("parent_id"):
                roots.append((T, tags, seeds))
        # parse_all on arbitrary bytes, root types (after every type of the description has been serialized, so
        # that the encodings of the descendants - and near misses of them - are among the inputs)
        for T, tags, seeds in roots:
            strings = [("empty", b"")]
            for k in run.known:
                w = k.get("witness", {})
                if w.get("pdl", "").strip() == d["text"].strip() and w.get("type") == T and w.get("input_hex") is not None:
                    strings.append(("witness", bytes.fromhex(w["input_hex"])))
            for s in seeds[:3]:
                strings.append(("valid", s))
                strings += GV.mutants(be.rng, s, 4 if a.tier == "quick" else 10)
            for D, dseeds in all_seeds.items():
                if D == T or root_of(types, D) != T:
                    continue
                for s in dseeds[:2]:
                    strings.append(("descendant", s))
                    # the head of a descendant's encoding holds the constrained fields: every other value nearby
                    for pos in range(min(3, len(s))):
                        for nb in ((s[pos] + 1) % 256, (s[pos] - 1) % 256, s[pos] ^ 0xff, 0):
                            if nb != s[pos]:
                                strings.append(("descendant-head", s[:pos] + bytes([nb]) + s[pos + 1:]))
            seen, uniq = set(), []
            for k, s in strings:
                if s not in seen:
                    seen.add(s)
                    uniq.append((k, s))
            mo = be.model(i, T, [{"k": "decfull", "hex": s.hex()} for _, s in uniq])
            if not isinstance(mo, list):
                continue
            # the Lean model of the parser python.rs emits (Pdlv.Py): compared with the emitted parser on every input
            mpy = be.model(i, T, [{"k": "pydecfull", "hex": s.hex()} for _, s in uniq])
            mpy = mpy if isinstance(mpy, list) else [None] * len(uniq)
            # the Lean model of the try-each-child specialization (Pdlv.PySpec), for root packets with children
            mspec = None
            if not decl.get("parent_id") and any(x.get("parent_id") == T for x in types.decls.values()) and be.load(i):
                rs = be.mdl.ask({"op": "inherit", "mode": "ideal", "cases": [{"k": "pyspec", "type": T, "hex": s.hex()} for _, s in uniq]}, timeout=300)
                if rs and rs.get("status") == "ok":
                    mspec = rs["out"]
            # theorem python_parser_agrees_with_reference: hypothesis on this layout, statement evaluated on the inputs
            hyp = be.model(i, T, [{"k": "len", "v": {}}])
            pywf = bool(isinstance(hyp, list) and hyp[0].get("pywf"))
            run.hist("theorem_hypotheses", "Py.wfBody:%s" % pywf)
            if pywf:
                for (kind, s), m, mp in zip(uniq, mo, mpy):
                    if mp is None:
                        continue
                    run.count("theorem_instances")
                    if (mp.get("r") == "ok") != (m.get("r") == "ok") or (mp.get("r") == "ok" and W.canon(mp.get("value")) != W.canon(m.get("value"))):
                        run.violation("corr", "theorem python_parser_agrees_with_reference contradicted by evaluation on %s (model bug)" % T,
                                      {"pdl": d["text"], "type": T, "input_hex": s.hex(), "corr": "thm:python_parser_agrees_with_reference"},
                                      found_input=False)
            for n_s, ((kind, s), m, mp) in enumerate(zip(uniq, mo, mpy)):
                r = be.ask(i, T, "dec", s.hex())
                if mspec is not None and r.get("r") in ("ok", "err"):
                    ms = mspec[n_s]
                    if ms.get("r") == "ok" and ms.get("wf"):
                        # theorem python_specialization_is_sound, evaluated: the reference reaches the returned packet
                        # with the returned values
                        run.count("theorem_instances")
                        run.hist("theorem_hypotheses", "PySpec.wfNode:True")
                        if m.get("r") != "ok":
                            okk = False
                        elif ms.get("type") == T:
                            okk = W.canon(ms.get("value")) == W.canon(m.get("value"))
                        else:
                            dn = be.model_down(i, T, ms["type"], m["value"])
                            okk = bool(dn) and dn.get("r") == "ok" and W.canon(dn["value"]) == W.canon(ms.get("value"))
                        if not okk:
                            run.violation("corr", "theorem python_specialization_is_sound contradicted by evaluation on %s %s (model bug)" % (T, s.hex()[:40]),
                                          {"pdl": d["text"], "type": T, "input_hex": s.hex(), "model": ms, "reference": m,
                                           "corr": "thm:python_specialization_is_sound"}, found_input=False)
                    if ms.get("r") in ("ok", "err"):
                        same = ms.get("r") == r.get("r") and (r.get("r") != "ok" or (ms.get("type") == r.get("type") and
                                                               W.canon(ms.get("value")) == W.canon(r.get("value"))))
                        run.hist("py_specialization_model", ("agree:%s" % r.get("r")) if same else "disagree")
                        if not same:
                            run.violation("corr", "the model of the emitted Python specialization (Pdlv.PySpec) and the emitted parser disagree on %s %s: %s %s vs %s %s"
                                          % (T, s.hex()[:40], ms.get("r"), ms.get("type"), r.get("r"), r.get("type")),
                                          {"pdl": d["text"], "type": T, "input_hex": s.hex(), "python": r, "model": ms,
                                           "corr": "corr:C13/py-specialization-model"}, found_input=False)
                    else:
                        run.hist("py_specialization_model", "not-modelled")
                # (an exception that is not a DecodeError, a hang or a crash of the emitted parser is judged by the
                #  property's own oracle below; the parser model has DecodeErrors only)
                if mp is not None and r.get("r") in ("ok", "err") and not (mp.get("r") == "panic" and mp.get("h") == "badLayout"):
                    cls_r = {"ok": "ok", "err": "err"}.get(r.get("r"), "crash")
                    cls_m = {"ok": "ok", "err": "err"}.get(mp.get("r"), "crash")
                    same = cls_r == cls_m and (cls_r != "ok" or r.get("type") != T or W.canon(r.get("value")) == W.canon(mp.get("value")))
                    run.hist("py_parser_model", "agree:" + cls_r if same else "disagree")
                    if not same:
                        run.violation("corr", "the model of the emitted Python parser (Pdlv.Py) and the emitted parser disagree on %s %s: %s vs %s"
                                      % (T, s.hex()[:40], mp.get("r"), r.get("r")),
                                      {"pdl": d["text"], "type": T, "input_hex": s.hex(), "python": r, "model": mp,
                                       "corr": "corr:C13/py-parser-model"}, found_input=False)
                else:
                    run.hist("py_parser_model", "not-modelled")
                run.case((d["text"], T, s))
                run.hist("dec_outcomes", str(r.get("r")) + (":" + str(r.get("e")) if r.get("r") in ("err", "exception") else ""))
                rep = {"pdl": d["text"], "type": T, "input_hex": s.hex(), "kind": kind, "python": r, "reference": m}
                if r.get("r") in ("exception", "timeout", "abort"):
                    rep["signature"] = {"class": "parse-" + r["r"], "e": r.get("e"), **tags,
                                        "reference": m.get("r")}
                    run.violation("impl", "python %s.parse_all(%s) raised %s (not a DecodeError)" % (T, s.hex()[:40], r.get("e") or r["r"]), rep)
                    continue
                if r.get("r") == "err":
                    if m.get("r") == "ok":
                        rep["signature"] = {"class": "rejects-valid", "e": r.get("e"), **tags}
                        run.violation("impl", "python %s.parse_all(%s) raises %s but the reference accepts it" % (T, s.hex()[:40], r.get("e")), rep)
                    continue
                if r.get("r") != "ok":
                    continue
                if m.get("r") != "ok":
                    rep["signature"] = {"class": "accepts-invalid", "reference_error": m.get("e"), **tags}
                    run.violation("impl", "python %s.parse_all(%s) accepts what the reference rejects (%s)" % (T, s.hex()[:40], m.get("e")), rep)
                    continue
                if r.get("type") == T:
                    if W.canon(r["value"]) != W.canon(m["value"]):
                        rep["signature"] = {"class": "value-mismatch", **tags}
                        run.violation("impl", "python %s.parse_all(%s): field values differ from the reference" % (T, s.hex()[:40]), rep)
                else:
                    down = be.model_down(i, T, r["type"], m["value"])
                    if not down or down.get("r") != "ok":
                        rep["model_down"] = down
                        ctags = B.features_of(types.parent_chain(types.decls[r["type"]]), types) if r.get("type") in types.decls else {}
                        outs = (down or {}).get("out") or [{}]
                        rep["signature"] = {"class": "specialized-to-unparsable-child", **tags,
                                            "child_error": (outs[0] or {}).get("e"), "child_reserved8": bool(ctags.get("reserved8"))}
                        run.violation("impl", "python %s.parse_all(%s) returned a %s although that child does not match / parse"
                                      % (T, s.hex()[:40], r["type"]), rep)
                    elif W.canon(down["value"]) != W.canon(r["value"]):
                        rep["model_down"] = down
                        rep["signature"] = {"class": "value-mismatch-child", **tags}
                        run.violation("impl", "python %s.parse_all(%s) -> %s: field values differ from the reference" % (T, s.hex()[:40], r["type"]), rep)
                    else:
                        run.count("specialized_ok")
            run.sample({"type": T, "strings": len(uniq)}, limit=4)
    be.close()
    return run.finish(proof, extra_cov={
        "rule": "python-class descriptions (no element-size/custom fields), both endiannesses; in-range values through "
                "serialize / size / parse_all; reference encodings, mutants, prefixes, random strings through parse_all of "
                "root types; a case = (description, type, value or byte string)"})


if __name__ == "__main__":
    sys.exit(main(sys.argv[1:]))
