"""C10 — the compiler never crashes and whatever it accepts becomes compilable code.

Proof:  Pdlv/Thm/C10.lean — over the model of the analyzer: which call sites can panic and exactly when
        (characterisations of every panic site), no-panic theorems for the passes under the invariant the
        parser guarantees, the pipeline decomposition `analyze_panic_sites`, the back-end precondition
        model `Pdlv.Backend` with the theorems that tie each precondition to the construct that breaks it.
Tie:    parser::parse_inline, analyzer::analyze and backends::{json,rust,python,cxx,java}::generate of the
        compiler built from /repo are run in the in-process driver (catch_unwind, 64 MiB stack, wall-clock
        watchdog; a dead or hung driver is a violation too) on
          * generated well-formed descriptions in randomized concrete syntax,
          * one rule-violating edit per analyzer rule, near-miss and token-mutated texts, random texts,
          * "absurd" files: every construct in every position with references into a small identifier pool,
        and each stage outcome is compared with the Lean models (PEG parser model: accept/reject; analyzer
        model: verdict, codes, *panic site*; back-end precondition model: which generator fails and why).
        The code emitted for accepted descriptions of each back end's class is compiled: cargo check against
        pdl-runtime (Rust), compile()+import (Python), g++ -fsyntax-only against packet_runtime.h (C++),
        javac (Java), json.loads (JSON).
"""
import concurrent.futures
import hashlib
import json
import os
import random
import re
import shutil
import subprocess
import sys
import time

sys.path.insert(0, os.path.dirname(os.path.dirname(os.path.abspath(__file__))))
from vlib import common as C
from vlib import gen_descr as GD
from vlib import gen_illformed as GI
from vlib import gen_absurd as GA
from vlib import gen_groups as GG
from checks import c12 as P12

BACKENDS = ["json", "rust", "python", "cxx", "java"]
WORK = os.path.join(C.CACHE, "c10")


# ---------------------------------------------------------------------------
# which constructs a back end supports (the property quantifies over those only)

def kinds(analyzed):
    ks = set()
    for d in analyzed["declarations"]:
        ks.add(d["kind"])
        if d["kind"] == "custom_field_declaration" and d.get("width") is None:
            ks.add("unsized_custom_field")
        for f in d.get("fields", []):
            ks.add(f["kind"])
            if f.get("cond"):
                ks.add("optional")
    return ks


UNSUPPORTED = {
    "json": set(),
    "rust": {"checksum_declaration", "checksum_field", "unsized_custom_field"},
    "python": {"checksum_declaration", "checksum_field", "elementsize_field", "custom_field_declaration"},
    "cxx": {"checksum_declaration", "checksum_field", "elementsize_field", "custom_field_declaration"},
    "java": {"checksum_declaration", "checksum_field", "elementsize_field", "custom_field_declaration",
             "optional", "flag_field", "padding_field"},
}


def supports(backend, analyzed):
    return not (kinds(analyzed) & UNSUPPORTED[backend])


def site_of(msg):
    """Panic message -> stable site id: text without numbers + source file (no line number)."""
    msg = msg or ""
    m = re.search(r"@ (\S+?):(\d+)\s*$", msg)
    where = os.path.basename(m.group(1)) if m else "?"
    text = msg[:m.start()] if m else msg
    text = re.sub(r"\d+", "N", text)
    text = re.sub(r"Decl \{.*", "Decl", text)
    return "%s @ %s" % (text.strip()[:70], where)


# ---------------------------------------------------------------------------
# compile stage

def write(path, content):
    os.makedirs(os.path.dirname(path), exist_ok=True)
    with open(path, "w") as f:
        f.write(content)


def compile_rust(items):
    """items: [(key, text, code)] -> {key: error summary} for those that do not compile."""
    root = os.path.join(WORK, "rustc")
    shutil.rmtree(os.path.join(root, "src"), ignore_errors=True)
    tmpl = os.path.join(C.VERIF, "harness", "rust-gen")
    toml = open(os.path.join(tmpl, "Cargo.toml")).read().replace("/repo/pdl-runtime", os.path.join(C.REPO, "pdl-runtime"))
    toml = toml.replace('name = "rust-gen"', 'name = "c10-compile"').replace('default = ["serde"]', 'default = []')
    write(os.path.join(root, "Cargo.toml"), toml)
    write(os.path.join(root, ".cargo", "config.toml"), "[net]\noffline = true\n")
    lock = os.path.join(tmpl, "Cargo.lock")
    shutil.copy(lock if os.path.exists(lock) else os.path.join(C.REPO, "Cargo.lock"), os.path.join(root, "Cargo.lock"))
    bad = {}
    live = list(items)
    for attempt in range(8):
        shutil.rmtree(os.path.join(root, "src"), ignore_errors=True)
        mods = []
        for n, (key, text, code) in enumerate(live):
            write(os.path.join(root, "src", "m%d.rs" % n), code)
            mods.append("pub mod m%d;" % n)
        write(os.path.join(root, "src", "lib.rs"), "#![allow(unused, non_camel_case_types, non_snake_case, clippy::all)]\n" + "\n".join(mods) + "\n")
        env = dict(C.ENV)
        env["CARGO_TARGET_DIR"] = os.path.join(C.CACHE, "c10-rust-target")
        with C.Lock("c10-rust"):
            rc, out = C.run(["cargo", "check", "--offline", "--lib", "--message-format=short"], cwd=root, env=env, timeout=3000)
        if rc == 0:
            return bad, None
        # (only `error` lines name a module that does not compile: a warning in another module of the same crate — e.g.
        #  `unused_comparisons`, which `allow(unused)` does not cover — says nothing about that module)
        failing = sorted(set(int(m) for m in re.findall(r"src/m(\d+)\.rs:\d+:\d+: error", out)), reverse=True)
        if not failing:
            return bad, out[-2000:]
        for n in failing:
            errs = [l for l in out.splitlines() if ("src/m%d.rs" % n) in l and ": error" in l][:6]
            bad[live[n][0]] = {"errors": errs, "code": (re.findall(r"error\[(E\d+)\]", " ".join(errs)) or ["?"])[0]}
            live.pop(n)
    return bad, None


PY_CHECK = r'''
import importlib.util, json, sys, os, types
res = {}
d = sys.argv[1]
# user modules that custom fields refer to are not part of the generated code
for name in sorted(os.listdir(d)):
    if not name.endswith(".py") or name == "check.py":
        continue
    p = os.path.join(d, name)
    try:
        src = open(p).read()
        compile(src, p, "exec")
        spec = importlib.util.spec_from_file_location("m_" + name[:-3], p)
        m = importlib.util.module_from_spec(spec)
        spec.loader.exec_module(m)
    except BaseException as e:
        res[name[:-3]] = "%s: %s" % (type(e).__name__, str(e)[:300])
print(json.dumps(res))
'''


def compile_python(items):
    root = os.path.join(WORK, "py")
    shutil.rmtree(root, ignore_errors=True)
    for key, text, code in items:
        write(os.path.join(root, "k%s.py" % key), code)
    write(os.path.join(root, "check.py"), PY_CHECK)
    rc, out = C.run([sys.executable or "python3", "-B", os.path.join(root, "check.py"), root], timeout=1200)
    try:
        res = json.loads(out.strip().splitlines()[-1])
    except Exception:
        return {}, "python check runner failed rc=%s: %s" % (rc, out[-1500:])
    return {k[1:]: {"errors": [v], "code": v.split(":")[0]} for k, v in res.items()}, None


def _gxx(args):
    key, path = args
    try:
        p = subprocess.run(["g++", "-std=c++17", "-fsyntax-only", "-w", "-I", os.path.join(C.REPO, "pdl-compiler", "scripts"),
                            "-I", os.path.dirname(path), "-x", "c++", path],
                           stdout=subprocess.PIPE, stderr=subprocess.STDOUT, text=True, timeout=600)
        return key, p.returncode, p.stdout
    except subprocess.TimeoutExpired:
        return key, -9, "g++ timeout"


def compile_cxx(items):
    root = os.path.join(WORK, "cxx")
    shutil.rmtree(root, ignore_errors=True)
    jobs = []
    for key, text, code in items:
        d = os.path.join(root, key)
        write(os.path.join(d, "gen.h"), code)
        write(os.path.join(d, "tu.cc"), '#include "gen.h"\nint main() { return 0; }\n')
        jobs.append((key, os.path.join(d, "tu.cc")))
    bad = {}
    with concurrent.futures.ThreadPoolExecutor(max_workers=14) as ex:
        for key, rc, out in ex.map(_gxx, jobs):
            if rc != 0:
                errs = [l[:300] for l in out.splitlines() if " error" in l][:5] or [out[-300:]]
                bad[key] = {"errors": errs, "code": re.sub(r"[^a-z ]", "", re.sub(r"‘[^’]*’", "", errs[0].split("error:")[-1]))[:50].strip()}
    return bad, None


def _javac(args):
    key, d = args
    files = []
    for r, _, fs in os.walk(d):
        files += [os.path.join(r, f) for f in fs if f.endswith(".java")]
    if not files:
        return key, 1, "no java files emitted"
    out = os.path.join(d, "_classes")
    os.makedirs(out, exist_ok=True)
    try:
        p = subprocess.run(["javac", "-nowarn", "-d", out] + files, stdout=subprocess.PIPE, stderr=subprocess.STDOUT, text=True, timeout=600)
        return key, p.returncode, p.stdout
    except subprocess.TimeoutExpired:
        return key, -9, "javac timeout"


def compile_java(items):
    from vlib import javagen
    jobs = [(key, code) for key, text, code in items]      # code = directory written by the generator
    bad = {}
    with concurrent.futures.ThreadPoolExecutor(max_workers=8) as ex:
        for key, rc, out in ex.map(_javac, jobs):
            if rc != 0:
                e = javagen.javac_errors(out) or out[-400:]
                first = (re.findall(r"error: (.*)", e) or ["?"])[0]
                bad[key] = {"errors": e.splitlines()[:6], "code": re.sub(r"\d+", "N", first)[:50]}
    return bad, None


def compile_json(items):
    bad = {}
    for key, text, code in items:
        try:
            json.loads(code)
        except Exception as e:
            bad[key] = {"errors": [str(e)[:200]], "code": "invalid-json"}
    return bad, None


COMPILERS = {"rust": compile_rust, "python": compile_python, "cxx": compile_cxx, "java": compile_java, "json": compile_json}


# ---------------------------------------------------------------------------
# description-level cause flags (which recorded defect could explain a failure)

def causes(mdl, parsed_or_text, analyzed):
    """Ask the Lean back-end precondition model which preconditions the analyzed file breaks."""
    r = mdl.ask({"op": "backend_pre", "file": analyzed}, timeout=60)
    if not r or r.get("status") != "ok":
        return None
    return r["pre"]            # {backend: [reason, ...]}


class Stage:
    def __init__(self, run, tier, seed):
        self.run, self.tier, self.seed = run, tier, seed
        self.drv = C.driver(timeout=30.0)
        self.mdl = C.pdlv(timeout=120)
        # the parser model runs the grammar translated from /repo's parser.rs on this run (its agreement with the
        # transcribed grammar is property C12's business)
        C.use_translated_grammar(self.mdl, run, report=False)
        self.to_compile = {b: [] for b in BACKENDS}     # (key, text, code)
        self.seen = set()
        self.compile_cap = 150 if tier == "quick" else 600
        self.java_root = os.path.join(WORK, "java")
        shutil.rmtree(self.java_root, ignore_errors=True)

    def dead(self, stage, text, extra=None):
        why = self.drv.last_death or "?"
        cls = "timeout" if str(why).startswith("timeout") else "abort"
        rep = {"pdl": text, "stage": stage, "death": why, "signature": {"stage": stage, "class": cls}}
        rep.update(extra or {})
        self.run.violation("impl", "the compiler %s in %s (%s)" % ("did not terminate within the time limit" if cls == "timeout" else "died", stage, why[:200]), rep)

    def front(self, text, family, want_compile=()):
        """parse -> analyze -> every back end; returns the stage reached."""
        run = self.run
        h = hashlib.sha1(text.encode("utf-8", "surrogatepass")).digest()
        if h in self.seen:
            return "dup"
        self.seen.add(h)
        run.case((text,))
        run.hist("families", family)
        p = self.drv.ask({"op": "parse", "text": text})
        if p is None:
            self.dead("parse", text)
            return "dead"
        if p.get("status") == "panic":
            run.violation("impl", "parser::parse_inline panicked: %s" % p.get("message"),
                          {"pdl": text, "stage": "parse", "result": p, "signature": {"stage": "parse", "class": "panic", "site": site_of(p.get("message"))}})
            run.hist("stages", "parse:panic")
            return "panic"
        # parser model: accept / reject
        m = self.mdl.ask({"op": "parse", "text": text}, timeout=120)
        if m is None:
            run.violation("corr", "parser model crashed / timed out", {"pdl": text, "corr": "corr:C10/parse/verdict"}, found_input=False)
        elif (m.get("status") == "ok") != (p.get("status") == "ok"):
            run.violation("corr", "parser model (%s) and parser::parse_inline (%s) disagree on acceptance" % (m.get("status"), p.get("status")),
                          {"pdl": text, "model": {k: v for k, v in m.items() if k != "declarations"},
                           "real": {k: v for k, v in p.items() if k != "file"}, "corr": "corr:C10/parse/verdict"}, found_input=False)
        if p.get("status") != "ok":
            run.hist("stages", "parse:rejected")
            return "parse_err"
        r = self.drv.ask({"op": "analyze", "text": text})
        if r is None:
            self.dead("analyze", text)
            return "dead"
        ma = self.mdl.ask({"op": "analyze", "file": p["file"]}, timeout=120)
        if r.get("status") == "panic":
            site = ma.get("site") if ma and ma.get("status") == "panic" else None
            run.hist("stages", "analyze:panic")
            run.violation("impl", "analyzer::analyze panicked: %s (model: %s)" % (r.get("message"), site or (ma or {}).get("status")),
                          {"pdl": text, "stage": "analyze", "result": r,
                           "signature": {"stage": "analyze", "class": "panic", "model_site": site.split(".")[-1] if site else None,
                                         "site": site_of(r.get("message"))}})
            return "panic"
        if ma is None:
            run.violation("corr", "analyzer model crashed / timed out", {"pdl": text, "corr": "corr:C10/analyze"}, found_input=False)
        else:
            same = ma.get("status") == r.get("status")
            if same and r["status"] == "err":
                same = [d["code"] for d in ma["diagnostics"]] == [d["code"] for d in r["diagnostics"]]
            if not same:
                run.violation("corr", "analyzer model %s and analyzer::analyze %s disagree"
                              % ((ma.get("status"), [d["code"] for d in ma.get("diagnostics", [])], ma.get("site")),
                                 (r.get("status"), [d["code"] for d in r.get("diagnostics", [])])),
                              {"pdl": text, "corr": "corr:C10/analyze (verdict, ordered codes, panic site)"}, found_input=False)
        if r.get("status") != "ok":
            run.hist("stages", "analyze:rejected")
            if r.get("status") == "err" and (not r.get("emit_ok") or not r.get("diagnostics")):
                run.violation("impl", "analyzer rejected without a renderable diagnostic", {"pdl": text, "stage": "analyze", "result": {k: v for k, v in r.items() if k != "parsed"}})
            return "rejected"
        run.hist("stages", "analyze:accepted")
        analyzed = r["file"]
        pre = causes(self.mdl, text, analyzed)
        if pre is None:
            run.violation("corr", "back-end precondition model failed on an accepted description", {"pdl": text, "corr": "corr:C10/backend_pre"}, found_input=False)
            pre = {}
        key = hashlib.sha1(text.encode()).hexdigest()[:16]
        for b in BACKENDS:
            if not supports(b, analyzed):
                run.hist("gen", "%s:unsupported-construct" % b)
                continue
            req = {"op": "gen", "backend": b, "text": text}
            if b == "cxx":
                req["namespace"] = "c10"
            if b == "java":
                out = os.path.join(self.java_root, key)
                shutil.rmtree(out, ignore_errors=True)
                os.makedirs(out, exist_ok=True)
                req.update({"output_dir": out, "package": "p"})
            reasons = pre.get(b, [])
            if b == "python" and "hugeWidth" in reasons:
                # the Python generator's work and output are linear in the declared widths (mask literals): for a
                # field of 2^31 bits it runs 43 s and emits a 1 GB module, beyond that it exhausts memory.  The
                # generator is not run on such a description (it would take the driver down); recorded finding
                run.hist("gen", "python:not-run-hugeWidth")
                run.violation("impl", "python back end: generator work and output linear in a declared width of 2^24 bits or more (not executed)",
                              {"pdl": text, "stage": "gen", "backend": b,
                               "signature": {"stage": "gen", "backend": b, "class": "resource", "reason": "hugeWidth"}})
                continue
            g = self.drv.ask(req)
            if g is None:
                self.dead("gen", text, {"backend": b, "signature": {"stage": "gen", "backend": b, "class": "abort", "reasons": reasons}})
                continue
            st = g.get("status")
            run.hist("gen", "%s:%s" % (b, st))
            if st in ("panic", "gen_err"):
                run.violation("impl", "backends::%s::generate failed on an accepted description: %s (model: %s)" % (b, g.get("message"), reasons or "precondition holds"),
                              {"pdl": text, "stage": "gen", "backend": b, "result": g,
                               "signature": {"stage": "gen", "backend": b, "class": st, "site": site_of(g.get("message")),
                                             "reason": reasons[0] if reasons else None}})
                continue
            if reasons and any(not x.startswith("uncompilable:") for x in reasons):
                # the model over-approximates (e.g. a misaligned optional field only trips the Python generator
                # when static code is pending): a predicted failure that does not happen is counted, not reported
                run.hist("predicted_failure_not_observed", "%s:%s" % (b, reasons[0]))
            if b in want_compile and len(self.to_compile[b]) < self.compile_cap:
                code = g["text"] if b != "java" else os.path.join(self.java_root, key)
                self.to_compile[b].append((key, text, code, reasons))
        return "accepted"

    def compile_all(self):
        run = self.run
        for b in BACKENDS:
            items = self.to_compile[b]
            if not items:
                continue
            t0 = time.time()
            bad, infra = COMPILERS[b]([(k, t, c) for k, t, c, _ in items])
            run.cov.setdefault("compiled", {})[b] = {"descriptions": len(items), "rejected_by_target_compiler": len(bad), "wall_s": round(time.time() - t0, 1)}
            if infra:
                run.violation("corr", "%s compile stage failed outside generated code: %s" % (b, infra[-600:]), {"stage": "compile-" + b}, found_input=False)
                continue
            by_key = {k: (t, r) for k, t, c, r in items}
            for k, info in bad.items():
                text, reasons = by_key[k]
                run.violation("impl", "code emitted by the %s back end for an accepted description does not compile: %s (model: %s)" % (b, info["errors"][:2], reasons or "precondition holds"),
                              {"pdl": text, "stage": "compile", "backend": b, "errors": info["errors"],
                               "signature": {"stage": "compile", "backend": b, "error": info["code"], "reason": reasons[0] if reasons else None}})
            for k, t, c, reasons in items:
                if reasons and k not in bad:
                    run.hist("predicted_failure_not_observed", "%s:%s" % (b, reasons[0]))

    def close(self):
        self.drv.kill()
        self.mdl.kill()


# ---------------------------------------------------------------------------
# text families

def token_mutants(rng, text, n):
    toks = P12.TOKEN.findall(text)
    out = []
    if len(toks) < 4:
        return out
    for _ in range(n):
        t = list(toks)
        k = rng.random()
        i = rng.randrange(len(t))
        if k < 0.2:
            del t[i]
        elif k < 0.4:
            t.insert(i, t[rng.randrange(len(t))])
        elif k < 0.55:
            j = rng.randrange(len(t))
            t[i], t[j] = t[j], t[i]
        elif k < 0.8:
            ints = [x for x in range(len(t)) if re.fullmatch(r"\d+|0[xX][0-9a-fA-F]+", t[x])]
            if ints:
                t[rng.choice(ints)] = str(rng.choice(GA.INTS + [1 << 64, 10 ** 30]))
        else:
            # (identifiers that are keywords of PDL or of a target language are outside the generators)
            ids = [x for x in range(len(t)) if re.fullmatch(r"[A-Za-z_]\w*", t[x]) and t[x] not in PDL_WORDS]
            if len(ids) > 1:
                t[rng.choice(ids)] = t[rng.choice(ids)]
        out.append(" ".join(t).replace("_endian_packets ", "_endian_packets\n", 1))
    return out


PDL_WORDS = {"packet", "struct", "enum", "group", "custom_field", "checksum", "test", "if", "little_endian_packets", "big_endian_packets"}
ALPHABET = list("{}[](),:=+./*\"\\ \n\t\r0123456789xXabcdefABCDEF_") + ["packet ", "struct ", "enum ", "group ", "custom_field ", "checksum ", "test ",
            "_size_", "_count_", "_payload_", "_body_", "_fixed_", "_reserved_", "_padding_", "_elementsize_", "_checksum_start_", " if ", "..", "é", " ", "\x00", "//", "/*", "*/"]


def random_texts(rng, n):
    out = []
    for _ in range(n):
        k = rng.random()
        body = "".join(rng.choice(ALPHABET) for _ in range(rng.randint(0, 80)))
        if k < 0.6:
            out.append(rng.choice(["little", "big"]) + "_endian_packets\n" + body)
        else:
            out.append(body)
    return out


STRESS = [
    ("long-int", "little_endian_packets\npacket P { a: %s }\n" % ("9" * 20000)),
    ("long-hex", "little_endian_packets\npacket P { a: 0x%s }\n" % ("f" * 20000)),
    ("long-ident", "little_endian_packets\npacket %s { a: 8 }\n" % ("A" * 200)),
    ("many-decls", "little_endian_packets\n" + "".join("packet P%d { a: 8 }\n" % i for i in range(1500))),
    ("many-fields", "little_endian_packets\npacket P { %s }\n" % ", ".join("f%d: 8" % i for i in range(1500))),
    ("deep-inheritance", "little_endian_packets\npacket P0 { a: 8, _payload_ }\n" + "".join("packet P%d : P%d { b%d: 8, _payload_ }\n" % (i + 1, i, i) for i in range(60))),
    ("deep-struct-nesting", "little_endian_packets\nstruct S0 { a: 8 }\n" + "".join("struct S%d { s: S%d }\n" % (i + 1, i) for i in range(100))),
    ("deep-groups", "little_endian_packets\ngroup G0 { a: 8 }\n" + "".join("group G%d { G%d }\n" % (i + 1, i) for i in range(100)) + "packet P { G100 }\n"),
    ("many-tags", "little_endian_packets\nenum E : 16 { %s }\npacket P { e: E }\n" % ", ".join("T%d = %d" % (i, i) for i in range(3000))),
    ("nested-comment-soup", "little_endian_packets\n" + "/* " * 2000 + "*/ packet P { a: 8 }\n"),
    ("unterminated-comment-long", "little_endian_packets\n/*" + "x" * 100000),
]


def main(argv):
    a = C.std_args(argv)
    run = C.Run("C10", a.tier, a.seed)
    rng = random.Random(a.seed * 101 + 7)
    proof = C.proof_audit("C10")
    ok, out = C.build_driver()
    if not ok:
        run.violation("corr", "pdl-driver does not build: " + out[-500:], {"stage": "build"}, found_input=False)
        return run.finish(proof)
    os.makedirs(WORK, exist_ok=True)
    st = Stage(run, a.tier, a.seed)
    quick = a.tier == "quick"
    if a.replay:
        rp = json.load(open(a.replay)).get("replay", {})
        if rp.get("pdl") is not None:
            st.front(rp["pdl"], "replay", tuple(BACKENDS))
    # past failures of this check (minimized), first
    cdir = os.path.join(C.VERIF, "corpus", "c10")
    if os.path.isdir(cdir):
        for fn in sorted(os.listdir(cdir)):
            if fn.endswith(".pdl"):
                st.front(open(os.path.join(cdir, fn)).read(), "corpus", tuple(BACKENDS))
    # recorded findings: their witnesses are replayed on every run
    for k in run.known:
        w = k.get("witness", {})
        if w.get("pdl"):
            st.front(w["pdl"], "known-finding-witness", tuple(BACKENDS))
    if os.environ.get("C10_ONLY_WITNESSES"):
        st.compile_all()
        st.close()
        return run.finish(proof)
    # 1. well-formed descriptions of every back end's class, randomized concrete syntax.  The code of every
    #    back end that supports the constructs is generated for all of them; it is COMPILED by the back ends
    #    named in `comp`: Rust and Python for every class, C++ and Java for the classes the properties C14 / C19
    #    use (outside them the emitted C++ / Java is known not to compile; see known_findings.json)
    from checks.backend_common import opts_for
    n_wf = 20 if quick else 120
    classes = [("rust", GD.Opts.for_backend("rust"), ("rust", "python")),
               ("python", GD.Opts.for_backend("python"), ("rust", "python")),
               ("cxx", opts_for("cxx"), ("rust", "python", "cxx")),
               ("java", opts_for("java"), ("rust", "python", "java"))]
    for b, o, comp in classes:
        o.greedy_structs = True
        if b in ("rust", "python"):
            o.copy_parents = False
            o.array_modifier = True
        for text, g in GD.stratified(rng, o):
            st.front(text, "well-formed-%s" % b, comp)
        for k in range(n_wf):
            text, g = GD.generate(rng, o, n_packets=rng.randint(1, 2), trees=rng.choice([0, 1]) if o.inheritance else 0)
            if rng.random() < 0.5:
                text = P12.render(rng, text)
            st.front(text, "well-formed-%s" % b, comp)
    for k in range(6 if quick else 60):
        grp, inl = GG.gen(rng)
        st.front(grp, "well-formed-groups", ("rust", "python"))
    # types of size zero (an empty struct) in every position: own PRNG stream
    drng = random.Random(a.seed * 101 + 31)
    for k in range(2 if quick else 12):
        for text in GD.degenerate(drng):
            st.front(text, "degenerate-sizes", ())
    # 2. ill-formed: one rule-violating edit per analyzer rule
    for _ in range(1 if quick else 6):
        for body, code in GI.cases(rng):
            st.front(rng.choice(["little", "big"]) + "_endian_packets\n" + body, "rule-violation")
    # 3. absurd files and absurd edits of well-formed descriptions
    for k in range(1200 if quick else 8000):
        st.front(GA.generate(rng), "absurd", ("rust", "python", "json") if k % 3 == 0 else ())
    base_opts = GD.Opts(greedy_structs=True, copy_parents=False, array_modifier=True, groups=False)
    for k in range(500 if quick else 3000):
        text, g = GD.generate(rng, base_opts, n_packets=rng.randint(1, 2), trees=rng.choice([0, 1]))
        st.front(GA.semi_valid(rng, text), "absurd-edit", ("rust", "python", "json") if k % 3 == 0 else ())
    # 4. near misses, token mutants, random texts, stress
    for k in range(12 if quick else 150):
        text, g = GD.generate(rng, base_opts, n_packets=1, trees=rng.choice([0, 1]))
        for kind, t in P12.near_misses(rng, text):
            st.front(t, "near-miss")
        for t in token_mutants(rng, text, 8):
            st.front(t, "token-mutant")
    for t in random_texts(rng, 300 if quick else 5000):
        st.front(t, "random-text")
    for name, t in STRESS:
        st.front(t, "stress:" + name)
    # 5. compile what was emitted
    st.compile_all()
    st.close()
    return run.finish(proof, extra_cov={
        "rule": "a case = one source text taken through parse -> analyze -> every back end that supports its constructs; "
                "families: generated well-formed descriptions per back-end class (plain and in randomized concrete syntax), "
                "rule-violating edits (one per analyzer rule and context), absurd files / absurd edits (every construct in every "
                "position over a small identifier pool), near-miss texts, token mutants, random texts, size/depth stress inputs; "
                "the code emitted for accepted descriptions is compiled by the target toolchain (count under coverage.compiled)",
        "observed_not_proved": "termination and stack use of the real compiler (watchdog + 64 MiB driver stack), acceptance of the "
                               "emitted code by rustc / CPython / g++ / javac"})


if __name__ == "__main__":
    sys.exit(main(sys.argv[1:]))
