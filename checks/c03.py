"""C03 — the Rust encoder emits exactly the wire format of the language reference.

Proof:  Pdlv/Thm/C03.lean — the bit-level specification Pdlv.Ref (written from doc/reference.md) and
        theorems relating the shift/or/put_uint formulation of the emitted code to it.
Tie:    hex of encode_to_vec of the emitted code vs Pdlv.Ref.encode on the same values; exhaustive
        over all values for small descriptions (<= 16 variable bits).
"""
import itertools
import os
import sys

sys.path.insert(0, os.path.dirname(os.path.dirname(os.path.abspath(__file__))))
from checks.wire_common import WireCheck
from vlib import gen_descr as GD
from vlib import wirerun as W


def small_descriptions(rng, n):
    """Packets with <= 16 variable bits: every value is enumerated."""
    out = []
    for k in range(n):
        total = rng.choice([8, 16, 16, 24])
        nvar = rng.randint(4, min(16, total))
        cuts = sorted(rng.sample(range(1, total), rng.randint(1, 4)))
        widths = [b - a for a, b in zip([0] + cuts, cuts + [total])]
        fields, var, left = [], [], nvar
        for j, w in enumerate(widths):
            if left >= w and rng.random() < 0.8:
                fields.append("v%d: %d" % (j, w))
                var.append(("v%d" % j, w))
                left -= w
            elif rng.random() < 0.5:
                fields.append("_reserved_: %d" % w)
            else:
                fields.append("_fixed_ = %d: %d" % (rng.randrange(1 << w), w))
        if not var:
            fields[0] = "v0: %d" % widths[0]
            var = [("v0", widths[0])]
            if sum(w for _, w in var) > 16:
                continue
        e = rng.choice(["little", "big"])
        out.append(("%s_endian_packets\npacket Sm%d {\n  %s\n}\n" % (e, k, ",\n  ".join(fields)), "Sm%d" % k, var))
    return out


def main(argv):
    wc = WireCheck("C03", argv, opts=GD.Opts(array_modifier=True))
    run = wc.run
    import random
    srng = random.Random(wc.a.seed + 3)
    smalls = small_descriptions(srng, 6 if wc.a.tier == "quick" else 40)
    wc_extra = [t for t, _, _ in smalls]
    # the small descriptions ride in the same harness build
    import checks.wire_common as WC
    orig = WC.corpus_texts
    WC.corpus_texts = lambda: orig() + wc_extra
    try:
        ok = wc.setup()
    finally:
        WC.corpus_texts = orig
    if not ok:
        return wc.finish()
    co = wc.co
    small_by_text = {t.strip(): (name, var) for t, name, var in smalls}
    exhaustive_types = 0
    for i, d in enumerate(co.descs):
        sm = small_by_text.get(d["text"].strip())
        for T in co.packet_types(i):
            if sm and sm[0] == T:
                name, var = sm
                vals = []
                for combo in itertools.product(*[range(1 << w) for _, w in var]):
                    vals.append(({k: x for (k, _), x in zip(var, combo)}, None))
                exhaustive_types += 1
                run.hist("exhaustive_value_spaces", str(len(vals)))
            else:
                vals = wc.values(i, T, wc.sz["values"] + 3)
            mo2 = co.model(i, T, [x for v, _ in vals for x in ({"k": "ref", "v": v}, {"k": "enc", "v": v})])
            if not isinstance(mo2, list):
                run.hist("model_status", str(mo2))
                continue
            mo, mrust = mo2[0::2], mo2[1::2]
            # hypotheses of theorems encode_ideal_eq_ref / encode_rust_eq_ref on this layout, and the theorem's
            # statement itself evaluated on this run's values: reference mode ok bs  =>  Ref.encode = bs
            hyp = co.model(i, T, [{"k": "len", "v": {}}])
            refwf = bool(isinstance(hyp, list) and hyp[0].get("refwf"))
            nomod = bool(isinstance(hyp, list) and hyp[0].get("nomod"))
            run.hist("theorem_hypotheses", "refWfBody:%s noModBody:%s" % (refwf, nomod))
            idl = co.mdl.ask({"op": "wire", "type": T, "mode": "ideal", "cases": [{"k": "enc", "v": v} for v, _ in vals]}, timeout=300)
            if refwf and idl and idl.get("status") == "ok":
                for (v, _), ref, mi, mr in zip(vals, mo, idl["out"], mrust):
                    if mi.get("r") == "ok" and not (ref.get("r") == "ok" and ref.get("hex") == mi.get("hex")):
                        run.violation("corr", "theorem encode_ideal_eq_ref contradicted by evaluation on %s (model bug)" % T,
                                      {"pdl": d["text"], "type": T, "value": v, "corr": "thm:encode_ideal_eq_ref"}, found_input=False)
                    if nomod and mi.get("r") == "ok" and not (mr.get("r") == "ok" and mr.get("hex") == mi.get("hex")):
                        run.violation("corr", "theorem encode_rust_eq_ref contradicted by evaluation on %s (model bug)" % T,
                                      {"pdl": d["text"], "type": T, "value": v, "corr": "thm:encode_rust_eq_ref"}, found_input=False)
            for (v, _), ref, mr in zip(vals, mo, mrust):
                r = wc.impl(i, T, "enc", v)
                run.case((d["text"], T, W.canon(v)))
                rep = {"pdl": d["text"], "type": T, "op": "enc", "value": v, "impl": r, "reference": ref}
                if r.get("r") == "ok" and ref.get("r") == "ok":
                    if r["hex"] != ref["hex"]:
                        sig = {"class": "bytes-differ", "agrees_with_model_of_emitted_code": W.same_enc(r, mr)}
                        # the one documented deviation: array size modifiers are ignored by the Rust back end
                        if any(f.get("kind") == "array_field" and f.get("size_modifier") for x in d["analyzed"]["declarations"] for f in x.get("fields", [])):
                            sig["array_modifier"] = True
                        rep["signature"] = sig
                        run.violation("impl", "%s: emitted encoder wrote %s, the reference encoding is %s"
                                      % (T, r["hex"][:80], ref["hex"][:80]), rep)
                    else:
                        run.count("bytes_equal")
                    if not W.same_enc(r, mr):
                        rep["corr"] = "corr:C03/encode/bytes"
                        rep["model"] = mr
                        run.violation("corr", "encoder model and emitted encoder disagree on %s" % T, rep, found_input=False)
                elif r.get("r") == "ok" and ref.get("r") != "ok":
                    run.hist("skipped", "value-has-no-reference-encoding")   # C05's business
                elif r.get("r") == "err" and ref.get("r") == "ok":
                    run.violation("impl", "%s::encode refused (%s) a value with reference encoding %s" % (T, r.get("e"), ref["hex"][:60]), rep)
            run.sample({"type": T, "values": len(vals), "exhaustive": bool(sm and sm[0] == T)}, limit=5)
    return wc.finish(extra_cov={
        "exhaustive_types": exhaustive_types,
        "rule": "in-range values (boundary-biased) of every packet/struct type of the generated descriptions, plus ALL values "
                "of small packets with <= 16 variable bits; a case = (description, type, value); bytes of the emitted "
                "encoder compared with Pdlv.Ref.encode"})


if __name__ == "__main__":
    sys.exit(main(sys.argv[1:]))
