"""C18 — pdl-runtime Packet trait: derived methods obey their laws.

Proof:  Pdlv/Thm/C18.lean — the provided methods modelled over an arbitrary implementor.
Tie:    the five methods are called side by side on the same input for every generated packet,
        struct and sized custom field; the relations the theorems state are checked on the real
        pdl-runtime built from /repo (this is also a correspondence check of Pdlv.Runtime).
"""
import os
import sys

sys.path.insert(0, os.path.dirname(os.path.dirname(os.path.abspath(__file__))))
from checks.wire_common import WireCheck
from vlib import gen_value as GV
from vlib import wirerun as W


def main(argv):
    wc = WireCheck("C18", argv)
    run = wc.run
    if not wc.setup():
        return wc.finish()
    co = wc.co
    for i, d in enumerate(co.descs):
        customs = [x["id"] for x in d["analyzed"]["declarations"]
                   if x["kind"] == "custom_field_declaration" and x.get("width") is not None]
        for T in co.packet_types(i) + customs:
            vals = wc.values(i, T, wc.sz["values"], faults=True)
            strings = [b""]
            for v, inj in vals:
                r = wc.impl(i, T, "encall", v)
                run.case((d["text"], T, W.canon(v)))
                rep = {"pdl": d["text"], "type": T, "op": "encall", "value": v, "impl": r}
                if r.get("r") == "badvalue":
                    continue
                if r.get("r") != "ok":
                    # panics of encode are C05's business; here only the trait laws are judged
                    run.hist("encode_outcomes", str(r.get("r")))
                    continue
                a, b, c, dd, e = r["to_vec"], r["to_bytes"], r["append_vec"], r["append_bytesmut"], r["encode"]
                run.hist("encode_outcomes", "ok" if "ok" in a else "err")
                if a != b or a != e:
                    run.violation("impl", "%s: encode_to_vec / encode_to_bytes / encode disagree: %s %s %s" % (T, a, b, e), rep)
                if "ok" in a:
                    strings.append(bytes.fromhex(a["ok"]))
                    for nm, x in (("Vec", c), ("BytesMut", dd)):
                        if x.get("ok") != "aabbcc" + a["ok"]:
                            run.violation("impl", "%s: encode into a non-empty %s gives %s, expected aabbcc ++ %s" % (T, nm, x, a["ok"]), rep)
                else:
                    for nm, x in (("Vec", c), ("BytesMut", dd)):
                        if x != a:
                            run.violation("impl", "%s: encode into a non-empty %s fails differently: %s vs %s" % (T, nm, x, a), rep)
            ms = []
            for s in strings[:4]:
                ms += [m for _, m in GV.mutants(wc.rng, s, 3)]
            seen = set()
            for s in strings + ms:
                if s in seen:
                    continue
                seen.add(s)
                run.case((d["text"], T, s))
                r0 = wc.impl(i, T, "dec", s.hex())
                r1 = wc.impl(i, T, "decfull", s.hex())
                r2 = wc.impl(i, T, "decmut", s.hex())
                rep = {"pdl": d["text"], "type": T, "input_hex": s.hex(), "decode": r0, "decode_full": r1, "decode_mut": r2}
                run.hist("decode_outcomes", str(r0.get("r")))
                if r0.get("r") not in ("ok", "err"):
                    continue     # panics are C01's business
                if r0["r"] == "ok":
                    exp_full = {"r": "ok", "value": r0["value"]} if r0["rest"] == 0 else {"r": "err", "e": "TrailingBytesError"}
                    got_full = {"r": r1.get("r"), "value": r1.get("value")} if r1.get("r") == "ok" else {"r": r1.get("r"), "e": r1.get("e")}
                    if W.canon(exp_full) != W.canon(got_full):
                        run.violation("impl", "%s: decode_full(%s) = %s but decode gives rest=%d" % (T, s.hex()[:40], got_full, r0["rest"]), rep)
                    if r2.get("r") != "ok" or W.canon(r2.get("value")) != W.canon(r0["value"]) or r2.get("rest") != r0["rest"] or not r2.get("suffix"):
                        run.violation("impl", "%s: decode_mut(%s) does not advance to decode's remainder" % (T, s.hex()[:40]), rep)
                else:
                    if r1.get("r") != "err" or r1.get("e") != r0.get("e"):
                        run.violation("impl", "%s: decode_full(%s) = %s but decode = %s" % (T, s.hex()[:40], r1, r0), rep)
                    if r2.get("r") != "err" or r2.get("e") != r0.get("e") or not r2.get("untouched"):
                        run.violation("impl", "%s: decode_mut(%s) = %s (slice untouched: %s) but decode = %s"
                                      % (T, s.hex()[:40], r2.get("r"), r2.get("untouched"), r0), rep)
            run.sample({"type": T, "values": len(vals), "strings": len(seen)}, limit=4)
    return wc.finish(extra_cov={
        "rule": "every generated packet, struct and sized custom field type; values (in range and with one "
                "injected fault) through encode_to_vec / encode_to_bytes / encode into empty and non-empty Vec "
                "and BytesMut; encodings, mutants and random strings through decode / decode_full / decode_mut"})


if __name__ == "__main__":
    sys.exit(main(sys.argv[1:]))
