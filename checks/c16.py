"""C16 — static size annotations are sound.

Proof:  Pdlv/Thm/C16.lean — Size lattice laws; static_sound: a layout classified as n octets is
        encoded on exactly n octets for EVERY value (mutual structural induction over the layout).
Tie:    the Lean model of Schema::new / element_size / array_size is compared with the real
        analyzer::Schema (driver `schema` dump) on hundreds to thousands of generated descriptions
        per run (no target compilation needed); constant sizes are also compared with the lengths of
        reference encodings of sampled values; the dynamic/unknown classification is checked
        against what delimits the field in the source.
"""
import json
import os
import random
import sys

sys.path.insert(0, os.path.dirname(os.path.dirname(os.path.abspath(__file__))))
from vlib import common as C
from vlib import gen_descr as GD
from vlib import gen_value as GV


def delimiters(decl, f, idx):
    """What delimits field f in the source: size/count field, condition, custom field..."""
    out = set()
    if f.get("cond"):
        out.add("condition")
    fid = f.get("id")
    for g in decl["fields"]:
        if g["kind"] in ("size_field",) and (g["field_id"] == fid or (f["kind"] in ("payload_field", "body_field") and g["field_id"] in ("_payload_", "_body_"))):
            out.add("size")
        if g["kind"] == "count_field" and g["field_id"] == fid:
            out.add("count")
        if g["kind"] == "elementsize_field" and g["field_id"] == fid and f.get("size") is not None:
            out.add("elementsize+static-count")
    return out


def probe_field(run, drv, mdl, rng, text, dj, f, nbits):
    """Wrap the field alone in a probe packet and compare the claimed constant size with the
    lengths of reference encodings of sampled values."""
    src = text[f["loc"]["start"]["offset"]:f["loc"]["end"]["offset"]].rstrip().rstrip(",")
    probe = text + "\npacket VProbe {\n  " + src + "\n}\n"
    r = drv.ask({"op": "schema", "text": probe})
    if not r or r.get("status") != "ok":
        return False
    mdl.ask({"op": "load", "file": r["file"]})
    types = GV.Types(r["file"])
    vals = [GV.gen_value(types, "VProbe", rng)[0] for _ in range(24)]
    mo = mdl.ask({"op": "wire", "type": "VProbe", "cases": [{"k": "ref", "v": v} for v in vals]})
    if not mo or mo.get("status") != "ok":
        return False
    for v, o in zip(vals, mo["out"]):
        if o.get("r") == "ok" and 4 * len(o["hex"]) != nbits:
            run.violation("impl", "the analyzer gives field %s of %s the constant size %d bits, but the value %s of the field "
                          "alone (packet VProbe) has a reference encoding of %d bits"
                          % (f["id"], dj["id"], nbits, json.dumps(v)[:120], 4 * len(o["hex"])),
                          {"pdl": probe, "decl": "VProbe", "field": f["id"], "value": v, "reference_hex": o["hex"],
                           "signature": {"class": "static-size-wrong"}})
            return True
    return False


def main(argv):
    a = C.std_args(argv)
    run = C.Run("C16", a.tier, a.seed)
    rng = random.Random(a.seed)
    proof = C.proof_audit("C16")
    ok, out = C.build_driver()
    if not ok:
        run.violation("corr", "pdl-driver does not build against /repo: " + out[-800:], {"stage": "build"}, found_input=False)
        return run.finish(proof)
    drv, mdl = C.driver(), C.pdlv()
    n = 300 if a.tier == "quick" else 3000
    opts = GD.Opts(greedy_structs=True, roundtrippable=False, copy_parents=False, array_modifier=True)
    texts = [t for t, _ in GD.stratified(rng, opts)]
    cdir = os.path.join(C.VERIF, "corpus", "schema")
    if os.path.isdir(cdir):
        texts = [open(os.path.join(cdir, f)).read() for f in sorted(os.listdir(cdir)) if f.endswith(".pdl")] + texts
    if a.replay:
        rp = json.load(open(a.replay)).get("replay", {})
        if rp.get("pdl"):
            texts.insert(0, rp["pdl"])
    while len(texts) < n:
        texts.append(GD.generate(rng, opts)[0])
    ndecl = 0
    for text in texts:
        r = drv.ask({"op": "schema", "text": text})
        if r is None or r.get("status") != "ok":
            st = (r or {}).get("status")
            if st in (None, "panic"):
                run.violation("impl", "Schema / analyzer crashed on a generated description: %s" % (r or drv.last_death),
                              {"pdl": text, "signature": {"stage": "schema", "class": "panic"}})
            else:
                run.hist("skipped", "not-accepted:%s" % st)
            continue
        m1 = mdl.ask({"op": "load", "file": r["file"]})
        m = mdl.ask({"op": "schema"})
        if not m or m.get("status") != "ok":
            run.violation("corr", "Schema model failed (%s) where the real Schema::new succeeded" % m,
                          {"pdl": text, "corr": "corr:C16/schema"}, found_input=False)
            continue
        types = GV.Types(r["file"])
        for dj, ms, rs in zip(r["file"]["declarations"], m["schema"], r["schema"]):
            ndecl += 1
            run.case((text, dj.get("id")))
            if json.dumps(ms, sort_keys=True) != json.dumps(rs, sort_keys=True):
                # search for a value whose encoding contradicts a constant size the analyzer reports
                found = False
                for f, fm, fr in zip(dj.get("fields", []), ms.get("fields", []), rs.get("fields", [])):
                    if fm != fr and isinstance(fr.get("field_size"), dict) and "id" in f:
                        found = probe_field(run, drv, mdl, rng, text, dj, f, fr["field_size"]["static"]) or found
                if found:
                    continue
                run.violation("corr", "Schema model and analyzer::Schema disagree on %s: model %s, real %s"
                              % (dj.get("id"), json.dumps(ms)[:200], json.dumps(rs)[:200]),
                              {"pdl": text, "decl": dj.get("id"), "model": ms, "real": rs, "corr": "corr:C16/schema"},
                              found_input=False)
            run.hist("total_size", rs["total_size"] if isinstance(rs["total_size"], str) else "static")
            if dj["kind"] not in ("packet_declaration", "struct_declaration"):
                continue
            # classification of every field against the source
            for f, fs in zip(dj["fields"], rs["fields"]):
                size = fs["field_size"]
                dl = delimiters(dj, f, types.decls)
                if size == "unknown" and f["kind"] in ("array_field", "payload_field", "body_field") and dl & {"size", "count", "elementsize+static-count"}:
                    run.violation("impl", "%s.%s is classified Unknown although a %s field delimits it"
                                  % (dj["id"], f.get("id", f["kind"]), sorted(dl)),
                                  {"pdl": text, "decl": dj["id"], "field": f, "signature": {"class": "unknown-but-delimited", "by": sorted(dl)[0]}})
                # (a static-count array of dynamically sized elements is dynamic through its elements)
                if (size == "dynamic" and f["kind"] in ("array_field", "payload_field", "body_field") and not dl
                        and not (f["kind"] == "array_field" and f["size"] is not None)):
                    run.violation("impl", "%s.%s is classified Dynamic although nothing delimits it" % (dj["id"], f.get("id", f["kind"])),
                                  {"pdl": text, "decl": dj["id"], "field": f, "signature": {"class": "dynamic-but-undelimited"}})
            # the class of a declaration is the class of the sum of its fields (padded size where there is one): Unknown as soon
            # as one field is Unknown — "a part is of unknown size only when nothing delimits it", and nothing delimits a
            # declaration that contains such a part —, else Dynamic as soon as one is Dynamic.  Independent of the model.
            def cls(x):
                return x if isinstance(x, str) else "static"
            # (decl_size leaves the payload / body out: it is accounted for in payload_size)
            effs = [cls(fs.get("padded_size") if fs.get("padded_size") is not None else fs["field_size"])
                    for f0, fs in zip(dj.get("fields", []), rs["fields"]) if f0.get("kind") not in ("payload_field", "body_field")]
            want = "unknown" if "unknown" in effs else ("dynamic" if "dynamic" in effs else "static")
            if cls(rs["decl_size"]) != want:
                run.violation("impl", "%s: the fields are classified %s, their sum (decl_size) %s instead of %s"
                              % (dj["id"], effs, cls(rs["decl_size"]), want),
                              {"pdl": text, "decl": dj["id"], "real": rs, "signature": {"class": "decl-class", "got": cls(rs["decl_size"]), "want": want}})
            # constant sizes against reference encodings
            if isinstance(rs["total_size"], dict):
                nbits = rs["total_size"]["static"]
                vals = [GV.gen_value(types, dj["id"], rng)[0] for _ in range(3)]
                mo = mdl.ask({"op": "wire", "type": dj["id"], "cases": [{"k": "ref", "v": v} for v in vals]})
                if mo and mo.get("status") == "ok":
                    for v, o in zip(vals, mo["out"]):
                        if o.get("r") == "ok":
                            run.count("static_lengths_checked")
                            if 4 * len(o["hex"]) != nbits:
                                run.violation("impl", "%s has constant size %d bits but the reference encoding of %s has %d bits"
                                              % (dj["id"], nbits, json.dumps(v)[:100], 4 * len(o["hex"])),
                                              {"pdl": text, "decl": dj["id"], "value": v, "signature": {"class": "static-size-wrong"}})
                else:
                    run.hist("skipped", "static-type-unsupported-by-wire-model")
        run.sample({"pdl": text[:300]}, limit=3)
    drv.kill()
    mdl.kill()
    return run.finish(proof, extra_cov={
        "declarations": ndecl, "descriptions": len(texts),
        "rule": "generated descriptions (stratified array cells + random, incl. greedy structs, unsized arrays with padding, "
                "inheritance with non-Copy parents); every declaration's decl/parent/payload/total size and every field's "
                "field/padded/element/array size compared between model and analyzer::Schema; a case = (description, declaration)"})


if __name__ == "__main__":
    sys.exit(main(sys.argv[1:]))
