"""C15 — enum conversions are exact over the entire value space.

Proof:   Pdlv/Thm/C15.lean (rust_from_exact, rust_into_from, cxx_is_valid_iff, py_from_int_ok_iff …)
Tie:     the match arms of `impl TryFrom<uN> for E` are extracted from the Rust text emitted by
         the pdlc built from /repo and compared with the model's arm table (translation
         validation); Python `from_int` and C++ `IsValid` are executed.  The generated Rust
         itself is executed by the shared Rust harness (vlib.rustgen) on the same points.
"""
import json
import os
import random
import re
import subprocess
import sys

sys.path.insert(0, os.path.dirname(os.path.dirname(os.path.abspath(__file__))))
from vlib import common as C
from vlib import gen_enum as G


def parse_int(s):
    s = s.replace("_", "")
    return int(s, 16) if s.lower().startswith("0x") else int(s)


def extract_rust_arms(text, name):
    """Arms of `impl TryFrom<uN> for <name>` in prettyplease-formatted output."""
    m = re.search(r"impl TryFrom<u(\d+)> for %s \{(.*?)\n\}\n" % re.escape(name), text, re.S)
    if not m:
        return None, None
    backing = int(m.group(1))
    body = m.group(2)
    mm = re.search(r"match value \{(.*?)\n        \}", body, re.S)
    if not mm:
        return backing, None
    arms = []
    # arms may be wrapped over several lines by prettyplease: join then split on "," at depth 0
    src = re.sub(r"\s+", " ", mm.group(1)).strip()
    depth, cur, parts = 0, "", []
    for ch in src:
        if ch in "([{":
            depth += 1
        elif ch in ")]}":
            depth -= 1
        if ch == "," and depth == 0:
            parts.append(cur.strip())
            cur = ""
        else:
            cur += ch
    if cur.strip():
        parts.append(cur.strip())
    for p in parts:
        pat, rhs = [x.strip() for x in p.split("=>", 1)]
        if pat == "_":
            jp = "_"
        elif "..=" in pat:
            lo, hi = pat.split("..=")
            jp = {"lo": parse_int(lo.strip()), "hi": parse_int(hi.strip())}
        else:
            jp = {"lit": parse_int(pat)}
        r = rhs.replace(" ", "")
        if r == "Err(value)":
            jr = "err"
        else:
            m2 = re.match(r"Ok\(%s::(\w+)(\(Private\(value\)\))?\)$" % re.escape(name), r)
            if not m2:
                return backing, "unparsed rhs %r" % rhs
            jr = {"variant": m2.group(1), "carries": bool(m2.group(2))}
        arms.append([jp, jr])
    return backing, arms


def model_arm_to_rust(arm):
    pat, rhs = arm
    if rhs == "err":
        r = "err"
    elif "named" in rhs:
        r = {"variant": G.upper_camel(rhs["named"]), "carries": False}
    elif "range" in rhs:
        r = {"variant": G.upper_camel(rhs["range"]), "carries": True}
    else:
        r = {"variant": G.upper_camel(rhs["default"]), "carries": True}
    return [pat, r]


def eval_arms(arms, x):
    for pat, rhs in arms:
        if pat == "_" or ("lit" in pat and pat["lit"] == x) or ("lo" in pat and pat["lo"] <= x <= pat["hi"]):
            return rhs
    return None


CXX_MAIN = r"""
#include <cstdint>
#include <cstdio>
#include <cstring>
#include <string>
#include <iostream>
#include "gen.h"
int main() {
  std::string name; unsigned long long x;
  while (std::cin >> name >> x) {
    int r = -1;
%s
    printf("%%d\n", r);
  }
  return 0;
}
"""


def main(argv):
    a = C.std_args(argv)
    run = C.Run("C15", a.tier, a.seed)
    rng = random.Random(a.seed)
    proof = C.proof_audit("C15")
    ok, out = C.build_driver()
    if not ok:
        run.violation("corr", "pdl-driver does not build against /repo: " + out[-800:], {"stage": "build"}, found_input=False)
        return run.finish(proof)

    n_enums = 40 if a.tier == "quick" else 400
    exh_w = 10 if a.tier == "quick" else 16
    shapes = G.stratified_shapes()
    specs = []
    for i in range(n_enums):
        shape = dict(shapes[i % len(shapes)]) if i < 3 * len(shapes) else None
        if shape is not None and i < len(shapes):
            shape["width"] = rng.choice([3, 4, 8])
        specs.append(G.gen_enum(rng, "E%d" % i, shape))
    specs += fixed_enums()
    if a.replay:
        rp = json.load(open(a.replay))
        log_r = rp.get("replay", {})
        if "pdl" in log_r:
            specs = None
            texts = [log_r["pdl"]]
    drv, mdl = C.driver(), C.pdlv()
    # several descriptions of ≤ 10 enums each
    groups = [specs[i:i + 10] for i in range(0, len(specs), 10)] if specs else []
    for gi, grp in enumerate(groups):
        text = "little_endian_packets\n" + "".join(e.pdl() for e in grp)
        check_group(run, drv, mdl, grp, text, rng, exh_w, gi, a)
    drv.kill()
    mdl.kill()
    return run.finish(proof, extra_cov={
        "rule": "well-formed enum declarations stratified over closed/open x complete/incomplete x "
                "ranges x nested tags, widths 1..64; per enum all critical points (every bound, "
                "bound±1, 0, 2^w-1, 2^w, 2^backing-1, powers of two) and all x < 2^w for w <= %d; "
                "a case = (enum, x, back end); distinct by (enum text, x, back end)" % exh_w,
        "exhaustive": False,
        "traces_validated_against_impl": run.cov.get("arm_tables_equal", 0)})


def fixed_enums():
    """Corpus: shapes that must be exercised on every run (incl. known-finding witnesses)."""
    return [
        G.EnumSpec("FRangesOnly", 8, [{"kind": "range", "id": "R1", "lo": 0, "hi": 9, "lo_lit": "0", "hi_lit": "9", "tags": []},
                                      {"kind": "range", "id": "R2", "lo": 0x20, "hi": 0xff, "lo_lit": "0x20", "hi_lit": "0xff", "tags": []}]),
        G.EnumSpec("FOpen3", 3, [{"kind": "value", "id": "A", "value": 0, "lit": "0"},
                                 {"kind": "range", "id": "B", "lo": 1, "hi": 6, "lo_lit": "1", "hi_lit": "6",
                                  "tags": [{"id": "X", "value": 1, "lit": "1"}, {"id": "Y", "value": 2, "lit": "2"}]},
                                 {"kind": "other", "id": "UNKNOWN"}]),
        G.EnumSpec("FFull64", 64, [{"kind": "value", "id": "A", "value": 0, "lit": "0"},
                                   {"kind": "range", "id": "B", "lo": 1, "hi": (1 << 64) - 1, "lo_lit": "1",
                                    "hi_lit": "0xffffffffffffffff", "tags": []}]),
        G.EnumSpec("FClosed1", 1, [{"kind": "value", "id": "A", "value": 1, "lit": "1"}]),
    ]


def check_group(run, drv, mdl, grp, text, rng, exh_w, gi, a):
    rs = drv.ask({"op": "analyze", "text": text})
    if rs is None or rs.get("status") != "ok":
        run.violation("impl" if rs and rs.get("status") == "panic" else "corr",
                      "generated well-formed enums not accepted: %s" % (rs or drv.last_death),
                      {"pdl": text, "stage": "analyze"}, found_input=bool(rs))
        return
    analyzed = rs["file"]
    r = mdl.ask({"op": "load", "file": analyzed})
    tab = mdl.ask({"op": "enum_table"})
    if not tab or tab.get("status") != "ok":
        run.violation("corr", "model failed on analyzed file: %s" % tab, {"pdl": text}, found_input=False)
        return
    table = {e["id"]: e for e in tab["enums"]}
    gens = {}
    for be in ("rust", "python", "cxx"):
        g = drv.ask({"op": "gen", "backend": be, "text": text})
        if g is None or g.get("status") != "ok":
            run.violation("impl", "%s generation failed on well-formed enums: %s" % (be, g or drv.last_death),
                          {"pdl": text, "backend": be, "signature": {"stage": "gen", "backend": be}})
            gens[be] = None
        else:
            gens[be] = g["text"]
    # Python: import the module
    pymod = None
    if gens["python"] is not None:
        pymod = {}
        try:
            exec(compile(gens["python"], "gen_py_%d" % gi, "exec"), pymod)
        except Exception as e:
            run.violation("impl", "generated Python does not import: %r" % e, {"pdl": text, "backend": "python"})
            pymod = None
    # C++: compile IsValid driver
    cxx = None
    if gens["cxx"] is not None:
        cxx = build_cxx(run, gens["cxx"], grp, text, gi)
    for e in grp:
        mt = table.get(e.name)
        pts, back = e.critical_points()
        if e.width <= exh_w:
            pts = sorted(set(pts) | set(range(0, 1 << e.width)))
        else:
            pts = sorted(set(pts) | {rng.randrange(0, 1 << back) for _ in range(32)} |
                         {rng.randrange(0, 1 << e.width) for _ in range(32)})
        ev = mdl.ask({"op": "enum_eval", "id": e.name, "xs": pts})
        if not ev or ev.get("status") != "ok":
            run.violation("corr", "model enum_eval failed: %s" % ev, {"pdl": text, "enum": e.name}, found_input=False)
            continue
        res = ev["results"]
        shape_key = "%s/%s/%s/%s" % ("open" if any(t["kind"] == "other" for t in e.tags) else "closed",
                                     "complete" if mt and mt["complete"] else "incomplete",
                                     "ranges" if any(t["kind"] == "range" for t in e.tags) else "noranges",
                                     "nested" if any(t["kind"] == "range" and t["tags"] for t in e.tags) else "flat")
        run.hist("enum_shapes", shape_key)
        run.hist("widths", str(e.width))
        run.sample({"enum": e.pdl(), "points": len(pts)})
        # --- Rust: translation validation of the emitted arm table
        if gens["rust"] is not None:
            backing, arms = extract_rust_arms(gens["rust"], e.name)
            want = [model_arm_to_rust(x) for x in mt["arms"]] if mt and mt["arms"] is not None else None
            if arms is None or isinstance(arms, str):
                run.violation("corr", "cannot extract TryFrom arms of %s (%s)" % (e.name, arms),
                              {"pdl": e.pdl(), "corr": "corr:C15/rust/arm-extraction"}, found_input=False)
            elif want is None:
                run.violation("corr", "model predicts generator panic but code was emitted for %s" % e.name,
                              {"pdl": e.pdl()}, found_input=False)
            else:
                if arms == want and backing == mt["backing"]:
                    run.count("arm_tables_equal")
                else:
                    # search for an x on which the emitted table and the spec disagree
                    bad = None
                    for rr in res:
                        got = eval_arms(arms, rr["x"])
                        exp = eval_arms(want, rr["x"])   # = spec by rust_from_exact
                        if rr["x"] < (1 << (backing or 64)) and got != exp:
                            bad = (rr["x"], got, exp)
                            break
                    rep = {"pdl": e.pdl(), "enum": e.name, "emitted_arms": arms, "model_arms": want,
                           "corr": "corr:C15/rust/arm-table (theorem Pdlv.Enum.rust_from_exact applies to the model table)"}
                    if bad:
                        rep.update({"x": bad[0], "emitted": bad[1], "spec": bad[2]})
                        run.violation("impl", "emitted TryFrom<u%s> for %s maps %d to %s, specification says %s"
                                      % (backing, e.name, bad[0], bad[1], bad[2]), rep)
                    else:
                        run.violation("corr", "emitted TryFrom arm table of %s differs from the model's" % e.name,
                                      rep, found_input=False)
        for rr in res:
            x = rr["x"]
            spec = rr["spec"]
            # model sanity: theorem's conclusion observed on the model itself
            if x < (1 << back) and rr["rust"] != spec:
                run.violation("corr", "model arms disagree with spec at %d (EnumWF violated by an accepted enum?)" % x,
                              {"pdl": e.pdl(), "x": x, "model": rr["rust"], "spec": spec}, found_input=False)
            run.case((e.pdl(), x, "spec"))
            # --- Python
            if pymod is not None:
                cls = pymod.get(e.name)
                try:
                    v = cls.from_int(x)
                    if isinstance(v, cls):
                        got = {"member": v.name}
                    else:
                        got = {"int": int(v)}
                except Exception as ex:
                    got = "raise" if type(ex).__name__ == "EnumValueError" else {"exception": type(ex).__name__}
                run.case((e.pdl(), x, "py"))
                if got != rr["py"] and not (isinstance(got, dict) and "exception" in got):
                    run.violation("corr", "python from_int(%d) of %s = %s, model %s" % (x, e.name, got, rr["py"]),
                                  {"pdl": e.pdl(), "x": x, "backend": "python", "corr": "corr:C15/python/from_int"},
                                  found_input=False)
                # the property itself
                ok_py = got != "raise" and not (isinstance(got, dict) and "exception" in got)
                if isinstance(got, dict) and "exception" in got:
                    run.violation("impl", "python %s.from_int(%d) raised %s" % (e.name, x, got["exception"]),
                                  {"pdl": e.pdl(), "x": x, "backend": "python",
                                   "signature": {"site": "python.from_int", "class": "exception",
                                                 "exception": got["exception"],
                                                 "value_tags": sum(1 for t in e.tags if t["kind"] == "value")}})
                elif x < (1 << e.width):
                    if ok_py != (spec != "err"):
                        run.violation("impl", "python %s.from_int(%d) %s but the specification %s it"
                                      % (e.name, x, "succeeds" if ok_py else "fails", "rejects" if spec == "err" else "accepts"),
                                      {"pdl": e.pdl(), "x": x, "backend": "python",
                                       "signature": {"site": "python.from_int", "class": "accept-mismatch"}})
                    elif ok_py:
                        val = cls[got["member"]].value if "member" in got else got["int"]
                        if val != x:
                            run.violation("impl", "python %s.from_int(%d) carries %d" % (e.name, x, val),
                                          {"pdl": e.pdl(), "x": x, "backend": "python"})
                elif ok_py:
                    run.violation("impl", "python %s.from_int(%d) accepts an integer >= 2^%d" % (e.name, x, e.width),
                                  {"pdl": e.pdl(), "x": x, "backend": "python",
                                   "signature": {"site": "python.from_int", "class": "open-enum-wide-value",
                                                 "open": any(t["kind"] == "other" for t in e.tags)}})
        # --- C++
        if cxx is not None and not any(t["kind"] == "other" for t in e.tags):
            inp = "".join("%s %d\n" % (e.name, rr["x"]) for rr in res if rr["x"] < (1 << back))
            p = subprocess.run([cxx], input=inp, capture_output=True, text=True, timeout=120)
            outs = p.stdout.split()
            xs = [rr for rr in res if rr["x"] < (1 << back)]
            if p.returncode != 0 or len(outs) != len(xs):
                run.violation("impl", "C++ IsValid driver failed rc=%s %s" % (p.returncode, p.stderr[-300:]),
                              {"pdl": e.pdl(), "backend": "cxx"})
            else:
                for rr, o in zip(xs, outs):
                    run.case((e.pdl(), rr["x"], "cxx"))
                    got = o == "1"
                    if got != rr["cxx"]:
                        run.violation("corr", "C++ IsValid%s(%d)=%s, model %s" % (e.name, rr["x"], got, rr["cxx"]),
                                      {"pdl": e.pdl(), "x": rr["x"], "backend": "cxx", "corr": "corr:C15/cxx/IsValid"},
                                      found_input=False)
                    if got != (rr["spec"] != "err"):
                        run.violation("impl", "C++ IsValid%s(%d)=%s but specification says %s"
                                      % (e.name, rr["x"], got, rr["spec"]),
                                      {"pdl": e.pdl(), "x": rr["x"], "backend": "cxx"})


def build_cxx(run, header, grp, text, gi):
    d = os.path.join(C.CACHE, "c15-cxx", str(gi))
    os.makedirs(d, exist_ok=True)
    open(os.path.join(d, "gen.h"), "w").write(header)
    cases = []
    for e in grp:
        if any(t["kind"] == "other" for t in e.tags):
            continue
        cases.append('    if (name == "%s") r = IsValid%s(x) ? 1 : 0;' % (e.name, e.name))
    open(os.path.join(d, "main.cc"), "w").write(CXX_MAIN % "\n".join(cases))
    exe = os.path.join(d, "main")
    p = subprocess.run(["g++", "-std=c++17", "-O0", "-w", "-I", d, "-I", os.path.join(C.REPO, "pdl-compiler", "scripts"),
                        os.path.join(d, "main.cc"), "-o", exe], capture_output=True, text=True, timeout=600)
    if p.returncode != 0:
        run.violation("impl", "generated C++ does not compile: %s" % p.stderr[-600:], {"pdl": text, "backend": "cxx"})
        return None
    return exe


if __name__ == "__main__":
    sys.exit(main(sys.argv[1:]))
