"""C17 — endianness duality.

Proof:  Pdlv/Thm/C17.lean — endian_dual: the big-endian encoding has the same segments as the little-endian
        one with exactly the integer-valued segments byte-reversed (mutual structural induction over the
        layout, all item kinds, inheritance included); endian_dual_length.
Tie:    every description is compiled together with its twin (only the endianness declaration differs);
        the encodings the emitted code produces for the same value under D and D' must be related by the
        model's segment map (and each must equal the concatenation of the model's segments) — for the Rust
        back end on the Rust class, and for the Python, C++ and Java back ends on their classes (serializer of
        the emitted module / header + packet_runtime.h / classes).
"""
import os
import re
import sys

sys.path.insert(0, os.path.dirname(os.path.dirname(os.path.abspath(__file__))))
from checks.wire_common import WireCheck
import checks.wire_common as WC
from vlib import common as C
from vlib import gen_descr as GD
from vlib import wirerun as W


def twin(text):
    if text.startswith("little_endian_packets"):
        return "big_endian_packets" + text[len("little_endian_packets"):]
    if text.startswith("big_endian_packets"):
        return "little_endian_packets" + text[len("big_endian_packets"):]
    return None


def main(argv):
    wc = WireCheck("C17", argv)
    run = wc.run
    wc.sz = dict(wc.sz, n_desc=max(10, wc.sz["n_desc"] // 2))
    # generate, then add every description's twin to the same harness build
    import random
    from vlib import common as C
    wc.proof = C.proof_audit("C17")
    ok, out = C.build_driver()
    if not ok:
        run.violation("corr", "pdl-driver does not build: " + out[-500:], {"stage": "build"}, found_input=False)
        return wc.finish()
    co = W.Corpus(run, wc.a.tier, wc.a.seed, wc.sz["n_desc"], wc.opts, tag="wire17", extra_texts=WC.corpus_texts())
    wc.co = co
    co.generate()
    base = list(co.descs)
    co.descs = []
    pairs = []
    for d in base:
        t = twin(d["text"])
        if t is None:
            continue
        a = co.add_text(d["text"], origin=d["origin"])
        b = co.add_text(t, origin="twin")
        if a is not None and b is not None:
            pairs.append((a, b))
        else:
            run.violation("impl", "a description is accepted/generated under one endianness only",
                          {"pdl": d["text"], "signature": {"class": "twin-rejected"}})
    if not co.build():
        return wc.finish()
    index = {id(d): i for i, d in enumerate(co.descs)}
    for a, b in pairs:
        if id(a) not in index or id(b) not in index:
            run.hist("skipped", "twin-does-not-compile")
            continue
        ia, ib = index[id(a)], index[id(b)]
        little_first = a["text"].startswith("little")
        for T in co.packet_types(ia):
            vals = [v for v, _ in wc.values(ia, T, wc.sz["values"] + 1)]
            ma = co.model(ia, T, [{"k": "segs", "v": v} for v in vals])
            if not isinstance(ma, list):
                run.hist("model_status", str(ma))
                continue
            for v, m in zip(vals, ma):
                ra = wc.impl(ia, T, "enc", v)
                rb = wc.impl(ib, T, "enc", v)
                run.case((a["text"], T, W.canon(v)))
                rep = {"pdl": a["text"], "type": T, "value": v, "enc_D": ra, "enc_twin": rb, "model_segments": m}
                if ra.get("r") != rb.get("r") or (ra.get("r") == "err" and ra.get("e") != rb.get("e")):
                    run.violation("impl", "%s: encode outcome differs between the endianness twins: %s vs %s" % (T, ra, rb), rep)
                    continue
                if ra.get("r") != "ok":
                    continue
                if m.get("r") != "ok":
                    run.violation("corr", "segment model fails (%s) where the emitted encoder succeeds on %s" % (m, T),
                                  dict(rep, corr="corr:C17/segments"), found_input=False)
                    continue
                segs = m["segs"]
                flat = "".join(h for h, _ in segs)
                flipped = "".join(("".join(reversed(re.findall("..", h))) if sw else h) for h, sw in segs)
                if len(ra["hex"]) != len(rb["hex"]):
                    run.violation("impl", "%s: the twins' encodings differ in length (%d vs %d)" % (T, len(ra["hex"]) // 2, len(rb["hex"]) // 2), rep)
                elif ra["hex"] != flat:
                    run.violation("corr", "encoding of %s is not the concatenation of the model's segments" % T,
                                  dict(rep, corr="corr:C17/flatten"), found_input=False)
                elif rb["hex"] != flipped:
                    # which segment is wrong
                    pos, bad = 0, None
                    for h, sw in segs:
                        exp = "".join(reversed(re.findall("..", h))) if sw else h
                        if rb["hex"][pos:pos + len(h)] != exp:
                            bad = (pos // 2, h, sw, rb["hex"][pos:pos + len(h)])
                            break
                        pos += len(h)
                    rep["first_bad_segment"] = bad
                    run.violation("impl", "%s: twin encoding %s is not D's encoding %s with the integer segments byte-reversed "
                                  "(first bad segment at byte %s)" % (T, rb["hex"][:60], ra["hex"][:60], bad and bad[0]), rep)
                else:
                    run.count("dual_pairs")
                    run.hist("swap_segments", str(min(9, sum(1 for _, sw in segs if sw and len(_) > 2))))
            run.sample({"type": T, "values": len(vals)}, limit=4)
    other_backends(run, wc.a)
    return wc.finish(extra_cov={
        "rule": "every generated description together with its endianness twin; in-range values of every packet/struct "
                "type encoded by the emitted code under both (Rust, Python, C++, Java; each on its construct class); "
                "a case = (back end, description, type, value)"})


def flip_segments(segs):
    return "".join(("".join(reversed(re.findall("..", h))) if sw else h) for h, sw in segs)


def other_backends(run, a):
    """The same twin comparison on the serializers of the Python, C++ and Java back ends."""
    from checks import backend_common as B
    from vlib import gen_value as GV
    n = 5 if a.tier == "quick" else 40
    nvals = 3 if a.tier == "quick" else 8
    for backend in ("python", "cxx", "java"):
        be = B.Backend(run, backend, a.tier, a.seed + 17, n, tag="c17-" + backend)
        if backend == "python":
            # the Python twins are compiled by the pdlc BINARY with a declaration filter option (a configuration the
            # library entry points do not go through: main.rs filters the file before analysis)
            okb, outb = C.build_pdlc()
            if okb:
                be.via_cli = True
                run.hist("configurations", "python twins through `pdlc --exclude-declaration <none>`")
            else:
                run.violation("corr", "pdlc does not build: " + outb[-500:], {"stage": "build-pdlc"}, found_input=False)
        be.generate(stratify=False)
        base = list(be.descs)
        be.descs = []
        pairs = []
        for d in base:
            t = twin(d["text"])
            if t is None:
                continue
            x = be.add_text(d["text"], origin=d["origin"])
            y = be.add_text(t, origin="twin")
            if x is not None and y is not None:
                pairs.append((x, y))
            elif (x is None) != (y is None):
                run.violation("impl", "%s: a description is generated under one endianness only" % backend,
                              {"pdl": d["text"], "backend": backend, "signature": {"class": "twin-rejected", "backend": backend}})
        if not be.descs or not be.build():
            be.close()
            continue
        index = {id(d): i for i, d in enumerate(be.descs)}
        for x, y in pairs:
            if id(x) not in index or id(y) not in index:
                run.hist("skipped", "%s:twin-does-not-compile" % backend)
                continue
            ix, iy = index[id(x)], index[id(y)]
            for T in be.types(ix):
                types = x["types"]
                tags = B.features_of(types.parent_chain(types.decls[T]), types)
                vals = [GV.gen_value(types, T, be.rng)[0] for _ in range(nvals)]
                ms = be.model(ix, T, [{"k": "segs", "v": v} for v in vals])
                if not isinstance(ms, list):
                    run.hist("model_status", "%s:%s" % (backend, ms))
                    continue
                for v, m in zip(vals, ms):
                    if m.get("r") != "ok":
                        continue
                    rx, ry = be.ask(ix, T, "enc", v), be.ask(iy, T, "enc", v)
                    if rx.get("r") != "ok" or ry.get("r") != "ok":
                        run.hist("skipped", "%s:enc-%s/%s" % (backend, rx.get("r"), ry.get("r")))   # C13 / C14 / C19
                        continue
                    run.case((backend, x["text"], T, W.canon(v)))
                    run.hist("backend_pairs", backend)
                    flat = "".join(h for h, _ in m["segs"])
                    if rx["hex"] != flat:
                        # the serializer itself deviates from the reference: conformance, decided by C13 / C14 / C19
                        run.hist("skipped", "%s:not-the-reference-encoding" % backend)
                        continue
                    if ry["hex"] != flip_segments(m["segs"]):
                        run.violation("impl", "%s %s: the twin's encoding %s is not D's encoding %s with the integer segments "
                                      "byte-reversed" % (backend, T, ry["hex"][:60], rx["hex"][:60]),
                                      {"pdl": x["text"], "backend": backend, "type": T, "value": v, "enc_D": rx, "enc_twin": ry,
                                       "model_segments": m, "signature": {"class": "not-dual", "backend": backend, **tags}})
        be.close()


if __name__ == "__main__":
    sys.exit(main(sys.argv[1:]))
