import Pdlv.Ast
import Pdlv.Json
import Pdlv.Enum
