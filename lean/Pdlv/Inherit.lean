/-
  Pdlv.Inherit — model of `generate_specialize_impl` (rust/mod.rs): the match table the
  emitted `Parent::specialize()` uses to pick a child, and the conversions between parent and
  child values.
-/
import Pdlv.Resolve

namespace Pdlv
namespace Inherit

structure SpecCase where
  id : String                          -- the direct child this case selects
  constraints : List (String × Nat)    -- accumulated constraint values (on the parent's data fields)
  size : Size                          -- decl_size + payload_size of the declaration the case comes from
deriving Repr, Inhabited

/-- `packet_data_fields`: ids of named, non-flag, unconstrained fields of `d` and its ancestors -/
def dataFieldIds (f : File) (d : Decl) : List String :=
  let fields := Resolve.allFields f 16 d
  let chain := (List.range 17).foldl (fun (acc : List Decl × Option Decl) _ =>
      match acc.2 with
      | none => acc
      | some x => (acc.1 ++ [x], x.parent?.bind f.lookup)) (([] : List Decl), some d) |>.1
  let constrained := chain.flatMap fun x => x.constraints.map (·.id)
  fields.filterMap fun fl =>
    match fl.desc, fl.id? with
    | .flag .., _ => none
    | _, some id => if constrained.contains id then none else some id
    | _, none => none

def insertC (cs : List (String × Nat)) (k : String) (v : Nat) : List (String × Nat) :=
  (k, v) :: cs.filter (·.1 != k)

/-- `gather_specialize_cases`: cases of the child subtree rooted at `d`, children first -/
def gather (f : File) (sc : List DeclSchema) (topId : String) (dataIds : List String) (pfields : List Field) :
    Nat → Decl → List (String × Nat) → List SpecCase
  | 0, _, _ => []
  | fuel + 1, d, inherited =>
    let cs := d.constraints.foldl (fun acc c =>
      if dataIds.contains c.id then
        match Resolve.constraintValue f pfields c with
        | some v => insertC acc c.id v
        | none => acc
      else acc) inherited
    let kids := (f.children d).flatMap fun k => gather f sc topId dataIds pfields fuel k cs
    let size : Size := match sc.find? (·.id == d.id?) with
      | some ds => ds.sizes.declSize + ds.sizes.payloadSize
      | none => .unknown
    kids ++ [{ id := topId, constraints := cs, size := size }]

def allCases (f : File) (sc : List DeclSchema) (d : Decl) : List SpecCase :=
  let dataIds := dataFieldIds f d
  let pfields := Resolve.allFields f 16 d
  (f.children d).flatMap fun k =>
    match k.id? with
    | some kid => gather f sc kid dataIds pfields (f.decls.length + 1) k []
    | none => []

/-- insertion sort of strings (BTreeSet / BTreeMap order on `String` = byte-wise order) -/
def insertStr (a : String) : List String → List String
  | [] => [a]
  | b :: l => if a < b then a :: b :: l else if a == b then b :: l else b :: insertStr a l

def sortDedup (l : List String) : List String := l.foldl (fun acc a => insertStr a acc) []

def tupleOf (ids : List String) (c : SpecCase) : List (Option Nat) :=
  ids.map fun k => List.lookup k c.constraints

/-- `check_specialize_cases`: two cases with the same key must select the same child -/
def unambiguous (ids : List String) (withSize : Bool) : List SpecCase → Bool
  | [] => true
  | c :: rest =>
    rest.all (fun c' =>
      !(tupleOf ids c == tupleOf ids c' && (!withSize || c.size == c'.size)) || c.id == c'.id)
    && unambiguous ids withSize rest

structure Arm where
  child : String
  pats : List (List (Option Nat) × Option Nat)   -- (constraint tuple, payload length)
deriving Repr, Inhabited

/-- The match table; `none` = the generator fails ("… cannot be disambiguated" → `unwrap` panic). -/
def table (f : File) (sc : List DeclSchema) (d : Decl) : Option (List String × Bool × List Arm) :=
  let cases := allCases f sc d
  let ids := sortDedup (cases.flatMap fun c => c.constraints.map (·.1))
  if !unambiguous ids true cases then none
  else
    let withSize := !unambiguous ids false cases
    let keep := cases.filter fun c =>
      (tupleOf ids c).any Option.isSome || (withSize && c.size != .unknown)
    let childIds := sortDedup (keep.map (·.id))
    let arms := childIds.map fun cid =>
      { child := cid,
        -- a `BTreeSet`: duplicates collapse
        pats := ((keep.filter (·.id == cid)).map fun c =>
          (tupleOf ids c, if withSize then (match c.size with | .static s => some (s / 8) | _ => none) else none)).eraseDups }
    some (ids, withSize, arms)

def patMatches (vals : List (Option Nat)) (plen : Nat) (p : List (Option Nat) × Option Nat) : Bool :=
  (List.zip p.1 vals).all (fun (pat, v) => match pat with
    | none => true
    | some x => v == some x)
  && (match p.2 with | none => true | some n => plen == n)

/-- which child the emitted `match` selects for a parent value (first arm in child-id order) -/
def select (ids : List String) (arms : List Arm) (pv : Value) : Option String :=
  let vals := ids.map fun k => (pv.get? k).bind Value.asNat?
  let plen := (((pv.get? "payload").bind Value.asList?).getD []).length
  (arms.find? fun a => a.pats.any (patMatches vals plen)).map (·.child)

/-- `Parent::specialize()`: `ok none` = `Child::None`. -/
def specialize (c : Cfg) (f : File) (parentId : String) (pv : Value) : Dec (Option (String × Value)) :=
  match f.lookup parentId, Schema.build f with
  | some d, some sc =>
    match table f sc d with
    | none => .panic .badLayout
    | some (ids, _, arms) =>
      match select ids arms pv with
      | none => .ok none
      | some cid =>
        match Resolve.resolve f cid with
        | some (.derived _ parent cs _ items) =>
          (decPartial c parent cs items pv).bind fun v => .ok (some (cid, v))
        | _ => .panic .badLayout
  | _, _ => .panic .badLayout

/-- `Child::try_from(&parent)` -/
def fromParent (c : Cfg) (f : File) (childId : String) (pv : Value) : Dec Value :=
  match Resolve.resolve f childId with
  | some (.derived _ parent cs _ items) => decPartial c parent cs items pv
  | _ => .panic .badLayout

/-- `Parent::try_from(&child)`: the parent's data fields from the child (constants for the
    constrained ones) and the child's own fields serialized (`encode_partial`) as payload -/
def toParent (c : Cfg) (f : File) (childId : String) (cv : Value) : Enc Value :=
  match Resolve.resolve f childId, (f.lookup childId).bind (fun d => d.parent?.bind f.lookup) with
  | some (.derived _ _ _ allCs items), some pd =>
    let v' := Value.obj (cv.fields ++ allCs.map fun (k, x) => (k, Value.int x))
    let pids := dataFieldIds f pd
    match (if items.hasPayload then (cv.get? "payload").bind valBytes else some []) with
    | none => .panic .badValue
    | some p =>
      (encItems c items (.ok p) p.length v' items).bind fun own =>
        let fields := pids.filterMap fun k => (v'.get? k).map fun x => (k, x)
        let hasP := pd.fields.any fun fl => match fl.desc with | .payload _ | .body => true | _ => false
        .ok (.obj (fields ++ (if hasP then [("payload", Value.ofBytes own)] else [])))
  | _, _ => .panic .badLayout

end Inherit
end Pdlv
