/-
  Pdlv.Lemmas.JavaSerChild — the model of `toBytes()` the Java back end emits, on the extended serializer class (size / count
  fields, arrays of scalars, payloads) and for CHILD classes (own fields into a buffer, then every ancestor's
  `toBytes(ByteBuffer payload)` around it), writes for every value the reference-mode encoder accepts exactly the bytes the
  reference-mode encoder writes.
-/
import Pdlv.Lemmas.JavaChunk
import Pdlv.Thm.C05
import Pdlv.Thm.C02

namespace Pdlv
namespace Java

theorem scalars_ref (en : Endian) (w : Nat) : ∀ (vs : List Value) (bs : Bytes),
    encListWith (encTy { e := en, mode := .ideal } (.scalar w)) vs = .ok bs → Java.encScalars en w vs = .ok bs
  | [], bs, h => by simpa [encListWith, Java.encScalars] using h
  | x :: r, bs, h => by
    simp only [encListWith] at h
    obtain ⟨a, ha, h2⟩ := bind_ok _ _ _ h
    obtain ⟨b, hb, h3⟩ := bind_ok _ _ _ h2
    cases x with
    | int x =>
      simp only [encTy, elemOutOfRange, decide_eq_true_eq] at ha
      split at ha
      · cases ha
      · split at ha
        · cases ha
        · rename_i _ hm
          have hlt : x < 2 ^ w := by
            simp only [maskBits] at hm
            have := Nat.two_pow_pos w
            omega
          simp only [Outcome.ok.injEq] at ha h3
          simp only [Java.encScalars, if_neg (show ¬ x ≥ 2 ^ w by omega), scalars_ref en w r b hb, Outcome.bind, putGroup,
            Nat.mod_eq_of_lt hlt, ha, h3]
    | arr _ => simp [encTy] at ha
    | obj _ => simp [encTy] at ha
    | null => simp [encTy] at ha

theorem enums_ref (en : Endian) (nm : String) (e : Enum.Decl) : ∀ (vs : List Value) (bs : Bytes),
    encListWith (encTy { e := en, mode := .ideal } (.enumTy nm e)) vs = .ok bs → Java.encEnums en e vs = .ok bs
  | [], bs, h => by simpa [encListWith, Java.encEnums] using h
  | x :: r, bs, h => by
    simp only [encListWith] at h
    obtain ⟨a, ha, h2⟩ := bind_ok _ _ _ h
    obtain ⟨b, hb, h3⟩ := bind_ok _ _ _ h2
    cases x with
    | int x =>
      simp only [encTy] at ha
      split at ha
      · rename_i hok
        have hlt : x < 2 ^ e.width := by
          simp only [enumOk, Enum.spec, bne_iff_ne, ne_eq] at hok
          by_cases hge : 2 ^ e.width ≤ x
          · simp [hge] at hok
          · omega
        simp only [Outcome.ok.injEq] at ha h3
        have hg : ¬ (x ≥ 2 ^ e.width ∨ (!enumOk e x) = true) := by
          simp only [hok, Bool.not_true, Bool.false_eq_true, or_false]; omega
        simp only [Java.encEnums, if_neg hg, enums_ref en nm e r b hb, Outcome.bind, putGroup, Nat.mod_eq_of_lt hlt, ha, h3]
      · cases ha
    | arr _ => simp [encTy] at ha
    | obj _ => simp [encTy] at ha
    | null => simp [encTy] at ha

theorem items_refE (en : Endian) (all : Items) (p : Bytes) (v : Value) : ∀ (is : Items) (bs : Bytes),
    encWfItems is = true → Pdlv.encItems { e := en, mode := .ideal } all (.ok p) p.length v is = .ok bs →
      Java.encItems en all p v is = .ok bs
  | .nil, bs, _, h => by simpa [Pdlv.encItems, Java.encItems] using h
  | .cons i r, bs, hw, h => by
    simp only [Pdlv.encItems] at h
    obtain ⟨a, ha, h2⟩ := bind_ok _ _ _ h
    obtain ⟨b, hb, h3⟩ := bind_ok _ _ _ h2
    cases i with
    | chunk fs =>
      simp only [encWfItems, Bool.and_eq_true, decide_eq_true_eq] at hw
      simp only [Pdlv.encItem, BEq.rfl] at ha
      obtain ⟨X, hX, h4⟩ := bind_ok _ _ _ ha
      simp only [Outcome.ok.injEq] at h4
      simp only [Java.encItems, chunk_ref en all p.length v fs hw.1 X hX, Outcome.bind, items_refE en all p v r b hw.2 hb, h4]
      exact h3
    | typedef a b c => simp [encWfItems] at hw
    | optional a b c d => simp [encWfItems] at hw
    | payload m =>
      simp only [encWfItems] at hw
      simp only [Pdlv.encItem] at ha
      cases ha
      simp only [Java.encItems, Outcome.bind, items_refE en all p v r b hw hb]
      exact h3
    | array id elem ew shape pad =>
      cases elem with
      | scalar w =>
        cases ew with
        | static k =>
          cases pad with
          | none =>
            simp only [encWfItems, Bool.and_eq_true, decide_eq_true_eq] at hw
            simp only [Pdlv.encItem] at ha
            obtain ⟨vs, hvs, h4⟩ := bind_ok _ _ _ ha
            obtain ⟨u, hu, h5⟩ := bind_ok _ _ _ h4
            obtain ⟨u2, _, h6⟩ := bind_ok _ _ _ h5
            obtain ⟨es, hes, h7⟩ := bind_ok _ _ _ h6
            simp only [padTo, Outcome.ok.injEq] at h7
            have hg : ¬ (w % 8 ≠ 0 ∨ w = 0 ∨ w > 64) := by omega
            simp only [Java.encItems, if_neg hg, hvs, hu, Outcome.bind, scalars_ref en w vs es hes,
              items_refE en all p v r b hw.2 hb, h7]
            exact h3
          | some _ => simp [encWfItems] at hw
        | dynamic => simp [encWfItems] at hw
        | unknown => simp [encWfItems] at hw
      | enumTy nm e =>
        cases ew with
        | static k =>
          cases pad with
          | none =>
            simp only [encWfItems, Bool.and_eq_true, decide_eq_true_eq] at hw
            simp only [Pdlv.encItem] at ha
            obtain ⟨vs, hvs, h4⟩ := bind_ok _ _ _ ha
            obtain ⟨u, hu, h5⟩ := bind_ok _ _ _ h4
            obtain ⟨u2, _, h6⟩ := bind_ok _ _ _ h5
            obtain ⟨es, hes, h7⟩ := bind_ok _ _ _ h6
            simp only [padTo, Outcome.ok.injEq] at h7
            have hg : ¬ (e.width % 8 ≠ 0 ∨ e.width = 0 ∨ e.width > 64) := by omega
            simp only [Java.encItems, if_neg hg, hvs, hu, Outcome.bind, enums_ref en nm e vs es hes,
              items_refE en all p v r b hw.2 hb, h7]
            exact h3
          | some _ => simp [encWfItems] at hw
        | dynamic => simp [encWfItems] at hw
        | unknown => simp [encWfItems] at hw
      | struct _ _ => simp [encWfItems] at hw
      | custom _ _ => simp [encWfItems] at hw


theorem around_ideal_to_java (c : Cfg) : ∀ (b : Body) (v : Value) (ib bs : Bytes),
    encWfChain b = true → lenWfBody b = true →
    Pdlv.encAround { e := c.e, mode := .ideal } b v (.ok ib) ib.length = .ok bs → Java.encAround c b v ib = .ok bs
  | .root nm items, v, ib, bs, hw, _, he => by
    simp only [encWfChain, Bool.and_eq_true] at hw
    simp only [Pdlv.encAround] at he
    simp only [Java.encAround]
    exact items_refE c.e items ib v items bs hw.1.1 he
  | .derived nm gp cs a items, v, ib, bs, hw, hl, he => by
    simp only [encWfChain, Bool.and_eq_true, decide_eq_true_eq] at hw
    obtain ⟨⟨⟨hsw, hpay⟩, hpm⟩, hgp⟩ := hw
    simp only [lenWfBody, Bool.and_eq_true] at hl
    obtain ⟨⟨hlw, hgl⟩, hgpay⟩ := hl
    simp only [Pdlv.encAround] at he
    obtain ⟨mb, hmb, _⟩ := encAround_len { e := c.e, mode := .ideal } gp v _ _ bs hgl hgpay he
    have hmbl := encItems_len { e := c.e, mode := .ideal } items ib ib.length v items mb hlw hmb
    have hsplit := lenItemsP_split v ib.length items hpay hpm
    have he' : Pdlv.encAround { e := c.e, mode := .ideal } gp v (.ok mb) mb.length = .ok bs := by
      rw [hmb] at he; rw [hmbl, hsplit]; exact he
    simp only [Java.encAround, items_refE c.e items ib v items mb hsw hmb, Outcome.bind]
    exact around_ideal_to_java c gp v mb bs hgp hgl he'

/-- a child class's `toBytes()` writes what the reference-mode encoder writes -/
theorem child_ideal_to_java (c : Cfg) (nm : String) (parent : Body) (cs allCs : List (String × Nat)) (items : Items)
    (hw : encWfChild (.derived nm parent cs allCs items) = true) (v : Value) (bs : Bytes)
    (he : Pdlv.encBody { e := c.e, mode := .ideal } (.derived nm parent cs allCs items) v = .ok bs) :
    Java.encBody c (.derived nm parent cs allCs items) v = .ok bs := by
  simp only [encWfChild, Bool.and_eq_true] at hw
  obtain ⟨⟨hsw, hch⟩, hl⟩ := hw
  have hl' := hl
  simp only [lenWfBody, Bool.and_eq_true] at hl'
  obtain ⟨⟨hlw, hgl⟩, hgpay⟩ := hl'
  simp only [Pdlv.encBody] at he
  simp only [Java.encBody]
  split at he
  · cases he
  · rename_i p hp
    simp only [hp]
    obtain ⟨ib, hib, _⟩ := encAround_len { e := c.e, mode := .ideal } parent (withConstants allCs v) _ _ bs hgl hgpay he
    have h1 := encItems_len { e := c.e, mode := .ideal } items p p.length (withConstants allCs v) items ib hlw hib
    have hown : lenItems items (withConstants allCs v) = ib.length := by
      rw [h1]
      by_cases hpay : items.hasPayload = true
      · simp only [hpay, ↓reduceIte] at hp
        cases hg : v.get? "payload" with
        | none => simp [hg] at hp
        | some pv =>
          simp only [hg, Option.bind_some] at hp
          have hg' : (withConstants allCs v).get? "payload" = some pv := by
            simp only [withConstants, Value.get?] at hg ⊢
            show List.lookup "payload" (v.fields ++ _) = _
            rw [List.lookup_append, hg]; rfl
          rw [valBytes_length pv p hp, ← hg']
          exact (lenItemsP_payloadLen _ items).symm
      · have hpay' : items.hasPayload = false := by simpa using hpay
        exact (lenItemsP_noPayload _ p.length items hpay').symm
    have he' : Pdlv.encAround { e := c.e, mode := .ideal } parent (withConstants allCs v) (.ok ib) ib.length = .ok bs := by
      change Pdlv.encAround _ parent (withConstants allCs v) _ (lenItems items (withConstants allCs v)) = _ at he
      rw [hib, hown] at he; exact he
    have hib' := items_refE c.e items p (withConstants allCs v) items ib hsw hib
    have : Java.encItems c.e items p (Value.obj (v.fields ++ allCs.map fun (k, c) => (k, Value.int c))) items = .ok ib := hib'
    simp only [this, Outcome.bind]
    exact around_ideal_to_java c parent (withConstants allCs v) ib bs hch hgl he'

end Java
end Pdlv
