/-
  Pdlv.Lemmas.PySerChild — the model of `serialize()` the Python back end emits for a CHILD packet (own fields into
  a buffer, then the ancestors' `serialize(self, payload=…)` around it, sizes taken from the actual octets) writes,
  for every value the reference-mode encoder accepts, exactly the bytes the reference-mode encoder writes.
-/
import Pdlv.Lemmas.PySer
import Pdlv.Thm.C02

namespace Pdlv
namespace Py

theorem around_ideal_to_py (c : Cfg) : ∀ (b : Body) (v : Value) (ib bs : Bytes),
    serWfChain b = true → lenWfBody b = true →
    Pdlv.encAround { e := c.e, mode := .ideal } b v (.ok ib) ib.length = .ok bs → Py.encAround c b v ib = .ok bs
  | .root nm items, v, ib, bs, hw, _, he => by
    simp only [serWfChain, Bool.and_eq_true] at hw
    simp only [Pdlv.encAround] at he
    simp only [Py.encAround]
    exact items_ideal_to_py c items ib v items bs hw.1.1 he
  | .derived nm gp cs a items, v, ib, bs, hw, hl, he => by
    simp only [serWfChain, Bool.and_eq_true, decide_eq_true_eq] at hw
    obtain ⟨⟨⟨hsw, hpay⟩, hpm⟩, hgp⟩ := hw
    simp only [lenWfBody, Bool.and_eq_true] at hl
    obtain ⟨⟨hlw, hgl⟩, hgpay⟩ := hl
    simp only [Pdlv.encAround] at he
    obtain ⟨mb, hmb, _⟩ := encAround_len { e := c.e, mode := .ideal } gp v _ _ bs hgl hgpay he
    have hmbl := encItems_len { e := c.e, mode := .ideal } items ib ib.length v items mb hlw hmb
    have hsplit := lenItemsP_split v ib.length items hpay hpm
    have he' : Pdlv.encAround { e := c.e, mode := .ideal } gp v (.ok mb) mb.length = .ok bs := by
      rw [hmb] at he; rw [hmbl, hsplit]; exact he
    simp only [Py.encAround, items_ideal_to_py c items ib v items mb hsw hmb, Outcome.bind]
    exact around_ideal_to_py c gp v mb bs hgp hgl he'

/-- a child packet's `serialize()` writes what the reference-mode encoder writes -/
theorem child_ideal_to_py (c : Cfg) (nm : String) (parent : Body) (cs allCs : List (String × Nat)) (items : Items)
    (hw : serWfChild (.derived nm parent cs allCs items) = true) (v : Value) (bs : Bytes)
    (he : Pdlv.encBody { e := c.e, mode := .ideal } (.derived nm parent cs allCs items) v = .ok bs) :
    Py.encBody c (.derived nm parent cs allCs items) v = .ok bs := by
  simp only [serWfChild, Bool.and_eq_true] at hw
  obtain ⟨⟨hsw, hch⟩, hl⟩ := hw
  have hl' := hl
  simp only [lenWfBody, Bool.and_eq_true] at hl'
  obtain ⟨⟨hlw, hgl⟩, hgpay⟩ := hl'
  simp only [Pdlv.encBody] at he
  simp only [Py.encBody]
  split at he
  · cases he
  · rename_i p hp
    simp only [hp]
    obtain ⟨ib, hib, _⟩ := encAround_len { e := c.e, mode := .ideal } parent (withConstants allCs v) _ _ bs hgl hgpay he
    have h1 := encItems_len { e := c.e, mode := .ideal } items p p.length (withConstants allCs v) items ib hlw hib
    have hown : lenItems items (withConstants allCs v) = ib.length := by
      rw [h1]
      by_cases hpay : items.hasPayload = true
      · simp only [hpay, ↓reduceIte] at hp
        cases hg : v.get? "payload" with
        | none => simp [hg] at hp
        | some pv =>
          simp only [hg, Option.bind_some] at hp
          have hg' : (withConstants allCs v).get? "payload" = some pv := by
            simp only [withConstants, Value.get?] at hg ⊢
            show List.lookup "payload" (v.fields ++ _) = _
            rw [List.lookup_append, hg]; rfl
          rw [valBytes_length pv p hp, ← hg']
          exact (lenItemsP_payloadLen _ items).symm
      · have hpay' : items.hasPayload = false := by simpa using hpay
        exact (lenItemsP_noPayload _ p.length items hpay').symm
    have he' : Pdlv.encAround { e := c.e, mode := .ideal } parent (withConstants allCs v) (.ok ib) ib.length = .ok bs := by
      change Pdlv.encAround _ parent (withConstants allCs v) _ (lenItems items (withConstants allCs v)) = _ at he
      rw [hib, hown] at he; exact he
    have hib' := items_ideal_to_py c items p (withConstants allCs v) items ib hsw hib
    have : Py.encItems c items p (Value.obj (v.fields ++ allCs.map fun (k, c) => (k, Value.int c))) items = .ok ib := hib'
    simp only [this, Outcome.bind]
    exact around_ideal_to_py c parent (withConstants allCs v) ib bs hch hgl he'

end Py
end Pdlv
