/-
  Pdlv.Lemmas.JavaSpecAgree — whatever the first-fitting-child dispatch of the Java back end returns (`Pdlv.JavaSpec`)
  is reached by the reference's `decode_partial`, step by step, with the same field values.
-/
import Pdlv.JavaSpec
import Pdlv.Lemmas.JavaArrays
import Pdlv.Lemmas.JavaEnumArrays
import Pdlv.Lemmas.JavaStructSame
import Pdlv.Lemmas.Local

namespace Pdlv
namespace JavaSpec

open Java (RelC RelP SameFields items_same2 items_same3)

def ideal (c : Cfg) : Cfg := { e := c.e, mode := .ideal }

/-- the reference's `Child::decode_partial(&parent)` for a node of the tree -/
def refChild (c : Cfg) : Body → Value → Dec Value
  | .derived _ parent cs _ items, pv =>
    decPartialWith (fun bs => Pdlv.decItems (ideal c) items bs DState.empty) parent cs pv
  | .root .., _ => .panic .badLayout

/-- the reference reaches packet `T` with value `v` from this node, one `decode_partial` per level -/
inductive Reaches (c : Cfg) : Node → Value → String → Value → Prop
  | here (b : Body) (fb : Bool) (ks : List Node) (pv v : Value) :
      refChild c b pv = .ok v → Reaches c (.mk b fb ks) pv (bodyName b) v
  | down (b : Body) (fb : Bool) (ks : List Node) (pv v1 : Value) (k : Node) (T : String) (v : Value) :
      refChild c b pv = .ok v1 → k ∈ ks → Reaches c k v1 T v → Reaches c (.mk b fb ks) pv T v

theorem assemble_rel (sa sb : DState) (h : RelC sa sb) (copied : List (String × Value)) :
    assemble sa copied = assemble sb copied := by
  simp only [assemble, h.1, h.2.1]

/-- one level: the emitted parser of the child's own fields on the parent's payload, nothing left over, is the reference's
    `decode_partial` once the constraints hold -/
theorem own_step (c : Cfg) (nm : String) (parent : Body) (cs allCs : List (String × Nat)) (items : Items)
    (hp : parent.hasPayload = true) (hw : Java.decWfItems3 items = true) (pv : Value)
    (hv : violated parent pv cs = false) (hb : (payloadOf pv).length < 2 ^ 31) (st : DState) (rest : Bytes)
    (h0 : Java.decItemsS c.e items (payloadOf pv) DState.empty = .ok (st, rest)) (hr : rest.isEmpty = true) :
    refChild c (.derived nm parent cs allCs items) pv =
      .ok (assemble st (pv.fields.filter fun (k, _) => k != "payload" && !(cs.any (·.1 == k)))) := by
  have hs := items_same3 c.e items hw (payloadOf pv) hb DState.empty DState.empty ⟨rfl, rfl, fun _ => rfl, fun _ => rfl⟩
  obtain ⟨⟨sb, rb⟩, h3, h4, h5⟩ := hs.1 _ h0
  simp only at h4 h5
  subst h5
  have hfin : ∀ pb : Bytes, Pdlv.decItems { e := c.e, mode := .ideal } items pb DState.empty = .ok (sb, rest) →
      ((Pdlv.decItems { e := c.e, mode := .ideal } items pb DState.empty).bind fun (st', rest') =>
        if rest'.isEmpty then
          Outcome.ok (Value.obj (st'.fields ++ (pv.fields.filter fun (k, _) => k != "payload" && !(cs.any (·.1 == k))) ++
            (match st'.payload with
             | some p => [("payload", Value.ofBytes p)]
             | none => [])))
        else .err .trailingBytes) =
      .ok (assemble st (pv.fields.filter fun (k, _) => k != "payload" && !(cs.any (·.1 == k)))) := by
    intro pb hpb
    simp only [hpb, Outcome.bind, hr, ↓reduceIte, Outcome.ok.injEq]
    have := assemble_rel st sb h4 (pv.fields.filter fun (k, _) => k != "payload" && !(cs.any (·.1 == k)))
    simp only [assemble] at this
    simp only [assemble]
    exact this.symm
  simp only [refChild, decPartialWith, hv, Bool.false_eq_true, ↓reduceIte, hp, ideal]
  unfold payloadOf at h3
  cases hl : pv.fields.lookup "payload" with
  | none =>
    simp only [hl] at h3 ⊢
    exact hfin _ h3
  | some x =>
    cases x <;> simp only [hl] at h3 ⊢ <;> exact hfin _ h3

mutual
theorem fromPayload_sound (c : Cfg) : ∀ (n : Node), wfNode n = true → ∀ (pv : Value) (T : String) (v : Value),
    fits pv n = true → fromPayload c n pv = .ok (T, v) → Reaches c n pv T v
  | .mk (.derived nm parent cs allCs items) fb ks, hw, pv, T, v, hf, h => by
    simp only [wfNode, Bool.and_eq_true] at hw
    obtain ⟨⟨hp, hwi⟩, hwk⟩ := hw
    simp only [fits, Bool.and_eq_true, Bool.not_eq_true'] at hf
    simp only [fromPayload] at h
    split at h
    · cases h
    · rename_i hlen
      obtain ⟨⟨st, rest⟩, h1, h2⟩ := bind_ok _ _ _ h
      simp only at h2
      by_cases hpl : items.hasPayload = true
      · simp only [hpl, ↓reduceIte] at h2
        obtain ⟨r, hd, h3⟩ := bind_ok _ _ _ h2
        by_cases hre : rest.isEmpty = true
        · simp only [hre, ↓reduceIte, Outcome.ok.injEq] at h3
          subst h3
          have hr := own_step c nm parent cs allCs items hp hwi pv hf.1 (by omega) st rest h1 hre
          rcases dispatch_sound c ks hwk nm fb _ T v hd with ⟨_, hT, hv⟩ | ⟨k, hm, hreach⟩
          · subst hT; subst hv
            exact Reaches.here _ _ _ _ _ hr
          · exact Reaches.down _ _ _ _ _ k T v hr hm hreach
        · simp only [hre, Bool.false_eq_true, ↓reduceIte] at h3
          cases h3
      · simp only [hpl, Bool.false_eq_true, ↓reduceIte] at h2
        by_cases hre : rest.isEmpty = true
        · simp only [hre, ↓reduceIte, Outcome.ok.injEq, Prod.mk.injEq] at h2
          have hr := own_step c nm parent cs allCs items hp hwi pv hf.1 (by omega) st rest h1 hre
          rw [← h2.1, ← h2.2]
          exact Reaches.here _ _ _ _ _ hr
        · simp only [hre, Bool.false_eq_true, ↓reduceIte] at h2
          cases h2
  | .mk (.root nm items) fb ks, _, pv, T, v, _, h => by simp [fromPayload] at h

theorem dispatch_sound (c : Cfg) : ∀ (ks : List Node), wfNodes ks = true → ∀ (nm : String) (fb : Bool) (pv : Value)
    (T : String) (v : Value), dispatch c nm fb pv ks = .ok (T, v) →
      (fb = true ∧ T = nm ∧ v = pv) ∨ ∃ k, k ∈ ks ∧ Reaches c k pv T v
  | [], _, nm, fb, pv, T, v, h => by
    simp only [dispatch] at h
    split at h
    · simp only [Outcome.ok.injEq, Prod.mk.injEq] at h
      exact Or.inl ⟨by assumption, h.1.symm, h.2.symm⟩
    · cases h
  | k :: ks, hw, nm, fb, pv, T, v, h => by
    simp only [wfNodes, Bool.and_eq_true] at hw
    simp only [dispatch] at h
    split at h
    · rename_i hc
      simp only [Bool.and_eq_true] at hc
      exact Or.inr ⟨k, List.mem_cons_self .., fromPayload_sound c k hw.1 pv T v hc.2 h⟩
    · rcases dispatch_sound c ks hw.2 nm fb pv T v h with h1 | ⟨k', hm, hr⟩
      · exact Or.inl h1
      · exact Or.inr ⟨k', List.mem_cons_of_mem _ hm, hr⟩
end

/-- the fallback is built only when no candidate fits -/
theorem dispatch_fallback (c : Cfg) (nm : String) (fb : Bool) (pv : Value) : ∀ (ks : List Node),
    (∀ k, k ∈ ks → (candidate k && fits pv k) = false) → dispatch c nm fb pv ks = (if fb then .ok (nm, pv) else .err .constraintValue)
  | [], _ => by simp [dispatch]
  | k :: ks, h => by
    simp only [dispatch, h k (List.mem_cons_self ..), Bool.false_eq_true, ↓reduceIte]
    exact dispatch_fallback c nm fb pv ks (fun k' hk' => h k' (List.mem_cons_of_mem _ hk'))

/-- the first fitting candidate is committed to -/
theorem dispatch_first (c : Cfg) (nm : String) (fb : Bool) (pv : Value) : ∀ (pre : List Node) (k : Node) (post : List Node),
    (∀ k', k' ∈ pre → (candidate k' && fits pv k') = false) → (candidate k && fits pv k) = true →
      dispatch c nm fb pv (pre ++ k :: post) = fromPayload c k pv
  | [], k, post, _, hk => by simp [dispatch, hk]
  | p :: pre, k, post, h, hk => by
    simp only [List.cons_append, dispatch, h p (List.mem_cons_self ..), Bool.false_eq_true, ↓reduceIte]
    exact dispatch_first c nm fb pv pre k post (fun k' hk' => h k' (List.mem_cons_of_mem _ hk')) hk

/-- in the class of the parser theorem, `field_width()` of a node is eight times the octets the reference's parser of the
    own fields consumes -/
theorem ownWidth_static : ∀ (is : Items) (w : Nat), Java.decWfItems2 is = true → ownWidth is = some w →
    ∃ n, staticItems is = some n ∧ w = 8 * n ∧ localWfItems is = true
  | .nil, w, _, h => by
    simp only [ownWidth, Option.some.injEq] at h
    exact ⟨0, rfl, by omega, rfl⟩
  | .cons i r, w, hw, h => by
    cases i with
    | chunk fs =>
      simp only [Java.decWfItems2, Bool.and_eq_true, Bool.or_eq_true, beq_iff_eq] at hw
      simp only [ownWidth, Option.map_eq_some_iff] at h
      obtain ⟨w', hw', rfl⟩ := h
      obtain ⟨n, hn, rfl, hl⟩ := ownWidth_static r w' hw.2 hw'
      refine ⟨chunkBits fs / 8 + n, by simp [staticItems, staticItem, hn], ?_, by simp [localWfItems, localWfItem, hl]⟩
      rcases hw.1.2 with (h8 | h8) | h8 <;> omega
    | payload m => simp [ownWidth] at h
    | typedef a b c => simp [Java.decWfItems2] at hw
    | optional a b c d => simp [Java.decWfItems2] at hw
    | array id elem ew shape pad =>
      cases elem with
      | scalar ws =>
        cases ew with
        | static eb =>
          cases pad with
          | none =>
            cases shape with
            | static cnt =>
              simp only [Java.decWfItems2, Bool.and_eq_true, Bool.or_eq_true, beq_iff_eq] at hw
              simp only [ownWidth, Option.map_eq_some_iff] at h
              obtain ⟨w', hw', rfl⟩ := h
              obtain ⟨n, hn, rfl, hl⟩ := ownWidth_static r w' hw.2 hw'
              obtain ⟨⟨hws, heb⟩, _⟩ := hw
              subst heb
              refine ⟨cnt * (ws / 8) + n, by simp [staticItems, staticItem, staticTy, hn], ?_,
                by simp [localWfItems, localWfItem, localWfTy, staticTy, hl]⟩
              rcases hws with ((h8 | h8) | h8) | h8 <;> subst h8 <;> omega
            | countField => simp [ownWidth] at h
            | sizeField => simp [ownWidth] at h
            | unknown => simp [ownWidth] at h
          | some _ => simp [Java.decWfItems2] at hw
        | dynamic => simp [Java.decWfItems2] at hw
        | unknown => simp [Java.decWfItems2] at hw
      | enumTy nm e =>
        cases ew with
        | static eb =>
          cases pad with
          | none =>
            cases shape with
            | static cnt =>
              simp only [Java.decWfItems2, Bool.and_eq_true, Bool.or_eq_true, beq_iff_eq] at hw
              simp only [ownWidth, Option.map_eq_some_iff] at h
              obtain ⟨w', hw', rfl⟩ := h
              obtain ⟨n, hn, rfl, hl⟩ := ownWidth_static r w' hw.2 hw'
              obtain ⟨⟨hws, heb⟩, _⟩ := hw
              subst heb
              refine ⟨cnt * (e.width / 8) + n, by simp [staticItems, staticItem, staticTy, hn], ?_,
                by simp [localWfItems, localWfItem, localWfTy, staticTy, hl]⟩
              rcases hws with ((h8 | h8) | h8) | h8 <;> rw [h8] <;> omega
            | countField => simp [ownWidth] at h
            | sizeField => simp [ownWidth] at h
            | unknown => simp [ownWidth] at h
          | some _ => simp [Java.decWfItems2] at hw
        | dynamic => simp [Java.decWfItems2] at hw
        | unknown => simp [Java.decWfItems2] at hw
      | struct _ _ => simp [Java.decWfItems2] at hw
      | custom _ _ => simp [Java.decWfItems2] at hw

/-- the same on the class with struct-typed fields -/
theorem ownWidth_static3 : ∀ (is : Items) (w : Nat), Java.decWfItems3 is = true → ownWidth is = some w →
    ∃ n, staticItems is = some n ∧ w = 8 * n ∧ localWfItems is = true
  | .nil, w, _, h => by
    simp only [ownWidth, Option.some.injEq] at h
    exact ⟨0, rfl, by omega, rfl⟩
  | .cons i r, w, hw, h => by
    cases i with
    | typedef id ty sb =>
      cases ty with
      | struct nm b =>
        cases b with
        | root snm sitems =>
          cases sb with
          | some k =>
            simp only [Java.decWfItems3, Bool.and_eq_true, Bool.not_eq_true', beq_iff_eq] at hw
            obtain ⟨⟨⟨⟨h1, h2⟩, h3⟩, h4⟩, h5⟩ := hw
            simp only [ownWidth, Option.map_eq_some_iff] at h
            obtain ⟨w', hw', rfl⟩ := h
            obtain ⟨n, hn, rfl, hl⟩ := ownWidth_static3 r w' h5 hw'
            refine ⟨k + n, by simp [staticItems, staticItem, staticTy, staticBody, h3, hn], by omega,
              by simp [localWfItems, localWfItem, localWfTy, h4, hl]⟩
          | none => simp [Java.decWfItems3] at hw
        | derived a1 a2 a3 a4 a5 => simp [Java.decWfItems3] at hw
      | scalar _ => simp [Java.decWfItems3] at hw
      | enumTy _ _ => simp [Java.decWfItems3] at hw
      | custom _ _ => simp [Java.decWfItems3] at hw
    | optional a b c d => simp [Java.decWfItems3] at hw
    | chunk fs =>
      simp only [Java.decWfItems3, Bool.and_eq_true] at hw
      simp only [ownWidth, Option.map_eq_some_iff] at h
      obtain ⟨w', hw', rfl⟩ := h
      obtain ⟨n, hn, rfl, hl⟩ := ownWidth_static3 r w' hw.2 hw'
      obtain ⟨n1, hn1, he1, hl1⟩ := ownWidth_static (.cons (.chunk fs) .nil) (chunkBits fs) hw.1 (by simp [ownWidth])
      simp only [staticItems, staticItem, Option.some.injEq] at hn1
      refine ⟨chunkBits fs / 8 + n, by simp [staticItems, staticItem, hn], by omega, by simp [localWfItems, localWfItem, hl]⟩
    | payload m => simp [ownWidth] at h
    | array id elem ew shape pad =>
      simp only [Java.decWfItems3, Bool.and_eq_true] at hw
      -- the width of the array alone, from the class-2 lemma on the singleton list
      cases hsingle : ownWidth (.cons (.array id elem ew shape pad) .nil) with
      | none =>
        exfalso
        cases ew <;> cases shape <;> cases pad <;> simp_all [ownWidth]
      | some w1 =>
        obtain ⟨n1, hn1, he1, hl1⟩ := ownWidth_static _ w1 hw.1 hsingle
        have hrest : ∃ w', ownWidth r = some w' ∧ w = w1 + w' := by
          cases ew with
          | static k =>
            cases shape with
            | static cnt =>
              cases pad with
              | none =>
                simp only [ownWidth, Option.map_some, Option.some.injEq, Nat.add_zero] at hsingle
                simp only [ownWidth, Option.map_eq_some_iff] at h
                obtain ⟨w', hw', rfl⟩ := h
                exact ⟨w', hw', by omega⟩
              | some _ => simp [ownWidth] at hsingle
            | countField => simp [ownWidth] at hsingle
            | sizeField => simp [ownWidth] at hsingle
            | unknown => simp [ownWidth] at hsingle
          | dynamic => simp [ownWidth] at hsingle
          | unknown => simp [ownWidth] at hsingle
        obtain ⟨w', hw', rfl⟩ := hrest
        obtain ⟨n, hn, rfl, hl⟩ := ownWidth_static3 r w' hw.2 hw'
        subst he1
        simp only [staticItems] at hn1
        cases hsi : staticItem (.array id elem ew shape pad) with
        | none => simp [hsi] at hn1
        | some a =>
          simp only [hsi, Option.some.injEq, Nat.add_zero] at hn1
          subst hn1
          simp only [localWfItems, Bool.and_eq_true, Bool.and_true] at hl1
          exact ⟨a + n, by simp [staticItems, hsi, hn], by omega, by simp [localWfItems, hl1, hl]⟩

/-- a child whose static width is not the payload's length is one the reference's `decode_partial` rejects -/
theorem unfit_width (c : Cfg) (nm : String) (parent : Body) (cs allCs : List (String × Nat)) (items : Items)
    (hp : parent.hasPayload = true) (hwi : Java.decWfItems3 items = true) (w : Nat) (how : ownWidth items = some w) (pv : Value)
    (hne : ((payloadOf pv).length == w / 8) = false) (v : Value) :
    refChild c (.derived nm parent cs allCs items) pv ≠ .ok v := by
  intro h
  obtain ⟨n, hn, rfl, hl⟩ := ownWidth_static3 items w hwi how
  have hex := decItems_exact_len (ideal c) items n DState.empty hn hl
  have hlen : (payloadOf pv).length ≠ n := by
    intro he
    rw [he] at hne
    simp at hne
  unfold payloadOf at hlen
  have fin : ∀ (pb : Bytes) (k : DState × Bytes → Dec Value), pb.length ≠ n →
      (∀ st' rest', rest'.isEmpty = false → k (st', rest') = .err .trailingBytes) →
      (Pdlv.decItems (ideal c) items pb DState.empty).bind k ≠ .ok v := by
    intro pb k hpb hk hh
    obtain ⟨⟨st', rest'⟩, h1, h2⟩ := bind_ok _ _ _ hh
    have hx := hex pb st' rest' h1
    cases hre : rest'.isEmpty with
    | true =>
      have : rest'.length = 0 := by simpa using hre
      omega
    | false =>
      rw [hk st' rest' hre] at h2
      cases h2
  simp only [refChild, decPartialWith, hp, ↓reduceIte] at h
  by_cases hv : violated parent pv cs = true
  · simp [hv] at h
  · simp only [hv, Bool.false_eq_true, ↓reduceIte] at h
    cases hl' : pv.fields.lookup "payload" with
    | none =>
      simp only [hl'] at h hlen
      exact fin _ _ hlen (fun st' rest' hre => by simp [hre]) h
    | some x =>
      cases x <;> simp only [hl'] at h hlen <;> exact fin _ _ hlen (fun st' rest' hre => by simp [hre]) h

end JavaSpec
end Pdlv
