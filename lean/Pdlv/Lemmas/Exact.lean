/-
  Pdlv.Lemmas.Exact — decode ; encode = id on the slack-free class: whatever the decoder accepts is
  the reference encoding of the value it returns (C04, "accepts only the reference language").
  The lock-step lemmas: chunks, loops, arrays.
-/
import Pdlv.Lemmas.RoundTrip

namespace Pdlv

/-! ### what a context entry promises about the final value -/

/-- `all`: the field list, `is`: the items still to come, `pl`: the payload length, `v`: the decoded value -/
def Fact (all is : Items) (pl : Nat) (v : Value) : Key → Nat → Prop
  | .size t, y =>
    (t = "_payload_" → ∀ m, payloadMode all = some (.sized m) → y = pl + m) ∧
    (t ≠ "_payload_" → sizeOfTarget all t pl v = .ok y)
  | .count t, y => ∃ vs, listField v t = .ok vs ∧ vs.length = y
  | .val id, y => ∀ oid cval, (id, oid, cval) ∈ optItems is → (isPresent v oid = true ↔ y = cval)
  | _, _ => True

/-! ### arithmetic: a group is the sum of its fields -/

theorem split_low (n w B : Nat) : n % 2 ^ (w + B) = n % 2 ^ w + 2 ^ w * ((n / 2 ^ w) % 2 ^ B) := by
  rw [Nat.pow_add, Nat.mod_mul]

theorem field_sum (chunk shift w B : Nat) :
    ((chunk / 2 ^ shift) % 2 ^ (w + B)) * 2 ^ shift =
      ((chunk / 2 ^ shift) % 2 ^ w) * 2 ^ shift + ((chunk / 2 ^ (shift + w)) % 2 ^ B) * 2 ^ (shift + w) := by
  rw [split_low, Nat.add_mul, Nat.pow_add, Nat.div_div_eq_div_mul]
  congr 1
  rw [Nat.mul_comm (2 ^ w), Nat.mul_assoc, Nat.mul_comm (2 ^ w)]

theorem toBE_fromBE (bs : Bytes) : toBE bs.length (fromBE bs) = bs := by
  have := toLE_fromLE bs.reverse
  simp only [List.length_reverse] at this
  simp [toBE, fromBE, this]

/-- the integer `get_uint{_le}` reads from exactly these octets -/
def rdInt (e : Endian) (h : Bytes) : Nat :=
  match e with
  | .little => fromLE h
  | .big => fromBE h

theorem putUint_getBytes (e : Endian) (w : Nat) (h : Bytes) (hl : h.length = w / 8) :
    putUint e w (rdInt e h) = h := by
  cases e with
  | little => simp only [putUint, rdInt]; rw [← hl]; exact toLE_fromLE h
  | big => simp only [putUint, rdInt]; rw [← hl]; exact toBE_fromBE h

theorem fromBE_lt (bs : Bytes) : fromBE bs < 2 ^ (8 * bs.length) := by
  have := fromLE_lt bs.reverse
  simpa [fromBE] using this

/-! ### the decoder only appends fields and only pushes context entries -/

theorem decChunkFields_mono (ideal : Bool) : ∀ (fs : List BitField) (shift chunk : Nat) (st st' : DState),
    decChunkFields ideal fs shift chunk st = .ok st' →
      (∃ ext, st'.fields = st.fields ++ ext) ∧ st'.payload = st.payload ∧
      (∀ k, k ∉ chunkKeys fs → st'.ctx.get k = st.ctx.get k)
  | [], shift, chunk, st, st', h => by
    simp only [decChunkFields, Outcome.ok.injEq] at h
    subst h; exact ⟨⟨[], by simp⟩, rfl, fun _ _ => rfl⟩
  | f :: fs, shift, chunk, st, st', h => by
    have key : ∀ (st1 : DState) (kk : Option Key), (∃ e1, st1.fields = st.fields ++ e1) → st1.payload = st.payload →
        (∀ k, (kk = some k → False) → st1.ctx.get k = st.ctx.get k) → (∀ k, kk = some k → k ∈ chunkKeys (f :: fs)) →
        (∀ k, k ∈ chunkKeys fs → k ∈ chunkKeys (f :: fs)) →
        decChunkFields ideal fs (shift + f.width) chunk st1 = .ok st' →
        (∃ ext, st'.fields = st.fields ++ ext) ∧ st'.payload = st.payload ∧
          (∀ k, k ∉ chunkKeys (f :: fs) → st'.ctx.get k = st.ctx.get k) := by
      intro st1 kk ⟨e1, he1⟩ hp hc hk1 hk2 hd
      obtain ⟨⟨e2, he2⟩, hp2, hc2⟩ := decChunkFields_mono ideal fs _ chunk st1 st' hd
      refine ⟨⟨e1 ++ e2, by rw [he2, he1, List.append_assoc]⟩, hp2.trans hp, ?_⟩
      intro k hk
      rw [hc2 k (fun h' => hk (hk2 k h')), hc k (fun h' => hk (hk1 k h'))]
    have push : ∀ (k0 : Key) (x : Nat) (fl : List (String × Value)) (k : Key), (some k0 = some k → False) →
        Ctx.get ((k0, x) :: st.ctx) k = st.ctx.get k := by
      intro k0 x _ k hne
      have : (k == k0) = false := by
        simp only [beq_eq_false_iff_ne, ne_eq]; intro e; exact hne (by rw [e])
      simp [Ctx.get, List.lookup, this]
    unfold decChunkFields at h
    cases f with
    | scalar id w =>
      refine key _ (some (.val id)) ?_ ?_ ?_ ?_ ?_ h
      · exact ⟨[(id, .int _)], rfl⟩
      · rfl
      · exact fun k hk => push _ _ [] k hk
      · exact fun k hk => by simp only [Option.some.injEq] at hk; subst hk; simp [chunkKeys]
      · exact fun k hk => by simp [chunkKeys, hk]
    | flag id o =>
      refine key _ (some (.val id)) ?_ ?_ ?_ ?_ ?_ h
      · exact ⟨[], by simp⟩
      · rfl
      · exact fun k hk => push _ _ [] k hk
      · exact fun k hk => by simp only [Option.some.injEq] at hk; subst hk; simp [chunkKeys]
      · exact fun k hk => by simp [chunkKeys, hk]
    | enumTy id ty e =>
      simp only at h
      split at h
      · refine key _ (some (.val id)) ?_ ?_ ?_ ?_ ?_ h
        · exact ⟨[(id, .int _)], rfl⟩
        · rfl
        · exact fun k hk => push _ _ [] k hk
        · exact fun k hk => by simp only [Option.some.injEq] at hk; subst hk; simp [chunkKeys]
        · exact fun k hk => by simp [chunkKeys, hk]
      · cases h
    | fixed w c =>
      simp only at h
      split at h
      · exact key st none ⟨[], by simp⟩ rfl (fun _ _ => rfl) (fun k hk => by cases hk)
          (fun k hk => by simp [chunkKeys, hk]) h
      · cases h
    | reserved w =>
      exact key st none ⟨[], by simp⟩ rfl (fun _ _ => rfl) (fun k hk => by cases hk)
        (fun k hk => by simp [chunkKeys, hk]) h
    | size t w m =>
      simp only at h
      split at h
      · split at h
        · cases h
        · refine key _ (some (.size t)) ?_ ?_ ?_ ?_ ?_ h
          · exact ⟨[], by simp⟩
          · rfl
          · exact fun k hk => push _ _ [] k hk
          · exact fun k hk => by simp only [Option.some.injEq] at hk; subst hk; simp [chunkKeys]
          · exact fun k hk => by simp [chunkKeys, hk]
      · refine key _ (some (.size t)) ?_ ?_ ?_ ?_ ?_ h
        · exact ⟨[], by simp⟩
        · rfl
        · exact fun k hk => push _ _ [] k hk
        · exact fun k hk => by simp only [Option.some.injEq] at hk; subst hk; simp [chunkKeys]
        · exact fun k hk => by simp [chunkKeys, hk]
    | count t w =>
      refine key _ (some (.count t)) ?_ ?_ ?_ ?_ ?_ h
      · exact ⟨[], by simp⟩
      · rfl
      · exact fun k hk => push _ _ [] k hk
      · exact fun k hk => by simp only [Option.some.injEq] at hk; subst hk; simp [chunkKeys]
      · exact fun k hk => by simp [chunkKeys, hk]
    | elemSize t w =>
      refine key _ (some (.esize t)) ?_ ?_ ?_ ?_ ?_ h
      · exact ⟨[], by simp⟩
      · rfl
      · exact fun k hk => push _ _ [] k hk
      · exact fun k hk => by simp only [Option.some.injEq] at hk; subst hk; simp [chunkKeys]
      · exact fun k hk => by simp [chunkKeys, hk]

theorem mod_two_pow_le_mask (n w : Nat) : ¬ (n % 2 ^ w > maskBits w) := by
  have := Nat.mod_lt n (Nat.two_pow_pos w)
  simp only [maskBits]; omega

/-- **one bit-field group, decoder to encoder**: the encoder recomputes, from the decoded value, exactly
    the bits the decoder read — value fields from the value, constants from the description, size and
    count fields from the arrays / payload they were found to delimit -/
theorem chunk_exact (idealD : Bool) (all later : Items) (pl : Nat) (v : Value)
    (hpm : ∀ md, payloadMode later = some md → payloadMode all = some md) :
    ∀ (fs : List BitField) (shift chunk acc : Nat) (st st' : DState),
      (∀ f ∈ fs, bfExact later f = true) → (chunkKeys fs).Nodup →
      decChunkFields idealD fs shift chunk st = .ok st' →
      (∀ id x, (id, x) ∈ st'.fields → v.get? id = some x) →
      (∀ k ∈ chunkKeys fs, ∀ y, st'.ctx.get k = some y → Fact all later pl v k y) →
      encChunkFields true all pl v fs shift acc =
        .ok (acc + ((chunk / 2 ^ shift) % 2 ^ (chunkBits fs)) * 2 ^ shift)
  | [], shift, chunk, acc, st, st', _, _, _, _, _ => by
    simp [encChunkFields, chunkBits, Nat.mod_one]
  | f :: fs, shift, chunk, acc, st, st', hbf, hnd, hd, hag, hfact => by
    have hbf' : ∀ g ∈ fs, bfExact later g = true := fun g hg => hbf g (List.mem_cons_of_mem _ hg)
    have hf := hbf f (List.mem_cons_self ..)
    -- the rest of the group, once this field's value `x` has been placed
    have rest : ∀ (st1 : DState), decChunkFields idealD fs (shift + f.width) chunk st1 = .ok st' →
        (chunkKeys fs).Nodup → (∀ k ∈ chunkKeys fs, k ∈ chunkKeys (f :: fs)) →
        encChunkFields true all pl v fs (shift + f.width) (acc + ((chunk / 2 ^ shift) % 2 ^ f.width) * 2 ^ shift) =
          .ok (acc + ((chunk / 2 ^ shift) % 2 ^ (chunkBits (f :: fs))) * 2 ^ shift) := by
      intro st1 h1 hnd1 hsub
      rw [chunk_exact idealD all later pl v hpm fs (shift + f.width) chunk _ st1 st' hbf' hnd1 h1 hag
        (fun k hk y hy => hfact k (hsub k hk) y hy), chunkBits_cons, field_sum, Nat.add_assoc]
    have hx := Nat.mod_lt (chunk / 2 ^ shift) (Nat.two_pow_pos f.width)
    unfold decChunkFields at hd
    unfold encChunkFields
    cases f with
    | scalar id w =>
      simp only [bfExact, decide_eq_true_eq] at hf
      simp only [chunkKeys, List.nodup_cons] at hnd
      obtain ⟨⟨ext, hext⟩, _, _⟩ := decChunkFields_mono idealD fs _ chunk _ st' hd
      have hget : v.get? id = some (.int ((chunk / 2 ^ shift) % 2 ^ w)) :=
        hag id _ (by rw [hext]; simp [BitField.width])
      simp only [BitField.width] at hx
      have hb := Nat.pow_le_pow_right (by decide : 2 > 0) (backingOf_ge w hf)
      simp only [natField, hget, Outcome.bind]
      rw [if_neg (by omega), if_neg (by intro h; exact mod_two_pow_le_mask _ _ h.2)]
      exact rest _ hd hnd.2 (fun k hk => by simp [chunkKeys, hk])
    | enumTy id ty e =>
      simp only [bfExact, decide_eq_true_eq] at hf
      simp only [chunkKeys, List.nodup_cons] at hnd
      simp only at hd
      split at hd
      · rename_i hok
        obtain ⟨⟨ext, hext⟩, _, _⟩ := decChunkFields_mono idealD fs _ chunk _ st' hd
        have hget : v.get? id = some (.int ((chunk / 2 ^ shift) % 2 ^ e.width)) :=
          hag id _ (by rw [hext]; simp [BitField.width])
        simp only [BitField.width] at hok
        simp only [natField, hget, Outcome.bind, hok, ↓reduceIte]
        exact rest _ hd hnd.2 (fun k hk => by simp [chunkKeys, hk])
      · cases hd
    | fixed w c =>
      simp only at hd
      split at hd
      · rename_i heq
        simp only [BitField.width] at heq
        have := rest st hd (by simpa [chunkKeys] using hnd) (fun k hk => by simpa [chunkKeys] using hk)
        simp only [BitField.width] at this ⊢
        rw [← heq]; exact this
      · cases hd
    | reserved w => simp [bfExact] at hf
    | flag id opts =>
      simp only [bfExact, Bool.and_eq_true, Bool.not_eq_true', List.isEmpty_eq_false_iff, List.all_eq_true, decide_eq_true_eq,
        List.contains_iff_mem] at hf
      obtain ⟨⟨hne, hle⟩, hin⟩ := hf
      simp only [chunkKeys, List.nodup_cons] at hnd
      simp only [BitField.width] at hx
      obtain ⟨_, _, hctx⟩ := decChunkFields_mono idealD fs _ chunk _ st' hd
      have hget : st'.ctx.get (.val id) = some ((chunk / 2 ^ shift) % 2 ^ 1) := by
        rw [hctx _ hnd.1]; simp [Ctx.get, List.lookup, BitField.width]
      have hfa := hfact (.val id) (by simp [chunkKeys]) _ hget
      simp only [Fact] at hfa
      generalize hxx : (chunk / 2 ^ shift) % 2 ^ 1 = x at hfa hx ⊢
      have hx1 : x ≤ 1 := by omega
      cases opts with
      | nil => exact absurd rfl hne
      | cons o rs =>
        obtain ⟨oid, setv⟩ := o
        simp only
        have key : ∀ k val, (k, val) ∈ (oid, setv) :: rs → (isPresent v k = true ↔ x = val) ∧ val ≤ 1 :=
          fun k val hm => ⟨hfa k val (hin (k, val) hm), hle (k, val) hm⟩
        have hno : ¬ (((oid, setv) :: rs).length ≥ 2 ∧
            (((oid, setv) :: rs).any fun (k, val) => if val = 1 then !isPresent v k else isPresent v k) = true ∧
            (((oid, setv) :: rs).any fun (k, val) => if val = 1 then isPresent v k else !isPresent v k) = true) := by
          intro ⟨_, hz, ho⟩
          simp only [List.any_eq_true] at hz ho
          obtain ⟨⟨k0, v0⟩, hm0, hz0⟩ := hz
          obtain ⟨⟨k1, v1⟩, hm1, ho1⟩ := ho
          obtain ⟨a0, b0⟩ := key k0 v0 hm0
          obtain ⟨a1, b1⟩ := key k1 v1 hm1
          simp only at hz0 ho1
          by_cases p0 : isPresent v k0 = true <;> by_cases p1 : isPresent v k1 = true <;>
            simp_all <;> omega
        rw [if_neg hno]
        obtain ⟨a, b⟩ := key oid setv (List.mem_cons_self ..)
        have hbit : (if isPresent v oid = true then setv else 1 - setv) = x := by
          by_cases p : isPresent v oid = true
          · simp only [p, ↓reduceIte]; exact (a.mp p).symm
          · have : ¬ x = setv := fun h => p (a.mpr h)
            simp only [p, Bool.false_eq_true, ↓reduceIte]; omega
        rw [hbit]
        have := rest _ hd hnd.2 (fun k hk => by simp [chunkKeys, hk])
        simpa [BitField.width, hxx] using this
    | elemSize t w => simp [bfExact] at hf
    | size t w m =>
      simp only [chunkKeys, List.nodup_cons] at hnd
      simp only [BitField.width] at hx
      have hmask : ¬ ((chunk / 2 ^ shift) % 2 ^ w > maskBits w) := mod_two_pow_le_mask _ _
      by_cases ht : t = "_payload_"
      · subst ht
        simp only [bfExact, BEq.rfl, ↓reduceIte, beq_iff_eq] at hf
        simp only [ne_eq, not_true_eq_false, and_false, ↓reduceIte] at hd
        obtain ⟨_, _, hctx⟩ := decChunkFields_mono idealD fs _ chunk _ st' hd
        have hget : st'.ctx.get (.size "_payload_") = some ((chunk / 2 ^ shift) % 2 ^ w) := by
          rw [hctx _ hnd.1]; simp [Ctx.get, List.lookup, BitField.width]
        have hfa := (hfact (.size "_payload_") (by simp [chunkKeys]) _ hget).1 rfl m (hpm _ hf)
        simp only [sizeOfTarget, BEq.rfl, Bool.true_or, ↓reduceIte, Outcome.bind, Bool.or_true]
        rw [← hfa, if_neg hmask]
        exact rest _ hd hnd.2 (fun k hk => by simp [chunkKeys, hk])
      · have hb : (t == "_payload_") = false := by simpa using ht
        simp only [bfExact, hb, Bool.false_eq_true, ↓reduceIte, Bool.and_eq_true, bne_iff_ne, ne_eq, beq_iff_eq] at hf
        obtain ⟨⟨_, hm⟩, _⟩ := hf
        subst hm
        have hd' : decChunkFields idealD fs (shift + w) chunk
            { st with ctx := (.size t, (chunk / 2 ^ shift) % 2 ^ w) :: st.ctx } = .ok st' := by
          simp only [BitField.width] at hd
          split at hd
          · simpa using hd
          · exact hd
        obtain ⟨_, _, hctx⟩ := decChunkFields_mono idealD fs _ chunk _ st' hd'
        have hget : st'.ctx.get (.size t) = some ((chunk / 2 ^ shift) % 2 ^ w) := by
          rw [hctx _ hnd.1]; simp [Ctx.get, List.lookup]
        have hfa := (hfact (.size t) (by simp [chunkKeys]) _ hget).2 ht
        simp only [hfa, Outcome.bind, Bool.true_or, ↓reduceIte, Nat.add_zero]
        rw [if_neg hmask]
        exact rest _ hd' hnd.2 (fun k hk => by simp [chunkKeys, hk])
    | count t w =>
      simp only [bfExact, Bool.and_eq_true, decide_eq_true_eq] at hf
      simp only [chunkKeys, List.nodup_cons] at hnd
      simp only [BitField.width] at hx
      obtain ⟨_, _, hctx⟩ := decChunkFields_mono idealD fs _ chunk _ st' hd
      have hget : st'.ctx.get (.count t) = some ((chunk / 2 ^ shift) % 2 ^ w) := by
        rw [hctx _ hnd.1]; simp [Ctx.get, List.lookup, BitField.width]
      obtain ⟨vs, hvs, hlen⟩ := hfact (.count t) (by simp [chunkKeys]) _ hget
      have hb := Nat.pow_le_pow_right (by decide : 2 > 0) (backingOf_ge w (by omega))
      simp only [hvs, Outcome.bind, hlen]
      rw [if_neg (by intro h; exact mod_two_pow_le_mask _ _ h.2), Nat.mod_eq_of_lt (by omega)]
      exact rest _ hd hnd.2 (fun k hk => by simp [chunkKeys, hk])

/-! ### items only append fields, bind the keys of their chunks, and set the payload at a payload item -/

def Item.isPayload : Item → Bool
  | .payload _ => true
  | _ => false

theorem typedef_ok (c : Cfg) (id : String) (ty : Ty) (sb : Option Nat) (bs : Bytes)
    (st st' : DState) (r : Bytes) (h : decItem c (.typedef id ty sb) bs st = .ok (st', r)) :
    ∃ x, decTy c ty bs = .ok (x, r) ∧ st' = { st with fields := st.fields ++ [(id, x)] } := by
  cases ty with
  | custom nm w =>
    simp only [decItem] at h
    split at h
    · split at h <;> cases h
    · rename_i hlen
      obtain ⟨⟨x, r'⟩, h1, h2⟩ := bind_ok _ _ _ h
      simp only [Outcome.ok.injEq, Prod.mk.injEq] at h2
      obtain ⟨rfl, rfl⟩ := h2
      exact ⟨.int x, by simp [decTy, hlen, h1, Outcome.bind], rfl⟩
  | scalar w =>
    simp only [decItem] at h
    obtain ⟨⟨x, r'⟩, h1, h2⟩ := bind_ok _ _ _ h
    simp only [Outcome.ok.injEq, Prod.mk.injEq] at h2
    obtain ⟨rfl, rfl⟩ := h2
    exact ⟨x, h1, rfl⟩
  | enumTy nm en =>
    simp only [decItem] at h
    obtain ⟨⟨x, r'⟩, h1, h2⟩ := bind_ok _ _ _ h
    simp only [Outcome.ok.injEq, Prod.mk.injEq] at h2
    obtain ⟨rfl, rfl⟩ := h2
    exact ⟨x, h1, rfl⟩
  | struct nm b =>
    simp only [decItem] at h
    obtain ⟨⟨x, r'⟩, h1, h2⟩ := bind_ok _ _ _ h
    simp only [Outcome.ok.injEq, Prod.mk.injEq] at h2
    obtain ⟨rfl, rfl⟩ := h2
    exact ⟨x, h1, rfl⟩

theorem decItem_mono (c : Cfg) (i : Item) (bs r : Bytes) (st st' : DState)
    (h : decItem c i bs st = .ok (st', r)) :
    (∃ ext, st'.fields = st.fields ++ ext) ∧ (i.isPayload = false → st'.payload = st.payload) ∧
    (∀ k, k ∉ keysBound (.cons i .nil) → st'.ctx.get k = st.ctx.get k) := by
  cases i with
  | chunk fs =>
    simp only [decItem, decChunk] at h
    split at h
    · cases h
    · obtain ⟨st1, h1, h2⟩ := bind_ok _ _ _ h
      simp only [Outcome.ok.injEq, Prod.mk.injEq] at h2
      obtain ⟨rfl, _⟩ := h2
      obtain ⟨hf, hp, hc⟩ := decChunkFields_mono _ fs _ _ st st1 h1
      exact ⟨hf, fun _ => hp, fun k hk => hc k (by simpa [keysBound] using hk)⟩
  | typedef id ty sb =>
    obtain ⟨x, _, rfl⟩ := typedef_ok c id ty sb bs st st' r h
    exact ⟨⟨_, rfl⟩, fun _ => rfl, fun _ _ => rfl⟩
  | optional id ty cid cval =>
    rcases optional_ok c id ty cid cval bs st st' r h with ⟨x, _, rfl⟩ | ⟨_, rfl⟩
    · exact ⟨⟨_, rfl⟩, fun _ => rfl, fun _ _ => rfl⟩
    · exact ⟨⟨_, rfl⟩, fun _ => rfl, fun _ _ => rfl⟩
  | payload mode =>
    refine ⟨?_, fun hp => by simp [Item.isPayload] at hp, ?_⟩
    all_goals
      simp only [decItem] at h
      split at h
      · split at h
        · cases h
        · split at h
          · cases h
          · split at h
            · cases h
            · simp only [Outcome.ok.injEq, Prod.mk.injEq] at h
              obtain ⟨rfl, _⟩ := h
              first | exact ⟨[], by simp⟩ | exact fun _ _ => rfl
      · simp only [Outcome.ok.injEq, Prod.mk.injEq] at h
        obtain ⟨rfl, _⟩ := h
        first | exact ⟨[], by simp⟩ | exact fun _ _ => rfl
      · split at h
        · cases h
        · simp only [Outcome.ok.injEq, Prod.mk.injEq] at h
          obtain ⟨rfl, _⟩ := h
          first | exact ⟨[], by simp⟩ | exact fun _ _ => rfl
      · cases h
  | array id elem ew shape pad =>
    simp only [decItem] at h
    split at h
    · cases h
    · obtain ⟨⟨vs, r'⟩, _, h2⟩ := bind_ok _ _ _ h
      simp only [Outcome.ok.injEq, Prod.mk.injEq] at h2
      obtain ⟨rfl, _⟩ := h2
      exact ⟨⟨_, rfl⟩, fun _ => rfl, fun _ _ => rfl⟩

theorem decItems_mono (c : Cfg) : ∀ (is : Items) (bs r : Bytes) (st st' : DState),
    decItems c is bs st = .ok (st', r) →
      (∃ ext, st'.fields = st.fields ++ ext) ∧ (is.hasPayload = false → st'.payload = st.payload) ∧
      (∀ k, k ∉ keysBound is → st'.ctx.get k = st.ctx.get k)
  | .nil, bs, r, st, st', h => by
    simp only [decItems, Outcome.ok.injEq, Prod.mk.injEq] at h
    obtain ⟨rfl, _⟩ := h
    exact ⟨⟨[], by simp⟩, fun _ => rfl, fun _ _ => rfl⟩
  | .cons i is, bs, r, st, st', h => by
    simp only [decItems] at h
    obtain ⟨⟨st1, b1⟩, h1, h2⟩ := bind_ok _ _ _ h
    obtain ⟨⟨e1, he1⟩, hp1, hc1⟩ := decItem_mono c i bs b1 st st1 h1
    obtain ⟨⟨e2, he2⟩, hp2, hc2⟩ := decItems_mono c is b1 r st1 st' h2
    refine ⟨⟨e1 ++ e2, by rw [he2, he1, List.append_assoc]⟩, ?_, ?_⟩
    · intro hh
      have hi : i.isPayload = false ∧ is.hasPayload = false := by
        cases i <;> simp_all [Items.hasPayload, Item.isPayload]
      rw [hp2 hi.2, hp1 hi.1]
    · intro k hk
      have hk1 : k ∉ keysBound (.cons i .nil) := by
        cases i <;> simp_all [keysBound]
      have hk2 : k ∉ keysBound is := by
        cases i <;> simp_all [keysBound]
      rw [hc2 k hk2, hc1 k hk1]

/-! ### loops -/

def ElemExact (enc : Value → Enc Bytes) (dec : Bytes → Dec (Value × Bytes)) : Prop :=
  ∀ bs x rest, dec bs = .ok (x, rest) → ∃ es, enc x = .ok es ∧ bs = es ++ rest

theorem repeat_exact (enc : Value → Enc Bytes) (dec : Bytes → Dec (Value × Bytes)) (h : ElemExact enc dec) :
    ∀ (n : Nat) (bs : Bytes) (vs : List Value) (rest : Bytes), decRepeat dec n bs = .ok (vs, rest) →
      ∃ es, encListWith enc vs = .ok es ∧ bs = es ++ rest ∧ vs.length = n
  | 0, bs, vs, rest, hd => by
    simp only [decRepeat, Outcome.ok.injEq, Prod.mk.injEq] at hd
    obtain ⟨rfl, rfl⟩ := hd
    exact ⟨[], by simp [encListWith], by simp, rfl⟩
  | n + 1, bs, vs, rest, hd => by
    simp only [decRepeat] at hd
    obtain ⟨⟨x, b1⟩, h1, h2⟩ := bind_ok _ _ _ hd
    obtain ⟨⟨xs, b2⟩, h3, h4⟩ := bind_ok _ _ _ h2
    simp only [Outcome.ok.injEq, Prod.mk.injEq] at h4
    obtain ⟨rfl, rfl⟩ := h4
    obtain ⟨e1, he1, hb1⟩ := h bs x b1 h1
    obtain ⟨e2, he2, hb2, hl⟩ := repeat_exact enc dec h n b1 xs b2 h3
    exact ⟨e1 ++ e2, by simp [encListWith, he1, he2, Outcome.bind], by rw [hb1, hb2, List.append_assoc], by simp [hl]⟩

theorem while_exact (enc : Value → Enc Bytes) (dec : Bytes → Dec (Value × Bytes)) (h : ElemExact enc dec) :
    ∀ (fuel : Nat) (bs : Bytes) (vs : List Value), decWhile dec fuel bs = .ok vs → encListWith enc vs = .ok bs
  | 0, bs, vs, hd => by simp [decWhile] at hd
  | fuel + 1, bs, vs, hd => by
    simp only [decWhile] at hd
    split at hd
    · rename_i hemp
      simp only [Outcome.ok.injEq] at hd
      subst hd
      have : bs = [] := by simpa using hemp
      simp [encListWith, this]
    · obtain ⟨⟨x, b1⟩, h1, h2⟩ := bind_ok _ _ _ hd
      simp only at h2
      split at h2
      · obtain ⟨xs, h3, h4⟩ := bind_ok _ _ _ h2
        simp only [Outcome.ok.injEq] at h4
        subst h4
        obtain ⟨e1, he1, hb1⟩ := h bs x b1 h1
        have := while_exact enc dec h fuel b1 xs h3
        simp [encListWith, he1, this, Outcome.bind, hb1]
      · cases h2


/-! ### arrays: the eight cases without element-size field -/

theorem unwrapArr_ok (n : Nat) (vs ws : List Value) (h : unwrapArr n vs = .ok ws) : ws = vs ∧ vs.length = n := by
  simp only [unwrapArr] at h
  split at h
  · simp only [Outcome.ok.injEq] at h; exact ⟨h.symm, by assumption⟩
  · cases h

theorem array_exact (m : Mode) (enc : Value → Enc Bytes) (dec : Bytes → Dec (Value × Bytes)) (he : ElemExact enc dec)
    (ew : ElemWidth) (shape : Shape) (cnt siz esz : Option Nat) (sp : Bytes) (vs : List Value) (rest : Bytes)
    (hew : ew ≠ .dynamic) (hst : ∀ w, ew = .static w → ∀ x b, enc x = .ok b → b.length = w)
    (h : decArray m dec ew shape cnt siz esz sp = .ok (vs, rest)) :
    ∃ es, encListWith enc vs = .ok es ∧ sp = es ++ rest ∧
      (∀ n, shape = .static n → vs.length = n) ∧
      (shape = .countField → cnt = some vs.length) ∧
      (shape = .sizeField → siz = some es.length) := by
  cases ew with
  | dynamic => exact absurd rfl hew
  | unknown =>
    cases shape with
    | sizeField =>
      simp only [decArray] at h
      cases siz with
      | none => cases h
      | some sz =>
        simp only at h
        split at h
        · cases h
        · rename_i hlen
          obtain ⟨ws, h1, h2⟩ := bind_ok _ _ _ h
          simp only [Outcome.ok.injEq, Prod.mk.injEq] at h2
          obtain ⟨rfl, rfl⟩ := h2
          refine ⟨sp.take sz, while_exact enc dec he _ _ _ h1, (List.take_append_drop sz sp).symm,
            (fun n hn => by cases hn), (fun hc => by cases hc), fun _ => ?_⟩
          rw [List.length_take]; congr 1; omega
    | static n =>
      simp only [decArray] at h
      obtain ⟨⟨ws, r⟩, h1, h2⟩ := bind_ok _ _ _ h
      obtain ⟨ws', h3, h4⟩ := bind_ok _ _ _ h2
      simp only [Outcome.ok.injEq, Prod.mk.injEq] at h4
      obtain ⟨rfl, rfl⟩ := h4
      obtain ⟨rfl, hl⟩ := unwrapArr_ok n ws ws' h3
      obtain ⟨es, q1, q2, _⟩ := repeat_exact enc dec he n sp ws' r h1
      exact ⟨es, q1, q2, (fun n' hn => by cases hn; exact hl), (fun hc => by cases hc), (fun hc => by cases hc)⟩
    | countField =>
      simp only [decArray] at h
      cases cnt with
      | none => cases h
      | some n =>
        obtain ⟨es, q1, q2, q3⟩ := repeat_exact enc dec he n sp vs rest h
        exact ⟨es, q1, q2, (fun n' hn => by cases hn), (fun _ => by rw [q3]), (fun hc => by cases hc)⟩
    | unknown =>
      simp only [decArray] at h
      obtain ⟨ws, h1, h2⟩ := bind_ok _ _ _ h
      simp only [Outcome.ok.injEq, Prod.mk.injEq] at h2
      obtain ⟨rfl, rfl⟩ := h2
      exact ⟨sp, while_exact enc dec he _ _ _ h1, by simp, (fun n hn => by cases hn), (fun hc => by cases hc),
        (fun hc => by cases hc)⟩
  | static w =>
    have hsw := hst w rfl
    cases shape with
    | static n =>
      simp only [decArray] at h
      split at h
      · cases h
      · obtain ⟨⟨ws, r⟩, h1, h2⟩ := bind_ok _ _ _ h
        obtain ⟨ws', h3, h4⟩ := bind_ok _ _ _ h2
        simp only [Outcome.ok.injEq, Prod.mk.injEq] at h4
        obtain ⟨rfl, rfl⟩ := h4
        obtain ⟨rfl, hl⟩ := unwrapArr_ok n ws ws' h3
        obtain ⟨es, q1, q2, _⟩ := repeat_exact enc dec he n sp ws' r h1
        exact ⟨es, q1, q2, (fun n' hn => by cases hn; exact hl), (fun hc => by cases hc), (fun hc => by cases hc)⟩
    | countField =>
      simp only [decArray] at h
      cases cnt with
      | none => cases h
      | some n =>
        simp only at h
        obtain ⟨tot, _, h2⟩ := bind_ok _ _ _ h
        split at h2
        · cases h2
        · obtain ⟨es, q1, q2, q3⟩ := repeat_exact enc dec he n sp vs rest h2
          exact ⟨es, q1, q2, (fun n' hn => by cases hn), (fun _ => by rw [q3]), (fun hc => by cases hc)⟩
    | sizeField =>
      simp only [decArray] at h
      cases siz with
      | none => cases h
      | some sz =>
        simp only at h
        split at h
        · cases h
        · split at h
          · cases h
          · rename_i hw0
            split at h
            · cases h
            · rename_i hmod
              obtain ⟨es, q1, q2, q3⟩ := repeat_exact enc dec he (sz / w) sp vs rest h
              refine ⟨es, q1, q2, (fun n' hn => by cases hn), (fun hc => by cases hc), fun _ => ?_⟩
              rw [encList_static_len enc w hsw vs es q1, q3]
              have : sz % w = 0 := by simpa using hmod
              rw [Nat.div_mul_cancel (Nat.dvd_of_mod_eq_zero this)]
    | unknown =>
      simp only [decArray] at h
      split at h
      · cases h
      · split at h
        · cases h
        · obtain ⟨es, q1, q2, _⟩ := repeat_exact enc dec he _ sp vs rest h
          exact ⟨es, q1, q2, (fun n' hn => by cases hn), (fun hc => by cases hc), (fun hc => by cases hc)⟩

/-- the size a size field must carry for the array `t` of the value -/
theorem sizeFind_of_firstArray (v : Value) : ∀ (is : Items) (t : String) (elem : Ty) (ew : ElemWidth) (vs : List Value),
    firstArray is t = some (elem, ew) → v.get? t = some (.arr vs) →
      sizeOfTarget.find t v is = .ok (sumLen (lenTy elem) vs)
  | .nil, t, elem, ew, vs, h, _ => by simp [firstArray] at h
  | .cons i r, t, elem, ew, vs, h, hg => by
    cases i with
    | array id el ew' shape pad =>
      simp only [firstArray] at h
      simp only [sizeOfTarget.find]
      by_cases hid : (id == t) = true
      · simp only [hid, ↓reduceIte, Option.some.injEq, Prod.mk.injEq] at h ⊢
        obtain ⟨rfl, rfl⟩ := h
        have hid' : id = t := by simpa using hid
        subst hid'
        simp only [listField, hg, Outcome.bind]
        cases el with
        | scalar w =>
          have : sumLen (lenTy (.scalar w)) vs = sumLen (fun _ => w / 8) vs := by congr 1
          rw [this, sumLen_const]
        | enumTy nm en =>
          have : sumLen (lenTy (.enumTy nm en)) vs = sumLen (fun _ => en.width / 8) vs := by congr 1
          rw [this, sumLen_const]
        | custom nm w => rfl
        | struct nm b => rfl
      · have hid' : (id == t) = false := by simpa using hid
        simp only [hid', Bool.false_eq_true, ↓reduceIte] at h ⊢
        exact sizeFind_of_firstArray v r t elem ew vs h hg
    | chunk fs => simp only [firstArray] at h; simp only [sizeOfTarget.find]; exact sizeFind_of_firstArray v r t elem ew vs h hg
    | typedef id ty sb => simp only [firstArray] at h; simp only [sizeOfTarget.find]; exact sizeFind_of_firstArray v r t elem ew vs h hg
    | optional id ty ci cv => simp only [firstArray] at h; simp only [sizeOfTarget.find]; exact sizeFind_of_firstArray v r t elem ew vs h hg
    | payload md => simp only [firstArray] at h; simp only [sizeOfTarget.find]; exact sizeFind_of_firstArray v r t elem ew vs h hg


/-! ### small facts about field lists and decoded states -/

theorem payloadMode_mem : ∀ (is : Items) (md : PayloadMode), payloadMode is = some md → md ∈ payloadModes is
  | .nil, md, h => by simp [payloadMode] at h
  | .cons i r, md, h => by
    cases i with
    | payload m => simp only [payloadMode, Option.some.injEq] at h; simp [payloadModes, h]
    | chunk fs => simp only [payloadMode] at h; simpa [payloadModes] using payloadMode_mem r md h
    | array a b c d e => simp only [payloadMode] at h; simpa [payloadModes] using payloadMode_mem r md h
    | typedef a b c => simp only [payloadMode] at h; simpa [payloadModes] using payloadMode_mem r md h
    | optional a b c d => simp only [payloadMode] at h; simpa [payloadModes] using payloadMode_mem r md h

/-- a size / count key bound by a chunk of the class is consumed by the items that follow -/
theorem bfExact_consumes (later : Items) : ∀ (fs : List BitField) (k : Key), (∀ f ∈ fs, bfExact later f = true) →
    k ∈ chunkKeys fs → (∃ id, k = .val id) ∨ consumes later k = true
  | [], k, _, hk => by simp [chunkKeys] at hk
  | f :: fs, k, hbf, hk => by
    have ih := bfExact_consumes later fs k (fun g hg => hbf g (List.mem_cons_of_mem _ hg))
    have hf := hbf f (List.mem_cons_self ..)
    cases f with
    | scalar id w =>
      simp only [chunkKeys, List.mem_cons] at hk
      rcases hk with rfl | hk
      · exact Or.inl ⟨id, rfl⟩
      · exact ih hk
    | enumTy id ty e =>
      simp only [chunkKeys, List.mem_cons] at hk
      rcases hk with rfl | hk
      · exact Or.inl ⟨id, rfl⟩
      · exact ih hk
    | flag id o =>
      simp only [chunkKeys, List.mem_cons] at hk
      rcases hk with rfl | hk
      · exact Or.inl ⟨id, rfl⟩
      · exact ih hk
    | reserved w => simp [bfExact] at hf
    | elemSize t w => simp [bfExact] at hf
    | fixed w c => exact ih (by simpa [chunkKeys] using hk)
    | size t w m =>
      simp only [chunkKeys, List.mem_cons] at hk
      rcases hk with rfl | hk
      · right
        simp only [bfExact] at hf
        simp only [consumes]
        split at hf
        · rename_i ht
          simp only [ht, ↓reduceIte]
          have : payloadMode later = some (.sized m) := by simpa using hf
          simp [this]
        · rename_i ht
          simp only [Bool.and_eq_true] at hf
          simp only [ht, Bool.false_eq_true, ↓reduceIte]
          exact hf.2
      · exact ih hk
    | count t w =>
      simp only [chunkKeys, List.mem_cons] at hk
      rcases hk with rfl | hk
      · right
        simp only [bfExact, Bool.and_eq_true] at hf
        simpa [consumes] using hf.2
      · exact ih hk

theorem lookup_of_mem_nodup {β : Type} : ∀ (l : List (String × β)) (k : String) (x : β),
    (l.map Prod.fst).Nodup → (k, x) ∈ l → l.lookup k = some x
  | [], _, _, _, h => by simp at h
  | (a, y) :: l, k, x, hn, h => by
    simp only [List.map_cons, List.nodup_cons] at hn
    simp only [List.mem_cons, Prod.mk.injEq] at h
    rcases h with ⟨rfl, rfl⟩ | h
    · simp [List.lookup]
    · have hne : k ≠ a := by
        intro e; subst e
        exact hn.1 (List.mem_map.mpr ⟨(k, x), h, rfl⟩)
      have hb : (k == a) = false := by simpa using hne
      simp only [List.lookup, hb]
      exact lookup_of_mem_nodup l k x hn.2 h

theorem valBytes_ofBytes (p : Bytes) : valBytes (Value.ofBytes p) = some p := by
  simp only [Value.ofBytes, valBytes]
  induction p with
  | nil => rfl
  | cons b r ih =>
    simp only [List.map_cons, List.mapM_cons, ih]
    have : b.toNat < 256 := b.toNat_lt
    simp [this]

theorem decChunkFields_ids (ideal : Bool) : ∀ (fs : List BitField) (shift chunk : Nat) (st st' : DState),
    decChunkFields ideal fs shift chunk st = .ok st' →
      st'.fields.map Prod.fst = st.fields.map Prod.fst ++ chunkIds fs
  | [], shift, chunk, st, st', h => by
    simp only [decChunkFields, Outcome.ok.injEq] at h
    subst h; simp [chunkIds]
  | f :: fs, shift, chunk, st, st', h => by
    unfold decChunkFields at h
    cases f with
    | scalar id w =>
      have := decChunkFields_ids ideal fs _ chunk _ st' h
      simpa [chunkIds] using this
    | enumTy id ty e =>
      simp only at h
      split at h
      · have := decChunkFields_ids ideal fs _ chunk _ st' h
        simpa [chunkIds] using this
      · cases h
    | flag id o => simpa [chunkIds] using decChunkFields_ids ideal fs _ chunk _ st' h
    | reserved w => simpa [chunkIds] using decChunkFields_ids ideal fs _ chunk _ st' h
    | elemSize t w => simpa [chunkIds] using decChunkFields_ids ideal fs _ chunk _ st' h
    | count t w => simpa [chunkIds] using decChunkFields_ids ideal fs _ chunk _ st' h
    | fixed w c =>
      simp only at h
      split at h
      · simpa [chunkIds] using decChunkFields_ids ideal fs _ chunk _ st' h
      · cases h
    | size t w m =>
      simp only at h
      split at h
      · split at h
        · cases h
        · simpa [chunkIds] using decChunkFields_ids ideal fs _ chunk _ st' h
      · simpa [chunkIds] using decChunkFields_ids ideal fs _ chunk _ st' h

theorem payload_item_ok (c : Cfg) (mode : PayloadMode) (bs r : Bytes) (st st' : DState)
    (h : decItem c (.payload mode) bs st = .ok (st', r)) :
    ∃ p, st' = { st with payload := some p } ∧ bs = p ++ r ∧
      (∀ m, mode = .sized m → ∃ sz, st.ctx.get (.size "_payload_") = some sz ∧ sz = p.length + m) := by
  simp only [decItem] at h
  cases mode with
  | sized m =>
    simp only at h
    split at h
    · cases h
    · rename_i sz hsz
      split at h
      · cases h
      · rename_i hm
        split at h
        · cases h
        · rename_i hlen
          simp only [Outcome.ok.injEq, Prod.mk.injEq] at h
          obtain ⟨rfl, rfl⟩ := h
          refine ⟨bs.take (sz - m), rfl, (List.take_append_drop _ _).symm, ?_⟩
          intro m' hm'
          cases hm'
          refine ⟨sz, hsz, ?_⟩
          rw [List.length_take]; omega
  | last =>
    simp only [Outcome.ok.injEq, Prod.mk.injEq] at h
    obtain ⟨rfl, rfl⟩ := h
    exact ⟨bs, rfl, by simp, fun m hm => by cases hm⟩
  | beforeStatic k =>
    simp only at h
    split at h
    · cases h
    · simp only [Outcome.ok.injEq, Prod.mk.injEq] at h
      obtain ⟨rfl, rfl⟩ := h
      exact ⟨_, rfl, (List.take_append_drop _ _).symm, fun m hm => by cases hm⟩
  | undelimited => cases h

theorem array_item_ok (c : Cfg) (id : String) (elem : Ty) (ew : ElemWidth) (shape : Shape) (bs r : Bytes)
    (st st' : DState) (h : decItem c (.array id elem ew shape none) bs st = .ok (st', r)) :
    ∃ vs, decArray c.mode (decTy c elem) ew shape (st.ctx.get (.count id)) (st.ctx.get (.size id))
        (st.ctx.get (.esize id)) bs = .ok (vs, r) ∧
      st' = { st with fields := st.fields ++ [(id, .arr vs)] } := by
  simp only [decItem, withPad] at h
  split at h
  · cases h
  · obtain ⟨⟨vs, r'⟩, h1, h2⟩ := bind_ok _ _ _ h
    simp only [Outcome.ok.injEq, Prod.mk.injEq] at h2
    obtain ⟨rfl, rfl⟩ := h2
    exact ⟨vs, h1, rfl⟩


theorem decItem_ids (c : Cfg) (i : Item) (bs r : Bytes) (st st' : DState)
    (h : decItem c i bs st = .ok (st', r)) :
    st'.fields.map Prod.fst = st.fields.map Prod.fst ++ itemsIds (.cons i .nil) ∧
    (i.isPayload = true → ∃ p, st'.payload = some p) := by
  cases i with
  | chunk fs =>
    simp only [decItem, decChunk] at h
    split at h
    · cases h
    · obtain ⟨st1, h1, h2⟩ := bind_ok _ _ _ h
      simp only [Outcome.ok.injEq, Prod.mk.injEq] at h2
      obtain ⟨rfl, _⟩ := h2
      exact ⟨by simpa [itemsIds] using decChunkFields_ids _ fs _ _ st st1 h1, fun hp => by simp [Item.isPayload] at hp⟩
  | typedef id ty sb =>
    obtain ⟨x, _, rfl⟩ := typedef_ok c id ty sb bs st st' r h
    exact ⟨by simp [itemsIds], fun hp => by simp [Item.isPayload] at hp⟩
  | optional id ty cid cval =>
    rcases optional_ok c id ty cid cval bs st st' r h with ⟨x, _, rfl⟩ | ⟨_, rfl⟩
    · exact ⟨by simp [itemsIds], fun hp => by simp [Item.isPayload] at hp⟩
    · exact ⟨by simp [itemsIds], fun hp => by simp [Item.isPayload] at hp⟩
  | payload mode =>
    obtain ⟨p, rfl, _, _⟩ := payload_item_ok c mode bs r st st' h
    exact ⟨by simp [itemsIds], fun _ => ⟨p, rfl⟩⟩
  | array id elem ew shape pad =>
    simp only [decItem] at h
    split at h
    · cases h
    · obtain ⟨⟨vs, r'⟩, _, h2⟩ := bind_ok _ _ _ h
      simp only [Outcome.ok.injEq, Prod.mk.injEq] at h2
      obtain ⟨rfl, _⟩ := h2
      exact ⟨by simp [itemsIds], fun hp => by simp [Item.isPayload] at hp⟩

theorem itemsIds_cons (i : Item) (r : Items) : itemsIds (.cons i r) = itemsIds (.cons i .nil) ++ itemsIds r := by
  cases i <;> simp [itemsIds]

theorem decItems_ids (c : Cfg) : ∀ (is : Items) (bs r : Bytes) (st st' : DState),
    decItems c is bs st = .ok (st', r) →
      st'.fields.map Prod.fst = st.fields.map Prod.fst ++ itemsIds is ∧
      (is.hasPayload = true → ∃ p, st'.payload = some p)
  | .nil, bs, r, st, st', h => by
    simp only [decItems, Outcome.ok.injEq, Prod.mk.injEq] at h
    obtain ⟨rfl, _⟩ := h
    exact ⟨by simp [itemsIds], fun hp => by simp [Items.hasPayload] at hp⟩
  | .cons i is, bs, r, st, st', h => by
    simp only [decItems] at h
    obtain ⟨⟨st1, b1⟩, h1, h2⟩ := bind_ok _ _ _ h
    obtain ⟨q1, q2⟩ := decItem_ids c i bs b1 st st1 h1
    obtain ⟨q3, q4⟩ := decItems_ids c is b1 r st1 st' h2
    refine ⟨by rw [q3, q1, itemsIds_cons i is, List.append_assoc], ?_⟩
    intro hp
    by_cases hr : is.hasPayload = true
    · exact q4 hr
    · have hr' : is.hasPayload = false := by simpa using hr
      have hi : i.isPayload = true := by
        cases i <;> simp_all [Items.hasPayload, Item.isPayload]
      obtain ⟨p, hp1⟩ := q2 hi
      exact ⟨p, by rw [(decItems_mono c is b1 r st1 st' h2).2.1 hr', hp1]⟩

end Pdlv
