/-
  Pdlv.Lemmas.CxxSer — the model of the serializer the C++ back end emits (`Pdlv.Cxx.encBody`) writes,
  for every value the reference-mode encoder accepts, exactly the bytes the reference-mode encoder
  writes (hence, by C03, `Ref.encode`): it performs NO check at all, and never different arithmetic on
  the values the reference admits.
-/
import Pdlv.Cxx
import Pdlv.Lemmas.PySer

namespace Pdlv
namespace Cxx

open Py (enumOk_lt encList_transfer)

theorem chunk_ideal_to_cxx (all : Items) (pl : Nat) (v : Value) :
    ∀ (fs : List BitField) (shift acc X : Nat),
      (fs.all fun f => match f with
        | .elemSize .. => false
        | .scalar _ w => decide (w ≤ 64)
        | .enumTy _ _ e => decide (e.width ≤ 64)
        | .count _ w => decide (w ≤ 64)
        | .flag _ opts => opts.length == 1 && opts.all (fun o => decide (o.2 ≤ 1))
        | _ => true) = true →
      Pdlv.encChunkFields true all pl v fs shift acc = .ok X → Cxx.encChunkFields all pl v fs shift acc = .ok X
  | [], shift, acc, X, _, h => by simpa [Pdlv.encChunkFields, Cxx.encChunkFields] using h
  | f :: fs, shift, acc, X, hw, h => by
    simp only [List.all_cons, Bool.and_eq_true] at hw
    have ih := fun s a => chunk_ideal_to_cxx all pl v fs s a X hw.2
    unfold Pdlv.encChunkFields at h
    unfold Cxx.encChunkFields
    cases f with
    | scalar id w =>
      simp only [decide_eq_true_eq] at hw
      obtain ⟨x, hx, h2⟩ := bind_ok _ _ _ h
      simp only [hx, Outcome.bind]
      split at h2
      · cases h2
      · rename_i hb
        split at h2
        · cases h2
        · rename_i hm
          have hle : x < 2 ^ w := by
            by_cases hbw : backingOf w > w
            · have : ¬ x > maskBits w := fun hgt => hm ⟨hbw, hgt⟩
              simp only [maskBits] at this
              have := Nat.two_pow_pos w
              omega
            · have h1 := backingOf_ge w hw.1
              have : backingOf w = w := by omega
              rw [this] at hb
              omega
          rw [if_neg hb, Nat.mod_eq_of_lt hle]
          exact ih _ _ h2
    | flag id opts =>
      simp only [Bool.and_eq_true, beq_iff_eq, List.all_eq_true, decide_eq_true_eq] at hw
      cases opts with
      | nil => simp at h
      | cons o rest =>
        obtain ⟨oid, setv⟩ := o
        have hr : rest = [] := by
          have := hw.1.1
          simp only [List.length_cons] at this
          exact List.eq_nil_of_length_eq_zero (by omega)
        subst hr
        have hs : setv ≤ 1 := hw.1.2 (oid, setv) (List.mem_cons_self ..)
        simp only at h
        split at h
        · cases h
        · simp only [flagValue, Outcome.bind]
          have : (if setv = 0 then 1 else 0) = 1 - setv := by split <;> omega
          rw [this]
          exact ih _ _ h
    | enumTy id ty e =>
      obtain ⟨x, hx, h2⟩ := bind_ok _ _ _ h
      simp only [hx, Outcome.bind]
      split at h2
      · rename_i hok
        rw [if_pos (enumOk_lt e x hok)]
        exact ih _ _ h2
      · cases h2
    | fixed w c => exact ih _ _ h
    | reserved w => exact ih _ _ h
    | size t w m =>
      obtain ⟨s0, hs, h2⟩ := bind_ok _ _ _ h
      simp only [hs, Outcome.bind]
      simp only [Bool.true_or, ↓reduceIte] at h2
      split at h2
      · cases h2
      · rename_i hm
        rw [if_neg hm]
        exact ih _ _ h2
    | count t w =>
      obtain ⟨vs, hvs, h2⟩ := bind_ok _ _ _ h
      simp only [hvs, Outcome.bind]
      split at h2
      · cases h2
      · rename_i hm
        simp only [true_or, true_and] at hm
        rw [if_neg hm]
        have hlt : vs.length < 2 ^ backingOf w := by
          simp only [maskBits] at hm
          simp only [decide_eq_true_eq] at hw
          have hb := Nat.pow_le_pow_right (by decide : 2 > 0) (backingOf_ge w hw.1)
          have := Nat.two_pow_pos w
          omega
        rw [Nat.mod_eq_of_lt hlt] at h2
        exact ih _ _ h2
    | elemSize t w => simp at hw

mutual
theorem ty_ideal_to_cxx (c : Cfg) : ∀ (ty : Ty) (v : Value) (bs : Bytes), serWfTy ty = true →
    Pdlv.encTy { e := c.e, mode := .ideal } ty v = .ok bs → Cxx.encTy c ty v = .ok bs
  | .scalar w, v, bs, hw, h => by
    simp only [serWfTy, decide_eq_true_eq] at hw
    simp only [Pdlv.encTy] at h
    simp only [Cxx.encTy]
    cases v with
    | int x =>
      simp only at h ⊢
      split at h
      · cases h
      · split at h
        · cases h
        · rename_i hb hm
          have : x < 2 ^ w := by
            have hm' : ¬ (x > maskBits w) := by
              intro hgt
              apply hm
              simp [elemOutOfRange, hgt]
            simp only [maskBits] at hm'
            have := Nat.two_pow_pos w
            omega
          rw [if_neg hb, Nat.mod_eq_of_lt this]; exact h
    | _ => simp at h
  | .enumTy nm en, v, bs, hw, h => by
    simp only [serWfTy, decide_eq_true_eq] at hw
    simp only [Pdlv.encTy] at h
    simp only [Cxx.encTy]
    cases v with
    | int x =>
      simp only at h ⊢
      split at h
      · rename_i hok
        have hlt := enumOk_lt en x hok
        have hb := Nat.pow_le_pow_right (by decide : 2 > 0) (backingOf_ge en.width hw)
        rw [if_neg (by omega), Nat.mod_eq_of_lt hlt]; exact h
      · cases h
    | _ => simp at h
  | .custom nm w, v, bs, hw, _ => by simp [serWfTy] at hw
  | .struct _ (.root nm items), v, bs, hw, h => by
    simp only [serWfTy] at hw
    simp only [Pdlv.encTy] at h
    simp only [Cxx.encTy]
    exact body_ideal_to_cxx c (.root nm items) v bs (by simpa [serWfBody] using hw) h
  | .struct _ (.derived ..), v, bs, hw, _ => by simp [serWfTy] at hw

theorem item_ideal_to_cxx (c : Cfg) (all : Items) (p : Bytes) (v : Value) : ∀ (i : Item) (bs : Bytes), serWfItem all i = true →
    Pdlv.encItem { e := c.e, mode := .ideal } all (.ok p) p.length v i = .ok bs → Cxx.encItem c all p v i = .ok bs
  | .chunk fs, bs, hw, h => by
    simp only [serWfItem] at hw
    simp only [Pdlv.encItem] at h
    obtain ⟨x, hx, h2⟩ := bind_ok _ _ _ h
    simp only [Cxx.encItem, chunk_ideal_to_cxx all p.length v fs 0 0 x hw (by simpa using hx), Outcome.bind]
    exact h2
  | .typedef id ty sb, bs, hw, h => by
    simp only [serWfItem] at hw
    simp only [Pdlv.encItem] at h
    simp only [Cxx.encItem]
    cases hg : v.get? id with
    | none => simp [hg] at h
    | some x =>
      simp only [hg] at h ⊢
      exact ty_ideal_to_cxx c ty x bs hw h
  | .optional id ty cid cval, bs, hw, h => by
    simp only [serWfItem, Bool.and_eq_true, beq_iff_eq, decide_eq_true_eq] at hw
    obtain ⟨⟨hwt, hfo⟩, hcv⟩ := hw
    simp only [Pdlv.encItem] at h
    simp only [Cxx.encItem, hfo, flagValue, Outcome.bind]
    have habs : ¬ ((if cval = 0 then 1 else 0) = cval) := by split <;> omega
    cases hg : v.get? id with
    | none =>
      simp only [hg] at h
      simp only [isPresent, hg, Bool.false_eq_true, ↓reduceIte, habs]
      exact h
    | some x =>
      cases x with
      | null =>
        simp only [hg] at h
        simp only [isPresent, hg, Bool.false_eq_true, ↓reduceIte, habs]
        exact h
      | int n =>
        simp only [hg] at h
        simp only [isPresent, hg, ↓reduceIte]
        cases ty with
        | scalar w =>
          simp only [serWfTy, decide_eq_true_eq] at hwt
          simp only at h
          simp only [Cxx.encTy]
          split at h
          · cases h
          · split at h
            · cases h
            · rename_i hb hm
              have hlt : n < 2 ^ w := by
                by_cases hbw : backingOf w > w
                · have : ¬ n > maskBits w := fun hgt => hm ⟨hbw, hgt⟩
                  simp only [maskBits] at this
                  have := Nat.two_pow_pos w
                  omega
                · have h1 := backingOf_ge w hwt
                  have : backingOf w = w := by omega
                  rw [this] at hb; omega
              rw [if_neg hb, Nat.mod_eq_of_lt hlt]; exact h
        | enumTy nm en => exact ty_ideal_to_cxx c _ _ bs hwt h
        | custom nm w => exact ty_ideal_to_cxx c _ _ bs hwt h
        | struct nm b => exact ty_ideal_to_cxx c _ _ bs hwt h
      | arr l =>
        simp only [hg] at h
        simp only [isPresent, hg, ↓reduceIte]
        cases ty with
        | scalar w => simp at h
        | enumTy nm en => exact ty_ideal_to_cxx c _ _ bs hwt h
        | custom nm w => exact ty_ideal_to_cxx c _ _ bs hwt h
        | struct nm b => exact ty_ideal_to_cxx c _ _ bs hwt h
      | obj l =>
        simp only [hg] at h
        simp only [isPresent, hg, ↓reduceIte]
        cases ty with
        | scalar w => simp at h
        | enumTy nm en => exact ty_ideal_to_cxx c _ _ bs hwt h
        | custom nm w => exact ty_ideal_to_cxx c _ _ bs hwt h
        | struct nm b => exact ty_ideal_to_cxx c _ _ bs hwt h
  | .payload m, bs, _, h => by simpa [Pdlv.encItem, Cxx.encItem] using h
  | .array id elem ew shape pd, bs, hw, h => by
    simp only [serWfItem] at hw
    simp only [Pdlv.encItem] at h
    simp only [Cxx.encItem]
    obtain ⟨vs, hvs, h3⟩ := bind_ok _ _ _ h
    obtain ⟨u1, hc1, h4⟩ := bind_ok _ _ _ h3
    obtain ⟨u2, hc2, h5⟩ := bind_ok _ _ _ h4
    obtain ⟨es, hes, h6⟩ := bind_ok _ _ _ h5
    have hes' : encListWith (Cxx.encTy c elem) vs = .ok es :=
      encList_transfer _ _ (fun x a ha => ty_ideal_to_cxx c elem x a hw ha) vs es hes
    rw [hvs]
    simp only [Outcome.bind, hc1, hes']
    cases pd with
    | none => simpa [padTo, Py.pad] using h6
    | some q =>
      simp only [padTo] at h6
      split at h6
      · simpa [Py.pad] using h6
      · cases h6

theorem items_ideal_to_cxx (c : Cfg) (all : Items) (p : Bytes) (v : Value) : ∀ (is : Items) (bs : Bytes),
    serWfItems all is = true → Pdlv.encItems { e := c.e, mode := .ideal } all (.ok p) p.length v is = .ok bs →
      Cxx.encItems c all p v is = .ok bs
  | .nil, bs, _, h => by simpa [Pdlv.encItems, Cxx.encItems] using h
  | .cons i r, bs, hw, h => by
    simp only [serWfItems, Bool.and_eq_true] at hw
    simp only [Pdlv.encItems] at h
    simp only [Cxx.encItems]
    obtain ⟨a, ha, h2⟩ := bind_ok _ _ _ h
    obtain ⟨b, hb, h3⟩ := bind_ok _ _ _ h2
    rw [item_ideal_to_cxx c all p v i a hw.1 ha]
    simp only [Outcome.bind]
    rw [items_ideal_to_cxx c all p v r b hw.2 hb]
    exact h3

theorem body_ideal_to_cxx (c : Cfg) : ∀ (b : Body) (v : Value) (bs : Bytes), serWfBody b = true →
    Pdlv.encBody { e := c.e, mode := .ideal } b v = .ok bs → Cxx.encBody c b v = .ok bs
  | .root nm items, v, bs, hw, h => by
    simp only [serWfBody] at hw
    simp only [Pdlv.encBody] at h
    simp only [Cxx.encBody]
    split
    · rename_i hp; simp only [hp] at h; cases h
    · rename_i p hp
      simp only [hp] at h
      exact items_ideal_to_cxx c items p v items bs hw h
  | .derived .., v, bs, hw, _ => by simp [serWfBody] at hw
end

end Cxx
end Pdlv
