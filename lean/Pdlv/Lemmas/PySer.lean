/-
  Pdlv.Lemmas.PySer — the model of the serializer the Python back end emits (`Pdlv.Py.encBody`) writes,
  for every value the reference-mode encoder accepts, exactly the bytes the reference-mode encoder
  writes (hence, by C03, `Ref.encode`): it performs fewer checks, never different arithmetic.
-/
import Pdlv.Py
import Pdlv.Thm.C03
import Pdlv.Thm.C15

namespace Pdlv
namespace Py

theorem enumOk_lt (e : Enum.Decl) (x : Nat) (h : enumOk e x = true) : x < 2 ^ e.width := by
  by_cases hx : 2 ^ e.width ≤ x
  · have := Enum.spec_rejects_wide e x hx
    simp [enumOk, this] at h
  · omega

theorem chunk_ideal_to_py (all : Items) (pl : Nat) (v : Value) :
    ∀ (fs : List BitField) (shift acc X : Nat),
      (fs.all fun f => match f with
        | .elemSize .. => false
        | .scalar _ w => decide (w ≤ 64)
        | .enumTy _ _ e => decide (e.width ≤ 64)
        | .count _ w => decide (w ≤ 64)
        | _ => true) = true →
      Pdlv.encChunkFields true all pl v fs shift acc = .ok X → Py.encChunkFields all pl v fs shift acc = .ok X
  | [], shift, acc, X, _, h => by simpa [Pdlv.encChunkFields, Py.encChunkFields] using h
  | f :: fs, shift, acc, X, hw, h => by
    simp only [List.all_cons, Bool.and_eq_true] at hw
    have ih := fun s a => chunk_ideal_to_py all pl v fs s a X hw.2
    unfold Pdlv.encChunkFields at h
    unfold Py.encChunkFields
    cases f with
    | scalar id w =>
      simp only [decide_eq_true_eq] at hw
      obtain ⟨x, hx, h2⟩ := bind_ok _ _ _ h
      simp only [hx, Outcome.bind]
      split at h2
      · cases h2
      · rename_i hb
        split at h2
        · cases h2
        · rename_i hm
          have hle : ¬ x > maskBits w := by
            by_cases hbw : backingOf w > w
            · intro hgt; exact hm ⟨hbw, hgt⟩
            · have h1 := backingOf_ge w hw.1
              have : backingOf w = w := by omega
              rw [this] at hb
              simp only [maskBits]; omega
          rw [if_neg hle]
          exact ih _ _ h2
    | flag id opts =>
      cases opts with
      | nil => simp at h
      | cons o rest =>
        obtain ⟨oid, setv⟩ := o
        simp only at h ⊢
        split at h
        · cases h
        · exact ih _ _ h
    | enumTy id ty e =>
      obtain ⟨x, hx, h2⟩ := bind_ok _ _ _ h
      simp only [hx, Outcome.bind]
      split at h2
      · rename_i hok
        have := enumOk_lt e x hok
        rw [if_neg (by omega)]
        exact ih _ _ h2
      · cases h2
    | fixed w c => exact ih _ _ h
    | reserved w => exact ih _ _ h
    | size t w m =>
      obtain ⟨s0, hs, h2⟩ := bind_ok _ _ _ h
      simp only [hs, Outcome.bind]
      simp only [Bool.true_or, ↓reduceIte] at h2
      split at h2
      · cases h2
      · rename_i hm
        rw [if_neg hm]
        exact ih _ _ h2
    | count t w =>
      obtain ⟨vs, hvs, h2⟩ := bind_ok _ _ _ h
      simp only [hvs, Outcome.bind]
      split at h2
      · cases h2
      · rename_i hm
        simp only [true_or, true_and] at hm
        rw [if_neg hm]
        have hlt : vs.length < 2 ^ backingOf w := by
          simp only [maskBits] at hm
          simp only [decide_eq_true_eq] at hw
          have hb := Nat.pow_le_pow_right (by decide : 2 > 0) (backingOf_ge w hw.1)
          have := Nat.two_pow_pos w
          omega
        rw [Nat.mod_eq_of_lt hlt] at h2
        exact ih _ _ h2
    | elemSize t w => simp at hw

theorem encList_transfer (f g : Value → Enc Bytes) (h : ∀ x a, f x = .ok a → g x = .ok a) :
    ∀ (vs : List Value) (es : Bytes), encListWith f vs = .ok es → encListWith g vs = .ok es
  | [], es, he => by simpa [encListWith] using he
  | x :: xs, es, he => by
    simp only [encListWith] at he ⊢
    obtain ⟨a, ha, h7⟩ := bind_ok _ _ _ he
    obtain ⟨b, hb, h8⟩ := bind_ok _ _ _ h7
    rw [h x a ha]
    simp only [Outcome.bind]
    rw [encList_transfer f g h xs b hb]
    exact h8

mutual
theorem ty_ideal_to_py (c : Cfg) : ∀ (ty : Ty) (v : Value) (bs : Bytes), serWfTy ty = true →
    Pdlv.encTy { e := c.e, mode := .ideal } ty v = .ok bs → Py.encTy c ty v = .ok bs
  | .scalar w, v, bs, hw, h => by
    simp only [serWfTy, decide_eq_true_eq] at hw
    simp only [Pdlv.encTy] at h
    simp only [Py.encTy]
    cases v with
    | int x =>
      simp only at h ⊢
      split at h
      · cases h
      · split at h
        · cases h
        · rename_i hb hm
          have : x < 2 ^ w := by
            have hm' : ¬ (x > maskBits w) := by
              intro hgt
              apply hm
              simp [elemOutOfRange, hgt]
            simp only [maskBits] at hm'
            have := Nat.two_pow_pos w
            omega
          rw [if_pos this]; exact h
    | _ => simp at h
  | .enumTy nm en, v, bs, _, h => by
    simp only [Pdlv.encTy] at h
    simp only [Py.encTy]
    cases v with
    | int x =>
      simp only at h ⊢
      split at h
      · rename_i hok
        rw [if_pos (enumOk_lt en x hok)]; exact h
      · cases h
    | _ => simp at h
  | .custom nm w, v, bs, hw, _ => by simp [serWfTy] at hw
  | .struct _ (.root nm items), v, bs, hw, h => by
    simp only [serWfTy] at hw
    simp only [Pdlv.encTy] at h
    simp only [Py.encTy]
    exact body_ideal_to_py c (.root nm items) v bs (by simpa [serWfBody] using hw) h
  | .struct _ (.derived ..), v, bs, hw, _ => by simp [serWfTy] at hw

theorem item_ideal_to_py (c : Cfg) (all : Items) (p : Bytes) (v : Value) : ∀ (i : Item) (bs : Bytes), serWfItem i = true →
    Pdlv.encItem { e := c.e, mode := .ideal } all (.ok p) p.length v i = .ok bs → Py.encItem c all p v i = .ok bs
  | .chunk fs, bs, hw, h => by
    simp only [serWfItem] at hw
    simp only [Pdlv.encItem] at h
    obtain ⟨x, hx, h2⟩ := bind_ok _ _ _ h
    simp only [Py.encItem, chunk_ideal_to_py all p.length v fs 0 0 x hw (by simpa using hx), Outcome.bind]
    exact h2
  | .typedef id ty sb, bs, hw, h => by
    simp only [serWfItem] at hw
    simp only [Pdlv.encItem] at h
    simp only [Py.encItem]
    cases hg : v.get? id with
    | none => simp [hg] at h
    | some x =>
      simp only [hg] at h ⊢
      exact ty_ideal_to_py c ty x bs hw h
  | .optional id ty cid cval, bs, hw, h => by
    simp only [serWfItem] at hw
    simp only [Pdlv.encItem] at h
    simp only [Py.encItem]
    cases hg : v.get? id with
    | none => simpa [hg] using h
    | some x =>
      cases x with
      | null => simpa [hg] using h
      | int n =>
        simp only [hg] at h ⊢
        cases ty with
        | scalar w =>
          simp only [serWfTy, decide_eq_true_eq] at hw
          simp only at h
          simp only [Py.encTy]
          split at h
          · cases h
          · split at h
            · cases h
            · rename_i hb hm
              have hlt : n < 2 ^ w := by
                by_cases hbw : backingOf w > w
                · have : ¬ n > maskBits w := fun hgt => hm ⟨hbw, hgt⟩
                  simp only [maskBits] at this
                  have := Nat.two_pow_pos w
                  omega
                · have h1 := backingOf_ge w hw
                  have : backingOf w = w := by omega
                  rw [this] at hb; omega
              rw [if_pos hlt]; exact h
        | enumTy nm en => exact ty_ideal_to_py c _ _ bs hw h
        | custom nm w => exact ty_ideal_to_py c _ _ bs hw h
        | struct nm b => exact ty_ideal_to_py c _ _ bs hw h
      | arr l =>
        simp only [hg] at h ⊢
        cases ty with
        | scalar w => simp at h
        | enumTy nm en => exact ty_ideal_to_py c _ _ bs hw h
        | custom nm w => exact ty_ideal_to_py c _ _ bs hw h
        | struct nm b => exact ty_ideal_to_py c _ _ bs hw h
      | obj l =>
        simp only [hg] at h ⊢
        cases ty with
        | scalar w => simp at h
        | enumTy nm en => exact ty_ideal_to_py c _ _ bs hw h
        | custom nm w => exact ty_ideal_to_py c _ _ bs hw h
        | struct nm b => exact ty_ideal_to_py c _ _ bs hw h
  | .payload m, bs, _, h => by simpa [Pdlv.encItem, Py.encItem] using h
  | .array id elem ew shape pd, bs, hw, h => by
    simp only [serWfItem] at hw
    simp only [Pdlv.encItem] at h
    simp only [Py.encItem]
    obtain ⟨vs, hvs, h3⟩ := bind_ok _ _ _ h
    obtain ⟨u1, _, h4⟩ := bind_ok _ _ _ h3
    obtain ⟨u2, hc2, h5⟩ := bind_ok _ _ _ h4
    obtain ⟨es, hes, h6⟩ := bind_ok _ _ _ h5
    have hes' : encListWith (Py.encTy c elem) vs = .ok es :=
      encList_transfer _ _ (fun x a ha => ty_ideal_to_py c elem x a hw ha) vs es hes
    rw [hvs]
    simp only [Outcome.bind, hes']
    -- the padding: the reference-mode encoder has checked that the elements fit
    cases pd with
    | none => simpa [padTo, Py.pad] using h6
    | some q =>
      simp only [padTo] at h6
      split at h6
      · simpa [Py.pad] using h6
      · cases h6

theorem items_ideal_to_py (c : Cfg) (all : Items) (p : Bytes) (v : Value) : ∀ (is : Items) (bs : Bytes),
    serWfItems is = true → Pdlv.encItems { e := c.e, mode := .ideal } all (.ok p) p.length v is = .ok bs →
      Py.encItems c all p v is = .ok bs
  | .nil, bs, _, h => by simpa [Pdlv.encItems, Py.encItems] using h
  | .cons i r, bs, hw, h => by
    simp only [serWfItems, Bool.and_eq_true] at hw
    simp only [Pdlv.encItems] at h
    simp only [Py.encItems]
    obtain ⟨a, ha, h2⟩ := bind_ok _ _ _ h
    obtain ⟨b, hb, h3⟩ := bind_ok _ _ _ h2
    rw [item_ideal_to_py c all p v i a hw.1 ha]
    simp only [Outcome.bind]
    rw [items_ideal_to_py c all p v r b hw.2 hb]
    exact h3

theorem body_ideal_to_py (c : Cfg) : ∀ (b : Body) (v : Value) (bs : Bytes), serWfBody b = true →
    Pdlv.encBody { e := c.e, mode := .ideal } b v = .ok bs → Py.encBody c b v = .ok bs
  | .root nm items, v, bs, hw, h => by
    simp only [serWfBody] at hw
    simp only [Pdlv.encBody] at h
    simp only [Py.encBody]
    split
    · rename_i hp; simp only [hp] at h; cases h
    · rename_i p hp
      simp only [hp] at h
      exact items_ideal_to_py c items p v items bs hw h
  | .derived .., v, bs, hw, _ => by simp [serWfBody] at hw
end

end Py
end Pdlv
