/-
  Pdlv.Lemmas.JavaStructSame — struct-typed fields of static size in the model of the emitted Java parser
  (`Pdlv.JavaStruct`: the struct parsed from `buf.slice()`, the buffer advanced by its constant `width()`) against the
  reference, for structs whose own fields are in the class of the parser theorem.
-/
import Pdlv.JavaStruct
import Pdlv.Lemmas.JavaEnumArrays
import Pdlv.Lemmas.Local
import Pdlv.Lemmas.Exact
import Pdlv.Lemmas.JavaSerChild

namespace Pdlv
namespace Java

theorem suffix_eq_drop (r bs : Bytes) (k : Nat) (hs : IsSuffix r bs) (hl : r.length + k = bs.length) : r = bs.drop k := by
  obtain ⟨c, rfl⟩ := hs
  have : c.length = k := by simp at hl; omega
  rw [← this, List.drop_left]

/-- one struct-typed field -/
theorem struct_field_same (en : Endian) (id nm snm : String) (sitems : Items) (k : Nat)
    (hw : decWfItems2 sitems = true) (hnp : sitems.hasPayload = false) (hst : staticItems sitems = some k)
    (hl : localWfItems sitems = true) (bs : Bytes) (hb : bs.length < 2 ^ 31) (sj sr : DState) (hr : RelC sj sr) :
    SameFields RelP (decItemS en (.typedef id (.struct nm (.root snm sitems)) (some k)) bs sj)
      (Pdlv.decItem { e := en, mode := .ideal } (.typedef id (.struct nm (.root snm sitems)) (some k)) bs sr) := by
  have hs := items_same2 en sitems hw bs hb DState.empty DState.empty ⟨rfl, rfl, fun _ => rfl, fun _ => rfl⟩
  have hex := decItems_exact_len { e := en, mode := .ideal } sitems k DState.empty hst hl
  obtain ⟨hf, hp, hsz, hcn⟩ := hr
  have objeq : ∀ (sa sb : DState), RelC sa sb →
      Value.obj (sa.fields ++ (match sa.payload with | some p => [("payload", Value.ofBytes p)] | none => [])) =
      Value.obj (sb.fields ++ (match sb.payload with | some p => [("payload", Value.ofBytes p)] | none => [])) := by
    intro sa sb h; rw [h.1, h.2.1]
  constructor
  · intro a ha
    simp only [decItemS, decTyS, decStructS] at ha
    obtain ⟨v, h1, h2⟩ := bind_ok _ _ _ ha
    obtain ⟨⟨sa, ra⟩, h3, h4⟩ := bind_ok _ _ _ h1
    obtain ⟨⟨sb, rb⟩, h5, h6, h7⟩ := hs.1 _ (by rw [← decItemsS_eq en sitems hw]; exact h3)
    simp only at h6 h7
    have hlen := hex bs sb rb h5
    have hsuf := decItems_suffix { e := en, mode := .ideal } sitems bs DState.empty sb rb h5
    have hrb := suffix_eq_drop rb bs k hsuf hlen
    have hk : ¬ bs.length < k := by omega
    simp only [hk, ↓reduceIte, Outcome.ok.injEq] at h2 h4
    have hpb : sb.payload = none := by
      have := (decItems_mono { e := en, mode := .ideal } sitems bs rb DState.empty sb h5).2.1 hnp
      simpa [DState.empty] using this
    have hpa : sa.payload = none := by rw [h6.2.1]; exact hpb
    refine ⟨({ sr with fields := sr.fields ++ [(id, v)] }, bs.drop k), ?_, ?_⟩
    · simp only [Pdlv.decItem, Pdlv.decTy, Pdlv.decBody, h5, Outcome.bind, Outcome.ok.injEq, Prod.mk.injEq]
      refine ⟨?_, hrb⟩
      rw [← h4]
      simp only [hpa, hpb, h6.1]
    · rw [← h2]
      exact ⟨⟨by simp [hf], hp, hsz, hcn⟩, rfl⟩
  · intro b hb'
    simp only [Pdlv.decItem, Pdlv.decTy, Pdlv.decBody] at hb'
    obtain ⟨⟨v, r⟩, h1, h2⟩ := bind_ok _ _ _ hb'
    obtain ⟨⟨sb, rb⟩, h5, h6⟩ := bind_ok _ _ _ h1
    obtain ⟨⟨sa, ra⟩, h3, h4, h7⟩ := hs.2 _ h5
    simp only at h4 h7
    have hlen := hex bs sb rb h5
    have hsuf := decItems_suffix { e := en, mode := .ideal } sitems bs DState.empty sb rb h5
    have hrb := suffix_eq_drop rb bs k hsuf hlen
    have hk : ¬ bs.length < k := by omega
    simp only [Outcome.ok.injEq, Prod.mk.injEq] at h6 h2
    have hpb : sb.payload = none := by
      have := (decItems_mono { e := en, mode := .ideal } sitems bs rb DState.empty sb h5).2.1 hnp
      simpa [DState.empty] using this
    have hpa : sa.payload = none := by rw [h4.2.1]; exact hpb
    refine ⟨({ sj with fields := sj.fields ++ [(id, v)] }, bs.drop k), ?_, ?_⟩
    · simp only [decItemS, decTyS, decStructS, decItemsS_eq en sitems hw, h3, Outcome.bind, hk, ↓reduceIte, Outcome.ok.injEq,
        Prod.mk.injEq, and_true]
      rw [← h6.1]
      simp only [hpa, hpb, h4.1]
    · rw [← h2, ← h6.2, hrb]
      exact ⟨⟨by simp [hf], hp, hsz, hcn⟩, rfl⟩

/-- one field of the class of the parser theorem, from the theorem about lists -/
theorem item_same2 (en : Endian) (i : Item) (hw : decWfItems2 (.cons i .nil) = true) (bs : Bytes) (hb : bs.length < 2 ^ 31)
    (sj sr : DState) (hr : RelC sj sr) :
    SameFields RelP (Java.decItem en i bs sj) (Pdlv.decItem { e := en, mode := .ideal } i bs sr) := by
  have h := items_same2 en (.cons i .nil) hw bs hb sj sr hr
  simp only [Java.decItems, Pdlv.decItems] at h
  constructor
  · intro a ha
    obtain ⟨b, h1, h2⟩ := h.1 a (by simp [ha, Outcome.bind])
    cases hd : Pdlv.decItem { e := en, mode := .ideal } i bs sr with
    | ok y => simp only [hd, Outcome.bind, Outcome.ok.injEq] at h1; exact ⟨y, rfl, by have : y = _ := h1; subst this; exact h2⟩
    | err e => simp [hd, Outcome.bind] at h1
    | panic q => simp [hd, Outcome.bind] at h1
  · intro b hb'
    obtain ⟨a, h1, h2⟩ := h.2 b (by simp [hb', Outcome.bind])
    cases hd : Java.decItem en i bs sj with
    | ok y => simp only [hd, Outcome.bind, Outcome.ok.injEq] at h1; exact ⟨y, rfl, by have : y = _ := h1; subst this; exact h2⟩
    | err e => simp [hd, Outcome.bind] at h1
    | panic q => simp [hd, Outcome.bind] at h1

theorem items_same3 (en : Endian) : ∀ (is : Items), decWfItems3 is = true → ∀ (bs : Bytes), bs.length < 2 ^ 31 →
    ∀ (sj sr : DState), RelC sj sr →
    SameFields RelP (decItemsS en is bs sj) (Pdlv.decItems { e := en, mode := .ideal } is bs sr)
  | .nil, _, bs, _, sj, sr, hr => by
    simp only [decItemsS, Pdlv.decItems]
    exact sf_ok _ _ _ ⟨hr, rfl⟩
  | .cons i r, hw, bs, hb, sj, sr, hr => by
    have step : SameFields RelP (decItemS en i bs sj) (Pdlv.decItem { e := en, mode := .ideal } i bs sr) ∧
        decWfItems3 r = true := by
      cases i with
      | typedef id ty sb =>
        cases ty with
        | struct nm b =>
          cases b with
          | root snm sitems =>
            cases sb with
            | some k =>
              simp only [decWfItems3, Bool.and_eq_true, Bool.not_eq_true', beq_iff_eq] at hw
              obtain ⟨⟨⟨⟨h1, h2⟩, h3⟩, h4⟩, h5⟩ := hw
              exact ⟨struct_field_same en id nm snm sitems k h1 h2 h3 h4 bs hb sj sr hr, h5⟩
            | none => simp [decWfItems3] at hw
          | derived a b c d e => simp [decWfItems3] at hw
        | scalar w => simp [decWfItems3] at hw
        | enumTy a b => simp [decWfItems3] at hw
        | custom a b => simp [decWfItems3] at hw
      | optional a b c d => simp [decWfItems3] at hw
      | chunk fs =>
        simp only [decWfItems3, Bool.and_eq_true] at hw
        exact ⟨by rw [decItemS_eq en _ hw.1]; exact item_same2 en (.chunk fs) hw.1 bs hb sj sr hr, hw.2⟩
      | payload m =>
        simp only [decWfItems3, Bool.and_eq_true] at hw
        exact ⟨by rw [decItemS_eq en _ hw.1]; exact item_same2 en (.payload m) hw.1 bs hb sj sr hr, hw.2⟩
      | array id el ew sh pad =>
        simp only [decWfItems3, Bool.and_eq_true] at hw
        exact ⟨by rw [decItemS_eq en _ hw.1]; exact item_same2 en (.array id el ew sh pad) hw.1 bs hb sj sr hr, hw.2⟩
    obtain ⟨hitem, hwr⟩ := step
    simp only [decItemsS, Pdlv.decItems]
    constructor
    · intro a ha
      obtain ⟨x, h1, h2⟩ := bind_ok _ _ _ ha
      obtain ⟨y, h3, h4, h5⟩ := hitem.1 x h1
      have hcons := decItem_consumes { e := en, mode := .ideal } i bs sr y.1 y.2 h3
      obtain ⟨b, h6, h7⟩ := (items_same3 en r hwr x.2 (by rw [h5]; omega) x.1 y.1 h4).1 a h2
      exact ⟨b, by rw [h3]; simp only [Outcome.bind]; rw [← h5]; exact h6, h7⟩
    · intro b hb'
      obtain ⟨y, h1, h2⟩ := bind_ok _ _ _ hb'
      obtain ⟨x, h3, h4, h5⟩ := hitem.2 y h1
      have hcons := decItem_consumes { e := en, mode := .ideal } i bs sr y.1 y.2 h1
      obtain ⟨a, h6, h7⟩ := (items_same3 en r hwr x.2 (by rw [h5]; omega) x.1 y.1 h4).2 b (by rw [h5]; exact h2)
      exact ⟨a, by rw [h3]; simp only [Outcome.bind]; exact h6, h7⟩

/-- `fromBytes` with struct-typed fields is the reference `decode_full` -/
theorem decode_same3 (c : Cfg) (nm : String) (items : Items) (hw : decWfItems3 items = true) (bs : Bytes)
    (hb : bs.length < 2 ^ 31) (v : Value) :
    decodeFullS c (.root nm items) bs = .ok v ↔
      Pdlv.decodeFull { e := c.e, mode := .ideal } (.root nm items) bs = .ok v := by
  have hs := items_same3 c.e items hw bs hb DState.empty DState.empty ⟨rfl, rfl, fun _ => rfl, fun _ => rfl⟩
  simp only [decodeFullS, Pdlv.decodeFull, Pdlv.decBody]
  constructor
  · intro h
    obtain ⟨⟨sa, ra⟩, h1, h2⟩ := bind_ok _ _ _ h
    obtain ⟨⟨sb, rb⟩, h3, h4, h5⟩ := hs.1 _ h1
    simp only at h4 h5 h2
    subst h5
    by_cases hre : ra.isEmpty = true
    · simp only [hre, ↓reduceIte, Outcome.ok.injEq] at h2
      simp only [h3, Outcome.bind, hre, ↓reduceIte, Outcome.ok.injEq]
      rw [← h2, h4.1, h4.2.1]
      cases sb.payload <;> rfl
    · simp only [hre, Bool.false_eq_true, ↓reduceIte] at h2
      cases h2
  · intro h
    obtain ⟨⟨v1, r1⟩, h1, h2⟩ := bind_ok _ _ _ h
    obtain ⟨⟨sb, rb⟩, h3, h4⟩ := bind_ok _ _ _ h1
    obtain ⟨⟨sa, ra⟩, h5, h6, h7⟩ := hs.2 _ h3
    simp only at h6 h7 h2 h4
    simp only [Outcome.ok.injEq, Prod.mk.injEq] at h4
    subst h7
    by_cases hre : r1.isEmpty = true
    · simp only [hre, ↓reduceIte, Outcome.ok.injEq] at h2
      have hre' : ra.isEmpty = true := by rw [← h4.2] at hre; exact hre
      simp only [h5, Outcome.bind, hre', ↓reduceIte, Outcome.ok.injEq]
      rw [← h2, ← h4.1, h6.1, h6.2.1]
      cases sb.payload <;> rfl
    · simp only [hre, Bool.false_eq_true, ↓reduceIte] at h2
      cases h2

/-! ### the serializer -/

/-- a struct-typed field: `buf.put(x.toBytes())` writes the reference encoding of the struct value -/
theorem struct_ref (en : Endian) (snm : String) (sitems : Items) (hw : encWfItems sitems = true) (x : Value) (bs : Bytes)
    (h : Pdlv.encBody { e := en, mode := .ideal } (.root snm sitems) x = .ok bs) :
    encStructS en (.root snm sitems) x = .ok bs := by
  simp only [Pdlv.encBody] at h
  simp only [encStructS]
  split at h
  · cases h
  · rename_i p hp
    simp only [hp, encItemsS_eq en sitems p x sitems hw]
    exact items_refE en sitems p x sitems bs hw h

theorem items_refE3 (en : Endian) (all : Items) (p : Bytes) (v : Value) : ∀ (is : Items) (bs : Bytes),
    encWfItems3 is = true → Pdlv.encItems { e := en, mode := .ideal } all (.ok p) p.length v is = .ok bs →
      encItemsS en all p v is = .ok bs
  | .nil, bs, _, h => by simpa [Pdlv.encItems, encItemsS] using h
  | .cons i r, bs, hw, h => by
    simp only [Pdlv.encItems] at h
    obtain ⟨a, ha, h2⟩ := bind_ok _ _ _ h
    obtain ⟨b, hb, h3⟩ := bind_ok _ _ _ h2
    have single : ∀ (j : Item), encWfItems (.cons j .nil) = true → Pdlv.encItem { e := en, mode := .ideal } all (.ok p) p.length v j = .ok a →
        Java.encItems en all p v (.cons j .nil) = .ok a := by
      intro j hj hja
      have := items_refE en all p v (.cons j .nil) a hj (by simp [Pdlv.encItems, hja, Outcome.bind])
      exact this
    cases i with
    | typedef id ty sb =>
      cases ty with
      | struct nm body =>
        cases body with
        | root snm sitems =>
          simp only [encWfItems3, Bool.and_eq_true] at hw
          simp only [Pdlv.encItem] at ha
          cases hg : v.get? id with
          | none => simp [hg] at ha
          | some x =>
            simp only [hg, Pdlv.encTy] at ha
            simp only [encItemsS, encItemS, hg, encTyS, struct_ref en snm sitems hw.1 x a ha, Outcome.bind,
              items_refE3 en all p v r b hw.2 hb]
            exact h3
        | derived a1 a2 a3 a4 a5 => simp [encWfItems3] at hw
      | scalar w => simp [encWfItems3] at hw
      | enumTy a1 a2 => simp [encWfItems3] at hw
      | custom a1 a2 => simp [encWfItems3] at hw
    | optional a1 a2 a3 a4 => simp [encWfItems3] at hw
    | chunk fs =>
      simp only [encWfItems3, Bool.and_eq_true] at hw
      simp only [encItemsS, encItemS_eq en all p v _ hw.1, single (.chunk fs) hw.1 ha, Outcome.bind, items_refE3 en all p v r b hw.2 hb]
      exact h3
    | payload m =>
      simp only [encWfItems3, Bool.and_eq_true] at hw
      simp only [encItemsS, encItemS_eq en all p v _ hw.1, single (.payload m) hw.1 ha, Outcome.bind, items_refE3 en all p v r b hw.2 hb]
      exact h3
    | array id el ew sh pad =>
      simp only [encWfItems3, Bool.and_eq_true] at hw
      simp only [encItemsS, encItemS_eq en all p v _ hw.1, single (.array id el ew sh pad) hw.1 ha, Outcome.bind, items_refE3 en all p v r b hw.2 hb]
      exact h3

end Java
end Pdlv
