/-
  Pdlv.Lemmas.RoundTrip — encode ; decode = id: the lock-step lemmas (chunks, loops, arrays).
-/
import Pdlv.Lemmas.RefEq
import Pdlv.Thm.C01

namespace Pdlv

/-! ### what the decoder context means, relative to the value being encoded -/

/-- `all`: the field list being encoded, `pl`: the octet length of its payload, `v`: the value -/
def Good (all : Items) (pl : Nat) (v : Value) : Key → Nat → Prop
  | .size t, x =>
    (t = "_payload_" → ∀ m, payloadMode all = some (.sized m) → x = pl + m) ∧
    (t ≠ "_payload_" → ∀ elem ew vs, firstArray all t = some (elem, ew) → v.get? t = some (.arr vs) →
        x = sumLen (lenTy elem) vs)
  | .count t, x => ∀ vs, v.get? t = some (.arr vs) → x = vs.length
  | .esize t, x => ∀ elem ew vs, firstArray all t = some (elem, ew) → v.get? t = some (.arr vs) →
      (∀ y ∈ vs, lenTy elem y = x) ∧ (vs = [] → x = 0)
  | .val id, x => ∀ oid cval, (id, oid, cval) ∈ optItems all → (isPresent v oid = true ↔ x = cval)

def CtxGood (all : Items) (pl : Nat) (v : Value) (st : DState) : Prop :=
  ∀ k x, st.ctx.get k = some x → Good all pl v k x

theorem ctxGood_push (all : Items) (pl : Nat) (v : Value) (st : DState) (k : Key) (x : Nat)
    (hg : CtxGood all pl v st) (hk : Good all pl v k x) (st' : DState) (hst : st'.ctx = (k, x) :: st.ctx) :
    CtxGood all pl v st' := by
  intro k' x' hget
  rw [hst] at hget
  simp only [Ctx.get, List.lookup] at hget
  split at hget
  · rename_i heq
    have : k' = k := by simpa using heq
    simp only [Option.some.injEq] at hget
    subst this; subst hget; exact hk
  · exact hg k' x' hget

theorem ctxGood_same (all : Items) (pl : Nat) (v : Value) (st st' : DState)
    (hg : CtxGood all pl v st) (hst : st'.ctx = st.ctx) : CtxGood all pl v st' := by
  intro k x h; rw [hst] at h; exact hg k x h

/-! ### arithmetic of one extraction -/

theorem enc_form (ideal : Bool) (all : Items) (pl : Nat) (v : Value) :
    ∀ (fs : List BitField) (shift acc X : Nat),
      encChunkFields ideal all pl v fs shift acc = .ok X → ∃ N, X = acc + 2 ^ shift * N := by
  intro fs
  induction fs with
  | nil => intro shift acc X h; simp only [encChunkFields, Outcome.ok.injEq] at h; exact ⟨0, by omega⟩
  | cons f fs ih =>
    intro shift acc X h
    have step : ∀ x, encChunkFields ideal all pl v fs (shift + f.width) (acc + x * 2 ^ shift) = .ok X →
        ∃ N, X = acc + 2 ^ shift * N := by
      intro x hx
      obtain ⟨N', hN'⟩ := ih _ _ _ hx
      exact ⟨x + 2 ^ f.width * N', by rw [hN', arith_shift]⟩
    unfold encChunkFields at h
    cases f with
    | scalar id w =>
      simp only at h
      obtain ⟨x, _, h2⟩ := bind_ok _ _ _ h
      split at h2
      · cases h2
      · split at h2
        · cases h2
        · exact step x h2
    | flag id opts =>
      simp only at h
      cases opts with
      | nil => cases h
      | cons o rest =>
        simp only at h
        split at h
        · cases h
        · exact step _ h
    | enumTy id ty e =>
      simp only at h
      obtain ⟨x, _, h2⟩ := bind_ok _ _ _ h
      split at h2
      · exact step x h2
      · cases h2
    | fixed w c => exact step c h
    | reserved w => exact step 0 h
    | size t w m =>
      simp only at h
      obtain ⟨s0, _, h2⟩ := bind_ok _ _ _ h
      split at h2 <;> (split at h2 <;> first | cases h2 | exact step _ h2)
    | elemSize t w =>
      simp only at h
      obtain ⟨vs, _, h2⟩ := bind_ok _ _ _ h
      cases hty : encChunkFields.elemTy t all with
      | none => simp [hty] at h2
      | some ty =>
        simp only [hty] at h2
        cases vs with
        | nil =>
          simp only [List.any_nil, Bool.false_eq_true, ↓reduceIte] at h2
          split at h2
          · cases h2
          · exact step _ h2
        | cons y ys =>
          simp only at h2
          split at h2
          · cases h2
          · split at h2
            · cases h2
            · exact step _ h2
    | count t w =>
      simp only at h
      obtain ⟨vs, _, h2⟩ := bind_ok _ _ _ h
      split at h2
      · cases h2
      · exact step _ h2

theorem extract_field (acc shift x w N : Nat) (hacc : acc < 2 ^ shift) (hx : x < 2 ^ w) :
    (acc + x * 2 ^ shift + 2 ^ (shift + w) * N) / 2 ^ shift % 2 ^ w = x := by
  have hp : 0 < 2 ^ shift := Nat.two_pow_pos shift
  have h1 : acc + x * 2 ^ shift + 2 ^ (shift + w) * N = acc + 2 ^ shift * (x + 2 ^ w * N) := by
    rw [Nat.pow_add, Nat.mul_add, Nat.mul_assoc, Nat.mul_comm x]; omega
  rw [h1, Nat.add_mul_div_left _ _ hp, Nat.div_eq_of_lt hacc, Nat.zero_add,
    Nat.add_mul_mod_self_left, Nat.mod_eq_of_lt hx]

theorem acc_step_lt (acc shift x w : Nat) (hacc : acc < 2 ^ shift) (hx : x < 2 ^ w) :
    acc + x * 2 ^ shift < 2 ^ (shift + w) := by
  have hp : 0 < 2 ^ shift := Nat.two_pow_pos shift
  have : x + 1 ≤ 2 ^ w := hx
  have h2 : (x + 1) * 2 ^ shift ≤ 2 ^ w * 2 ^ shift := Nat.mul_le_mul_right _ this
  rw [Nat.pow_add, Nat.mul_comm (2 ^ shift)]
  have : (x + 1) * 2 ^ shift = x * 2 ^ shift + 2 ^ shift := by rw [Nat.add_mul]; omega
  omega

theorem listField_get' (v : Value) (id : String) (vs : List Value) (h : listField v id = .ok vs) :
    v.get? id = some (.arr vs) := by
  simp only [listField] at h
  split at h
  · rename_i ws hws; simp only [Outcome.ok.injEq] at h; rw [hws, h]
  · cases h

/-! ### flags: the encoder's consistency check makes every governed field agree with the bit -/

theorem flag_votes (v : Value) (oid : String) (setv : Nat) (rest : List (String × Nat))
    (hval : ∀ q ∈ ((oid, setv) :: rest), q.2 ≤ 1)
    (hcons : ¬ (((oid, setv) :: rest).length ≥ 2 ∧
      (((oid, setv) :: rest).any fun (k, val) => if val = 1 then !isPresent v k else isPresent v k) = true ∧
      (((oid, setv) :: rest).any fun (k, val) => if val = 1 then isPresent v k else !isPresent v k) = true)) :
    ∀ o ∈ ((oid, setv) :: rest), vote v o = vote v (oid, setv) := by
  intro o ho
  by_cases hlen : rest = []
  · subst hlen
    have : o = (oid, setv) := by simpa using ho
    subst this; rfl
  · have hlen2 : ((oid, setv) :: rest).length ≥ 2 := by
      cases rest with
      | nil => exact absurd rfl hlen
      | cons _ _ => simp
    have hnot : ¬ ((((oid, setv) :: rest).any fun (k, val) => if val = 1 then !isPresent v k else isPresent v k) = true ∧
        (((oid, setv) :: rest).any fun (k, val) => if val = 1 then isPresent v k else !isPresent v k) = true) :=
      fun hzo => hcons ⟨hlen2, hzo.1, hzo.2⟩
    have voteBit : ∀ q ∈ ((oid, setv) :: rest), vote v q = 0 ∨ vote v q = 1 := by
      intro q hq
      have := hval q hq
      simp only [vote]; split <;> omega
    have isOne : ∀ q ∈ ((oid, setv) :: rest), vote v q = 1 →
        (((oid, setv) :: rest).any fun (k, val) => if val = 1 then isPresent v k else !isPresent v k) = true := by
      intro q hq hv1
      rw [List.any_eq_true]
      refine ⟨q, hq, ?_⟩
      obtain ⟨k, val⟩ := q
      have hv := hval (k, val) hq
      simp only [vote] at hv1
      by_cases hp : isPresent v k = true
      · simp only [hp, ↓reduceIte] at hv1; simp [hp, hv1]
      · have hp' : isPresent v k = false := by simpa using hp
        simp only [hp', Bool.false_eq_true, ↓reduceIte] at hv1
        have : val ≠ 1 := by omega
        simp [hp', this]
    have isZero : ∀ q ∈ ((oid, setv) :: rest), vote v q = 0 →
        (((oid, setv) :: rest).any fun (k, val) => if val = 1 then !isPresent v k else isPresent v k) = true := by
      intro q hq hv0
      rw [List.any_eq_true]
      refine ⟨q, hq, ?_⟩
      obtain ⟨k, val⟩ := q
      have hv := hval (k, val) hq
      simp only [vote] at hv0
      by_cases hp : isPresent v k = true
      · simp only [hp, ↓reduceIte] at hv0; simp [hp, hv0]
      · have hp' : isPresent v k = false := by simpa using hp
        simp only [hp', Bool.false_eq_true, ↓reduceIte] at hv0
        have : val = 1 := by omega
        simp [hp', this]
    rcases voteBit o ho with h0 | h1
    · rcases voteBit (oid, setv) (List.mem_cons_self ..) with f0 | f1
      · rw [h0, f0]
      · exact absurd ⟨isZero o ho h0, isOne _ (List.mem_cons_self ..) f1⟩ hnot
    · rcases voteBit (oid, setv) (List.mem_cons_self ..) with f0 | f1
      · exact absurd ⟨isZero _ (List.mem_cons_self ..) f0, isOne o ho h1⟩ hnot
      · rw [h1, f1]

theorem scalar_fits (w n : Nat) (h1 : ¬ n ≥ 2 ^ backingOf w) (h2 : ¬ (backingOf w > w ∧ n > maskBits w)) :
    n < 2 ^ w := by
  by_cases hbw : backingOf w > w
  · have : ¬ n > maskBits w := fun hh => h2 ⟨hbw, hh⟩
    have hpos : 0 < 2 ^ w := Nat.two_pow_pos w
    unfold maskBits at this; omega
  · have hle : backingOf w ≤ w := by omega
    have : 2 ^ backingOf w ≤ 2 ^ w := Nat.pow_le_pow_right (by decide) hle
    omega

/-- **one chunk, in lock step**: what the shift/or computation packed, the emitted
    `(chunk >> shift) & mask` extractions read back — every field value, every size / count /
    element size (with the meaning `Good` gives it), every condition flag -/
theorem chunk_rt_aux (m : Mode) (all : Items) (pl : Nat) (v : Value) :
    ∀ (fs : List BitField) (shift acc X : Nat) (st : DState),
      acc < 2 ^ shift → (∀ f ∈ fs, bfRtOk all f = true ∧ (m = .ideal ∨ bfNoArrayMod f = true)) →
      encChunkFields true all pl v fs shift acc = .ok X → CtxGood all pl v st →
      ∃ st', decChunkFields (m == .ideal) fs shift X st = .ok st' ∧
        st'.fields = st.fields ++ canonChunk v fs ∧ st'.payload = st.payload ∧ CtxGood all pl v st' ∧
        X < 2 ^ (shift + chunkBits fs) := by
  intro fs
  induction fs with
  | nil =>
    intro shift acc X st hacc _ h hg
    simp only [encChunkFields, Outcome.ok.injEq] at h
    exact ⟨st, by simp [decChunkFields], by simp [canonChunk], rfl, hg, by simpa [chunkBits_nil, ← h] using hacc⟩
  | cons f fs ih =>
    intro shift acc X st hacc hwf h hg
    have hfs : ∀ g ∈ fs, bfRtOk all g = true ∧ (m = .ideal ∨ bfNoArrayMod g = true) :=
      fun g hg' => hwf g (List.mem_cons_of_mem _ hg')
    have hbf := (hwf f (List.mem_cons_self ..)).1
    have hnomod := (hwf f (List.mem_cons_self ..)).2
    -- the value read back at this position
    have readBack : ∀ (w x : Nat), x < 2 ^ w →
        encChunkFields true all pl v fs (shift + w) (acc + x * 2 ^ shift) = .ok X →
        X / 2 ^ shift % 2 ^ w = x := by
      intro w x hx hrest
      obtain ⟨N, hN⟩ := enc_form _ all pl v fs _ _ _ hrest
      rw [hN]; exact extract_field acc shift x w N hacc hx
    have cont : ∀ (w x : Nat) (st1 : DState), x < 2 ^ w →
        encChunkFields true all pl v fs (shift + w) (acc + x * 2 ^ shift) = .ok X →
        CtxGood all pl v st1 →
        ∃ st', decChunkFields (m == .ideal) fs (shift + w) X st1 = .ok st' ∧
          st'.fields = st1.fields ++ canonChunk v fs ∧ st'.payload = st1.payload ∧ CtxGood all pl v st' ∧
          X < 2 ^ (shift + (w + chunkBits fs)) := by
      intro w x st1 hx hrest hg1
      obtain ⟨st', a1, a2, a3, a4, a5⟩ := ih (shift + w) (acc + x * 2 ^ shift) X st1 (acc_step_lt acc shift x w hacc hx) hfs hrest hg1
      exact ⟨st', a1, a2, a3, a4, by rw [← Nat.add_assoc]; exact a5⟩
    unfold encChunkFields at h
    unfold decChunkFields
    cases f with
    | scalar id w =>
      simp only [BitField.width] at h ⊢
      obtain ⟨x, hx, h2⟩ := bind_ok _ _ _ h
      simp only [natField] at hx
      split at hx
      · rename_i n hget
        simp only [Outcome.ok.injEq] at hx; subst hx
        split at h2
        · cases h2
        · split at h2
          · cases h2
          · rename_i hb hm
            have hlt := scalar_fits w n hb hm
            simp only [readBack w n hlt h2]
            simp only [bfRtOk, List.all_eq_true] at hbf
            obtain ⟨st', h1, h3, h4, h5, h6⟩ := cont w n
              { st with ctx := (.val id, n) :: st.ctx, fields := st.fields ++ [(id, .int n)] } hlt h2
              (ctxGood_push all pl v st (.val id) n hg (by
                intro oid cval hmem
                have := hbf (id, oid, cval) hmem
                simp at this) _ rfl)
            exact ⟨st', h1, by rw [h3]; simp [canonChunk, hget], h4, h5, by rw [chunkBits_cons]; exact h6⟩
      · cases hx
    | flag id opts =>
      simp only [BitField.width] at h ⊢
      cases opts with
      | nil => cases h
      | cons o rest =>
        obtain ⟨oid, setv⟩ := o
        simp only at h
        split at h
        · cases h
        · rename_i hcons
          simp only [bfRtOk, Bool.and_eq_true, List.all_eq_true, decide_eq_true_eq] at hbf
          have hvals : ∀ q ∈ ((oid, setv) :: rest), q.2 ≤ 1 := fun q hq => hbf.1 q hq
          have hsetv : setv ≤ 1 := hvals (oid, setv) (List.mem_cons_self ..)
          have hbit : (if isPresent v oid then setv else 1 - setv) < 2 ^ 1 := by split <;> omega
          simp only [readBack 1 _ hbit h]
          have hvotes := flag_votes v oid setv rest hvals hcons
          obtain ⟨st', h1, h3, h4, h5, h6⟩ := cont 1 _
            { st with ctx := (.val id, (if isPresent v oid then setv else 1 - setv)) :: st.ctx } hbit h
            (ctxGood_push all pl v st (.val id) _ hg (by
              intro fid cval hmem
              have hin := hbf.2 (id, fid, cval) hmem
              have hin' : (fid, cval) ∈ ((oid, setv) :: rest) := by simpa using hin
              have hv := hvotes (fid, cval) hin'
              have hc := hvals (fid, cval) hin'
              simp only [vote] at hv hc
              by_cases hp : isPresent v fid = true
              · simp only [hp, ↓reduceIte] at hv
                simp [hp, hv]
              · have hp' : isPresent v fid = false := by simpa using hp
                simp only [hp', Bool.false_eq_true, ↓reduceIte] at hv
                simp only [hp', Bool.false_eq_true, false_iff]
                omega) _ rfl)
          exact ⟨st', h1, by rw [h3]; simp [canonChunk], h4, h5, by rw [chunkBits_cons]; exact h6⟩
    | enumTy id ty e =>
      simp only [BitField.width] at h ⊢
      obtain ⟨x, hx, h2⟩ := bind_ok _ _ _ h
      simp only [natField] at hx
      split at hx
      · rename_i n hget
        simp only [Outcome.ok.injEq] at hx; subst hx
        split at h2
        · rename_i hok
          have hlt := enumOk_lt e n hok
          simp only [readBack e.width n hlt h2]
          simp only [hok, ↓reduceIte]
          simp only [bfRtOk, List.all_eq_true] at hbf
          obtain ⟨st', h1, h3, h4, h5, h6⟩ := cont e.width n
            { st with ctx := (.val id, n) :: st.ctx, fields := st.fields ++ [(id, .int n)] } hlt h2
            (ctxGood_push all pl v st (.val id) n hg (by
              intro oid cval hmem
              have := hbf (id, oid, cval) hmem
              simp at this) _ rfl)
          exact ⟨st', h1, by rw [h3]; simp [canonChunk, hget], h4, h5, by rw [chunkBits_cons]; exact h6⟩
        · cases h2
      · cases hx
    | fixed w c =>
      simp only [BitField.width] at h ⊢
      simp only [bfRtOk, decide_eq_true_eq] at hbf
      simp only [readBack w c hbf h]
      simp only [↓reduceIte]
      obtain ⟨st', h1, h3, h4, h5, h6⟩ := cont w c st hbf h hg
      exact ⟨st', h1, by rw [h3]; simp [canonChunk], h4, h5, by rw [chunkBits_cons]; exact h6⟩
    | reserved w =>
      simp only [BitField.width] at h ⊢
      obtain ⟨st', h1, h3, h4, h5, h6⟩ := cont w 0 st (Nat.two_pow_pos w) h hg
      exact ⟨st', h1, by rw [h3]; simp [canonChunk], h4, h5, by rw [chunkBits_cons]; exact h6⟩
    | size t w md =>
      simp only [BitField.width] at h ⊢
      obtain ⟨s0, hs0, h2⟩ := bind_ok _ _ _ h
      simp only [bfRtOk, Bool.and_eq_true, bne_iff_ne, ne_eq, Bool.or_eq_true, beq_iff_eq] at hbf
      obtain ⟨⟨hnb, hpm⟩, htg⟩ := hbf
      have hpos : 0 < 2 ^ w := Nat.two_pow_pos w
      by_cases hpay : t = "_payload_"
      · subst hpay
        simp only [BEq.rfl, Bool.true_or, Bool.or_true, ↓reduceIte] at h2
        split at h2
        · cases h2
        · rename_i hmask
          have hlt : s0 + md < 2 ^ w := by unfold maskBits at hmask; omega
          simp only [readBack w (s0 + md) hlt h2]
          simp only [ne_eq, not_true_eq_false, and_false, ↓reduceIte]
          simp only [sizeOfTarget, BEq.rfl, Bool.true_or, ↓reduceIte, Outcome.ok.injEq] at hs0
          subst hs0
          obtain ⟨st', h1, h3, h4, h5, h6⟩ := cont w (pl + md) { st with ctx := (.size "_payload_", pl + md) :: st.ctx } hlt h2
            (ctxGood_push all pl v st (.size "_payload_") _ hg (by
              refine ⟨fun _ m' hm' => ?_, fun hne => absurd rfl hne⟩
              rcases hpm with hh | hh
              · exact absurd rfl hh
              · rw [hm'] at hh
                have : m' = md := by simpa using hh
                rw [this]) _ rfl)
          exact ⟨st', h1, by rw [h3]; simp [canonChunk], h4, h5, by rw [chunkBits_cons]; exact h6⟩
      · have hne1 : (t == "_payload_") = false := by simpa using hpay
        have hne2 : (t == "_body_") = false := by simpa using hnb
        simp only [hne1, hne2, Bool.or_false] at h2
        -- the array's octet size, as the encoder computes it
        have hs0' : sizeOfTarget.find t v all = .ok s0 := by
          simpa [sizeOfTarget, hne1, hne2] using hs0
        obtain ⟨elem, ew, vs, hfa, hget, hs⟩ := sizeFind_firstArray v all t s0 hs0'
        have hgood : Good all pl v (.size t) s0 := by
          refine ⟨fun hh => absurd hh hpay, fun _ elem' ew' vs' hfa' hget' => ?_⟩
          rw [hfa] at hfa'; rw [hget] at hget'
          simp only [Option.some.injEq, Prod.mk.injEq] at hfa'
          simp only [Option.some.injEq, Value.arr.injEq] at hget'
          rw [← hfa'.1, ← hget']; exact hs
        simp only [Bool.true_or, ↓reduceIte] at h2
        split at h2
        · cases h2
        · rename_i hmask
          have hlt : s0 + md < 2 ^ w := by unfold maskBits at hmask; omega
          simp only [readBack w (s0 + md) hlt h2]
          cases hmode : (m == Mode.ideal) with
          | true =>
            have hc : (True ∧ t ≠ "_payload_") := ⟨trivial, hpay⟩
            have hnlt : ¬ s0 + md < md := by omega
            have hsub : s0 + md - md = s0 := by omega
            simp only [↓reduceIte, hnlt, hsub]
            rw [if_pos hc]
            rw [hmode] at cont
            obtain ⟨st', h1, h3, h4, h5, h6⟩ := cont w (s0 + md) { st with ctx := (.size t, s0) :: st.ctx } hlt h2
              (ctxGood_push all pl v st (.size t) _ hg hgood _ rfl)
            exact ⟨st', h1, by rw [h3]; simp [canonChunk], h4, h5, by rw [chunkBits_cons]; exact h6⟩
          | false =>
            have hmd : md = 0 := by
              rcases hnomod with hm | hm
              · subst hm; simp at hmode
              · simpa [bfNoArrayMod, hne1, hne2] using hm
            subst hmd
            simp only [Bool.false_eq_true, false_and, ↓reduceIte, Nat.add_zero]
            rw [hmode] at cont
            obtain ⟨st', h1, h3, h4, h5, h6⟩ := cont w (s0 + 0) { st with ctx := (.size t, s0) :: st.ctx } hlt h2
              (ctxGood_push all pl v st (.size t) _ hg hgood _ rfl)
            exact ⟨st', h1, by rw [h3]; simp [canonChunk], h4, h5, by rw [chunkBits_cons]; exact h6⟩
    | count t w =>
      simp only [BitField.width] at h ⊢
      obtain ⟨vs, hvs, h2⟩ := bind_ok _ _ _ h
      simp only [bfRtOk, Bool.and_eq_true, decide_eq_true_eq] at hbf
      have hget := listField_get' v t vs hvs
      have hpos : 0 < 2 ^ w := Nat.two_pow_pos w
      split at h2
      · cases h2
      · rename_i hmask
        have hlt : vs.length < 2 ^ w := by
          have : ¬ vs.length > maskBits w := fun hh => hmask ⟨Or.inr hbf.1, hh⟩
          unfold maskBits at this; omega
        have hmod : vs.length % 2 ^ backingOf w = vs.length :=
          Nat.mod_eq_of_lt (Nat.lt_of_lt_of_le hlt (Nat.pow_le_pow_right (by decide) (backingOf_ge w (by omega))))
        rw [hmod] at h2
        simp only [readBack w vs.length hlt h2]
        obtain ⟨st', h1, h3, h4, h5, h6⟩ := cont w vs.length { st with ctx := (.count t, vs.length) :: st.ctx } hlt h2
          (ctxGood_push all pl v st (.count t) _ hg (by
            intro vs' hget'
            rw [hget] at hget'
            simp only [Option.some.injEq, Value.arr.injEq] at hget'
            rw [hget']) _ rfl)
        exact ⟨st', h1, by rw [h3]; simp [canonChunk], h4, h5, by rw [chunkBits_cons]; exact h6⟩
    | elemSize t w =>
      simp only [BitField.width] at h ⊢
      obtain ⟨vs, hvs, h2⟩ := bind_ok _ _ _ h
      have hget := listField_get' v t vs hvs
      simp only [bfRtOk] at hbf
      have hpos : 0 < 2 ^ w := Nat.two_pow_pos w
      cases hfa : firstArray all t with
      | none => simp [hfa] at hbf
      | some pr =>
        obtain ⟨elem, ew⟩ := pr
        simp only [elemTy_firstArray, hfa, Option.map_some] at h2
        have mkGood : ∀ es, (∀ y ∈ vs, lenTy elem y = es) → (vs = [] → es = 0) → Good all pl v (.esize t) es := by
          intro es h1 h2' elem' ew' vs' hfa' hget'
          rw [hfa] at hfa'; rw [hget] at hget'
          simp only [Option.some.injEq, Prod.mk.injEq] at hfa'
          simp only [Option.some.injEq, Value.arr.injEq] at hget'
          rw [← hfa'.1, ← hget']; exact ⟨h1, h2'⟩
        cases vs with
        | nil =>
          simp only [List.any_nil, Bool.false_eq_true, ↓reduceIte] at h2
          split at h2
          · cases h2
          · simp only [readBack w 0 hpos h2]
            obtain ⟨st', h1, h3, h4, h5, h6⟩ := cont w 0 { st with ctx := (.esize t, 0) :: st.ctx } hpos h2
              (ctxGood_push all pl v st (.esize t) _ hg (mkGood 0 (by simp) (fun _ => rfl)) _ rfl)
            exact ⟨st', h1, by rw [h3]; simp [canonChunk], h4, h5, by rw [chunkBits_cons]; exact h6⟩
        | cons y ys =>
          simp only at h2
          split at h2
          · cases h2
          · rename_i hall
            split at h2
            · cases h2
            · rename_i hmask
              have hlt : lenTy elem y < 2 ^ w := by unfold maskBits at hmask; omega
              simp only [readBack w _ hlt h2]
              have hallEq : ∀ z ∈ (y :: ys), lenTy elem z = lenTy elem y := by
                intro z hz
                have hno : ¬ ((y :: ys).any fun q => lenTy elem q != lenTy elem y) = true := hall
                rw [List.any_eq_true] at hno
                have h3 : ¬ (lenTy elem z != lenTy elem y) = true := fun hh => hno ⟨z, hz, hh⟩
                simpa using h3
              obtain ⟨st', h1, h3, h4, h5, h6⟩ := cont w _ { st with ctx := (.esize t, lenTy elem y) :: st.ctx } hlt h2
                (ctxGood_push all pl v st (.esize t) _ hg (mkGood _ hallEq (by simp)) _ rfl)
              exact ⟨st', h1, by rw [h3]; simp [canonChunk], h4, h5, by rw [chunkBits_cons]; exact h6⟩

/-- a chunk item: the emitted read of `bits/8` octets and the field extractions give back what
    the reference-mode encoder packed (decoder in either mode), and leave the rest untouched -/
theorem chunk_rt (ce cd : Cfg) (hce : ce.mode = .ideal) (hee : ce.e = cd.e) (all : Items) (p : Enc Bytes) (pl : Nat)
    (v : Value) (fs : List BitField) (bs rest : Bytes) (st : DState) (h8 : chunkBits fs % 8 = 0)
    (hwf : ∀ f ∈ fs, bfRtOk all f = true ∧ (cd.mode = .ideal ∨ bfNoArrayMod f = true))
    (he : encItem ce all p pl v (.chunk fs) = .ok bs) (hg : CtxGood all pl v st) :
    ∃ st', decItem cd (.chunk fs) (bs ++ rest) st = .ok (st', rest) ∧
      st'.fields = st.fields ++ canonChunk v fs ∧ st'.payload = st.payload ∧ CtxGood all pl v st' := by
  simp only [encItem, hce, BEq.rfl] at he
  obtain ⟨X, hX, h2⟩ := bind_ok _ _ _ he
  simp only [Outcome.ok.injEq] at h2
  obtain ⟨st', a1, a2, a3, a4, a5⟩ := chunk_rt_aux cd.mode all pl v fs 0 0 X st (by simp) hwf hX hg
  have hk : chunkBits fs = 8 * (chunkBits fs / 8) := by omega
  have hXlt : X < 2 ^ (8 * (chunkBits fs / 8)) := by rw [← hk]; simpa using a5
  have hread := getUint_putUint cd.e (chunkBits fs / 8) X rest hXlt
  rw [← hk] at hread
  refine ⟨st', ?_, a2, a3, a4⟩
  simp only [decItem, decChunk]
  simp only [getUint] at hread
  rw [← h2, hee]
  split at hread
  · cases hread
  · rename_i hlen
    simp only [Outcome.ok.injEq, Prod.mk.injEq] at hread
    simp only [hlen, ↓reduceIte, hread.1, hread.2, a1, Outcome.bind]

/-! ### elements, loops, arrays -/

/-- the element decoder inverts the element encoder and leaves what follows untouched (inputs
    shorter than `usize::MAX`, as every real buffer is) -/
def ElemRT (enc : Value → Enc Bytes) (dec : Bytes → Dec (Value × Bytes)) (canon : Value → Value) : Prop :=
  ∀ x bs rest, (bs ++ rest).length < usizeMax → enc x = .ok bs → dec (bs ++ rest) = .ok (canon x, rest)

theorem repeat_rt (enc : Value → Enc Bytes) (dec : Bytes → Dec (Value × Bytes)) (canon : Value → Value)
    (h : ElemRT enc dec canon) :
    ∀ (vs : List Value) (es rest : Bytes), (es ++ rest).length < usizeMax → encListWith enc vs = .ok es →
      decRepeat dec vs.length (es ++ rest) = .ok (vs.map canon, rest) := by
  intro vs
  induction vs with
  | nil => intro es rest _ he; simp [encListWith] at he; simp [decRepeat, ← he]
  | cons x xs ih =>
    intro es rest hb he
    simp only [encListWith] at he
    obtain ⟨a, ha, h2⟩ := bind_ok _ _ _ he
    obtain ⟨b, hb', h3⟩ := bind_ok _ _ _ h2
    simp only [Outcome.ok.injEq] at h3
    subst h3
    have h1 := h x a (b ++ rest) (by simpa [List.append_assoc] using hb) ha
    have h2' := ih b rest (by simp only [List.length_append] at hb ⊢; omega) hb'
    simp only [List.length_cons, decRepeat, List.append_assoc, h1, Outcome.bind, h2', List.map_cons]

theorem while_rt (enc : Value → Enc Bytes) (dec : Bytes → Dec (Value × Bytes)) (canon : Value → Value)
    (h : ElemRT enc dec canon) (hne : ∀ x bs, enc x = .ok bs → bs ≠ []) :
    ∀ (vs : List Value) (es : Bytes) (fuel : Nat), es.length < usizeMax → es.length < fuel →
      encListWith enc vs = .ok es → decWhile dec fuel es = .ok (vs.map canon) := by
  intro vs
  induction vs with
  | nil =>
    intro es fuel _ hf he
    simp [encListWith] at he
    subst he
    cases fuel with
    | zero => omega
    | succ f => simp [decWhile]
  | cons x xs ih =>
    intro es fuel hb hf he
    simp only [encListWith] at he
    obtain ⟨a, ha, h2⟩ := bind_ok _ _ _ he
    obtain ⟨b, hb', h3⟩ := bind_ok _ _ _ h2
    simp only [Outcome.ok.injEq] at h3
    subst h3
    have hane := hne x a ha
    have halen : 0 < a.length := by
      cases a with
      | nil => exact absurd rfl hane
      | cons _ _ => simp
    cases fuel with
    | zero => omega
    | succ f =>
      have h1 := h x a b (by simpa using hb) ha
      have hnonempty : (a ++ b).isEmpty = false := by
        cases a with
        | nil => exact absurd rfl hane
        | cons _ _ => rfl
      simp only [List.length_append] at hb hf
      have h2' := ih b f (by omega) (by omega) hb'
      simp only [decWhile, hnonempty, Bool.false_eq_true, ↓reduceIte, h1, Outcome.bind, List.length_append]
      have : b.length < a.length + b.length := by omega
      simp only [this, ↓reduceIte, h2', List.map_cons]

theorem encList_static_len (enc : Value → Enc Bytes) (w : Nat) (hs : ∀ x b, enc x = .ok b → b.length = w)
    (vs : List Value) (es : Bytes) (he : encListWith enc vs = .ok es) : es.length = vs.length * w := by
  rw [encListWith_length enc (fun _ => w) hs vs es he, sumLen_const]

/-- what the array decoder is given, relative to the encoded elements `es` of the values `vs` -/
structure ArrFacts (ew : ElemWidth) (shape : Shape) (cnt siz : Option Nat) (vs : List Value) (es rest : Bytes) : Prop where
  count : shape = .countField → cnt = some vs.length
  size : shape = .sizeField → siz = some es.length
  fixed : ∀ n, shape = .static n → vs.length = n
  greedy : shape = .unknown → rest = []
  notDyn : ew ≠ .dynamic

/-- **the array cases, in lock step** (element width static or unknown × the four shapes): given
    the count / size the encoder wrote, the emitted loops read back exactly the elements and
    leave the rest -/
theorem array_rt (m : Mode) (enc : Value → Enc Bytes) (dec : Bytes → Dec (Value × Bytes)) (canon : Value → Value)
    (hrt : ElemRT enc dec canon) (ew : ElemWidth) (shape : Shape) (cnt siz esz : Option Nat)
    (vs : List Value) (es rest : Bytes) (hb : (es ++ rest).length < usizeMax)
    (he : encListWith enc vs = .ok es) (hf : ArrFacts ew shape cnt siz vs es rest)
    (hstat : ∀ w, ew = .static w → 0 < w ∧ ∀ x b, enc x = .ok b → b.length = w)
    (hunk : ew = .unknown → ∀ x b, enc x = .ok b → b ≠ []) :
    decArray m dec ew shape cnt siz esz (es ++ rest) = .ok (vs.map canon, rest) := by
  have hrep := repeat_rt enc dec canon hrt vs es rest hb he
  unfold decArray
  cases ew with
  | dynamic => exact absurd rfl hf.notDyn
  | «static» w =>
    obtain ⟨hw, hlen1⟩ := hstat w rfl
    have hlen := encList_static_len enc w hlen1 vs es he
    cases shape with
    | «static» n =>
      have hn := hf.fixed n rfl
      simp only
      have : ¬ (es ++ rest).length < n * w := by simp only [List.length_append]; rw [hlen, hn]; omega
      simp only [this, ↓reduceIte]
      rw [← hn, hrep]
      simp [Outcome.bind, unwrapArr]
    | countField =>
      rw [hf.count rfl]
      simp only
      have hno : vs.length * w < usizeMax := by
        simp only [List.length_append] at hb; rw [← hlen]; omega
      have hmul : umulM m vs.length w = .ok (vs.length * w) := by
        unfold umulM umul; cases m <;> simp [hno]
      rw [hmul]
      simp only [Outcome.bind]
      have : ¬ (es ++ rest).length < vs.length * w := by simp only [List.length_append]; rw [hlen]; omega
      simp only [this, ↓reduceIte]
      exact hrep
    | sizeField =>
      rw [hf.size rfl]
      simp only
      have h1 : ¬ (es ++ rest).length < es.length := by simp only [List.length_append]; omega
      have h2 : ¬ w = 0 := by omega
      have h3 : ¬ es.length % w ≠ 0 := by rw [hlen]; simp
      have h4 : es.length / w = vs.length := by rw [hlen]; exact Nat.mul_div_cancel _ hw
      simp only [h1, h2, h3, ↓reduceIte, h4]
      exact hrep
    | unknown =>
      have hr := hf.greedy rfl
      subst hr
      simp only [List.append_nil] at hrep ⊢
      have h2 : ¬ w = 0 := by omega
      have h3 : ¬ es.length % w ≠ 0 := by rw [hlen]; simp
      have h4 : es.length / w = vs.length := by rw [hlen]; exact Nat.mul_div_cancel _ hw
      simp only [h2, h3, ↓reduceIte, h4]
      exact hrep
  | unknown =>
    have hne := hunk rfl
    cases shape with
    | «static» n =>
      have hn := hf.fixed n rfl
      simp only
      rw [← hn, hrep]
      simp [Outcome.bind, unwrapArr]
    | countField =>
      rw [hf.count rfl]
      exact hrep
    | sizeField =>
      rw [hf.size rfl]
      simp only
      have h1 : ¬ (es ++ rest).length < es.length := by simp only [List.length_append]; omega
      simp only [h1, ↓reduceIte, List.take_left', List.drop_left']
      have hes : es.length < usizeMax := by simp only [List.length_append] at hb; omega
      rw [while_rt enc dec canon hrt hne vs es (es.length + 1) hes (by omega) he]
      simp [Outcome.bind]
    | unknown =>
      have hr := hf.greedy rfl
      subst hr
      simp only [List.append_nil] at hb ⊢
      rw [while_rt enc dec canon hrt hne vs es (es.length + 1) hb (by omega) he]
      simp [Outcome.bind]

/-! ### helpers for the whole-packet round trip -/

theorem arrayItems_ids : ∀ (is : Items) (t : String × Ty × ElemWidth), t ∈ arrayItems is → t.1 ∈ arrayIds is
  | .nil, t, h => by simp [arrayItems] at h
  | .cons i r, t, h => by
    cases i with
    | array id elem ew shape pad =>
      simp only [arrayItems, List.mem_cons] at h
      simp only [arrayIds, List.mem_cons]
      rcases h with rfl | h
      · exact Or.inl rfl
      · exact Or.inr (arrayItems_ids r t h)
    | chunk fs => simpa [arrayIds] using arrayItems_ids r t (by simpa [arrayItems] using h)
    | typedef id ty sb => simpa [arrayIds] using arrayItems_ids r t (by simpa [arrayItems] using h)
    | optional id ty ci cv => simpa [arrayIds] using arrayItems_ids r t (by simpa [arrayItems] using h)
    | payload m => simpa [arrayIds] using arrayItems_ids r t (by simpa [arrayItems] using h)

theorem firstArray_of_mem : ∀ (is : Items) (id : String) (elem : Ty) (ew : ElemWidth),
    (id, elem, ew) ∈ arrayItems is → (arrayIds is).Nodup → firstArray is id = some (elem, ew)
  | .nil, id, elem, ew, h, _ => by simp [arrayItems] at h
  | .cons i r, id, elem, ew, h, hn => by
    cases i with
    | array id' elem' ew' shape pad =>
      simp only [arrayItems, List.mem_cons, Prod.mk.injEq] at h
      simp only [arrayIds, List.nodup_cons] at hn
      simp only [firstArray]
      rcases h with ⟨rfl, rfl, rfl⟩ | h
      · simp
      · have hne : id' ≠ id := by
          intro heq
          exact hn.1 (heq ▸ arrayItems_ids r _ h)
        have : (id' == id) = false := by simpa using hne
        simp only [this, Bool.false_eq_true, ↓reduceIte]
        exact firstArray_of_mem r id elem ew h hn.2
    | chunk fs => simp only [arrayItems] at h; simp only [arrayIds] at hn; simp only [firstArray]; exact firstArray_of_mem r id elem ew h hn
    | typedef id' ty sb => simp only [arrayItems] at h; simp only [arrayIds] at hn; simp only [firstArray]; exact firstArray_of_mem r id elem ew h hn
    | optional id' ty ci cv => simp only [arrayItems] at h; simp only [arrayIds] at hn; simp only [firstArray]; exact firstArray_of_mem r id elem ew h hn
    | payload m => simp only [arrayItems] at h; simp only [arrayIds] at hn; simp only [firstArray]; exact firstArray_of_mem r id elem ew h hn

theorem minEnc_le_lenItemsP (v : Value) (n : Nat) : ∀ (is : Items), minEnc is ≤ lenItemsP is v n
  | .nil => by simp [minEnc, lenItemsP]
  | .cons i r => by
    have ih := minEnc_le_lenItemsP v n r
    cases i with
    | chunk fs => simp only [minEnc, lenItemsP, lenItem]; omega
    | array id elem ew shape pad =>
      cases pad with
      | none => simp only [minEnc, lenItemsP]; omega
      | some p => simp only [minEnc, lenItemsP, lenItem]; omega
    | typedef id ty sb => simp only [minEnc, lenItemsP]; omega
    | optional id ty ci cv => simp only [minEnc, lenItemsP]; omega
    | payload m => simp only [minEnc, lenItemsP]; omega

/-- integer leaves round-trip (reference-mode encoder, decoder in either mode) -/
theorem scalar_rt (ce cd : Cfg) (hce : ce.mode = .ideal) (hee : ce.e = cd.e) (w : Nat) (hw : w % 8 = 0) :
    ElemRT (encTy ce (.scalar w)) (decTy cd (.scalar w)) id := by
  intro x bs rest _ he
  cases x with
  | int n =>
    simp only [encTy, elemOutOfRange, hce] at he
    split at he
    · cases he
    · split at he
      · cases he
      · rename_i h1 h2
        simp only [Outcome.ok.injEq] at he
        have hlt : n < 2 ^ w := by
          have hpos : 0 < 2 ^ w := Nat.two_pow_pos w
          have : ¬ n > maskBits w := by simpa using h2
          unfold maskBits at this; omega
        have hk : w = 8 * (w / 8) := by omega
        have := getUint_putUint cd.e (w / 8) n rest (by rw [← hk]; exact hlt)
        rw [← hk] at this
        simp only [decTy, ← he, hee, this, Outcome.bind, id]
  | arr _ => simp [encTy] at he
  | obj _ => simp [encTy] at he
  | null => simp [encTy] at he

theorem enum_rt (ce cd : Cfg) (hee : ce.e = cd.e) (nm : String) (en : Enum.Decl) (hw : en.width % 8 = 0) :
    ElemRT (encTy ce (.enumTy nm en)) (decTy cd (.enumTy nm en)) id := by
  intro x bs rest _ he
  cases x with
  | int n =>
    simp only [encTy] at he
    split at he
    · rename_i hok
      simp only [Outcome.ok.injEq] at he
      have hlt := enumOk_lt en n hok
      have hk : en.width = 8 * (en.width / 8) := by omega
      have := getUint_putUint cd.e (en.width / 8) n rest (by rw [← hk]; exact hlt)
      rw [← hk] at this
      simp only [decTy, ← he, hee, this, Outcome.bind, hok, ↓reduceIte, id]
    · cases he
  | arr _ => simp [encTy] at he
  | obj _ => simp [encTy] at he
  | null => simp [encTy] at he

theorem custom_rt (ce cd : Cfg) (hee : ce.e = cd.e) (nm : String) (w : Nat) (hw : w % 8 = 0) :
    ElemRT (encTy ce (.custom nm w)) (decTy cd (.custom nm w)) id := by
  intro x bs rest _ he
  cases x with
  | int n =>
    simp only [encTy] at he
    split at he
    · rename_i hlt
      simp only [Outcome.ok.injEq] at he
      have hk : w = 8 * (w / 8) := by omega
      have := getUint_putUint cd.e (w / 8) n rest (by rw [← hk]; exact hlt)
      rw [← hk] at this
      have hlen : ¬ (bs ++ rest).length < w / 8 := by
        rw [← he]; simp only [List.length_append, putUint_length]; omega
      simp only [decTy, hlen, ↓reduceIte]
      rw [← he, hee, this]; simp [Outcome.bind]
    · cases he
  | arr _ => simp [encTy] at he
  | obj _ => simp [encTy] at he
  | null => simp [encTy] at he

/-! ### items, one kind at a time (the element / field type's round trip is a hypothesis) -/

/-- what an item leaves in the decoder state -/
def ItemPost (all : Items) (pl : Nat) (v : Value) (i : Item) (p : Bytes) (st st' : DState) : Prop :=
  st'.fields = st.fields ++ canonItem i v ∧
  st'.payload = (match i with | .payload _ => some p | _ => st.payload) ∧
  CtxGood all pl v st'

theorem typedef_item_rt (ce cd : Cfg) (hee : ce.e = cd.e) (all : Items) (pe : Enc Bytes) (pl : Nat) (v : Value) (p : Bytes)
    (id : String) (ty : Ty) (sb : Option Nat) (hsg : ty.selfGuarded = true) (hw8 : ∀ nm w, ty = .custom nm w → w % 8 = 0)
    (hrt : ElemRT (encTy ce ty) (decTy cd ty) (canonTy ty))
    (a rest : Bytes) (st : DState) (hb : (a ++ rest).length < usizeMax)
    (he : encItem ce all pe pl v (.typedef id ty sb) = .ok a) (hg : CtxGood all pl v st) :
    ∃ st', decItem cd (.typedef id ty sb) (a ++ rest) st = .ok (st', rest) ∧ ItemPost all pl v (.typedef id ty sb) p st st' := by
  simp only [encItem] at he
  cases hv : v.get? id with
  | none => simp [hv] at he
  | some x =>
    simp only [hv] at he
    have hdec := hrt x a rest hb he
    cases ty with
    | scalar w => simp [Ty.selfGuarded] at hsg
    | enumTy nm en => simp [Ty.selfGuarded] at hsg
    | custom nm w =>
      -- the typedef read of a sized custom field is the same read as the element decoder's
      simp only [decTy] at hdec
      simp only [decItem]
      split
      · rename_i hshort
        simp only [hshort, ↓reduceIte] at hdec
        cases hdec
      · rename_i hshort
        simp only [hshort, ↓reduceIte] at hdec
        obtain ⟨⟨n, r⟩, h1, h2⟩ := bind_ok _ _ _ hdec
        simp only [Outcome.ok.injEq, Prod.mk.injEq] at h2
        rw [h1]
        refine ⟨{ st with fields := st.fields ++ [(id, .int n)] }, by simp only [Outcome.bind, h2.2], ?_⟩
        exact ⟨by simp only [canonItem, hv, Option.getD_some, ← h2.1], rfl, ctxGood_same all pl v st _ hg rfl⟩
    | struct nm b =>
      simp only [decItem, hdec, Outcome.bind]
      exact ⟨_, rfl, by simp only [canonItem, hv, Option.getD_some], rfl, ctxGood_same all pl v st _ hg rfl⟩

theorem payload_item_rt (ce cd : Cfg) (all : Items) (p : Bytes) (v : Value) (mode : PayloadMode)
    (hpm : payloadMode all = some mode) (a rest : Bytes) (st : DState)
    (he : encItem ce all (.ok p) p.length v (.payload mode) = .ok a) (hg : CtxGood all p.length v st)
    (hkey : ∀ m, mode = .sized m → ∃ sz, st.ctx.get (.size "_payload_") = some sz)
    (hlast : mode = .last → rest = []) (hbs : ∀ k, mode = .beforeStatic k → rest.length = k)
    (hund : mode ≠ .undelimited) :
    ∃ st', decItem cd (.payload mode) (a ++ rest) st = .ok (st', rest) ∧
      ItemPost all p.length v (.payload mode) p st st' := by
  simp only [encItem, Outcome.ok.injEq] at he
  subst he
  cases mode with
  | sized m =>
    obtain ⟨sz, hsz⟩ := hkey m rfl
    have hgood := (hg _ _ hsz).1 rfl m hpm
    subst hgood
    simp only [decItem, hsz]
    have h1 : ¬ p.length + m < m := by omega
    have h2 : p.length + m - m = p.length := by omega
    have h3 : ¬ (p ++ rest).length < p.length := by simp only [List.length_append]; omega
    simp only [h1, ↓reduceIte, h2, h3, List.take_left', List.drop_left']
    exact ⟨_, rfl, by simp [canonItem], rfl, ctxGood_same all _ v st _ hg rfl⟩
  | last =>
    have := hlast rfl
    subst this
    simp only [decItem, List.append_nil]
    exact ⟨_, rfl, by simp [canonItem], rfl, ctxGood_same all _ v st _ hg rfl⟩
  | beforeStatic k =>
    have hk := hbs k rfl
    simp only [decItem]
    have h1 : ¬ (p ++ rest).length < k := by simp only [List.length_append]; omega
    have h2 : (p ++ rest).length - k = p.length := by simp only [List.length_append]; omega
    simp only [h1, ↓reduceIte, h2, List.take_left', List.drop_left']
    exact ⟨_, rfl, by simp [canonItem], rfl, ctxGood_same all _ v st _ hg rfl⟩
  | undelimited => exact absurd rfl hund

theorem isPresent_iff (v : Value) (id : String) :
    isPresent v id = true ↔ ∃ x, v.get? id = some x ∧ x.isNull = false := by
  simp only [isPresent]
  cases hv : v.get? id with
  | none => simp
  | some x => cases x <;> simp [Value.isNull]

theorem optional_item_rt (ce cd : Cfg) (hce : ce.mode = .ideal) (hee : ce.e = cd.e) (all : Items) (pe : Enc Bytes) (pl : Nat)
    (v : Value) (p : Bytes) (id : String) (ty : Ty) (cid : String) (cval : Nat)
    (hw8 : ∀ w, ty = .scalar w → w % 8 = 0)
    (hrt : ElemRT (encTy ce ty) (decTy cd ty) (canonTy ty))
    (hmem : (cid, id, cval) ∈ optItems all)
    (a rest : Bytes) (st : DState) (hb : (a ++ rest).length < usizeMax)
    (he : encItem ce all pe pl v (.optional id ty cid cval) = .ok a) (hg : CtxGood all pl v st)
    (hkey : ∃ cv, st.ctx.get (.val cid) = some cv) :
    ∃ st', decItem cd (.optional id ty cid cval) (a ++ rest) st = .ok (st', rest) ∧
      ItemPost all pl v (.optional id ty cid cval) p st st' := by
  obtain ⟨cv, hcv⟩ := hkey
  have hflag := hg _ _ hcv id cval hmem
  simp only [encItem] at he
  simp only [decItem, hcv]
  by_cases hp : isPresent v id = true
  · -- present: the flag has the condition value; the field is read back
    have hcveq : cv = cval := hflag.mp hp
    simp only [hcveq, ↓reduceIte]
    obtain ⟨x, hx, hnn⟩ := (isPresent_iff v id).mp hp
    simp only [hx] at he
    -- the bytes are the field type's encoding of x
    have henc : encTy ce ty x = .ok a := by
      cases x with
      | null => simp [Value.isNull] at hnn
      | int n =>
        cases ty with
        | scalar w =>
          simp only at he
          split at he
          · cases he
          · split at he
            · cases he
            · rename_i h1 h2
              have hlt := scalar_fits w n h1 h2
              simp only [encTy, elemOutOfRange, hce, h1, ↓reduceIte]
              have : ¬ n > maskBits w := by unfold maskBits; omega
              simp only [this, decide_false, Bool.false_eq_true, ↓reduceIte]
              exact he
        | enumTy nm en => exact he
        | custom nm w => exact he
        | struct nm b => exact he
      | arr l =>
        cases ty with
        | scalar w => simp at he
        | enumTy nm en => exact he
        | custom nm w => exact he
        | struct nm b => exact he
      | obj l =>
        cases ty with
        | scalar w => simp at he
        | enumTy nm en => exact he
        | custom nm w => exact he
        | struct nm b => exact he
    have hdec := hrt x a rest hb henc
    have post : ItemPost all pl v (.optional id ty cid cval) p st
        { st with fields := st.fields ++ [(id, canonTy ty x)] } :=
      ⟨by simp only [canonItem, hp, ↓reduceIte, hx, Option.getD_some], rfl, ctxGood_same all pl v st _ hg rfl⟩
    -- the length guard of optional scalars / enums passes
    cases ty with
    | scalar w =>
      have hl := encTy_scalar_length ce w x a henc
      simp only [lenTy] at hl
      have hns : ¬ (a ++ rest).length < w / 8 := by simp only [List.length_append, hl]; omega
      simp only [hns, decide_false, Bool.false_eq_true, ↓reduceIte, hdec, Outcome.bind]
      exact ⟨_, rfl, post⟩
    | enumTy nm en =>
      have hl := encTy_static ce (.enumTy nm en) x a (en.width / 8) rfl henc
      have hns : ¬ (a ++ rest).length < en.width / 8 := by simp only [List.length_append, hl]; omega
      simp only [hns, decide_false, Bool.false_eq_true, ↓reduceIte, hdec, Outcome.bind]
      exact ⟨_, rfl, post⟩
    | custom nm w =>
      simp only [Bool.false_eq_true, ↓reduceIte, hdec, Outcome.bind]
      exact ⟨_, rfl, post⟩
    | struct nm b =>
      simp only [Bool.false_eq_true, ↓reduceIte, hdec, Outcome.bind]
      exact ⟨_, rfl, post⟩
  · -- absent: the flag has the other value; nothing is read
    have hp' : isPresent v id = false := by simpa using hp
    have hne : ¬ cv = cval := fun h => hp (hflag.mpr h)
    simp only [hne, ↓reduceIte]
    have ha : a = [] := by
      simp only [isPresent] at hp'
      cases hv : v.get? id with
      | none => simp only [hv, Outcome.ok.injEq] at he; exact he.symm
      | some x =>
        cases x with
        | null => simp only [hv, Outcome.ok.injEq] at he; exact he.symm
        | int n => simp [hv] at hp'
        | arr l => simp [hv] at hp'
        | obj l => simp [hv] at hp'
    subst ha
    refine ⟨{ st with fields := st.fields ++ [(id, .null)] }, by simp, ?_, rfl, ctxGood_same all pl v st _ hg rfl⟩
    simp only [canonItem, hp', Bool.false_eq_true, ↓reduceIte]

theorem withPad_rt (pad : Option Nat) (k : Bytes → Dec (List Value × Bytes)) (es rest : Bytes) (a : Bytes)
    (vs' : List Value) (hpad : padTo pad es = .ok a)
    (hk : ∀ r, (pad = none → r = rest) → (∀ q, pad = some q → r = zeros (q - es.length) ∧ es.length ≤ q) →
      k (es ++ r) = .ok (vs', r)) :
    withPad pad (a ++ rest) k = .ok (vs', rest) := by
  unfold withPad
  cases pad with
  | none =>
    simp only [padTo, Outcome.ok.injEq] at hpad
    subst hpad
    exact hk rest (fun _ => rfl) (fun q h => by cases h)
  | some q =>
    simp only [padTo] at hpad
    split at hpad
    · rename_i hle
      simp only [Outcome.ok.injEq] at hpad
      subst hpad
      have hlen : (es ++ zeros (q - es.length)).length = q := by simp [zeros]; omega
      have h1 : ¬ (es ++ zeros (q - es.length) ++ rest).length < q := by
        simp only [List.length_append] at hlen ⊢; omega
      simp only [h1, ↓reduceIte, List.take_left' hlen, List.drop_left' hlen]
      rw [hk (zeros (q - es.length)) (fun h => by cases h) (fun q' h => by cases h; exact ⟨rfl, hle⟩)]
      rfl
    · cases hpad

theorem array_item_rt (ce cd : Cfg) (all : Items) (pe : Enc Bytes) (pl : Nat) (v : Value) (p : Bytes)
    (id : String) (elem : Ty) (ew : ElemWidth) (shape : Shape) (pad : Option Nat)
    (hrt : ElemRT (encTy ce elem) (decTy cd elem) (canonTy elem))
    (hlen : ∀ x b, encTy ce elem x = .ok b → b.length = lenTy elem x)
    (hstat : ∀ w, ew = .static w → 0 < w ∧ ∀ x b, encTy ce elem x = .ok b → b.length = w)
    (hunk : ew = .unknown → ∀ x b, encTy ce elem x = .ok b → b ≠ [])
    (hnd : ew ≠ .dynamic) (hfa : firstArray all id = some (elem, ew)) (hidp : id ≠ "_payload_")
    (a rest : Bytes) (st : DState) (hb : (a ++ rest).length < usizeMax)
    (he : encItem ce all pe pl v (.array id elem ew shape pad) = .ok a) (hg : CtxGood all pl v st)
    (hkc : shape = .countField → ∃ x, st.ctx.get (.count id) = some x)
    (hks : shape = .sizeField → ∃ x, st.ctx.get (.size id) = some x)
    (hgreedy : shape = .unknown → pad = none ∧ rest = []) :
    ∃ st', decItem cd (.array id elem ew shape pad) (a ++ rest) st = .ok (st', rest) ∧
      ItemPost all pl v (.array id elem ew shape pad) p st st' := by
  simp only [encItem] at he
  obtain ⟨vs, hvs, h4⟩ := bind_ok _ _ _ he
  obtain ⟨_, hcc, h5⟩ := bind_ok _ _ _ h4
  obtain ⟨_, _, h6⟩ := bind_ok _ _ _ h5
  obtain ⟨es, hes, hpad⟩ := bind_ok _ _ _ h6
  have hget := listField_get' v id vs hvs
  have heslen : es.length = sumLen (lenTy elem) vs := encListWith_length (encTy ce elem) (lenTy elem) hlen vs es hes
  -- the context entries the decoder reads
  have hcnt : shape = .countField → st.ctx.get (.count id) = some vs.length := by
    intro hs
    obtain ⟨x, hx⟩ := hkc hs
    rw [hx, (hg _ _ hx) vs hget]
  have hsiz : shape = .sizeField → st.ctx.get (.size id) = some es.length := by
    intro hs
    obtain ⟨x, hx⟩ := hks hs
    rw [hx, (hg _ _ hx).2 hidp elem ew vs hfa hget, heslen]
  have hkeys : arrayKeysOk ew shape (st.ctx.get (.count id)) (st.ctx.get (.size id)) (st.ctx.get (.esize id)) = true := by
    simp only [arrayKeysOk, Bool.and_eq_true]
    constructor
    · cases shape with
      | «static» n => trivial
      | countField => simp [hcnt rfl]
      | sizeField => simp [hsiz rfl]
      | unknown => trivial
    · cases ew with
      | «static» w => trivial
      | dynamic => exact absurd rfl hnd
      | unknown => trivial
  simp only [decItem, hkeys, Bool.not_true, Bool.false_eq_true, ↓reduceIte]
  have hwp := withPad_rt pad (decArray cd.mode (decTy cd elem) ew shape (st.ctx.get (.count id))
      (st.ctx.get (.size id)) (st.ctx.get (.esize id))) es rest a (vs.map (canonTy elem)) hpad (by
    intro r hr1 hr2
    have hbr : (es ++ r).length < usizeMax := by
      cases pad with
      | none =>
        rw [hr1 rfl]
        simp only [padTo, Outcome.ok.injEq] at hpad
        rw [hpad]; exact hb
      | some q =>
        obtain ⟨hz, hle⟩ := hr2 q rfl
        simp only [padTo, hle, ↓reduceIte, Outcome.ok.injEq] at hpad
        rw [hz, hpad]
        simp only [List.length_append] at hb ⊢; omega
    refine array_rt cd.mode (encTy ce elem) (decTy cd elem) (canonTy elem) hrt ew shape _ _ _ vs es r hbr hes
      ⟨hcnt, hsiz, ?_, ?_, hnd⟩ hstat hunk
    · intro n hs
      subst hs
      simp only [checkCount] at hcc
      split at hcc
      · assumption
      · cases hcc
    · intro hs
      obtain ⟨hp1, hr⟩ := hgreedy hs
      rw [hr1 hp1, hr])
  rw [hwp]
  refine ⟨_, rfl, ?_, rfl, ctxGood_same all pl v st _ hg rfl⟩
  simp only [canonItem, hget, Option.bind_some, Value.asList?, Option.getD_some]

end Pdlv
