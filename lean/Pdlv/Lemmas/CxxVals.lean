/-
  Pdlv.Lemmas.CxxVals — arrays of scalars as an explicit list: what `n` reads of `w` octets return.
-/
import Pdlv.Cxx
import Pdlv.Lemmas.Exact

namespace Pdlv
namespace Cxx

/-! ### arrays of scalars: what the parser keeps and what the getter reads -/

/-- the first `k` scalars of `w'` bits of a byte string -/
def vals (e : Endian) (w' : Nat) : Nat → Bytes → List Value
  | 0, _ => []
  | k + 1, bs => .int (rdInt e (bs.take (w' / 8))) :: vals e w' k (bs.drop (w' / 8))

/-- the element parser of a scalar array (reference, struct parser and getter alike) -/
def scalarEl (e : Endian) (w' : Nat) : Bytes → Dec (Value × Bytes) :=
  fun bs => (getUint e w' bs).bind fun (v, r) => .ok (.int v, r)

theorem rawRead_eq (e : Endian) (w : Nat) (bs : Bytes) : rawRead e w bs = getUint e w bs := by
  unfold rawRead
  split
  · rename_i h; simp [getUint, h]
  · rfl

theorem getUint_eq (e : Endian) (w' : Nat) (bs : Bytes) (h : w' / 8 ≤ bs.length) :
    getUint e w' bs = .ok (rdInt e (bs.take (w' / 8)), bs.drop (w' / 8)) := by
  unfold getUint
  have : ¬ bs.length < w' / 8 := by omega
  simp only [this, ↓reduceIte]
  cases e <;> rfl

theorem decRepeat_vals (e : Endian) (w' : Nat) :
    ∀ (k : Nat) (bs : Bytes), k * (w' / 8) ≤ bs.length →
      decRepeat (scalarEl e w') k bs = .ok (vals e w' k bs, bs.drop (k * (w' / 8)))
  | 0, bs, _ => by simp [decRepeat, vals]
  | k + 1, bs, h => by
    have e1 : (k + 1) * (w' / 8) = k * (w' / 8) + w' / 8 := by rw [Nat.add_mul]; omega
    have hw : w' / 8 ≤ bs.length := by omega
    have hel : scalarEl e w' bs = .ok (.int (rdInt e (bs.take (w' / 8))), bs.drop (w' / 8)) := by
      simp only [scalarEl, getUint_eq e w' bs hw, Outcome.bind]
    have ih := decRepeat_vals e w' k (bs.drop (w' / 8)) (by rw [List.length_drop]; omega)
    simp only [decRepeat, hel, Outcome.bind, ih, vals, Outcome.ok.injEq, Prod.mk.injEq, true_and, List.drop_drop]
    congr 1
    omega

theorem vals_take (e : Endian) (w' : Nat) :
    ∀ (k : Nat) (bs : Bytes) (m : Nat), k * (w' / 8) ≤ m → vals e w' k (bs.take m) = vals e w' k bs
  | 0, _, _, _ => rfl
  | k + 1, bs, m, h => by
    have e1 : (k + 1) * (w' / 8) = k * (w' / 8) + w' / 8 := by rw [Nat.add_mul]; omega
    simp only [vals]
    rw [List.take_take, Nat.min_eq_left (by omega)]
    congr 1
    rw [List.drop_take]
    exact vals_take e w' k (bs.drop (w' / 8)) (m - w' / 8) (by omega)

theorem vals_length (e : Endian) (w' : Nat) : ∀ (k : Nat) (bs : Bytes), (vals e w' k bs).length = k
  | 0, _ => rfl
  | k + 1, bs => by simp [vals, vals_length e w' k]

theorem decTy_scalar (c : Cfg) (w' : Nat) : Pdlv.decTy { e := c.e, mode := .ideal } (.scalar w') = scalarEl c.e w' := by
  funext bs
  simp [Pdlv.decTy, scalarEl]

end Cxx
end Pdlv
