/-
  Pdlv.Lemmas.JavaArrays — the emitted Java parser (`Pdlv.Java.decodeFull`) on packets with size / count fields that
  are masked (not a whole Java type), arrays of 8- / 16- / 32- / 64-bit scalars and payloads: same acceptance and
  values as the reference `decode_full`.
-/
import Pdlv.Lemmas.JavaChunk
import Pdlv.Lemmas.CxxVals
import Pdlv.Thm.C01

namespace Pdlv
namespace Java

open Cxx (vals scalarEl decRepeat_vals vals_take vals_length decTy_scalar)

/-- fields, payload, and the size / count entries of the context agree (the reference also records the value of every
    scalar, for condition flags the Java class does not have) -/
def RelC (a b : DState) : Prop :=
  a.fields = b.fields ∧ a.payload = b.payload ∧
  (∀ t, a.ctx.get (.size t) = b.ctx.get (.size t)) ∧ (∀ t, a.ctx.get (.count t) = b.ctx.get (.count t))

theorem get_cons_ne (k k' : Key) (x : Nat) (ctx : Ctx) (h : k' ≠ k) : Ctx.get ((k, x) :: ctx) k' = ctx.get k' := by
  simp only [Ctx.get, List.lookup]
  have : (k' == k) = false := by simpa using h
  simp [this]

theorem get_cons_eq (k : Key) (x : Nat) (ctx : Ctx) : Ctx.get ((k, x) :: ctx) k = some x := by
  simp [Ctx.get, List.lookup]

/-- a masked field narrower than its Java type is non-negative: widening it to `int` changes nothing -/
theorem signExtend_masked (W chunk off w : Nat) (hW : W = 8 ∨ W = 16 ∨ W = 32) (hc : chunk < 2 ^ W) (hw : 0 < w)
    (hfit : off + w ≤ W) (hnar : w < (fitting w).bits) (h31 : w ≤ 31) :
    signExtend (maskField (fitting W) chunk off w) = (chunk / 2 ^ off) % 2 ^ w := by
  have hbitsW : (fitting W).bits = W := by
    rcases hW with h | h | h <;> subst h <;> rfl
  have hraw : ¬ (off = 0 ∧ (fitting W).bits = w) := by
    intro ⟨_, h2⟩
    rw [hbitsW] at h2
    subst h2
    rw [hbitsW] at hnar
    omega
  obtain ⟨hv, hty⟩ := mask_masked W chunk off w hW hc hw hfit hraw
  have hlt : (chunk / 2 ^ off) % 2 ^ w < 2 ^ w := Nat.mod_lt _ (Nat.two_pow_pos w)
  unfold signExtend
  rw [hty, hv]
  split
  · exact Nat.mod_eq_of_lt (Nat.lt_of_lt_of_le hlt (Nat.pow_le_pow_right (by decide) (by omega)))
  · have : 2 ^ w ≤ 2 ^ ((fitting w).bits - 1) := Nat.pow_le_pow_right (by decide) (by omega)
    have hnn : ¬ (chunk / 2 ^ off) % 2 ^ w ≥ 2 ^ ((fitting w).bits - 1) := by omega
    simp only [hnn, ↓reduceIte]

theorem relC_val (sj sr : DState) (h : RelC sj sr) (id : String) (x : Nat) (v : Value) :
    RelC { sj with fields := sj.fields ++ [(id, v)] }
      { sr with ctx := (.val id, x) :: sr.ctx, fields := sr.fields ++ [(id, v)] } := by
  obtain ⟨h1, h2, h3, h4⟩ := h
  refine ⟨by simp [h1], h2, fun t => ?_, fun t => ?_⟩
  · simp only; rw [get_cons_ne _ _ _ _ (by simp)]; exact h3 t
  · simp only; rw [get_cons_ne _ _ _ _ (by simp)]; exact h4 t

theorem fields_same2 (W chunk : Nat) (hW : W = 8 ∨ W = 16 ∨ W = 32) (hc : chunk < 2 ^ W) :
    ∀ (fs : List BitField) (off : Nat) (sj sr : DState), fs.all bfOkD = true → off + chunkBits fs ≤ W → RelC sj sr →
      SameFields RelC (decFields (fitting W) chunk fs off sj) (Pdlv.decChunkFields true fs off chunk sr)
  | [], off, sj, sr, _, _, hf => by
    simp only [decFields, Pdlv.decChunkFields]
    exact ⟨fun a h => ⟨sr, rfl, by cases h; exact hf⟩, fun b h => ⟨sj, rfl, by cases h; exact hf⟩⟩
  | f :: fs, off, sj, sr, hw, hfit, hf => by
    simp only [List.all_cons, Bool.and_eq_true] at hw
    rw [width_sum] at hfit
    have ih := fun sj' sr' h' => fields_same2 W chunk hW hc fs (off + f.width) sj' sr' hw.2 (by omega) h'
    unfold decFields Pdlv.decChunkFields
    cases f with
    | scalar id w =>
      simp only [bfOkD, bfOkJ, Bool.and_eq_true, decide_eq_true_eq] at hw
      simp only [BitField.width] at hfit ih ⊢
      simp only [mask_exact W chunk off w hW hc hw.1.1 (by omega)]
      exact ih _ _ (relC_val sj sr hf id _ _)
    | enumTy id ty e =>
      simp only [bfOkD, bfOkJ, Bool.and_eq_true, decide_eq_true_eq] at hw
      simp only [BitField.width] at hfit ih ⊢
      simp only [mask_exact W chunk off e.width hW hc hw.1.1 (by omega)]
      by_cases hok : enumOk e (chunk / 2 ^ off % 2 ^ e.width) = true
      · simp only [hok, ↓reduceIte]
        exact ih _ _ (relC_val sj sr hf id _ _)
      · simp only [hok, Bool.false_eq_true, ↓reduceIte]
        exact ⟨fun a h => (by cases h), fun b h => (by cases h)⟩
    | fixed w c =>
      simp only [bfOkD, bfOkJ, Bool.and_eq_true, decide_eq_true_eq] at hw
      simp only [BitField.width] at hfit ih ⊢
      simp only [mask_exact W chunk off w hW hc hw.1.1.1 (by omega)]
      by_cases hok : chunk / 2 ^ off % 2 ^ w = c
      · simp only [hok, ↓reduceIte]
        exact ih _ _ hf
      · simp only [hok, ↓reduceIte]
        exact ⟨fun a h => (by cases h), fun b h => (by cases h)⟩
    | reserved w =>
      simp only [BitField.width] at ih ⊢
      exact ih _ _ hf
    | flag id o => simp [bfOkD, bfOkJ] at hw
    | size t w m =>
      simp only [bfOkD, Bool.and_eq_true, decide_eq_true_eq, beq_iff_eq] at hw
      obtain ⟨⟨⟨⟨hpos, hnar⟩, h31⟩, hm0⟩, _⟩ := hw
      subst hm0
      simp only [BitField.width] at hfit ih ⊢
      have hw32 : ¬ w > 32 := by omega
      have hse := signExtend_masked W chunk off w hW hc hpos (by omega) hnar h31
      have hlt : (chunk / 2 ^ off) % 2 ^ w < 2 ^ 32 :=
        Nat.lt_of_lt_of_le (Nat.mod_lt _ (Nat.two_pow_pos w)) (Nat.pow_le_pow_right (by decide) (by omega))
      have hjv : (signExtend (maskField (fitting W) chunk off w) + 2 ^ 32 - 0 % 2 ^ 32) % 2 ^ 32 = (chunk / 2 ^ off) % 2 ^ w := by
        rw [hse]; simp only [Nat.zero_mod, Nat.sub_zero, Nat.add_mod_right]; exact Nat.mod_eq_of_lt hlt
      simp only [hw32, ↓reduceIte, hjv, Nat.not_lt_zero, Nat.sub_zero]
      -- the reference: `if ideal ∧ t ≠ "_payload_" then (if v < 0 then … else …) else …` — the same entry either way
      have hrel : RelC { sj with ctx := (.size t, (chunk / 2 ^ off) % 2 ^ w) :: sj.ctx }
          { sr with ctx := (.size t, (chunk / 2 ^ off) % 2 ^ w) :: sr.ctx } := by
        obtain ⟨h1, h2, h3, h4⟩ := hf
        refine ⟨h1, h2, fun t' => ?_, fun t' => ?_⟩
        · by_cases ht : t' = t
          · subst ht; simp only [get_cons_eq]
          · simp only; rw [get_cons_ne _ _ _ _ (by simpa using ht), get_cons_ne _ _ _ _ (by simpa using ht)]; exact h3 t'
        · simp only; rw [get_cons_ne _ _ _ _ (by simp), get_cons_ne _ _ _ _ (by simp)]; exact h4 t'
      by_cases htp : t = "_payload_"
      · simp only [htp, ne_eq, not_true_eq_false, and_false, ↓reduceIte]
        rw [htp] at hrel
        exact ih _ _ hrel
      · simp only [true_and, ne_eq, htp, not_false_eq_true, ↓reduceIte]
        exact ih _ _ hrel
    | count t w =>
      simp only [bfOkD, Bool.and_eq_true, decide_eq_true_eq] at hw
      obtain ⟨⟨⟨hpos, hnar⟩, h31⟩, _⟩ := hw
      simp only [BitField.width] at hfit ih ⊢
      have hw32 : ¬ w > 32 := by omega
      have hse := signExtend_masked W chunk off w hW hc hpos (by omega) hnar h31
      simp only [hw32, ↓reduceIte, hse]
      have hrel : RelC { sj with ctx := (.count t, (chunk / 2 ^ off) % 2 ^ w) :: sj.ctx }
          { sr with ctx := (.count t, (chunk / 2 ^ off) % 2 ^ w) :: sr.ctx } := by
        obtain ⟨h1, h2, h3, h4⟩ := hf
        refine ⟨h1, h2, fun t' => ?_, fun t' => ?_⟩
        · simp only; rw [get_cons_ne _ _ _ _ (by simp), get_cons_ne _ _ _ _ (by simp)]; exact h3 t'
        · by_cases ht : t' = t
          · subst ht; simp only [get_cons_eq]
          · simp only; rw [get_cons_ne _ _ _ _ (by simpa using ht), get_cons_ne _ _ _ _ (by simpa using ht)]; exact h4 t'
      exact ih _ _ hrel
    | elemSize t w => simp [bfOkD, bfOkJ] at hw

abbrev RelP (a : DState × Bytes) (b : DState × Bytes) : Prop := RelC a.1 b.1 ∧ a.2 = b.2

theorem chunk_same2_aux (fs : List BitField) (hw : fs.all bfOkD = true)
    (hW : chunkBits fs = 8 ∨ chunkBits fs = 16 ∨ chunkBits fs = 32) (ch : Nat) (hc : ch < 2 ^ chunkBits fs) (rest : Bytes)
    (sj sr : DState) (hr : RelC sj sr) :
    SameFields RelP
      ((decFields (fitting (chunkBits fs)) ch fs 0 sj).bind fun st' => (.ok (st', rest) : Dec (DState × Bytes)))
      ((Pdlv.decChunkFields true fs 0 ch sr).bind fun st' => (.ok (st', rest) : Dec (DState × Bytes))) := by
  have hsame := fields_same2 (chunkBits fs) ch hW hc fs 0 sj sr hw (by omega) hr
  constructor
  · intro a ha
    obtain ⟨sa, h1, h2⟩ := bind_ok _ _ _ ha
    obtain ⟨sb, h3, h4⟩ := hsame.1 sa h1
    refine ⟨(sb, rest), by rw [h3]; rfl, ?_⟩
    simp only [Outcome.ok.injEq] at h2
    subst h2
    exact ⟨h4, rfl⟩
  · intro b hb
    obtain ⟨sb, h1, h2⟩ := bind_ok _ _ _ hb
    obtain ⟨sa, h3, h4⟩ := hsame.2 sb h1
    refine ⟨(sa, rest), by rw [h3]; rfl, ?_⟩
    simp only [Outcome.ok.injEq] at h2
    subst h2
    exact ⟨h4, rfl⟩

theorem chunk_same2 (en : Endian) (fs : List BitField) (hw : fs.all bfOkD = true)
    (hW : chunkBits fs = 8 ∨ chunkBits fs = 16 ∨ chunkBits fs = 32) (bs : Bytes) (sj sr : DState) (hr : RelC sj sr) :
    SameFields RelP (Java.decChunk en fs bs sj) (Pdlv.decChunk en true fs bs sr) := by
  have h64 : ¬ chunkBits fs > 64 := by omega
  have hnot : ¬ (chunkBits fs = 24 ∨ chunkBits fs = 40 ∨ chunkBits fs = 48 ∨ chunkBits fs = 56) := by omega
  by_cases hl : bs.length < chunkBits fs / 8
  · simp only [Java.decChunk, Pdlv.decChunk, h64, hl, ↓reduceIte]
    exact ⟨fun a h => (by cases h), fun b h => (by cases h)⟩
  · have hlen : (bs.take (chunkBits fs / 8)).length = chunkBits fs / 8 := by rw [List.length_take]; omega
    have h8 : 8 * (chunkBits fs / 8) = chunkBits fs := by omega
    have h1 := fromLE_lt (bs.take (chunkBits fs / 8))
    have h2 := fromBE_lt (bs.take (chunkBits fs / 8))
    rw [hlen, h8] at h1 h2
    cases en with
    | little =>
      simp only [Java.decChunk, Pdlv.decChunk, h64, hl, ↓reduceIte, getGroup, hnot]
      exact chunk_same2_aux fs hw hW _ h1 _ sj sr hr
    | big =>
      simp only [Java.decChunk, Pdlv.decChunk, h64, hl, ↓reduceIte, getGroup, hnot]
      exact chunk_same2_aux fs hw hW _ h2 _ sj sr hr

/-- `n` element reads: all of them succeed exactly when `n` elements are there -/
theorem decScalars_eq (en : Endian) (w : Nat) (hw : w = 8 ∨ w = 16 ∨ w = 32 ∨ w = 64) :
    ∀ (n : Nat) (bs : Bytes),
      decScalars en w n bs =
        if bs.length < n * (w / 8) then .err .length else .ok (vals en w n bs, bs.drop (n * (w / 8)))
  | 0, bs => by simp [decScalars, vals]
  | n + 1, bs => by
    have e1 : (n + 1) * (w / 8) = n * (w / 8) + w / 8 := by rw [Nat.add_mul]; omega
    have hpos : 0 < w / 8 := by rcases hw with h | h | h | h <;> subst h <;> decide
    simp only [decScalars]
    by_cases hl : bs.length < w / 8
    · have : bs.length < (n + 1) * (w / 8) := by omega
      simp only [hl, this, ↓reduceIte]
    · simp only [hl, ↓reduceIte, decScalars_eq en w hw n (bs.drop (w / 8)), List.length_drop]
      by_cases hl2 : bs.length - w / 8 < n * (w / 8)
      · have : bs.length < (n + 1) * (w / 8) := by omega
        simp only [hl2, this, ↓reduceIte, Outcome.bind]
      · have : ¬ bs.length < (n + 1) * (w / 8) := by omega
        simp only [hl2, this, ↓reduceIte, Outcome.bind, vals, List.drop_drop, Outcome.ok.injEq, Prod.mk.injEq]
        refine ⟨?_, by congr 1; omega⟩
        congr 2
        -- the element: the group read, already below 2^w
        have hnot : ¬ (w = 24 ∨ w = 40 ∨ w = 48 ∨ w = 56) := by omega
        have hlen : (bs.take (w / 8)).length = w / 8 := by rw [List.length_take]; omega
        have h8 : 8 * (w / 8) = w := by omega
        have h1 := fromLE_lt (bs.take (w / 8))
        have h2 := fromBE_lt (bs.take (w / 8))
        rw [hlen, h8] at h1 h2
        cases en with
        | little => simp only [getGroup, hnot, ↓reduceIte, rdInt]; exact Nat.mod_eq_of_lt h1
        | big => simp only [getGroup, hnot, ↓reduceIte, rdInt]; exact Nat.mod_eq_of_lt h2

theorem sf_err {α β : Type} (R : α → β → Prop) (e1 e2 : DecErr) : SameFields R (.err e1 : Dec α) (.err e2 : Dec β) :=
  ⟨fun a h => (by cases h), fun b h => (by cases h)⟩

theorem sf_err_panic {α β : Type} (R : α → β → Prop) (e1 : DecErr) (h2 : Hazard) :
    SameFields R (.err e1 : Dec α) (.panic h2 : Dec β) :=
  ⟨fun a h => (by cases h), fun b h => (by cases h)⟩

theorem sf_ok {α β : Type} (R : α → β → Prop) (a : α) (b : β) (h : R a b) : SameFields R (.ok a : Dec α) (.ok b : Dec β) :=
  ⟨fun a' h' => ⟨b, rfl, by cases h'; exact h⟩, fun b' h' => ⟨a, rfl, by cases h'; exact h⟩⟩

theorem nonNeg_some (x n : Nat) (h : nonNeg x = some n) : n = x ∧ x < 2 ^ 31 := by
  unfold nonNeg at h; split at h
  · simp only [Option.some.injEq] at h; exact ⟨h.symm, by assumption⟩
  · cases h

theorem nonNeg_none (x : Nat) (h : nonNeg x = none) : 2 ^ 31 ≤ x := by
  unfold nonNeg at h; split at h
  · cases h
  · omega

theorem relC_arr (sj sr : DState) (h : RelC sj sr) (id : String) (vs : List Value) :
    RelC { sj with fields := sj.fields ++ [(id, Value.arr vs)] } { sr with fields := sr.fields ++ [(id, Value.arr vs)] } := by
  obtain ⟨h1, h2, h3, h4⟩ := h
  exact ⟨by simp [h1], h2, h3, h4⟩

/-- an array of scalars: the emitted count / size / remaining-octets logic and the element reads are the reference's -/
theorem array_same2 (en : Endian) (id : String) (w : Nat) (shape : Shape) (hw : w = 8 ∨ w = 16 ∨ w = 32 ∨ w = 64)
    (bs : Bytes) (hb : bs.length < 2 ^ 31) (sj sr : DState) (hr : RelC sj sr) :
    SameFields RelP (Java.decItem en (.array id (.scalar w) (.static (w / 8)) shape none) bs sj)
      (Pdlv.decItem { e := en, mode := .ideal } (.array id (.scalar w) (.static (w / 8)) shape none) bs sr) := by
  have hbad : ¬ (w % 8 ≠ 0 ∨ w = 0 ∨ w > 64) := by rcases hw with h | h | h | h <;> subst h <;> decide
  have hpos : 0 < w / 8 := by rcases hw with h | h | h | h <;> subst h <;> decide
  have hw0 : ¬ (w / 8 = 0) := by omega
  have husz : (2 : Nat) ^ 31 < usizeMax := by decide
  obtain ⟨_, _, hsz, hcn⟩ := hr
  have hr' : RelC sj sr := ⟨by assumption, by assumption, hsz, hcn⟩
  have hdt : Pdlv.decTy { e := en, mode := .ideal } (.scalar w) = scalarEl en w := by
    have := decTy_scalar { e := en } w; simpa using this
  simp only [Java.decItem, hbad, ↓reduceIte, Pdlv.decItem, withPad, hdt, ← hsz id, ← hcn id]
  cases shape with
  | static n =>
    have hk : arrayKeysOk (.static (w / 8)) (.static n) (sj.ctx.get (.count id)) (sj.ctx.get (.size id)) (sr.ctx.get (.esize id)) = true := rfl
    simp only [hk, Bool.not_true, Bool.false_eq_true, ↓reduceIte, decArray, Outcome.bind, decScalars_eq en w hw]
    by_cases hl : bs.length < n * (w / 8)
    · simp only [hl, ↓reduceIte]; exact sf_err _ _ _
    · simp only [hl, ↓reduceIte, decRepeat_vals en w n bs (by omega), unwrapArr, vals_length]
      exact sf_ok _ _ _ ⟨relC_arr sj sr hr' id _, rfl⟩
  | countField =>
    cases hc : sj.ctx.get (.count id) with
    | none =>
      simp only [Option.bind_none, Outcome.bind, arrayKeysOk, Option.isSome_none, Bool.false_and, Bool.not_false, ↓reduceIte]
      exact sf_err_panic _ _ _
    | some x =>
      simp only [Option.bind_some, arrayKeysOk, Option.isSome_some, Bool.true_and, Bool.not_true, Bool.false_eq_true, ↓reduceIte,
        decArray, umulM]
      cases hn : nonNeg x with
      | none =>
        have hx := nonNeg_none x hn
        have hpw : x ≤ x * (w / 8) := Nat.le_mul_of_pos_right x hpos
        simp only [Outcome.bind]
        by_cases hu : x * (w / 8) < usizeMax
        · simp only [hu, ↓reduceIte]
          rw [if_pos (by omega)]
          exact sf_err _ _ _
        · simp only [hu, ↓reduceIte]; exact sf_err _ _ _
      | some n =>
        obtain ⟨rfl, hx⟩ := nonNeg_some x n hn
        simp only [Outcome.bind, decScalars_eq en w hw]
        by_cases hl : bs.length < n * (w / 8)
        · simp only [hl, ↓reduceIte]
          by_cases hu : n * (w / 8) < usizeMax
          · simp only [hu, ↓reduceIte, hl]; exact sf_err _ _ _
          · simp only [hu, ↓reduceIte]; exact sf_err _ _ _
        · have hu : n * (w / 8) < usizeMax := by omega
          simp only [hl, ↓reduceIte, hu, decRepeat_vals en w n bs (by omega)]
          exact sf_ok _ _ _ ⟨relC_arr sj sr hr' id _, rfl⟩
  | sizeField =>
    cases hc : sj.ctx.get (.size id) with
    | none =>
      simp only [Option.bind_none, Outcome.bind, arrayKeysOk, Option.isSome_none, Bool.false_and, Bool.not_false, ↓reduceIte]
      exact sf_err_panic _ _ _
    | some x =>
      simp only [Option.bind_some, arrayKeysOk, Option.isSome_some, Bool.true_and, Bool.not_true, Bool.false_eq_true, ↓reduceIte,
        decArray, hw0]
      cases hn : nonNeg x with
      | none =>
        have hx := nonNeg_none x hn
        simp only [Outcome.bind]
        rw [if_pos (by omega)]
        exact sf_err _ _ _
      | some n =>
        obtain ⟨rfl, hx⟩ := nonNeg_some x n hn
        simp only
        by_cases hm : n % (w / 8) ≠ 0
        · simp only [hm, ne_eq, not_false_eq_true, ↓reduceIte, Outcome.bind]
          by_cases hl : bs.length < n
          · simp only [hl, ↓reduceIte]; exact sf_err _ _ _
          · simp only [hl, ↓reduceIte]; exact sf_err _ _ _
        · have hm' : n % (w / 8) = 0 := by omega
          have hdiv : n / (w / 8) * (w / 8) = n := Nat.div_mul_cancel (Nat.dvd_of_mod_eq_zero hm')
          simp only [hm', ne_eq, not_true_eq_false, ↓reduceIte, Outcome.bind, decScalars_eq en w hw, hdiv]
          by_cases hl : bs.length < n
          · simp only [hl, ↓reduceIte]; exact sf_err _ _ _
          · simp only [hl, ↓reduceIte, decRepeat_vals en w (n / (w / 8)) bs (by omega), hdiv]
            exact sf_ok _ _ _ ⟨relC_arr sj sr hr' id _, rfl⟩
  | unknown =>
    have hk : arrayKeysOk (.static (w / 8)) .unknown (sj.ctx.get (.count id)) (sj.ctx.get (.size id)) (sr.ctx.get (.esize id)) = true := rfl
    simp only [hk, Bool.not_true, Bool.false_eq_true, ↓reduceIte, decArray, hw0]
    by_cases hm : bs.length % (w / 8) ≠ 0
    · simp only [hm, ne_eq, not_false_eq_true, ↓reduceIte, Outcome.bind]; exact sf_err _ _ _
    · have hm' : bs.length % (w / 8) = 0 := by omega
      have hdiv : bs.length / (w / 8) * (w / 8) = bs.length := Nat.div_mul_cancel (Nat.dvd_of_mod_eq_zero hm')
      have hnl : ¬ bs.length < bs.length := by omega
      simp only [hm', ne_eq, not_true_eq_false, ↓reduceIte, Outcome.bind, decScalars_eq en w hw, hdiv, hnl,
        decRepeat_vals en w (bs.length / (w / 8)) bs (Nat.le_of_eq hdiv)]
      exact sf_ok _ _ _ ⟨relC_arr sj sr hr' id _, rfl⟩

theorem payload_same2 (en : Endian) (mode : PayloadMode) (hm : (match mode with | .undelimited => false | .sized m => m == 0 | _ => true) = true)
    (bs : Bytes) (hb : bs.length < 2 ^ 31) (sj sr : DState) (hr : RelC sj sr) :
    SameFields RelP (Java.decItem en (.payload mode) bs sj) (Pdlv.decItem { e := en, mode := .ideal } (.payload mode) bs sr) := by
  obtain ⟨h1, h2, hsz, hcn⟩ := hr
  have hrel : ∀ p, RelC { sj with payload := some p } { sr with payload := some p } := fun p => ⟨h1, rfl, hsz, hcn⟩
  cases mode with
  | sized m =>
    simp only [beq_iff_eq] at hm
    subst hm
    simp only [Java.decItem, Pdlv.decItem, ← hsz "_payload_"]
    cases hc : sj.ctx.get (.size "_payload_") with
    | none => simp only [Option.bind_none]; exact sf_err_panic _ _ _
    | some x =>
      simp only [Option.bind_some, Nat.not_lt_zero, ↓reduceIte, Nat.sub_zero]
      cases hn : nonNeg x with
      | none =>
        have hx := nonNeg_none x hn
        simp only
        rw [if_pos (by omega)]
        exact sf_err _ _ _
      | some n =>
        obtain ⟨rfl, _⟩ := nonNeg_some x n hn
        simp only
        by_cases hl : bs.length < n
        · simp only [hl, ↓reduceIte]; exact sf_err _ _ _
        · simp only [hl, ↓reduceIte]; exact sf_ok _ _ _ ⟨hrel _, rfl⟩
  | last =>
    simp only [Java.decItem, Pdlv.decItem]
    exact sf_ok _ _ _ ⟨hrel _, rfl⟩
  | beforeStatic k =>
    simp only [Java.decItem, Pdlv.decItem]
    by_cases hl : bs.length < k
    · simp only [hl, ↓reduceIte]; exact sf_err _ _ _
    · simp only [hl, ↓reduceIte]; exact sf_ok _ _ _ ⟨hrel _, rfl⟩
  | undelimited => simp at hm

end Java
end Pdlv
