/-
  Lemmas about the fields an inheriting packet's decoder copies from its ancestors
  (`fieldsAround`, `bodyFind`), used by the round trip through ancestors (C02).
-/
import Pdlv.Static

namespace Pdlv

/-- what the static search `find` promises about a field list -/
def FindSpec (F : List (String × Value)) (find : Option Bool) (v : Value) (k : String) : Prop :=
  (find = none → F.lookup k = none) ∧ (find = some true → F.lookup k = some ((v.get? k).getD .null))

theorem findSpec_append (A B : List (String × Value)) (fa fb : Option Bool) (v : Value) (k : String)
    (ha : FindSpec A fa v k) (hb : FindSpec B fb v k) : FindSpec (A ++ B) (fa.or fb) v k := by
  constructor
  · intro h
    cases fa with
    | some x => simp at h
    | none =>
      simp only [Option.none_or] at h
      rw [List.lookup_append, ha.1 rfl, hb.1 h]; rfl
  · intro h
    cases fa with
    | some x =>
      simp only [Option.some_or, Option.some.injEq] at h
      subst h
      rw [List.lookup_append, ha.2 rfl]; rfl
    | none =>
      simp only [Option.none_or] at h
      rw [List.lookup_append, ha.1 rfl, hb.2 h]; rfl

theorem findSpec_nil (v : Value) (k : String) : FindSpec [] none v k := by
  constructor <;> intro h <;> simp_all

theorem findSpec_single (id : String) (x : Value) (v : Value) (k : String) :
    FindSpec [(id, x)] (if id == k then some false else none) v k := by
  by_cases h : id = k
  · subst h
    constructor <;> intro h' <;> simp at h'
  · have hb : (k == id) = false := by simpa using fun e => h e.symm
    have hb' : (id == k) = false := by simpa using h
    constructor <;> intro h' <;> simp [List.lookup, hb, hb'] at h' ⊢

theorem canonChunk_find (v : Value) (k : String) : ∀ (fs : List BitField),
    FindSpec (canonChunk v fs) (chunkFind fs k) v k
  | [] => findSpec_nil v k
  | f :: r => by
    have ih := canonChunk_find v k r
    cases f with
    | scalar id w =>
      simp only [canonChunk, chunkFind]
      by_cases h : id = k
      · subst h
        constructor <;> intro h' <;> simp [List.lookup] at h' ⊢
      · have hb : (k == id) = false := by simpa using fun e => h e.symm
        have hb' : (id == k) = false := by simpa using h
        simp only [hb', Bool.false_eq_true, ↓reduceIte]
        constructor
        · intro h'; simp only [List.lookup, hb]; exact ih.1 h'
        · intro h'; simp only [List.lookup, hb]; exact ih.2 h'
    | enumTy id ty e =>
      simp only [canonChunk, chunkFind]
      by_cases h : id = k
      · subst h
        constructor <;> intro h' <;> simp [List.lookup] at h' ⊢
      · have hb : (k == id) = false := by simpa using fun e => h e.symm
        have hb' : (id == k) = false := by simpa using h
        simp only [hb', Bool.false_eq_true, ↓reduceIte]
        constructor
        · intro h'; simp only [List.lookup, hb]; exact ih.1 h'
        · intro h'; simp only [List.lookup, hb]; exact ih.2 h'
    | flag id o => simpa [canonChunk, chunkFind] using ih
    | fixed w c => simpa [canonChunk, chunkFind] using ih
    | reserved w => simpa [canonChunk, chunkFind] using ih
    | size t w m => simpa [canonChunk, chunkFind] using ih
    | count t w => simpa [canonChunk, chunkFind] using ih
    | elemSize t w => simpa [canonChunk, chunkFind] using ih

theorem canonItem_find (v : Value) (k : String) : ∀ (i : Item), FindSpec (canonItem i v) (itemFind i k) v k
  | .chunk fs => by simpa [canonItem, itemFind] using canonChunk_find v k fs
  | .typedef id ty sb => by simpa [canonItem, itemFind] using findSpec_single id _ v k
  | .optional id ty ci cv => by simpa [canonItem, itemFind] using findSpec_single id _ v k
  | .array id el ew sh pad => by simpa [canonItem, itemFind] using findSpec_single id _ v k
  | .payload m => by simpa [canonItem, itemFind] using findSpec_nil v k

theorem canonItems_find (v : Value) (k : String) : ∀ (is : Items), FindSpec (canonItems is v) (itemsFind is k) v k
  | .nil => by simpa [canonItems, itemsFind] using findSpec_nil v k
  | .cons i r => by
    simp only [canonItems, itemsFind]
    exact findSpec_append _ _ _ _ v k (canonItem_find v k i) (canonItems_find v k r)

/-- the filter `decode_partial` applies to the parent's fields -/
def keepKey (cs : List (String × Nat)) (k : String) : Bool := k != "payload" && !(cs.any (·.1 == k))

theorem keep_eq (cs : List (String × Nat)) :
    (fun (x : String × Value) => match x with | (k, _) => k != "payload" && !(cs.any (·.1 == k))) =
    fun x => keepKey cs x.1 := by
  funext ⟨k, _⟩; rfl

theorem lookup_filter_key (q : String → Bool) (k : String) : ∀ (l : List (String × Value)),
    (l.filter fun x => q x.1).lookup k = if q k then l.lookup k else none
  | [] => by simp
  | (a, x) :: l => by
    have ih := lookup_filter_key q k l
    by_cases hq : q a = true
    · simp only [List.filter, hq]
      by_cases hk : k = a
      · subst hk; simp [List.lookup, hq]
      · have hb : (k == a) = false := by simpa using hk
        simp only [List.lookup, hb, ih]
    · have hq' : q a = false := by simpa using hq
      simp only [List.filter, hq']
      by_cases hk : k = a
      · subst hk; simp [hq', ih]
      · have hb : (k == a) = false := by simpa using hk
        simp only [List.lookup, hb, ih]

theorem findSpec_filter (cs : List (String × Nat)) (F : List (String × Value)) (f : Option Bool) (v : Value) (k : String)
    (h : FindSpec F f v k) :
    FindSpec (F.filter fun x => keepKey cs x.1) (if keepKey cs k then f else none) v k := by
  rw [FindSpec, lookup_filter_key]
  by_cases hq : keepKey cs k = true
  · simp only [hq, ↓reduceIte]; exact h
  · have hq' : keepKey cs k = false := by simpa using hq
    simp [hq']

theorem fieldsAround_find (v : Value) (k : String) : ∀ (b : Body), FindSpec (fieldsAround b v) (bodyFind b k) v k
  | .root _ items => by simpa [fieldsAround, bodyFind] using canonItems_find v k items
  | .derived _ parent cs _ items => by
    simp only [fieldsAround, bodyFind, keep_eq]
    exact findSpec_append _ _ _ _ v k (canonItems_find v k items)
      (findSpec_filter cs _ _ v k (fieldsAround_find v k parent))

/-- the payload octets survive the trip through the JSON-shaped value -/
theorem ofBytes_back (bs : Bytes) :
    (bs.map fun b => Value.int b.toNat).map (fun v => UInt8.ofNat ((v.asNat?).getD 0)) = bs := by
  induction bs with
  | nil => rfl
  | cons b r ih =>
    simp only [List.map_cons, Value.asNat?, Option.getD_some, UInt8.ofNat_toNat, List.cons.injEq, true_and]
    exact ih

end Pdlv
