/-
  Pdlv.Lemmas.Peg — invariants of the PEG interpreter (any grammar, any input): positions only move
  forward and never leave the input; the pairs produced are consecutive, properly nested, and lie
  within the span their rule consumed.
-/
import Pdlv.Peg

namespace Pdlv
namespace Peg

mutual
/-- the pair's span lies in `[lo, hi]`, is ordered, and its children are consecutive within it -/
def Pair.within : Pair → Nat → Nat → Bool
  | .mk _ s e cs, lo, hi => decide (lo ≤ s) && decide (s ≤ e) && decide (e ≤ hi) && chain cs s e
/-- consecutive pairs: each starts at or after the end of the previous one (`lo` at first), all end by `hi` -/
def chain : List Pair → Nat → Nat → Bool
  | [], lo, hi => decide (lo ≤ hi)
  | p :: ps, lo, hi => p.within lo hi && chain ps p.stop hi
end

theorem within_stop (p : Pair) (lo hi : Nat) (h : p.within lo hi = true) : lo ≤ p.stop ∧ p.stop ≤ hi := by
  cases p with
  | mk r s e cs =>
    simp only [Pair.within, Bool.and_eq_true, decide_eq_true_eq] at h
    simp only [Pair.stop]; omega

mutual
theorem within_mono (p : Pair) (lo hi lo' hi' : Nat) (h : p.within lo hi = true) (h1 : lo' ≤ lo) (h2 : hi ≤ hi') :
    p.within lo' hi' = true := by
  cases p with
  | mk r s e cs =>
    simp only [Pair.within, Bool.and_eq_true, decide_eq_true_eq] at h ⊢
    exact ⟨⟨⟨by omega, h.1.1.2⟩, by omega⟩, h.2⟩
theorem chain_mono (ps : List Pair) (lo hi lo' hi' : Nat) (h : chain ps lo hi = true) (h1 : lo' ≤ lo) (h2 : hi ≤ hi') :
    chain ps lo' hi' = true := by
  cases ps with
  | nil => simp only [chain, decide_eq_true_eq] at h ⊢; omega
  | cons p ps =>
    simp only [chain, Bool.and_eq_true] at h ⊢
    exact ⟨within_mono p lo hi lo' hi' h.1 h1 h2, chain_mono ps p.stop hi p.stop hi' h.2 (Nat.le_refl _) h2⟩
end

theorem chain_le : ∀ (ps : List Pair) (lo hi : Nat), chain ps lo hi = true → lo ≤ hi
  | [], lo, hi, h => by simpa [chain] using h
  | p :: ps, lo, hi, h => by
    simp only [chain, Bool.and_eq_true] at h
    have := within_stop p lo hi h.1
    omega

theorem chain_append : ∀ (ps qs : List Pair) (lo mid hi : Nat), chain ps lo mid = true → chain qs mid hi = true →
    chain (ps ++ qs) lo hi = true
  | [], qs, lo, mid, hi, h1, h2 => by
    simp only [chain, decide_eq_true_eq] at h1
    exact chain_mono qs mid hi lo hi h2 h1 (Nat.le_refl _)
  | p :: ps, qs, lo, mid, hi, h1, h2 => by
    simp only [chain, Bool.and_eq_true, List.cons_append] at h1 ⊢
    have hmh := chain_le qs mid hi h2
    exact ⟨within_mono p lo mid lo hi h1.1 (Nat.le_refl _) hmh, chain_append ps qs p.stop mid hi h1.2 h2⟩

/-- what every evaluation preserves: the cursor moves forward, stays inside the input, and the pairs
    emitted so far are consecutive from `lo` up to the cursor -/
def Good (size lo : Nat) (st st' : St) : Prop :=
  st.pos ≤ st'.pos ∧ st'.pos ≤ size ∧ chain st'.pairs lo st'.pos = true

def EvalOk (size : Nat) (r : Eval) : Prop :=
  ∀ e at_ tk st st' lo, r e at_ tk st = some st' → st.pos ≤ size → chain st.pairs lo st.pos = true → Good size lo st st'

theorem good_refl (size lo : Nat) (st : St) (h1 : st.pos ≤ size) (h2 : chain st.pairs lo st.pos = true) :
    Good size lo st st := ⟨Nat.le_refl _, h1, h2⟩

theorem good_trans (size lo : Nat) (a b c : St) (h1 : Good size lo a b) (h2 : Good size lo b c) : Good size lo a c :=
  ⟨Nat.le_trans h1.1 h2.1, h2.2.1, h2.2.2⟩

theorem skipLoop_ok (size : Nat) (r : Eval) (hr : EvalOk size r) (tk : Bool) : ∀ (n : Nat) (st : St) (lo : Nat),
    st.pos ≤ size → chain st.pairs lo st.pos = true → Good size lo st (skipLoop r tk n st)
  | 0, st, lo, h1, h2 => good_refl size lo st h1 h2
  | n + 1, st, lo, h1, h2 => by
    simp only [skipLoop]
    split
    · rename_i s1 hs1
      have g1 := hr _ _ _ _ _ lo hs1 h1 h2
      split
      · exact good_trans size lo st s1 _ g1 (skipLoop_ok size r hr tk n s1 lo g1.2.1 g1.2.2)
      · exact good_refl size lo st h1 h2
    · split
      · rename_i s2 hs2
        have g2 := hr _ _ _ _ _ lo hs2 h1 h2
        split
        · exact good_trans size lo st s2 _ g2 (skipLoop_ok size r hr tk n s2 lo g2.2.1 g2.2.2)
        · exact good_refl size lo st h1 h2
      · exact good_refl size lo st h1 h2

theorem skipWith_ok (size : Nat) (r : Eval) (hr : EvalOk size r) (n : Nat) (at_ : Atomicity) (tk : Bool) (st : St) (lo : Nat)
    (h1 : st.pos ≤ size) (h2 : chain st.pairs lo st.pos = true) : Good size lo st (skipWith r n at_ tk st) := by
  simp only [skipWith]
  split
  · exact good_refl size lo st h1 h2
  · exact skipLoop_ok size r hr tk _ st lo h1 h2

theorem repeatLoop_ok (size : Nat) (r : Eval) (hr : EvalOk size r) (m : Nat) (a : Expr) (at_ : Atomicity) (tk : Bool) :
    ∀ (n : Nat) (st : St) (lo : Nat), st.pos ≤ size → chain st.pairs lo st.pos = true →
      Good size lo st (repeatLoop r m a at_ tk n st)
  | 0, st, lo, h1, h2 => good_refl size lo st h1 h2
  | n + 1, st, lo, h1, h2 => by
    simp only [repeatLoop]
    have g1 := skipWith_ok size r hr m at_ tk st lo h1 h2
    split
    · rename_i st2 hs2
      have g2 := hr _ _ _ _ _ lo hs2 g1.2.1 g1.2.2
      split
      · exact good_trans size lo st st2 _ (good_trans size lo st _ st2 g1 g2)
          (repeatLoop_ok size r hr m a at_ tk n st2 lo g2.2.1 g2.2.2)
      · exact good_refl size lo st h1 h2
    · exact good_refl size lo st h1 h2

theorem matchStr_go_le (input : Array UInt8) : ∀ (s : List UInt8) (i : Nat), matchStr.go input i s = true →
    i + s.length ≤ input.size ∨ s = []
  | [], i, _ => Or.inr rfl
  | c :: cs, i, h => by
    simp only [matchStr.go] at h
    split at h
    · rename_i hi
      simp only [Bool.and_eq_true] at h
      rcases matchStr_go_le input cs (i + 1) h.2 with h' | h'
      · left; simp only [List.length_cons]; omega
      · left; subst h'; simp only [List.length_cons, List.length_nil]; omega
    · cases h

/-- **every evaluation, at every depth, for every grammar and input** -/
theorem run_ok (g : Grammar) (input : Array UInt8) : ∀ (fuel : Nat), EvalOk input.size (run g input fuel)
  | 0 => by intro e at_ tk st st' lo h; simp [run] at h
  | fuel + 1 => by
    have ih := run_ok g input fuel
    intro e at_ tk st st' lo h h1 h2
    simp only [run] at h
    cases e with
    | str s =>
      simp only at h
      split at h
      · rename_i hm
        simp only [Option.some.injEq] at h
        subst h
        refine ⟨by simp, ?_, ?_⟩
        · rcases matchStr_go_le input _ st.pos hm with h' | h'
          · exact h'
          · show st.pos + s.toUTF8.toList.length ≤ input.size
            rw [h']; simpa using h1
        · exact chain_mono st.pairs lo st.pos lo _ h2 (Nat.le_refl _) (by simp)
      · cases h
    | range lo' hi' =>
      simp only at h
      split at h
      · rename_i hlt
        split at h
        · simp only [Option.some.injEq] at h
          subst h
          exact ⟨by simp, by simp; omega, chain_mono st.pairs lo st.pos lo _ h2 (Nat.le_refl _) (by simp)⟩
        · cases h
      · cases h
    | any =>
      simp only at h
      split at h
      · rename_i hlt
        simp only [Option.some.injEq] at h
        subst h
        have hu : 0 < utf8Len input[st.pos] := by
          simp only [utf8Len]
          repeat' split
          all_goals omega
        exact ⟨by simp only; omega, by simp only; omega, chain_mono st.pairs lo st.pos lo _ h2 (Nat.le_refl _) (by simp only; omega)⟩
      · cases h
    | soi =>
      simp only at h
      split at h
      · simp only [Option.some.injEq] at h; subst h; exact good_refl _ lo st h1 h2
      · cases h
    | eoi =>
      simp only at h
      split at h
      · simp only [Option.some.injEq] at h; subst h; exact good_refl _ lo st h1 h2
      · cases h
    | seq a b =>
      simp only at h
      split at h
      · cases h
      · rename_i st1 hs1
        have g1 := ih _ _ _ _ _ lo hs1 h1 h2
        have g2 := skipWith_ok input.size _ ih input.size at_ tk st1 lo g1.2.1 g1.2.2
        have g3 := ih _ _ _ _ _ lo h g2.2.1 g2.2.2
        exact good_trans _ lo st _ st' (good_trans _ lo st st1 _ g1 g2) g3
    | choice a b =>
      simp only at h
      split at h
      · rename_i x hx
        simp only [Option.some.injEq] at h; subst h
        exact ih _ _ _ _ _ lo hx h1 h2
      · exact ih _ _ _ _ _ lo h h1 h2
    | opt a =>
      simp only at h
      split at h
      · rename_i x hx
        simp only [Option.some.injEq] at h; subst h
        exact ih _ _ _ _ _ lo hx h1 h2
      · simp only [Option.some.injEq] at h; subst h; exact good_refl _ lo st h1 h2
    | star a =>
      simp only at h
      split at h
      · simp only [Option.some.injEq] at h; subst h; exact good_refl _ lo st h1 h2
      · rename_i st1 hs1
        simp only [Option.some.injEq] at h; subst h
        have g1 := ih _ _ _ _ _ lo hs1 h1 h2
        exact good_trans _ lo st st1 _ g1 (repeatLoop_ok input.size _ ih input.size a at_ tk _ st1 lo g1.2.1 g1.2.2)
    | plus a =>
      simp only at h
      split at h
      · cases h
      · rename_i st1 hs1
        simp only [Option.some.injEq] at h; subst h
        have g1 := ih _ _ _ _ _ lo hs1 h1 h2
        exact good_trans _ lo st st1 _ g1 (repeatLoop_ok input.size _ ih input.size a at_ tk _ st1 lo g1.2.1 g1.2.2)
    | notP a =>
      simp only at h
      split at h
      · cases h
      · simp only [Option.some.injEq] at h; subst h; exact good_refl _ lo st h1 h2
    | andP a =>
      simp only at h
      split at h
      · simp only [Option.some.injEq] at h; subst h; exact good_refl _ lo st h1 h2
      · cases h
    | rule name =>
      simp only at h
      split at h
      · cases h
      · rename_i rl hrl
        split at h
        · cases h
        · rename_i inner hin
          have gi := ih _ _ _ _ _ st.pos hin (by simpa using h1) (by simp [chain])
          simp only [Good] at gi
          obtain ⟨gi1, gi2, gi3⟩ := gi
          split at h
          · simp only [Option.some.injEq] at h; subst h
            exact ⟨gi1, gi2, chain_append st.pairs inner.pairs lo st.pos inner.pos h2 gi3⟩
          · split at h
            · simp only [Option.some.injEq] at h; subst h
              refine ⟨gi1, gi2, chain_append st.pairs [_] lo st.pos inner.pos h2 ?_⟩
              simp only [chain, Pair.within, Pair.stop, Bool.and_eq_true, decide_eq_true_eq]
              exact ⟨⟨⟨⟨Nat.le_refl _, gi1⟩, Nat.le_refl _⟩, gi3⟩, by simp⟩
            · simp only [Option.some.injEq] at h; subst h
              exact ⟨gi1, gi2, chain_mono st.pairs lo st.pos lo inner.pos h2 (Nat.le_refl _) gi1⟩

end Peg
end Pdlv
