/-
  Pdlv.Lemmas.Local — the decoder of a statically sized type reads exactly its static size: the result
  on a longer input is the result on the prefix with the extra octets appended to the remainder.
  (Used to relate `T.parse_all(span[a:b])` of the Python back end to sequential decoding.)
-/
import Pdlv.Thm.C01

namespace Pdlv

/-- append `b` to the remainder of a successful outcome -/
def appR {α : Type} (o : Dec (α × Bytes)) (b : Bytes) : Dec (α × Bytes) :=
  match o with
  | .ok (v, r) => .ok (v, r ++ b)
  | .err e => .err e
  | .panic h => .panic h

/-- `f` reads exactly `n` octets: unaffected by what follows them, and on success consumes exactly `n` -/
def Local {α : Type} (f : Bytes → Dec (α × Bytes)) (n : Nat) : Prop :=
  ∀ a b, n ≤ a.length → f (a ++ b) = appR (f a) b ∧ ∀ v r, f a = .ok (v, r) → r.length + n = a.length

theorem take_append_of_le (a b : Bytes) (k : Nat) (h : k ≤ a.length) : (a ++ b).take k = a.take k := by
  rw [List.take_append_of_le_length h]

theorem drop_append_of_le (a b : Bytes) (k : Nat) (h : k ≤ a.length) : (a ++ b).drop k = a.drop k ++ b := by
  rw [List.drop_append_of_le_length h]

theorem getUint_local (e : Endian) (w : Nat) : Local (getUint e w) (w / 8) := by
  intro a b h
  constructor
  · simp only [getUint, List.length_append]
    rw [if_neg (by omega), if_neg (by omega), take_append_of_le a b _ h, drop_append_of_le a b _ h]
    rfl
  · intro v r hr
    have := getUint_consumes e w a v r hr
    omega

theorem decChunk_local (e : Endian) (ideal : Bool) (fs : List BitField) (st : DState) :
    Local (fun bs => decChunk e ideal fs bs st) (chunkBits fs / 8) := by
  intro a b h
  constructor
  · simp only [decChunk, List.length_append]
    rw [if_neg (by omega), if_neg (by omega), take_append_of_le a b _ h, drop_append_of_le a b _ h]
    cases decChunkFields ideal fs 0 _ st <;> rfl
  · intro st' r hr
    simp only [decChunk] at hr
    split at hr
    · cases hr
    · obtain ⟨s1, _, h2⟩ := bind_ok _ _ _ hr
      simp only [Outcome.ok.injEq, Prod.mk.injEq] at h2
      rw [← h2.2, List.length_drop]; omega

/-- `n` elements of exactly `w` octets each -/
theorem decRepeat_local (f : Bytes → Dec (Value × Bytes)) (w : Nat) (hf : Local f w) :
    ∀ (n : Nat), Local (decRepeat f n) (n * w)
  | 0 => by
    intro a b _
    exact ⟨by simp [decRepeat, appR], by intro v r hr; simp only [decRepeat, Outcome.ok.injEq, Prod.mk.injEq] at hr; rw [← hr.2]; omega⟩
  | n + 1 => by
    intro a b h
    have hw : w ≤ a.length := by
      have : w ≤ (n + 1) * w := Nat.le_mul_of_pos_left w (by omega)
      omega
    obtain ⟨h1, h2⟩ := hf a b hw
    simp only [decRepeat]
    rw [h1]
    cases hfa : f a with
    | err e => exact ⟨by simp [appR, Outcome.bind], by intro v r hr; simp [Outcome.bind] at hr⟩
    | panic q => exact ⟨by simp [appR, Outcome.bind], by intro v r hr; simp [Outcome.bind] at hr⟩
    | ok x =>
      obtain ⟨v, r⟩ := x
      have hlen := h2 v r hfa
      have hn : n * w ≤ r.length := by
        have : (n + 1) * w = n * w + w := by rw [Nat.add_mul]; omega
        omega
      obtain ⟨g1, g2⟩ := decRepeat_local f w hf n r b hn
      simp only [appR, Outcome.bind]
      rw [g1]
      cases hr : decRepeat f n r with
      | err e => exact ⟨by simp [appR], by intro v' r' hh; simp at hh⟩
      | panic q => exact ⟨by simp [appR], by intro v' r' hh; simp at hh⟩
      | ok y =>
        obtain ⟨vs, r2⟩ := y
        refine ⟨by simp [appR], ?_⟩
        intro v' r' hh
        simp only [Outcome.ok.injEq, Prod.mk.injEq] at hh
        have := g2 vs r2 hr
        have h3 : (n + 1) * w = n * w + w := by rw [Nat.add_mul]; omega
        rw [← hh.2]; omega


/-! ### statically sized layouts -/

theorem local_post {α β : Type} (g : Bytes → Dec (α × Bytes)) (k : α → Dec β) (n : Nat) (hg : Local g n) :
    Local (fun bs => (g bs).bind fun x => (k x.1).bind fun y => .ok (y, x.2)) n := by
  intro a b h
  obtain ⟨h1, h2⟩ := hg a b h
  simp only [h1]
  cases hga : g a with
  | err e => exact ⟨by simp [appR, Outcome.bind], by intro v r hr; simp [Outcome.bind] at hr⟩
  | panic q => exact ⟨by simp [appR, Outcome.bind], by intro v r hr; simp [Outcome.bind] at hr⟩
  | ok x =>
    obtain ⟨v, r⟩ := x
    simp only [appR, Outcome.bind]
    cases hk : k v with
    | err e => exact ⟨rfl, by intro v' r' hr; cases hr⟩
    | panic q => exact ⟨rfl, by intro v' r' hr; cases hr⟩
    | ok y =>
      refine ⟨rfl, ?_⟩
      intro v' r' hr
      simp only [Outcome.ok.injEq, Prod.mk.injEq] at hr
      rw [← hr.2]; exact h2 v r hga

mutual
theorem decTy_local (c : Cfg) : ∀ (ty : Ty) (n : Nat), staticTy ty = some n → localWfTy ty = true →
    Local (decTy c ty) n
  | .scalar w, n, hs, _ => by
    simp only [staticTy, Option.some.injEq] at hs
    subst hs
    have := local_post (getUint c.e w) (fun v => (.ok (.int v) : Dec Value)) (w / 8) (getUint_local c.e w)
    intro a b h
    have := this a b h
    simpa [decTy, Outcome.bind] using this
  | .enumTy nm en, n, hs, _ => by
    simp only [staticTy, Option.some.injEq] at hs
    subst hs
    intro a b h
    obtain ⟨u1, u2⟩ := getUint_local c.e en.width a b h
    simp only [decTy]
    rw [u1]
    cases hg : getUint c.e en.width a with
    | err e => exact ⟨by simp [appR, Outcome.bind], by intro v r hr; simp [Outcome.bind] at hr⟩
    | panic q => exact ⟨by simp [appR, Outcome.bind], by intro v r hr; simp [Outcome.bind] at hr⟩
    | ok x =>
      obtain ⟨v, r⟩ := x
      simp only [appR, Outcome.bind]
      by_cases hok : enumOk en v = true
      · simp only [hok, ↓reduceIte]
        refine ⟨trivial, ?_⟩
        intro v' r' hr
        simp only [Outcome.ok.injEq, Prod.mk.injEq] at hr
        rw [← hr.2]; exact u2 v r hg
      · simp only [hok, Bool.false_eq_true, ↓reduceIte]
        exact ⟨trivial, by intro v' r' hr; cases hr⟩
  | .custom nm w, n, hs, _ => by
    simp only [staticTy, Option.some.injEq] at hs
    subst hs
    have := local_post (getUint c.e w) (fun v => (.ok (.int v) : Dec Value)) (w / 8) (getUint_local c.e w)
    intro a b h
    obtain ⟨t1, t2⟩ := this a b h
    simp only [decTy, List.length_append]
    rw [if_neg (by omega), if_neg (by omega)]
    exact ⟨by simpa [Outcome.bind] using t1, by intro v r hr; exact t2 v r (by simpa [Outcome.bind] using hr)⟩
  | .struct _ (.root nm items), n, hs, hw => by
    simp only [staticTy, staticBody] at hs
    simp only [localWfTy] at hw
    have := decItems_local c items n DState.empty hs hw
    intro a b h
    obtain ⟨t1, t2⟩ := this a b h
    simp only at t1 t2
    simp only [decTy, decBody]
    rw [t1]
    cases hd : decItems c items a DState.empty with
    | err e => exact ⟨by simp [appR, Outcome.bind], by intro v r hr; simp [Outcome.bind] at hr⟩
    | panic q => exact ⟨by simp [appR, Outcome.bind], by intro v r hr; simp [Outcome.bind] at hr⟩
    | ok x =>
      obtain ⟨st, r⟩ := x
      refine ⟨by simp [appR, Outcome.bind], ?_⟩
      intro v r' hr
      simp only [Outcome.bind, Outcome.ok.injEq, Prod.mk.injEq] at hr
      rw [← hr.2]; exact t2 st r hd
  | .struct _ (.derived ..), n, hs, _ => by simp [staticTy, staticBody] at hs

theorem decItem_local (c : Cfg) : ∀ (i : Item) (n : Nat) (st : DState), staticItem i = some n → localWfItem i = true →
    Local (fun bs => decItem c i bs st) n
  | .chunk fs, n, st, hs, _ => by
    simp only [staticItem, Option.some.injEq] at hs
    subst hs
    simpa [decItem] using decChunk_local c.e (c.mode == .ideal) fs st
  | .typedef id ty sb, n, st, hs, hw => by
    simp only [staticItem] at hs
    simp only [localWfItem] at hw
    have hty := decTy_local c ty n hs hw
    have post := local_post (decTy c ty) (fun v => (.ok v : Dec Value)) n hty
    intro a b h
    obtain ⟨t1, t2⟩ := post a b h
    cases ty with
    | custom nm w =>
      simp only [staticTy, Option.some.injEq] at hs
      subst hs
      obtain ⟨u1, u2⟩ := getUint_local c.e w a b h
      simp only [decItem, List.length_append]
      rw [if_neg (by omega), if_neg (by omega), u1]
      cases hg : getUint c.e w a with
      | err e => exact ⟨by simp [appR, Outcome.bind], by intro v r hr; simp [Outcome.bind] at hr⟩
      | panic q => exact ⟨by simp [appR, Outcome.bind], by intro v r hr; simp [Outcome.bind] at hr⟩
      | ok x =>
        obtain ⟨v, r⟩ := x
        refine ⟨by simp [appR, Outcome.bind], ?_⟩
        intro v' r' hr
        simp only [Outcome.bind, Outcome.ok.injEq, Prod.mk.injEq] at hr
        rw [← hr.2]; exact u2 v r hg
    | scalar w =>
      simp only [decItem]
      obtain ⟨q1, q2⟩ := hty a b h
      rw [q1]
      cases hg : decTy c (.scalar w) a with
      | err e => exact ⟨by simp [appR, Outcome.bind], by intro v r hr; simp [Outcome.bind] at hr⟩
      | panic q => exact ⟨by simp [appR, Outcome.bind], by intro v r hr; simp [Outcome.bind] at hr⟩
      | ok x =>
        obtain ⟨v, r⟩ := x
        refine ⟨by simp [appR, Outcome.bind], ?_⟩
        intro v' r' hr
        simp only [Outcome.bind, Outcome.ok.injEq, Prod.mk.injEq] at hr
        rw [← hr.2]; exact q2 v r hg
    | enumTy nm en =>
      simp only [decItem]
      obtain ⟨q1, q2⟩ := hty a b h
      rw [q1]
      cases hg : decTy c (.enumTy nm en) a with
      | err e => exact ⟨by simp [appR, Outcome.bind], by intro v r hr; simp [Outcome.bind] at hr⟩
      | panic q => exact ⟨by simp [appR, Outcome.bind], by intro v r hr; simp [Outcome.bind] at hr⟩
      | ok x =>
        obtain ⟨v, r⟩ := x
        refine ⟨by simp [appR, Outcome.bind], ?_⟩
        intro v' r' hr
        simp only [Outcome.bind, Outcome.ok.injEq, Prod.mk.injEq] at hr
        rw [← hr.2]; exact q2 v r hg
    | struct nm bd =>
      simp only [decItem]
      obtain ⟨q1, q2⟩ := hty a b h
      rw [q1]
      cases hg : decTy c (.struct nm bd) a with
      | err e => exact ⟨by simp [appR, Outcome.bind], by intro v r hr; simp [Outcome.bind] at hr⟩
      | panic q => exact ⟨by simp [appR, Outcome.bind], by intro v r hr; simp [Outcome.bind] at hr⟩
      | ok x =>
        obtain ⟨v, r⟩ := x
        refine ⟨by simp [appR, Outcome.bind], ?_⟩
        intro v' r' hr
        simp only [Outcome.bind, Outcome.ok.injEq, Prod.mk.injEq] at hr
        rw [← hr.2]; exact q2 v r hg
  | .optional id ty cid cval, n, st, hs, _ => by simp [staticItem] at hs
  | .payload md, n, st, hs, _ => by simp [staticItem] at hs
  | .array id elem ew shape pad, n, st, hs, hw => by
    simp only [localWfItem, Bool.and_eq_true] at hw
    intro a b h
    simp only [decItem]
    by_cases hk : arrayKeysOk ew shape (st.ctx.get (.count id)) (st.ctx.get (.size id)) (st.ctx.get (.esize id)) = true
    · simp only [hk, Bool.not_true, Bool.false_eq_true, ↓reduceIte]
      cases pad with
      | some p =>
        simp only [staticItem, Option.some.injEq] at hs
        subst hs
        simp only [withPad, List.length_append]
        rw [if_neg (by omega), if_neg (by omega), take_append_of_le a b _ h, drop_append_of_le a b _ h]
        cases hd : decArray c.mode (decTy c elem) ew shape (st.ctx.get (.count id)) (st.ctx.get (.size id))
            (st.ctx.get (.esize id)) (a.take p) with
        | err e => exact ⟨by simp [appR, Outcome.bind], by intro v r hr; simp [Outcome.bind] at hr⟩
        | panic q => exact ⟨by simp [appR, Outcome.bind], by intro v r hr; simp [Outcome.bind] at hr⟩
        | ok x =>
          refine ⟨by simp [appR, Outcome.bind], ?_⟩
          intro v r hr
          simp only [Outcome.bind, Outcome.ok.injEq, Prod.mk.injEq] at hr
          rw [← hr.2, List.length_drop]; omega
      | none =>
        cases shape with
        | static cnt =>
          simp only [staticItem] at hs
          cases ew with
          | static w =>
            have hst : staticTy elem = some w := by simpa using hw.2
            rw [hst] at hs
            simp only [Option.map_some, Option.some.injEq] at hs
            subst hs
            have hel := decTy_local c elem w hst hw.1
            obtain ⟨r1, r2⟩ := decRepeat_local (decTy c elem) w hel cnt a b h
            simp only [withPad, decArray, List.length_append]
            rw [if_neg (by omega), if_neg (by omega), r1]
            cases hd : decRepeat (decTy c elem) cnt a with
            | err e => exact ⟨by simp [appR, Outcome.bind], by intro v r hr; simp [Outcome.bind] at hr⟩
            | panic q => exact ⟨by simp [appR, Outcome.bind], by intro v r hr; simp [Outcome.bind] at hr⟩
            | ok x =>
              obtain ⟨vs, r⟩ := x
              simp only [appR, Outcome.bind]
              cases hu : unwrapArr cnt vs with
              | err e => exact ⟨rfl, by intro v r' hr; cases hr⟩
              | panic q => exact ⟨rfl, by intro v r' hr; cases hr⟩
              | ok ws =>
                refine ⟨rfl, ?_⟩
                intro v r' hr
                simp only [Outcome.ok.injEq, Prod.mk.injEq] at hr
                rw [← hr.2]; exact r2 vs r hd
          | dynamic => simp at hw
          | unknown => simp at hw
        | countField => simp [staticItem] at hs
        | sizeField => simp [staticItem] at hs
        | unknown => simp [staticItem] at hs
    · have hk' : arrayKeysOk ew shape (st.ctx.get (.count id)) (st.ctx.get (.size id)) (st.ctx.get (.esize id)) = false := by
        simpa using hk
      simp only [hk', Bool.not_false, ↓reduceIte]
      exact ⟨rfl, by intro v r hr; cases hr⟩

theorem decItems_local (c : Cfg) : ∀ (is : Items) (n : Nat) (st : DState), staticItems is = some n →
    localWfItems is = true → Local (fun bs => decItems c is bs st) n
  | .nil, n, st, hs, _ => by
    simp only [staticItems, Option.some.injEq] at hs
    subst hs
    intro a b _
    exact ⟨by simp [decItems, appR], by intro v r hr; simp only [decItems, Outcome.ok.injEq, Prod.mk.injEq] at hr; rw [← hr.2]; omega⟩
  | .cons i r, n, st, hs, hw => by
    simp only [localWfItems, Bool.and_eq_true] at hw
    simp only [staticItems] at hs
    cases hi : staticItem i with
    | none => simp [hi] at hs
    | some n1 =>
      cases hr : staticItems r with
      | none => simp [hi, hr] at hs
      | some n2 =>
        simp only [hi, hr, Option.some.injEq] at hs
        subst hs
        have li := decItem_local c i n1 st hi hw.1
        intro a b h
        obtain ⟨q1, q2⟩ := li a b (by omega)
        simp only [decItems]
        simp only at q1
        rw [q1]
        cases hd : decItem c i a st with
        | err e => exact ⟨by simp [appR, Outcome.bind], by intro v r' hh; simp [Outcome.bind] at hh⟩
        | panic q => exact ⟨by simp [appR, Outcome.bind], by intro v r' hh; simp [Outcome.bind] at hh⟩
        | ok x =>
          obtain ⟨st1, a1⟩ := x
          have hlen := q2 st1 a1 hd
          have lr := decItems_local c r n2 st1 hr hw.2
          obtain ⟨p1, p2⟩ := lr a1 b (by omega)
          simp only [appR, Outcome.bind]
          simp only at p1
          rw [p1]
          refine ⟨rfl, ?_⟩
          intro v r' hh
          have := p2 v r' hh
          omega
end


/-! ### exact consumption, without assuming the input is long enough -/

def Exact {α : Type} (f : Bytes → Dec (α × Bytes)) (n : Nat) : Prop :=
  ∀ a v r, f a = .ok (v, r) → r.length + n = a.length

theorem decRepeat_exact_len (f : Bytes → Dec (Value × Bytes)) (w : Nat) (hf : Exact f w) :
    ∀ (n : Nat), Exact (decRepeat f n) (n * w)
  | 0 => by
    intro a v r h
    simp only [decRepeat, Outcome.ok.injEq, Prod.mk.injEq] at h
    rw [← h.2]; omega
  | n + 1 => by
    intro a v r h
    simp only [decRepeat] at h
    obtain ⟨⟨x, a1⟩, h1, h2⟩ := bind_ok _ _ _ h
    obtain ⟨⟨xs, a2⟩, h3, h4⟩ := bind_ok _ _ _ h2
    simp only [Outcome.ok.injEq, Prod.mk.injEq] at h4
    have e1 := hf a x a1 h1
    have e2 := decRepeat_exact_len f w hf n a1 xs a2 h3
    have : (n + 1) * w = n * w + w := by rw [Nat.add_mul]; omega
    rw [← h4.2]; omega

mutual
theorem decTy_exact_len (c : Cfg) : ∀ (ty : Ty) (n : Nat), staticTy ty = some n → localWfTy ty = true →
    Exact (decTy c ty) n
  | .scalar w, n, hs, _ => by
    simp only [staticTy, Option.some.injEq] at hs
    subst hs
    intro a v r h
    simp only [decTy] at h
    obtain ⟨⟨x, r'⟩, h1, h2⟩ := bind_ok _ _ _ h
    simp only [Outcome.ok.injEq, Prod.mk.injEq] at h2
    rw [← h2.2]; exact getUint_consumes _ _ _ _ _ h1
  | .enumTy nm en, n, hs, _ => by
    simp only [staticTy, Option.some.injEq] at hs
    subst hs
    intro a v r h
    simp only [decTy] at h
    obtain ⟨⟨x, r'⟩, h1, h2⟩ := bind_ok _ _ _ h
    simp only at h2
    split at h2
    · simp only [Outcome.ok.injEq, Prod.mk.injEq] at h2
      rw [← h2.2]; exact getUint_consumes _ _ _ _ _ h1
    · cases h2
  | .custom nm w, n, hs, _ => by
    simp only [staticTy, Option.some.injEq] at hs
    subst hs
    intro a v r h
    simp only [decTy] at h
    split at h
    · cases h
    · obtain ⟨⟨x, r'⟩, h1, h2⟩ := bind_ok _ _ _ h
      simp only [Outcome.ok.injEq, Prod.mk.injEq] at h2
      rw [← h2.2]; exact getUint_consumes _ _ _ _ _ h1
  | .struct _ (.root nm items), n, hs, hw => by
    simp only [staticTy, staticBody] at hs
    simp only [localWfTy] at hw
    intro a v r h
    simp only [decTy, decBody] at h
    obtain ⟨⟨st, r'⟩, h1, h2⟩ := bind_ok _ _ _ h
    simp only [Outcome.ok.injEq, Prod.mk.injEq] at h2
    rw [← h2.2]; exact decItems_exact_len c items n DState.empty hs hw a st r' h1
  | .struct _ (.derived ..), n, hs, _ => by simp [staticTy, staticBody] at hs

theorem decItem_exact_len (c : Cfg) : ∀ (i : Item) (n : Nat) (st : DState), staticItem i = some n →
    localWfItem i = true → Exact (fun bs => decItem c i bs st) n
  | .chunk fs, n, st, hs, _ => by
    simp only [staticItem, Option.some.injEq] at hs
    subst hs
    intro a st' r h
    simp only [decItem, decChunk] at h
    split at h
    · cases h
    · obtain ⟨s1, _, h2⟩ := bind_ok _ _ _ h
      simp only [Outcome.ok.injEq, Prod.mk.injEq] at h2
      rw [← h2.2, List.length_drop]; omega
  | .typedef id ty sb, n, st, hs, hw => by
    simp only [staticItem] at hs
    simp only [localWfItem] at hw
    intro a st' r h
    cases ty with
    | custom nm w =>
      simp only [staticTy, Option.some.injEq] at hs
      subst hs
      simp only [decItem] at h
      split at h
      · split at h <;> cases h
      · obtain ⟨⟨x, r'⟩, h1, h2⟩ := bind_ok _ _ _ h
        simp only [Outcome.ok.injEq, Prod.mk.injEq] at h2
        rw [← h2.2]; exact getUint_consumes _ _ _ _ _ h1
    | scalar w =>
      simp only [decItem] at h
      obtain ⟨⟨x, r'⟩, h1, h2⟩ := bind_ok _ _ _ h
      simp only [Outcome.ok.injEq, Prod.mk.injEq] at h2
      rw [← h2.2]; exact decTy_exact_len c _ n hs hw a x r' h1
    | enumTy nm en =>
      simp only [decItem] at h
      obtain ⟨⟨x, r'⟩, h1, h2⟩ := bind_ok _ _ _ h
      simp only [Outcome.ok.injEq, Prod.mk.injEq] at h2
      rw [← h2.2]; exact decTy_exact_len c _ n hs hw a x r' h1
    | struct nm bd =>
      simp only [decItem] at h
      obtain ⟨⟨x, r'⟩, h1, h2⟩ := bind_ok _ _ _ h
      simp only [Outcome.ok.injEq, Prod.mk.injEq] at h2
      rw [← h2.2]; exact decTy_exact_len c _ n hs hw a x r' h1
  | .optional id ty cid cval, n, st, hs, _ => by simp [staticItem] at hs
  | .payload md, n, st, hs, _ => by simp [staticItem] at hs
  | .array id elem ew shape pad, n, st, hs, hw => by
    simp only [localWfItem, Bool.and_eq_true] at hw
    intro a st' r h
    simp only [decItem] at h
    split at h
    · cases h
    · obtain ⟨⟨vs, r'⟩, h1, h2⟩ := bind_ok _ _ _ h
      simp only [Outcome.ok.injEq, Prod.mk.injEq] at h2
      rw [← h2.2]
      cases pad with
      | some p =>
        simp only [staticItem, Option.some.injEq] at hs
        subst hs
        simp only [withPad] at h1
        split at h1
        · cases h1
        · obtain ⟨_, _, h4⟩ := bind_ok _ _ _ h1
          simp only [Outcome.ok.injEq, Prod.mk.injEq] at h4
          rw [← h4.2, List.length_drop]; omega
      | none =>
        cases shape with
        | static cnt =>
          simp only [staticItem] at hs
          cases ew with
          | static w =>
            have hst : staticTy elem = some w := by simpa using hw.2
            rw [hst] at hs
            simp only [Option.map_some, Option.some.injEq] at hs
            subst hs
            simp only [withPad, decArray] at h1
            split at h1
            · cases h1
            · obtain ⟨⟨ws, r2⟩, h3, h4⟩ := bind_ok _ _ _ h1
              obtain ⟨ws', _, h6⟩ := bind_ok _ _ _ h4
              simp only [Outcome.ok.injEq, Prod.mk.injEq] at h6
              rw [← h6.2]
              exact decRepeat_exact_len (decTy c elem) w (decTy_exact_len c elem w hst hw.1) cnt a ws r2 h3
          | dynamic => simp at hw
          | unknown => simp at hw
        | countField => simp [staticItem] at hs
        | sizeField => simp [staticItem] at hs
        | unknown => simp [staticItem] at hs

theorem decItems_exact_len (c : Cfg) : ∀ (is : Items) (n : Nat) (st : DState), staticItems is = some n →
    localWfItems is = true → Exact (fun bs => decItems c is bs st) n
  | .nil, n, st, hs, _ => by
    simp only [staticItems, Option.some.injEq] at hs
    subst hs
    intro a v r h
    simp only [decItems, Outcome.ok.injEq, Prod.mk.injEq] at h
    rw [← h.2]; omega
  | .cons i r, n, st, hs, hw => by
    simp only [localWfItems, Bool.and_eq_true] at hw
    simp only [staticItems] at hs
    cases hi : staticItem i with
    | none => simp [hi] at hs
    | some n1 =>
      cases hr : staticItems r with
      | none => simp [hi, hr] at hs
      | some n2 =>
        simp only [hi, hr, Option.some.injEq] at hs
        subst hs
        intro a v r' h
        simp only [decItems] at h
        obtain ⟨⟨st1, a1⟩, h1, h2⟩ := bind_ok _ _ _ h
        have e1 := decItem_exact_len c i n1 st hi hw.1 a st1 a1 h1
        have e2 := decItems_exact_len c r n2 st1 hr hw.2 a1 v r' h2
        omega
end

end Pdlv
