/-
  Pdlv.Lemmas.RefBits — the arithmetic that connects the bit-level reference `Pdlv.Ref` with the
  shift / or / `put_uint` formulation of the emitted code (used by C03, C13, C14, C19).
-/
import Pdlv.Ref
import Pdlv.Lemmas.Bits

namespace Pdlv
namespace Ref

/-- a bit stream read back as a number is the number it came from -/
theorem natOfBits_bitsOf (w n : Nat) : natOfBits (bitsOf w n) = n % 2 ^ w := by
  induction w generalizing n with
  | zero => simp [bitsOf, natOfBits, Nat.mod_one]
  | succ w ih =>
    simp only [bitsOf, natOfBits, ih]
    have h2 : 2 ^ (w + 1) = 2 * 2 ^ w := by rw [Nat.pow_succ, Nat.mul_comm]
    rw [h2, Nat.mod_mul]
    have : (if (n % 2 == 1) = true then 1 else 0) = n % 2 := by
      have := Nat.mod_two_eq_zero_or_one n
      rcases this with h | h <;> simp [h]
    rw [this]

theorem bitsOf_length (w n : Nat) : (bitsOf w n).length = w := by
  induction w generalizing n with
  | zero => rfl
  | succ w ih => simp [bitsOf, ih]

/-- **Consecutive bit-fields are packed least-significant-bit first**: the bit stream of a
    field followed by the bit stream of the rest is the bit stream of `v + 2^w * rest`
    — which is what the emitted `(v << off) | …` computes (`packOr_eq`, `packAcc_eq`). -/
theorem bitsOf_append (w w' v n : Nat) (hv : v < 2 ^ w) :
    bitsOf w v ++ bitsOf w' n = bitsOf (w + w') (v + 2 ^ w * n) := by
  induction w generalizing v with
  | zero =>
    have : v = 0 := by simpa using hv
    subst this; simp [bitsOf]
  | succ w ih =>
    have hw : w + 1 + w' = (w + w') + 1 := by omega
    rw [hw]
    simp only [bitsOf, List.cons_append]
    have h2 : 2 ^ (w + 1) = 2 * 2 ^ w := by rw [Nat.pow_succ, Nat.mul_comm]
    have hmod : (v + 2 ^ (w + 1) * n) % 2 = v % 2 := by
      rw [h2, Nat.mul_assoc, Nat.add_mul_mod_self_left]
    have hdiv : (v + 2 ^ (w + 1) * n) / 2 = v / 2 + 2 ^ w * n := by
      rw [h2, Nat.mul_assoc, Nat.add_mul_div_left _ _ (by decide : 0 < 2)]
    rw [hmod, hdiv, ih (v / 2) (by rw [h2] at hv; omega)]

/-- cutting the bit stream of an `8k`-bit number into octets gives its little-endian bytes:
    the group is written in the file's byte order (`put_uint_le`); see `groupBytes_big` -/
theorem bytesOfBits_bitsOf (k n : Nat) : bytesOfBits k (bitsOf (8 * k) n) = toLE k n := by
  induction k generalizing n with
  | zero => rfl
  | succ k ih =>
    have h8 : 8 * (k + 1) = 8 + 8 * k := by omega
    rw [h8]
    have hsplit : bitsOf (8 + 8 * k) n = bitsOf 8 (n % 256) ++ bitsOf (8 * k) (n / 256) := by
      have := bitsOf_append 8 (8 * k) (n % 256) (n / 256) (Nat.mod_lt _ (by decide))
      rw [this]
      congr 1
      have := Nat.mod_add_div n 256
      simpa using this.symm
    rw [hsplit]
    simp only [bytesOfBits, toLE]
    have hl : (bitsOf 8 (n % 256)).length = 8 := bitsOf_length _ _
    rw [List.take_left' hl, List.drop_left' hl, ih, natOfBits_bitsOf]
    congr 2
    exact Nat.mod_eq_of_lt (Nat.mod_lt _ (by decide))

/-- **A group of `8k` bits holding the number `n` is written exactly as the emitted code writes it**:
    `put_uint_le(n, k)` for little-endian files, `put_uint(n, k)` for big-endian ones. -/
theorem groupBytes_eq_putUint (e : Endian) (k n : Nat) :
    groupBytes e (bitsOf (8 * k) n) = putUint e (8 * k) n := by
  unfold groupBytes putUint
  simp only [bitsOf_length]
  have hk : 8 * k / 8 = k := by omega
  rw [hk, bytesOfBits_bitsOf]
  cases e <;> simp [toBE]

/-- reserved bits are zero -/
theorem reserved_zero (w : Nat) : natOfBits (bitsOf w 0) = 0 := by
  rw [natOfBits_bitsOf]; simp

/-- array padding is zero -/
theorem padding_zero (k : Nat) : ∀ b ∈ zeros k, b = 0 := by
  intro b hb; simp [zeros] at hb; exact hb.2

/-- non-vacuity / sanity: two fields `a: 3 = 5`, `b: 5 = 17` give the octet `0x8d` -/
example : groupBytes .little (bitsOf 3 5 ++ bitsOf 5 17) = [0x8d] := by rfl
example : putUint .big 16 0x1234 = [0x12, 0x34] := by rfl

end Ref
end Pdlv
