/-
  Pdlv.Lemmas.PyAgree — the model of the parser the Python back end emits (`Pdlv.Py`) accepts the
  same inputs with the same values as the reference decoder (`Pdlv.decBody`, reference mode), on the
  layouts `Py.wfBody` — i.e. outside the recorded deviations of python.rs.
-/
import Pdlv.Py
import Pdlv.Lemmas.Local

namespace Pdlv
namespace Py

/-- same acceptance, same result (which error is raised, or whether a rejected input is an error or
    an unsupported construct, is not compared) -/
def Same {α : Type} (p q : Dec α) : Prop := ∀ a, p = .ok a ↔ q = .ok a

theorem Same.rfl {α : Type} (p : Dec α) : Same p p := fun _ => Iff.rfl

theorem Same.of_eq {α : Type} {p q : Dec α} (h : p = q) : Same p q := by subst h; exact Same.rfl p

theorem Same.bind {α β : Type} {p q : Dec α} {f g : α → Dec β} (h : Same p q) (hf : ∀ a, Same (f a) (g a)) :
    Same (p.bind f) (q.bind g) := by
  intro b
  constructor
  · intro hb
    obtain ⟨a, ha, hfa⟩ := bind_ok _ _ _ hb
    have := (h a).mp ha
    rw [this]
    exact (hf a b).mp hfa
  · intro hb
    obtain ⟨a, ha, hga⟩ := bind_ok _ _ _ hb
    have := (h a).mpr ha
    rw [this]
    exact (hf a b).mpr hga

theorem same_not_ok_left {α : Type} (e : DecErr) (q : Dec α) (hq : ∀ a, q ≠ .ok a) : Same (.err e) q := by
  intro a
  constructor
  · intro h; cases h
  · intro h; exact absurd h (hq a)

/-! ### loops and arrays: congruence in the element decoder -/

theorem decRepeat_same (f g : Bytes → Dec (Value × Bytes)) (h : ∀ bs, Same (f bs) (g bs)) :
    ∀ (n : Nat) (bs : Bytes), Same (decRepeat f n bs) (decRepeat g n bs)
  | 0, bs => Same.rfl _
  | n + 1, bs => by
    simp only [decRepeat]
    refine Same.bind (h bs) (fun x => ?_)
    exact Same.bind (decRepeat_same f g h n x.2) (fun _ => Same.rfl _)

theorem decWhile_same (f g : Bytes → Dec (Value × Bytes)) (h : ∀ bs, Same (f bs) (g bs)) :
    ∀ (fuel : Nat) (bs : Bytes), Same (decWhile f fuel bs) (decWhile g fuel bs)
  | 0, bs => Same.rfl _
  | fuel + 1, bs => by
    simp only [decWhile]
    split
    · exact Same.rfl _
    · refine Same.bind (h bs) (fun x => ?_)
      split
      · exact Same.bind (decWhile_same f g h fuel x.2) (fun _ => Same.rfl _)
      · exact Same.rfl _

theorem zeroElem_same (m : Mode) (f g : Bytes → Dec (Value × Bytes)) (h : ∀ bs, Same (f bs) (g bs)) (n : Nat) (hz : Hazard)
    (sp : Bytes) : Same (zeroElem m f n hz sp) (zeroElem m g n hz sp) := by
  cases m with
  | rust => exact Same.rfl _
  | ideal =>
    simp only [zeroElem]
    refine Same.bind (decRepeat_same _ _ (fun _ => Same.bind (h []) (fun _ => Same.rfl _)) n []) (fun _ => Same.rfl _)

theorem decArray_same (m : Mode) (f g : Bytes → Dec (Value × Bytes)) (h : ∀ bs, Same (f bs) (g bs))
    (ew : ElemWidth) (shape : Shape) (cnt siz esz : Option Nat) (sp : Bytes) (hew : ew ≠ .dynamic) :
    Same (decArray m f ew shape cnt siz esz sp) (decArray m g ew shape cnt siz esz sp) := by
  cases ew with
  | dynamic => exact absurd rfl hew
  | unknown =>
    cases shape with
    | sizeField =>
      simp only [decArray]
      cases siz with
      | none => exact Same.rfl _
      | some sz =>
        simp only
        split
        · exact Same.rfl _
        · exact Same.bind (decWhile_same f g h _ _) (fun _ => Same.rfl _)
    | static n =>
      simp only [decArray]
      exact Same.bind (decRepeat_same f g h n sp) (fun _ => Same.rfl _)
    | countField =>
      simp only [decArray]
      cases cnt with
      | none => exact Same.rfl _
      | some n => exact decRepeat_same f g h n sp
    | unknown =>
      simp only [decArray]
      exact Same.bind (decWhile_same f g h _ _) (fun _ => Same.rfl _)
  | static w =>
    cases shape with
    | static n =>
      simp only [decArray]
      split
      · exact Same.rfl _
      · exact Same.bind (decRepeat_same f g h n sp) (fun _ => Same.rfl _)
    | countField =>
      simp only [decArray]
      cases cnt with
      | none => exact Same.rfl _
      | some n =>
        simp only
        refine Same.bind (Same.rfl _) (fun tot => ?_)
        split
        · exact Same.rfl _
        · exact decRepeat_same f g h n sp
    | sizeField =>
      simp only [decArray]
      cases siz with
      | none => exact Same.rfl _
      | some sz =>
        simp only
        split
        · exact Same.rfl _
        · split
          · exact Same.rfl _
          · split
            · exact Same.rfl _
            · exact decRepeat_same f g h _ sp
    | unknown =>
      simp only [decArray]
      split
      · exact Same.rfl _
      · split
        · exact Same.rfl _
        · exact decRepeat_same f g h _ sp

theorem withPad_same (pad : Option Nat) (bs : Bytes) (k1 k2 : Bytes → Dec (List Value × Bytes))
    (h : ∀ sp, Same (k1 sp) (k2 sp)) : Same (withPad pad bs k1) (withPad pad bs k2) := by
  cases pad with
  | none => exact h bs
  | some p =>
    simp only [withPad]
    split
    · exact Same.rfl _
    · exact Same.bind (h _) (fun _ => Same.rfl _)

/-! ### bit-field groups: the array-modifier switch is irrelevant without array modifiers -/

theorem decChunkFields_flag (fs : List BitField) : fs.all bfPlain = true →
    ∀ (shift chunk : Nat) (st : DState), decChunkFields true fs shift chunk st = decChunkFields false fs shift chunk st := by
  induction fs with
  | nil => intro _ _ _ _; rfl
  | cons f fs ih =>
    intro hm shift chunk st
    simp only [List.all_cons, Bool.and_eq_true] at hm
    have ih' := ih hm.2
    unfold decChunkFields
    cases f with
    | size t w m =>
      simp only [bfPlain, Bool.or_eq_true, beq_iff_eq] at hm
      simp only [ih']
      by_cases ht : t = "_payload_"
      · simp [ht]
      · simp only [true_and, ne_eq, ht, not_false_eq_true, ↓reduceIte, Bool.false_eq_true, false_and]
        rcases hm.1 with h1 | h1
        · exact absurd h1 ht
        · subst h1; simp
    | _ => simp only [ih']


theorem decChunk_flag (e : Endian) (fs : List BitField) (h : fs.all bfPlain = true) (bs : Bytes) (st : DState) :
    decChunk e false fs bs st = decChunk e true fs bs st := by
  simp only [decChunk, decChunkFields_flag fs h]

/-- the reference decoder in the file's byte order -/
def ideal (c : Cfg) : Cfg := { e := c.e, mode := .ideal }

/-- a successful reference decode of a field list consumed at least the static run it starts with -/
theorem run_needs (c : Cfg) : ∀ (is : Items), wfItems is = true → ∀ (bs rest : Bytes) (st st' : DState),
    Pdlv.decItems (ideal c) is bs st = .ok (st', rest) → (runInfo is).1 ≤ bs.length
  | .nil, _, bs, rest, st, st', _ => by simp [runInfo]
  | .cons i r, hw, bs, rest, st, st', h => by
    simp only [wfItems, Bool.and_eq_true] at hw
    simp only [runInfo]
    cases hr : runLen i with
    | none => simp
    | some n =>
      simp only [Pdlv.decItems] at h
      obtain ⟨⟨st1, b1⟩, h1, h2⟩ := bind_ok _ _ _ h
      have ih := run_needs c r hw.2 b1 rest st1 st' h2
      have hex : b1.length + n = bs.length := by
        cases i with
        | chunk fs =>
          simp only [runLen, Option.some.injEq] at hr
          subst hr
          exact decItem_exact_len (ideal c) (.chunk fs) _ st (by simp [staticItem]) (by simp [localWfItem]) bs st1 b1 h1
        | typedef id ty sb =>
          cases sb with
          | none => simp [runLen] at hr
          | some m =>
            simp only [runLen, Option.some.injEq] at hr
            subst hr
            simp only [wfItem, Bool.and_eq_true, beq_iff_eq] at hw
            exact decItem_exact_len (ideal c) (.typedef id ty (some m)) m st (by simpa [staticItem] using hw.1.2.1)
              (by simpa [localWfItem] using hw.1.2.2) bs st1 b1 h1
        | optional a b c' d => simp [runLen] at hr
        | payload md => simp [runLen] at hr
        | array a b c' d e => simp [runLen] at hr
      cases hri : runInfo r with
      | mk m q =>
        simp only [hri] at ih ⊢
        omega

mutual
theorem ty_same (c : Cfg) : ∀ (ty : Ty), wfTy ty = true → ∀ bs, Same (Py.decTy c ty bs) (Pdlv.decTy (ideal c) ty bs)
  | .scalar w, _, bs => Same.of_eq rfl
  | .enumTy nm en, _, bs => Same.of_eq rfl
  | .custom nm w, hw, _ => by simp [wfTy] at hw
  | .struct _ (.root nm items), hw, bs => by
    simp only [wfTy] at hw
    simp only [Py.decTy, Pdlv.decTy, Py.decBody, Pdlv.decBody]
    exact Same.bind (items_same c items hw false bs DState.empty) (fun _ => Same.rfl _)
  | .struct _ (.derived ..), hw, _ => by simp [wfTy] at hw

theorem item_same (c : Cfg) (rest : Items) : ∀ (i : Item), wfItem rest i = true → ∀ (bs : Bytes) (st : DState),
    Same (Py.decItem c rest i bs st) (Pdlv.decItem (ideal c) i bs st)
  | .chunk fs, hw, bs, st => by
    simp only [wfItem, Bool.and_eq_true, Bool.not_eq_true'] at hw
    simp only [Py.decItem, hw.1, Bool.false_eq_true, ↓reduceIte, Pdlv.decItem, ideal, BEq.rfl]
    exact Same.of_eq (decChunk_flag c.e fs hw.2 bs st)
  | .typedef id ty sb, hw, bs, st => by
    have hwt0 : wfTy ty = true := by
      cases sb <;> simp only [wfItem, Bool.and_eq_true] at hw <;> exact hw.1
    have hnc : ∀ nm w, ty ≠ .custom nm w := by
      intro nm w h; subst h; simp [wfTy] at hwt0
    have hid : Pdlv.decItem (ideal c) (.typedef id ty sb) bs st =
        (Pdlv.decTy (ideal c) ty bs).bind fun (v, r) => .ok ({ st with fields := st.fields ++ [(id, v)] }, r) := by
      cases ty with
      | custom nm w => exact absurd rfl (hnc nm w)
      | _ => rfl
    rw [hid]
    cases sb with
    | none =>
      simp only [Py.decItem]
      exact Same.bind (ty_same c ty hwt0 bs) (fun _ => Same.rfl _)
    | some n =>
      simp only [wfItem, Bool.and_eq_true, beq_iff_eq] at hw
      obtain ⟨hwt, hst, hlw⟩ := hw
      have hloc := decTy_local (ideal c) ty n hst hlw
      have hexa := decTy_exact_len (ideal c) ty n hst hlw
      simp only [Py.decItem]
      intro res
      constructor
      · intro hp
        split at hp
        · cases hp
        · rename_i hlen
          obtain ⟨⟨v, r⟩, h1, h2⟩ := bind_ok _ _ _ hp
          simp only at h2
          split at h2
          · rename_i hre
            simp only [Outcome.ok.injEq] at h2
            subst h2
            have hr0 : r = [] := by simpa using hre
            subst hr0
            have hi := (ty_same c ty hwt (bs.take n) (v, [])).mp h1
            have hl := (hloc (bs.take n) (bs.drop n) (by rw [List.length_take]; omega)).1
            rw [List.take_append_drop, hi] at hl
            simp [hl, appR, Outcome.bind]
          · cases h2
      · intro hi
        obtain ⟨⟨v, r'⟩, h1, h2⟩ := bind_ok _ _ _ hi
        simp only [Outcome.ok.injEq] at h2
        subst h2
        have hcons := hexa bs v r' h1
        have hlen : ¬ bs.length < n := by omega
        have hl := (hloc (bs.take n) (bs.drop n) (by rw [List.length_take]; omega)).1
        rw [List.take_append_drop, h1] at hl
        cases htk : Pdlv.decTy (ideal c) ty (bs.take n) with
        | err e => simp [htk, appR] at hl
        | panic q => simp [htk, appR] at hl
        | ok x =>
          obtain ⟨v0, r0⟩ := x
          simp only [htk, appR, Outcome.ok.injEq, Prod.mk.injEq] at hl
          have hr0 : r0 = [] := by
            have := hexa (bs.take n) v0 r0 htk
            rw [List.length_take] at this
            have : r0.length = 0 := by omega
            exact List.eq_nil_of_length_eq_zero this
          subst hr0
          have hp := (ty_same c ty hwt (bs.take n) (v0, [])).mpr htk
          rw [if_neg hlen, hp]
          simp only [Outcome.bind, List.isEmpty_nil, ↓reduceIte, Outcome.ok.injEq, Prod.mk.injEq]
          exact ⟨by rw [hl.1], by simpa using hl.2.symm⟩
  | .optional id ty cid cval, hw, bs, st => by
    simp only [wfItem] at hw
    simp only [Py.decItem, Pdlv.decItem]
    cases st.ctx.get (.val cid) with
    | none => exact Same.rfl _
    | some cv =>
      simp only
      by_cases hcv : cv = cval
      · simp only [hcv, ↓reduceIte]
        have key : ∀ (sh : Bool), Same
            (if sh = true then (.err .length : Dec (DState × Bytes))
             else (Py.decTy c ty bs).bind fun x => .ok ({ st with fields := st.fields ++ [(id, x.1)] }, x.2))
            (if sh = true then (.err .length : Dec (DState × Bytes))
             else (Pdlv.decTy (ideal c) ty bs).bind fun x => .ok ({ st with fields := st.fields ++ [(id, x.1)] }, x.2)) := by
          intro sh
          cases sh with
          | true => exact Same.rfl _
          | false => exact Same.bind (ty_same c ty hw bs) (fun _ => Same.rfl _)
        exact key _
      · simp only [hcv, ↓reduceIte]
        exact Same.rfl _
  | .payload mode, hw, bs, st => by
    cases mode with
    | sized m =>
      simp only [wfItem, beq_iff_eq] at hw
      subst hw
      simp only [Py.decItem, Pdlv.decItem]
      cases st.ctx.get (.size "_payload_") with
      | none => exact Same.rfl _
      | some sz => simp only [Nat.not_lt_zero, ↓reduceIte]; exact Same.rfl _
    | last =>
      simp only [wfItem, beq_iff_eq] at hw
      simp only [Py.decItem, Pdlv.decItem, hw, ↓reduceIte]
      exact Same.rfl _
    | beforeStatic k =>
      simp only [wfItem, beq_iff_eq] at hw
      simp only [Py.decItem, Pdlv.decItem, hw]
      by_cases hk : k = 0
      · subst hk
        simp only [↓reduceIte, Nat.not_lt_zero, Nat.sub_zero, List.take_length, List.drop_length]
        exact Same.rfl _
      · simp only [hk, ↓reduceIte]
        exact Same.rfl _
    | undelimited => simp [wfItem] at hw
  | .array id elem ew shape pad, hw, bs, st => by
    simp only [wfItem, Bool.and_eq_true] at hw
    have hnd : ew ≠ .dynamic := by intro h; subst h; simp at hw
    simp only [Py.decItem, Pdlv.decItem, ideal]
    cases ew with
    | dynamic => exact absurd rfl hnd
    | static w =>
      split
      · exact Same.rfl _
      · exact Same.bind (withPad_same pad bs _ _ (fun sp => decArray_same .ideal _ _ (ty_same c elem hw.1) _ _ _ _ _ sp hnd))
          (fun _ => Same.rfl _)
    | unknown =>
      split
      · exact Same.rfl _
      · exact Same.bind (withPad_same pad bs _ _ (fun sp => decArray_same .ideal _ _ (ty_same c elem hw.1) _ _ _ _ _ sp hnd))
          (fun _ => Same.rfl _)

theorem items_same (c : Cfg) : ∀ (is : Items), wfItems is = true → ∀ (inRun : Bool) (bs : Bytes) (st : DState),
    Same (Py.decItems c is inRun bs st) (Pdlv.decItems (ideal c) is bs st)
  | .nil, _, _, bs, st => Same.rfl _
  | .cons i r, hw, inRun, bs, st => by
    have hw' := hw
    simp only [wfItems, Bool.and_eq_true] at hw'
    simp only [Py.decItems]
    have step : ∀ (b : Bool), Same ((Py.decItem c r i bs st).bind fun x => Py.decItems c r b x.2 x.1)
        (Pdlv.decItems (ideal c) (.cons i r) bs st) := by
      intro b
      simp only [Pdlv.decItems]
      exact Same.bind (item_same c r i hw'.1 bs st) (fun x => items_same c r hw'.2 b x.2 x.1)
    cases hr : runLen i with
    | none => exact step false
    | some n =>
      simp only
      cases hri : runInfo (.cons i r) with
      | mk total quiet =>
        simp only
        split
        · rename_i hc
          simp only [Bool.and_eq_true, Bool.not_eq_true', decide_eq_true_eq] at hc
          apply same_not_ok_left
          intro a ha
          have := run_needs c (.cons i r) hw bs a.2 st a.1 ha
          rw [hri] at this
          simp only at this
          omega
        · exact step true
end

/-- **C13, parser side.**  For every packet or struct without parent in the class `Py.wfBody` (decidable,
    evaluated per run: no one-octet reserved-only group, payload size modifier 0, no `_padding_` after an
    unsized payload, no array size modifiers, no element-size or custom fields), both byte orders and EVERY
    byte string: the model of the parser python.rs emits accepts the input exactly when the reference decoder
    does, and with the same field values — the single length check per static run, `parse_all` on the static
    slice of a typedef field, unbounded integer arithmetic notwithstanding. -/
theorem parser_agrees_with_reference (c : Cfg) (nm : String) (items : Items) (hw : wfBody (.root nm items) = true)
    (bs : Bytes) : Same (Py.decBody c (.root nm items) bs) (Pdlv.decBody (ideal c) (.root nm items) bs) := by
  simp only [wfBody] at hw
  simp only [Py.decBody, Pdlv.decBody]
  exact Same.bind (items_same c items hw false bs DState.empty) (fun _ => Same.rfl _)

theorem parse_all_agrees_with_reference (c : Cfg) (nm : String) (items : Items) (hw : wfBody (.root nm items) = true)
    (bs : Bytes) : Same (Py.decodeFull c (.root nm items) bs) (Pdlv.decodeFull (ideal c) (.root nm items) bs) := by
  simp only [Py.decodeFull, Pdlv.decodeFull]
  exact Same.bind (parser_agrees_with_reference c nm items hw bs) (fun _ => Same.rfl _)

end Py
end Pdlv
