/-
  Byte- and bit-level lemmas: little/big-endian round trips, bit-field packing.
-/
import Pdlv.Bits

namespace Pdlv

theorem toLE_length (k n : Nat) : (toLE k n).length = k := by
  induction k generalizing n with
  | zero => rfl
  | succ k ih => simp [toLE, ih]

theorem toBE_length (k n : Nat) : (toBE k n).length = k := by
  simp [toBE, toLE_length]

theorem fromLE_toLE (k n : Nat) : fromLE (toLE k n) = n % 2 ^ (8 * k) := by
  induction k generalizing n with
  | zero => simp [toLE, fromLE, Nat.mod_one]
  | succ k ih =>
    simp only [toLE, fromLE, ih]
    have h8 : (UInt8.ofNat (n % 256)).toNat = n % 256 := by
      simp [UInt8.toNat_ofNat']
    rw [h8]
    have : 2 ^ (8 * (k + 1)) = 256 * 2 ^ (8 * k) := by
      rw [Nat.mul_add, Nat.pow_add]; simp [Nat.mul_comm]
    rw [this, Nat.mod_mul]

theorem fromLE_toLE_of_lt (k n : Nat) (h : n < 2 ^ (8 * k)) : fromLE (toLE k n) = n := by
  rw [fromLE_toLE, Nat.mod_eq_of_lt h]

theorem fromBE_toBE (k n : Nat) : fromBE (toBE k n) = n % 2 ^ (8 * k) := by
  simp [fromBE, toBE, fromLE_toLE]

theorem fromLE_lt (bs : Bytes) : fromLE bs < 2 ^ (8 * bs.length) := by
  induction bs with
  | nil => simp [fromLE]
  | cons b bs ih =>
    simp only [fromLE, List.length_cons]
    have hb : b.toNat < 256 := b.toNat_lt
    have : 2 ^ (8 * (bs.length + 1)) = 256 * 2 ^ (8 * bs.length) := by
      rw [Nat.mul_add, Nat.pow_add]; simp [Nat.mul_comm]
    rw [this]
    have hp : 0 < 2 ^ (8 * bs.length) := Nat.two_pow_pos _
    calc b.toNat + 256 * fromLE bs < 256 + 256 * fromLE bs := by omega
      _ = 256 * (fromLE bs + 1) := by rw [Nat.mul_add]; omega
      _ ≤ 256 * 2 ^ (8 * bs.length) := Nat.mul_le_mul_left _ (by omega)

theorem toLE_fromLE (bs : Bytes) : toLE bs.length (fromLE bs) = bs := by
  induction bs with
  | nil => rfl
  | cons b bs ih =>
    simp only [List.length_cons, toLE, fromLE]
    have hb : b.toNat < 256 := b.toNat_lt
    have h1 : (b.toNat + 256 * fromLE bs) % 256 = b.toNat := by
      rw [Nat.add_mul_mod_self_left]; exact Nat.mod_eq_of_lt hb
    have h2 : (b.toNat + 256 * fromLE bs) / 256 = fromLE bs := by
      rw [Nat.add_mul_div_left _ _ (by decide : 0 < 256), Nat.div_eq_of_lt hb, Nat.zero_add]
    rw [h1, h2, ih]
    simp

/-- **C17 kernel**: the big-endian bytes are the little-endian bytes reversed. -/
theorem toBE_eq_reverse_toLE (k n : Nat) : toBE k n = (toLE k n).reverse := rfl

/-! ### Bit-field packing -/

/-- pack a list of (width, value), first field in the least significant bits -/
def pack : List (Nat × Nat) → Nat
  | [] => 0
  | (w, v) :: fs => v + 2 ^ w * pack fs

def widthSum : List (Nat × Nat) → Nat
  | [] => 0
  | (w, _) :: fs => w + widthSum fs

/-- extract the fields again: `(chunk >> shift) & mask(w)` at running shifts -/
def unpack : List Nat → Nat → List Nat
  | [], _ => []
  | w :: ws, n => (n % 2 ^ w) :: unpack ws (n / 2 ^ w)

def InRange : List (Nat × Nat) → Prop
  | [] => True
  | (w, v) :: fs => v < 2 ^ w ∧ InRange fs

theorem unpack_pack (fs : List (Nat × Nat)) (h : InRange fs) :
    unpack (fs.map (·.1)) (pack fs) = fs.map (·.2) := by
  induction fs with
  | nil => rfl
  | cons f fs ih =>
    obtain ⟨w, v⟩ := f
    simp only [InRange] at h
    simp only [List.map, pack, unpack]
    have hp : 0 < 2 ^ w := Nat.two_pow_pos w
    have h1 : (v + 2 ^ w * pack fs) % 2 ^ w = v := by
      rw [Nat.add_mul_mod_self_left]; exact Nat.mod_eq_of_lt h.1
    have h2 : (v + 2 ^ w * pack fs) / 2 ^ w = pack fs := by
      rw [Nat.add_mul_div_left _ _ hp, Nat.div_eq_of_lt h.1, Nat.zero_add]
    rw [h1, h2, ih h.2]

theorem pack_lt (fs : List (Nat × Nat)) (h : InRange fs) : pack fs < 2 ^ widthSum fs := by
  induction fs with
  | nil => simp [pack, widthSum]
  | cons f fs ih =>
    obtain ⟨w, v⟩ := f
    simp only [InRange] at h
    simp only [pack, widthSum, Nat.pow_add]
    have := ih h.2
    have hp : 0 < 2 ^ w := Nat.two_pow_pos w
    calc v + 2 ^ w * pack fs < 2 ^ w + 2 ^ w * pack fs := by omega
      _ = 2 ^ w * (pack fs + 1) := by rw [Nat.mul_add]; omega
      _ ≤ 2 ^ w * 2 ^ widthSum fs := Nat.mul_le_mul_left _ (by omega)

/-- the Rust encoder's formulation: OR of values shifted to running offsets
    (`(v as uN) << off | …`, encoder.rs `pack_bit_fields`) -/
def packOr : Nat → List (Nat × Nat) → Nat
  | _, [] => 0
  | off, (w, v) :: fs => (v <<< off) ||| packOr (off + w) fs

theorem packOr_eq (off : Nat) (fs : List (Nat × Nat)) (h : InRange fs) :
    packOr off fs = 2 ^ off * pack fs := by
  induction fs generalizing off with
  | nil => simp [packOr, pack]
  | cons f fs ih =>
    obtain ⟨w, v⟩ := f
    simp only [InRange] at h
    simp only [packOr, pack]
    rw [ih _ h.2, Nat.shiftLeft_eq]
    have hv : v * 2 ^ off < 2 ^ (off + w) := by
      rw [Nat.pow_add, Nat.mul_comm]
      exact Nat.mul_lt_mul_of_pos_left h.1 (Nat.two_pow_pos off)
    rw [Nat.or_comm, ← Nat.two_pow_add_eq_or_of_lt hv, Nat.pow_add, Nat.mul_add, Nat.mul_assoc,
        Nat.mul_comm v]
    omega

/-- the model's additive accumulation (`acc + x * 2^shift`) equals `pack` -/
def packAcc : Nat → Nat → List (Nat × Nat) → Nat
  | _, acc, [] => acc
  | shift, acc, (w, v) :: fs => packAcc (shift + w) (acc + v * 2 ^ shift) fs

theorem packAcc_eq (shift acc : Nat) (fs : List (Nat × Nat)) :
    packAcc shift acc fs = acc + 2 ^ shift * pack fs := by
  induction fs generalizing shift acc with
  | nil => simp [packAcc, pack]
  | cons f fs ih =>
    obtain ⟨w, v⟩ := f
    simp only [packAcc, pack, ih, Nat.pow_add, Nat.mul_add]
    rw [Nat.mul_comm v, Nat.mul_assoc, Nat.add_assoc]

end Pdlv
