/-
  Pdlv.Lemmas.CxxView — the model of the view parser the C++ back end emits, with its getters
  (`Pdlv.Cxx.viewDecode`), refines the reference `decode_full` on the layouts `Cxx.vwfBody`: a view is
  valid exactly when the reference accepts the octets, the getters then return the reference's field values,
  and no slice accessor is called beyond its slice — neither by the parser nor by a getter.
-/
import Pdlv.Lemmas.CxxAgree
import Pdlv.Lemmas.Exact

namespace Pdlv
namespace Cxx

open Py (ideal)

/-- the lenient loop of a counted getter reads exactly `n` elements when the slice holds them -/
theorem lenientRaw_some (e : Endian) (w' : Nat) (hw : 0 < w' / 8) :
    ∀ (n fuel : Nat) (bs : Bytes), n * (w' / 8) ≤ bs.length → n < fuel →
      lenientRaw e w' fuel (some n) bs = .ok (vals e w' n bs)
  | 0, fuel + 1, bs, _, _ => by simp [lenientRaw, vals]
  | 0, 0, _, _, hf => by omega
  | n + 1, 0, _, _, hf => by omega
  | n + 1, fuel + 1, bs, h, hf => by
    have e1 : (n + 1) * (w' / 8) = n * (w' / 8) + w' / 8 := by rw [Nat.add_mul]; omega
    have hwl : w' / 8 ≤ bs.length := by omega
    have hnl : ¬ bs.length < w' / 8 := by omega
    have hdl : (bs.drop (w' / 8)).length < bs.length := by rw [List.length_drop]; omega
    simp only [lenientRaw, beq_iff_eq, Option.some.injEq, Nat.add_eq_zero_iff, Nat.succ_ne_self, and_false, ↓reduceIte, hnl,
      getUint_eq e w' bs hwl, Outcome.bind, hdl, Option.map_some, Nat.add_sub_cancel]
    rw [lenientRaw_some e w' hw n fuel (bs.drop (w' / 8)) (by rw [List.length_drop]; omega) (by omega)]
    rfl

/-- the lenient loop of an uncounted getter reads the whole slice when it holds a whole number of elements -/
theorem lenientRaw_none (e : Endian) (w' : Nat) (hw : 0 < w' / 8) :
    ∀ (k fuel : Nat) (bs : Bytes), bs.length = k * (w' / 8) → k < fuel →
      lenientRaw e w' fuel none bs = .ok (vals e w' k bs)
  | 0, fuel + 1, bs, h, _ => by
    have : bs.length < w' / 8 := by omega
    simp [lenientRaw, vals, this]
  | 0, 0, _, _, hf => by omega
  | k + 1, 0, _, _, hf => by omega
  | k + 1, fuel + 1, bs, h, hf => by
    have e1 : (k + 1) * (w' / 8) = k * (w' / 8) + w' / 8 := by rw [Nat.add_mul]; omega
    have hwl : w' / 8 ≤ bs.length := by omega
    have hnl : ¬ bs.length < w' / 8 := by omega
    have hdl : (bs.drop (w' / 8)).length < bs.length := by rw [List.length_drop]; omega
    simp only [lenientRaw, beq_iff_eq, reduceCtorEq, ↓reduceIte, hnl, getUint_eq e w' bs hwl, Outcome.bind, hdl,
      Option.map_none]
    rw [lenientRaw_none e w' hw k fuel (bs.drop (w' / 8)) (by rw [List.length_drop]; omega) (by omega)]
    rfl

/-! ### the relation between a view parser and the reference -/

/-- same acceptance and state with no deferred getter hazard; a hazard only where the reference stops too -/
def RefV (p : Dec ((DState × Option Hazard) × Bytes)) (q : Dec (DState × Bytes)) : Prop :=
  (∀ st r, p = .ok ((st, none), r) ↔ q = .ok (st, r)) ∧ (∀ st h r, p ≠ .ok ((st, some h), r)) ∧
  (∀ h, p = .panic h → ∃ h', q = .panic h')

theorem RefV.of_refines {p q : Dec (DState × Bytes)} (h : Refines p q) :
    RefV (p.bind fun (st', r) => .ok ((st', none), r)) q := by
  refine ⟨fun st r => ⟨fun hp => ?_, fun hq => ?_⟩, fun st hz r hp => ?_, fun hz hp => ?_⟩
  · obtain ⟨a, ha, hb⟩ := bind_ok _ _ _ hp
    simp only [Outcome.ok.injEq, Prod.mk.injEq] at hb
    rw [← hb.1.1, ← hb.2]
    exact (h.1 a).mp ha
  · rw [(h.1 (st, r)).mpr hq]; rfl
  · obtain ⟨a, _, hb⟩ := bind_ok _ _ _ hp
    simp at hb
  · cases hpp : p with
    | ok a => rw [hpp] at hp; simp [Outcome.bind] at hp
    | err e => rw [hpp] at hp; simp [Outcome.bind] at hp
    | panic h0 => exact h.2 h0 hpp

theorem RefV.bind {p : Dec ((DState × Option Hazard) × Bytes)} {q : Dec (DState × Bytes)}
    {f : (DState × Option Hazard) × Bytes → Dec ((DState × Option Hazard) × Bytes)}
    {g : DState × Bytes → Dec (DState × Bytes)} (h : RefV p q)
    (hf : ∀ st r, q = .ok (st, r) → RefV (f ((st, none), r)) (g (st, r))) : RefV (p.bind f) (q.bind g) := by
  refine ⟨fun st r => ⟨fun hp => ?_, fun hq => ?_⟩, fun st hz r hp => ?_, fun hz hp => ?_⟩
  · obtain ⟨⟨⟨s1, z1⟩, r1⟩, ha, hb⟩ := bind_ok _ _ _ hp
    cases z1 with
    | some z => exact absurd ha (h.2.1 s1 z r1)
    | none =>
      have hq := (h.1 s1 r1).mp ha
      rw [hq]
      exact ((hf s1 r1 hq).1 st r).mp hb
  · obtain ⟨⟨s1, r1⟩, ha, hb⟩ := bind_ok _ _ _ hq
    have hp := (h.1 s1 r1).mpr ha
    rw [hp]
    exact ((hf s1 r1 ha).1 st r).mpr hb
  · obtain ⟨⟨⟨s1, z1⟩, r1⟩, ha, hb⟩ := bind_ok _ _ _ hp
    cases z1 with
    | some z => exact absurd ha (h.2.1 s1 z r1)
    | none =>
      have hq := (h.1 s1 r1).mp ha
      exact (hf s1 r1 hq).2.1 st hz r hb
  · cases hpp : p with
    | ok a =>
      obtain ⟨⟨s1, z1⟩, r1⟩ := a
      rw [hpp] at hp
      cases z1 with
      | some z => exact absurd hpp (h.2.1 s1 z r1)
      | none =>
        have hq := (h.1 s1 r1).mp hpp
        obtain ⟨h', hg⟩ := (hf s1 r1 hq).2.2 hz hp
        exact ⟨h', by rw [hq]; exact hg⟩
    | err e => rw [hpp] at hp; simp [Outcome.bind] at hp
    | panic h0 =>
      obtain ⟨h', hq⟩ := h.2.2 h0 hpp
      exact ⟨h', by rw [hq]; exact Eq.refl _⟩

theorem RefV.err_left (e : DecErr) (q : Dec (DState × Bytes)) (hq : ∀ a, q ≠ .ok a) : RefV (.err e) q :=
  ⟨fun st r => ⟨fun h => (by cases h), fun h => absurd h (hq _)⟩, fun _ _ _ h => (by cases h), fun _ h => (by cases h)⟩

theorem refv_ok (s : DState) (r : Bytes) : RefV (.ok ((s, none), r)) (.ok (s, r)) :=
  ⟨fun st r' => by simp, fun st hz r' hh => by simp at hh, fun hz hh => (by cases hh)⟩

theorem refv_ite (p : Prop) [Decidable p] (e1 e2 : DecErr) (s : DState) (r : Bytes) :
    RefV (if p then .err e1 else .ok ((s, none), r)) (if p then .err e2 else .ok (s, r)) := by
  by_cases h : p
  · simp only [h, ↓reduceIte]
    exact RefV.err_left _ _ (fun _ hh => (by cases hh))
  · simp only [h, ↓reduceIte]
    exact ⟨fun st r' => by simp, fun st hz r' hh => by simp at hh, fun hz hh => (by cases hh)⟩

theorem refv_panic (h1 h2 : Hazard) : RefV (.panic h1) (.panic h2) :=
  ⟨fun _ _ => ⟨fun h => (by cases h), fun h => (by cases h)⟩, fun _ _ _ h => (by cases h), fun _ _ => ⟨h2, Eq.refl _⟩⟩

theorem refv_err (e1 e2 : DecErr) : RefV (.err e1) (.err e2) :=
  RefV.err_left _ _ (fun _ h => (by cases h))

/-- a scalar array in a view: the size checks of the parser and the lenient getter together are the reference -/
theorem array_refv (c : Cfg) (all rest : Items) (id : String) (w' w : Nat) (shape : Shape) (bs : Bytes) (st : DState)
    (hb : bs.length < usizeMax) (hw : w = w' / 8) (hpos : 0 < w) (hall : ModFree all) (hid : id ≠ "_payload_")
    (hcw : shape = .countField → ∃ cc, countWidth id all = some cc ∧ cc ≤ 16 ∧ w * 65535 < 2 ^ 31) :
    RefV (viewItem c all rest (.array id (.scalar w') (.static w) shape none) bs (st, none))
      (Pdlv.decItem (ideal c) (.array id (.scalar w') (.static w) shape none) bs st) := by
  subst hw
  simp only [viewItem, Pdlv.decItem, afterPad, withPad, ideal, decTy_scalar, subModifier_id all hall id hid]
  cases shape with
  | static n =>
    have hk : arrayKeysOk (.static (w' / 8)) (.static n) (st.ctx.get (.count id)) (st.ctx.get (.size id)) (st.ctx.get (.esize id)) = true := rfl
    simp only [hk, Bool.not_true, Bool.false_eq_true, ↓reduceIte, arrayLite, decArray]
    by_cases hl : bs.length < n * (w' / 8)
    · simp only [hl, ↓reduceIte, Outcome.bind]; exact refv_err _ _
    · have hle : n * (w' / 8) ≤ bs.length := by omega
      have hg : getter c (.scalar w') (.static n) (st.ctx.get (.count id)) (bs.take (n * (w' / 8))) = .ok (vals c.e w' n bs) := by
        simp only [getter]
        have : (fun bs => (rawRead c.e w' bs).bind fun x => Outcome.ok (Value.int x.1, x.2)) = scalarEl c.e w' := by
          funext b; simp [rawRead_eq, scalarEl]
        rw [this, decRepeat_vals c.e w' n _ (by rw [List.length_take]; omega)]
        simp only [Outcome.bind, vals_take c.e w' n bs _ (Nat.le_refl _)]
      simp only [hl, ↓reduceIte, Outcome.bind, hg, decRepeat_vals c.e w' n bs hle, unwrapArr, vals_length]
      exact refv_ok _ _
  | countField =>
    obtain ⟨cc, hcc, hc16, hw65⟩ := hcw rfl
    cases hcnt : st.ctx.get (.count id) with
    | none =>
      simp only [arrayKeysOk, hcnt, Option.isSome_none, Bool.false_and, Bool.not_false, ↓reduceIte, arrayLite, Outcome.bind]
      exact refv_panic _ _
    | some n =>
      simp only [arrayKeysOk, hcnt, Option.isSome_some, Bool.true_and, Bool.not_true, Bool.false_eq_true, ↓reduceIte,
        arrayLite, decArray, hcc, mulCount, hc16, hw65, Outcome.bind, umulM]
      by_cases hnw : n * (w' / 8) < usizeMax
      · simp only [hnw, ↓reduceIte, Nat.mul_comm (w' / 8) n]
        by_cases hl : bs.length < n * (w' / 8)
        · simp only [hl, ↓reduceIte]; exact refv_err _ _
        · have hle : n * (w' / 8) ≤ bs.length := by omega
          have hg : getter c (.scalar w') .countField (some n) (bs.take (n * (w' / 8))) = .ok (vals c.e w' n bs) := by
            simp only [getter]
            rw [lenientRaw_some c.e w' hpos n _ _ (by rw [List.length_take]; omega)
              (by rw [List.length_take, Nat.min_eq_left hle]
                  have : n ≤ n * (w' / 8) := Nat.le_mul_of_pos_right n hpos
                  omega)]
            rw [vals_take c.e w' n bs _ (Nat.le_refl _)]
          simp only [hl, ↓reduceIte, hg, decRepeat_vals c.e w' n bs hle]
          exact refv_ok _ _
      · simp only [hnw, ↓reduceIte]
        rw [if_pos (by rw [Nat.mul_comm]; omega)]
        exact refv_err _ _
  | sizeField =>
    cases hsiz : st.ctx.get (.size id) with
    | none =>
      simp only [arrayKeysOk, hsiz, Option.isSome_none, Bool.false_and, Bool.not_false, ↓reduceIte, arrayLite, Outcome.bind]
      exact refv_panic _ _
    | some sz =>
      have hw0 : ¬ (w' / 8 = 0) := by omega
      simp only [arrayKeysOk, hsiz, Option.isSome_some, Bool.true_and, Bool.not_true, Bool.false_eq_true, ↓reduceIte,
        arrayLite, decArray, hw0]
      by_cases hl : bs.length < sz
      · simp only [hl, ↓reduceIte, Outcome.bind]; exact refv_err _ _
      · by_cases hm : sz % (w' / 8) ≠ 0
        · simp only [hl, ↓reduceIte, hm, ne_eq, not_false_eq_true, Outcome.bind]; exact refv_err _ _
        · have hm' : sz % (w' / 8) = 0 := by omega
          have hdiv : sz / (w' / 8) * (w' / 8) = sz := Nat.div_mul_cancel (Nat.dvd_of_mod_eq_zero hm')
          have hle : sz / (w' / 8) * (w' / 8) ≤ bs.length := by omega
          have hg : getter c (.scalar w') .sizeField (st.ctx.get (.count id)) (bs.take sz) = .ok (vals c.e w' (sz / (w' / 8)) bs) := by
            simp only [getter]
            rw [lenientRaw_none c.e w' hpos (sz / (w' / 8)) _ _ (by rw [List.length_take, hdiv]; omega)
              (by rw [List.length_take]
                  have : sz / (w' / 8) ≤ sz := Nat.div_le_self _ _
                  omega)]
            rw [vals_take c.e w' _ bs sz (by omega)]
          simp only [hl, ↓reduceIte, hm', ne_eq, not_true_eq_false, Outcome.bind, hg,
            decRepeat_vals c.e w' (sz / (w' / 8)) bs hle, hdiv]
          exact refv_ok _ _
  | unknown =>
    have hk : arrayKeysOk (.static (w' / 8)) .unknown (st.ctx.get (.count id)) (st.ctx.get (.size id)) (st.ctx.get (.esize id)) = true := rfl
    have hw0 : ¬ (w' / 8 = 0) := by omega
    simp only [hk, Bool.not_true, Bool.false_eq_true, ↓reduceIte, arrayLite, decArray, hw0]
    by_cases hm : bs.length % (w' / 8) ≠ 0
    · simp only [hm, ne_eq, not_false_eq_true, ↓reduceIte, Outcome.bind]; exact refv_err _ _
    · have hm' : bs.length % (w' / 8) = 0 := by omega
      have hdiv : bs.length / (w' / 8) * (w' / 8) = bs.length := Nat.div_mul_cancel (Nat.dvd_of_mod_eq_zero hm')
      have hg : getter c (.scalar w') .unknown (st.ctx.get (.count id)) bs = .ok (vals c.e w' (bs.length / (w' / 8)) bs) := by
        simp only [getter]
        rw [lenientRaw_none c.e w' hpos (bs.length / (w' / 8)) _ bs hdiv.symm
          (by have : bs.length / (w' / 8) ≤ bs.length := Nat.div_le_self _ _
              omega)]
      simp only [hm', ne_eq, not_true_eq_false, ↓reduceIte, Outcome.bind, hg,
        decRepeat_vals c.e w' (bs.length / (w' / 8)) bs (Nat.le_of_eq hdiv), hdiv, List.drop_length]
      exact refv_ok _ _

/-- the same array in a padded slot it fits -/
theorem padded_scalar_refv (c : Cfg) (all rest : Items) (id : String) (w' n p : Nat) (hnp : n * (w' / 8) ≤ p)
    (hall : ModFree all) (hid : id ≠ "_payload_") (bs : Bytes) (st : DState) :
    RefV (viewItem c all rest (.array id (.scalar w') (.static (w' / 8)) (.static n) (some p)) bs (st, none))
      (Pdlv.decItem (ideal c) (.array id (.scalar w') (.static (w' / 8)) (.static n) (some p)) bs st) := by
  have hk : arrayKeysOk (.static (w' / 8)) (.static n) (st.ctx.get (.count id)) (st.ctx.get (.size id)) (st.ctx.get (.esize id)) = true := rfl
  simp only [viewItem, Pdlv.decItem, afterPad, withPad, ideal, decTy_scalar, subModifier_id all hall id hid, hk, Bool.not_true,
    Bool.false_eq_true, ↓reduceIte, arrayLite, decArray]
  by_cases hl : bs.length < n * (w' / 8)
  · have hlp : bs.length < p := by omega
    simp only [hl, hlp, ↓reduceIte, Outcome.bind]
    exact refv_err _ _
  · have hle : n * (w' / 8) ≤ bs.length := by omega
    have hg : getter c (.scalar w') (.static n) (st.ctx.get (.count id)) (bs.take (n * (w' / 8))) = .ok (vals c.e w' n bs) := by
      simp only [getter]
      have : (fun bs => (rawRead c.e w' bs).bind fun x => Outcome.ok (Value.int x.1, x.2)) = scalarEl c.e w' := by
        funext b; simp [rawRead_eq, scalarEl]
      rw [this, decRepeat_vals c.e w' n _ (by rw [List.length_take]; omega)]
      simp only [Outcome.bind, vals_take c.e w' n bs _ (Nat.le_refl _)]
    simp only [hl, ↓reduceIte, Outcome.bind, List.length_drop, hg]
    have hcons : bs.length - (bs.length - n * (w' / 8)) = n * (w' / 8) := by omega
    rw [hcons]
    by_cases hlp : bs.length < p
    · have h1 : n * (w' / 8) < p := by omega
      have h2 : bs.length - n * (w' / 8) < p - n * (w' / 8) := by omega
      simp only [h1, h2, hlp, ↓reduceIte]
      exact refv_err _ _
    · have htk : n * (w' / 8) ≤ (bs.take p).length := by rw [List.length_take]; omega
      have hnl : ¬ (bs.take p).length < n * (w' / 8) := by omega
      simp only [hlp, ↓reduceIte, hnl, decRepeat_vals c.e w' n (bs.take p) htk, unwrapArr, vals_length,
        vals_take c.e w' n bs p hnp]
      by_cases h1 : n * (w' / 8) < p
      · have h2 : ¬ (bs.length - n * (w' / 8) < p - n * (w' / 8)) := by omega
        simp only [h1, h2, ↓reduceIte, List.drop_drop]
        have : n * (w' / 8) + (p - n * (w' / 8)) = p := by omega
        rw [this]
        exact refv_ok _ _
      · have : n * (w' / 8) = p := by omega
        simp only [this, Nat.lt_irrefl, ↓reduceIte]
        exact refv_ok _ _

/-! ### fields, field lists, views -/

theorem item_refv (c : Cfg) (all rest : Items) (hall : ModFree all) : ∀ (i : Item), vwfItem all rest i = true → ∀ (bs : Bytes) (st : DState),
    bs.length < usizeMax → RefV (viewItem c all rest i bs (st, none)) (Pdlv.decItem (ideal c) i bs st)
  | .chunk fs, hw, bs, st, hb => by
    simp only [vwfItem] at hw
    simp only [viewItem]
    exact RefV.of_refines (item_ref c all rest hall (.chunk fs) hw bs st hb)
  | .typedef id ty sb, hw, bs, st, hb => by
    simp only [vwfItem] at hw
    simp only [viewItem]
    exact RefV.of_refines (item_ref c all rest hall (.typedef id ty sb) hw bs st hb)
  | .optional id ty cid cval, hw, bs, st, hb => by
    simp only [vwfItem] at hw
    simp only [viewItem]
    exact RefV.of_refines (item_ref c all rest hall (.optional id ty cid cval) hw bs st hb)
  | .payload mode, hw, bs, st, hb => by
    simp only [vwfItem] at hw
    simp only [viewItem]
    exact RefV.of_refines (item_ref c all rest hall (.payload mode) hw bs st hb)
  | .array id elem ew shape pad, hw, bs, st, hb => by
    simp only [vwfItem, Bool.and_eq_true, bne_iff_ne, ne_eq] at hw
    obtain ⟨⟨hpad, hidp⟩, hel⟩ := hw
    cases pad with
    | some p =>
      cases elem with
      | scalar w' =>
        cases ew with
        | static w =>
          cases shape with
          | static n =>
            simp only [padOk, Bool.and_eq_true, beq_iff_eq, decide_eq_true_eq] at hpad
            obtain ⟨hw8, hnp⟩ := hpad
            subst hw8
            exact padded_scalar_refv c all rest id w' n p hnp hall hidp bs st
          | _ => simp [padOk] at hpad
        | _ => simp [padOk] at hpad
      | _ => simp [padOk] at hpad
    | none =>
    cases elem with
    | scalar w' =>
      cases ew with
      | static w =>
        simp only [Bool.and_eq_true, beq_iff_eq, decide_eq_true_eq] at hel
        obtain ⟨⟨hw, hpos⟩, hcnt⟩ := hel
        refine array_refv c all rest id w' w shape bs st hb hw hpos hall hidp ?_
        intro hs
        subst hs
        simp only [countOk] at hcnt
        cases hcc : countWidth id all with
        | none => simp [hcc] at hcnt
        | some cc =>
          simp only [hcc, Bool.and_eq_true, decide_eq_true_eq] at hcnt
          exact ⟨cc, rfl, hcnt.1, hcnt.2⟩
      | unknown => simp at hel
      | dynamic => simp at hel
    | enumTy nm en => simp at hel
    | custom nm w => simp at hel
    | struct nm b => simp at hel

/-- the class of views is inside the class of struct parsers, field by field (arrays apart) -/
theorem items_refv (c : Cfg) (all : Items) (hall : ModFree all) : ∀ (is : Items), vwfItems all is = true → ∀ (inRun : Bool) (bs : Bytes) (st : DState),
    bs.length < usizeMax → RefV (viewItems c all is inRun bs (st, none)) (Pdlv.decItems (ideal c) is bs st)
  | .nil, _, _, bs, st, _ => refv_ok st bs
  | .cons i r, hw, inRun, bs, st, hb => by
    simp only [vwfItems, Bool.and_eq_true] at hw
    simp only [viewItems]
    have step : ∀ (b : Bool), RefV ((viewItem c all r i bs (st, none)).bind fun x => viewItems c all r b x.2 x.1)
        (Pdlv.decItems (ideal c) (.cons i r) bs st) := by
      intro b
      simp only [Pdlv.decItems]
      refine RefV.bind (item_refv c all r hall i hw.1 bs st hb) (fun st1 r1 hx => ?_)
      have := decItem_consumes (ideal c) i bs st st1 r1 hx
      exact items_refv c all hall r hw.2 b r1 st1 (by omega)
    cases hr : runLen i with
    | none => exact step false
    | some n =>
      simp only
      split
      · rename_i hc
        simp only [Bool.and_eq_true, Bool.not_eq_true', decide_eq_true_eq] at hc
        apply RefV.err_left
        intro a ha
        have := run_needs c (.cons i r) bs a.2 st a.1 ha
        omega
      · exact step true

theorem sizeField_vwf (all : Items) (id : String) :
    ∀ (is : Items), vwfItems all is = true → ∀ w m, sizeField id is = some (w, m) → id = "_payload_" ∨ m = 0
  | .nil, _, w, m, h => by simp [sizeField] at h
  | .cons i r, hw, w, m, h => by
    simp only [vwfItems, Bool.and_eq_true] at hw
    have hr := sizeField_vwf all id r hw.2
    cases i with
    | chunk fs =>
      simp only [sizeField] at h
      cases hin : sizeFieldIn id fs with
      | some x =>
        rw [hin] at h
        simp only [Option.some_or, Option.some.injEq] at h
        subst h
        exact sizeFieldIn_plain id fs (by simpa [vwfItem, wfItem] using hw.1) w m hin
      | none =>
        rw [hin] at h
        simp only [Option.none_or] at h
        exact hr w m h
    | typedef a b c' => exact hr w m (by simpa [sizeField] using h)
    | optional a b c' d => exact hr w m (by simpa [sizeField] using h)
    | payload md => exact hr w m (by simpa [sizeField] using h)
    | array a b c' d e => exact hr w m (by simpa [sizeField] using h)

/-- the view parser and the getters the C++ back end emits refine the reference `decode_full` on `Cxx.vwfBody` -/
theorem view_refines_reference (c : Cfg) (nm : String) (items : Items) (hw : vwfBody (.root nm items) = true)
    (bs : Bytes) (hb : bs.length < usizeMax) :
    Refines (viewDecode c (.root nm items) bs) (Pdlv.decodeFull (ideal c) (.root nm items) bs) := by
  simp only [vwfBody] at hw
  have h := items_refv c items (sizeField_vwf items · items hw) items hw false bs DState.empty hb
  simp only [viewDecode, Pdlv.decodeFull, Pdlv.decBody]
  constructor
  · intro v
    constructor
    · intro hp
      obtain ⟨⟨⟨s1, z1⟩, r1⟩, ha, hbb⟩ := bind_ok _ _ _ hp
      cases z1 with
      | some z => exact absurd ha (h.2.1 s1 z r1)
      | none =>
        have hq := (h.1 s1 r1).mp ha
        simp only at hbb
        split at hbb
        · cases hbb
        · rename_i hr
          simp only [Outcome.ok.injEq] at hbb
          have hr' : r1.isEmpty = true := by simpa using hr
          simp only [hq, Outcome.bind, hr', ↓reduceIte]
          rw [← hbb]
          cases s1.payload <;> rfl
    · intro hq
      obtain ⟨⟨v1, r1⟩, ha, hbb⟩ := bind_ok _ _ _ hq
      obtain ⟨⟨s1, r2⟩, hc, hd⟩ := bind_ok _ _ _ ha
      simp only [Outcome.ok.injEq, Prod.mk.injEq] at hd
      have hp := (h.1 s1 r2).mpr hc
      simp only at hbb
      split at hbb
      · rename_i hr
        simp only [Outcome.ok.injEq] at hbb
        have hr2 : r2.isEmpty = true := by rw [hd.2]; exact hr
        simp only [hp, Outcome.bind, hr2, Bool.not_true, Bool.false_eq_true, ↓reduceIte]
        rw [← hbb, ← hd.1]
        cases s1.payload <;> rfl
      · cases hbb
  · intro hz hp
    cases hpp : viewItems c items items false bs (DState.empty, none) with
    | panic h0 =>
      obtain ⟨h', hq⟩ := h.2.2 h0 hpp
      exact ⟨h', by rw [hq]; exact Eq.refl _⟩
    | err e => rw [hpp] at hp; simp [Outcome.bind] at hp
    | ok a =>
      obtain ⟨⟨s1, z1⟩, r1⟩ := a
      cases z1 with
      | some z => exact absurd hpp (h.2.1 s1 z r1)
      | none =>
        rw [hpp] at hp
        simp only [Outcome.bind] at hp
        split at hp <;> cases hp

end Cxx
end Pdlv
