/-
  Pdlv.Lemmas.PySpecAgree — whatever the try-each-child specialization of the Python back end returns
  (`Pdlv.PySpec`) is reached by the reference's `decode_partial`, step by step, with the same field values; and
  when it returns the packet itself, the reference accepts none of the children it tried.
-/
import Pdlv.PySpec
import Pdlv.Lemmas.PyAgree

namespace Pdlv
namespace PySpec

open Py (Same ideal)

/-- the reference's `Child::decode_partial(&parent)` for a node of the tree -/
def refChild (c : Cfg) : Body → Value → Dec Value
  | .derived _ parent cs _ items, pv =>
    decPartialWith (fun bs => Pdlv.decItems (ideal c) items bs DState.empty) parent cs pv
  | .root .., _ => .panic .badLayout

/-- `decode_partial` is a congruence in the parser of the own fields -/
theorem decPartialWith_same (f g : Bytes → Dec (DState × Bytes)) (h : ∀ bs, Same (f bs) (g bs))
    (parent : Body) (cs : List (String × Nat)) (pv : Value) :
    Same (decPartialWith f parent cs pv) (decPartialWith g parent cs pv) := by
  unfold decPartialWith
  simp only
  split
  · exact Same.rfl _
  · split
    · exact Same.bind (h _) (fun _ => Same.rfl _)
    · exact Same.rfl _

/-- the reference reaches packet `T` with value `v` from this node, one `decode_partial` per level -/
inductive Reaches (c : Cfg) : Node → Value → String → Value → Prop
  | here (b : Body) (e : List (String × Nat)) (ks : List Node) (pv v : Value) :
      refChild c b pv = .ok v → Reaches c (.mk b e ks) pv (bodyName b) v
  | down (b : Body) (e : List (String × Nat)) (ks : List Node) (pv v1 : Value) (k : Node) (T : String) (v : Value) :
      refChild c b pv = .ok v1 → k ∈ ks → Reaches c k v1 T v → Reaches c (.mk b e ks) pv T v

theorem step_same (c : Cfg) (parent : Body) (cs : List (String × Nat)) (items : Items) (hw : Py.wfItems items = true)
    (pv : Value) :
    Same (decPartialWith (fun bs => Py.decItems c items false bs DState.empty) parent cs pv)
      (decPartialWith (fun bs => Pdlv.decItems (ideal c) items bs DState.empty) parent cs pv) :=
  decPartialWith_same _ _ (fun bs => Py.items_same c items hw false bs DState.empty) parent cs pv

mutual
theorem child_sound (c : Cfg) : ∀ (n : Node), wfNode n = true → ∀ (pv : Value) (T : String) (v : Value),
    child c n pv = .ok (T, v) → Reaches c n pv T v
  | .mk (.derived nm parent cs allCs items) extra ks, hw, pv, T, v, h => by
    simp only [wfNode, Bool.and_eq_true, List.isEmpty_iff] at hw
    obtain ⟨⟨he, hwi⟩, hwk⟩ := hw
    subst he
    simp only [child, List.append_nil] at h
    obtain ⟨v1, h1, h2⟩ := bind_ok _ _ _ h
    have hr : refChild c (.derived nm parent cs allCs items) pv = .ok v1 := (step_same c parent cs items hwi pv v1).mp h1
    cases hk : kids c ks v1 with
    | none =>
      simp only [hk, Outcome.ok.injEq, Prod.mk.injEq] at h2
      rw [← h2.1, ← h2.2]
      exact Reaches.here _ _ _ _ _ hr
    | some r =>
      simp only [hk, Outcome.ok.injEq] at h2
      subst h2
      obtain ⟨k, hmem, hreach⟩ := kids_sound c ks hwk v1 T v hk
      exact Reaches.down _ _ _ _ _ k T v hr hmem hreach
  | .mk (.root nm items) extra ks, _, pv, T, v, h => by simp [child] at h

theorem kids_sound (c : Cfg) : ∀ (ks : List Node), wfNodes ks = true → ∀ (pv : Value) (T : String) (v : Value),
    kids c ks pv = some (T, v) → ∃ k, k ∈ ks ∧ Reaches c k pv T v
  | [], _, pv, T, v, h => by simp [kids] at h
  | k :: ks, hw, pv, T, v, h => by
    simp only [wfNodes, Bool.and_eq_true] at hw
    simp only [kids] at h
    cases hc : child c k pv with
    | ok r =>
      simp only [hc, Option.some.injEq] at h
      subst h
      exact ⟨k, List.mem_cons_self .., child_sound c k hw.1 pv T v hc⟩
    | err e =>
      simp only [hc] at h
      obtain ⟨k', hm, hr⟩ := kids_sound c ks hw.2 pv T v h
      exact ⟨k', List.mem_cons_of_mem _ hm, hr⟩
    | panic q =>
      simp only [hc] at h
      obtain ⟨k', hm, hr⟩ := kids_sound c ks hw.2 pv T v h
      exact ⟨k', List.mem_cons_of_mem _ hm, hr⟩
end

/-- a child the emitted parser does not return is one the reference does not accept either -/
theorem child_not_ok (c : Cfg) (nm : String) (parent : Body) (cs allCs : List (String × Nat)) (items : Items)
    (ks : List Node) (hwi : Py.wfItems items = true) (pv : Value)
    (h : ∀ r, child c (.mk (.derived nm parent cs allCs items) [] ks) pv ≠ .ok r) (v : Value) :
    refChild c (.derived nm parent cs allCs items) pv ≠ .ok v := by
  intro hr
  have h1 := (step_same c parent cs items hwi pv v).mpr hr
  have : ∃ r, child c (.mk (.derived nm parent cs allCs items) [] ks) pv = .ok r := by
    simp only [child, List.append_nil, h1, Outcome.bind]
    cases kids c ks v with
    | none => exact ⟨_, rfl⟩
    | some r => exact ⟨r, rfl⟩
  obtain ⟨r, hr'⟩ := this
  exact h r hr'

theorem kids_none (c : Cfg) : ∀ (ks : List Node) (pv : Value), kids c ks pv = none →
    ∀ k, k ∈ ks → ∀ r, child c k pv ≠ .ok r
  | [], _, _, k, hk, _ => by simp at hk
  | k0 :: ks, pv, h, k, hk, r => by
    simp only [kids] at h
    cases hc : child c k0 pv with
    | ok r0 => simp [hc] at h
    | err e =>
      simp only [hc] at h
      rcases List.mem_cons.mp hk with rfl | hm
      · rw [hc]; simp
      · exact kids_none c ks pv h k hm r
    | panic q =>
      simp only [hc] at h
      rcases List.mem_cons.mp hk with rfl | hm
      · rw [hc]; simp
      · exact kids_none c ks pv h k hm r

end PySpec
end Pdlv
