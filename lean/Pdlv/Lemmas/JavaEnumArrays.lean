/-
  Pdlv.Lemmas.JavaEnumArrays — arrays of enums in the model of the emitted Java parser: the count / size / remaining-octets
  logic of the scalar case with the enum's `fromX` per element is the reference array decoder over the enum element parser.
-/
import Pdlv.Lemmas.JavaArrays

namespace Pdlv
namespace Java

open Cxx (vals)

/-- the values a closed enum declares, as a predicate on decoded elements -/
def okVal (e : Enum.Decl) : Value → Bool
  | .int x => enumOk e x
  | _ => false

/-- the reference's element parser of an enum array -/
def enumEl (en : Endian) (e : Enum.Decl) : Bytes → Dec (Value × Bytes) :=
  fun bs => (getUint en e.width bs).bind fun (v, r) => if enumOk e v then .ok (.int v, r) else .err .enumValue

theorem decTy_enum (en : Endian) (nm : String) (e : Enum.Decl) :
    Pdlv.decTy { e := en, mode := .ideal } (.enumTy nm e) = enumEl en e := by
  funext bs
  simp [Pdlv.decTy, enumEl]

/-- `n` element reads of the emitted parser: they succeed exactly when `n` elements are there and every one is declared -/
theorem decEnums_ok_iff (en : Endian) (e : Enum.Decl) (hw : e.width = 8 ∨ e.width = 16 ∨ e.width = 32 ∨ e.width = 64) :
    ∀ (n : Nat) (bs : Bytes) (x : List Value × Bytes),
      decEnums en e n bs = .ok x ↔
        (n * (e.width / 8) ≤ bs.length ∧ (vals en e.width n bs).all (okVal e) = true ∧
          x = (vals en e.width n bs, bs.drop (n * (e.width / 8))))
  | 0, bs, x => by
    simp only [decEnums, vals, Nat.zero_mul, Nat.zero_le, List.all_nil, List.drop_zero, true_and, Outcome.ok.injEq]
    exact eq_comm
  | n + 1, bs, x => by
    have e1 : (n + 1) * (e.width / 8) = n * (e.width / 8) + e.width / 8 := by rw [Nat.add_mul]; omega
    have hpos : 0 < e.width / 8 := by rcases hw with h | h | h | h <;> rw [h] <;> decide
    simp only [decEnums]
    by_cases hl : bs.length < e.width / 8
    · simp only [hl, ↓reduceIte, reduceCtorEq, false_iff, not_and]
      intro h; omega
    · -- the element: the group read, already below 2^w
      have hnot : ¬ (e.width = 24 ∨ e.width = 40 ∨ e.width = 48 ∨ e.width = 56) := by omega
      have hlen : (bs.take (e.width / 8)).length = e.width / 8 := by rw [List.length_take]; omega
      have h8 : 8 * (e.width / 8) = e.width := by omega
      have h1 := fromLE_lt (bs.take (e.width / 8))
      have h2 := fromBE_lt (bs.take (e.width / 8))
      rw [hlen, h8] at h1 h2
      have hx : getGroup en e.width (bs.take (e.width / 8)) % 2 ^ e.width = rdInt en (bs.take (e.width / 8)) := by
        cases en with
        | little => simp only [getGroup, hnot, ↓reduceIte, rdInt]; exact Nat.mod_eq_of_lt h1
        | big => simp only [getGroup, hnot, ↓reduceIte, rdInt]; exact Nat.mod_eq_of_lt h2
      simp only [hl, ↓reduceIte, hx, vals, List.all_cons, okVal, Bool.and_eq_true]
      by_cases hok : enumOk e (rdInt en (bs.take (e.width / 8))) = true
      · simp only [hok, Bool.not_true, Bool.false_eq_true, ↓reduceIte, true_and]
        constructor
        · intro h
          obtain ⟨⟨vs, r⟩, h3, h4⟩ := bind_ok _ _ _ h
          obtain ⟨h5, h6, h7⟩ := (decEnums_ok_iff en e hw n (bs.drop (e.width / 8)) (vs, r)).mp h3
          simp only [Outcome.ok.injEq] at h4
          simp only [Prod.mk.injEq] at h7
          rw [List.length_drop] at h5
          refine ⟨by omega, h6, ?_⟩
          rw [← h4, h7.1, h7.2, List.drop_drop]
          congr 2
          omega
        · intro ⟨h5, h6, h7⟩
          have := (decEnums_ok_iff en e hw n (bs.drop (e.width / 8))
            (vals en e.width n (bs.drop (e.width / 8)), (bs.drop (e.width / 8)).drop (n * (e.width / 8)))).mpr
            ⟨by rw [List.length_drop]; omega, h6, rfl⟩
          simp only [this, Outcome.bind, h7, Outcome.ok.injEq, Prod.mk.injEq, true_and, List.drop_drop]
          congr 1
          omega
      · simp only [hok, Bool.not_false, ↓reduceIte, reduceCtorEq, false_and, and_false]

/-- the reference's `n` element reads, when `n` elements are there -/
theorem decRepeat_enum_ok_iff (en : Endian) (e : Enum.Decl) :
    ∀ (n : Nat) (bs : Bytes) (x : List Value × Bytes), n * (e.width / 8) ≤ bs.length →
      (decRepeat (enumEl en e) n bs = .ok x ↔
        ((vals en e.width n bs).all (okVal e) = true ∧ x = (vals en e.width n bs, bs.drop (n * (e.width / 8)))))
  | 0, bs, x, _ => by
    simp only [decRepeat, vals, List.all_nil, Nat.zero_mul, List.drop_zero, true_and, Outcome.ok.injEq]
    exact eq_comm
  | n + 1, bs, x, h => by
    have e1 : (n + 1) * (e.width / 8) = n * (e.width / 8) + e.width / 8 := by rw [Nat.add_mul]; omega
    have hwl : e.width / 8 ≤ bs.length := by omega
    have hstep : enumEl en e bs =
        if enumOk e (rdInt en (bs.take (e.width / 8))) then .ok (.int (rdInt en (bs.take (e.width / 8))), bs.drop (e.width / 8))
        else .err .enumValue := by
      simp only [enumEl, Cxx.getUint_eq en e.width bs hwl, Outcome.bind]
    simp only [decRepeat, hstep, vals, List.all_cons, okVal, Bool.and_eq_true]
    by_cases hok : enumOk e (rdInt en (bs.take (e.width / 8))) = true
    · simp only [hok, ↓reduceIte, true_and, Outcome.bind]
      have ih := decRepeat_enum_ok_iff en e n (bs.drop (e.width / 8))
      constructor
      · intro hh
        cases hd : decRepeat (enumEl en e) n (bs.drop (e.width / 8)) with
        | ok a =>
          obtain ⟨vs, r⟩ := a
          simp only [hd, Outcome.ok.injEq] at hh
          obtain ⟨h6, h7⟩ := (ih (vs, r) (by rw [List.length_drop]; omega)).mp hd
          simp only [Prod.mk.injEq] at h7
          refine ⟨h6, ?_⟩
          rw [← hh, h7.1, h7.2, List.drop_drop]
          congr 2
          omega
        | err x0 => simp [hd] at hh
        | panic q => simp [hd] at hh
      · intro ⟨h6, h7⟩
        have := (ih (vals en e.width n (bs.drop (e.width / 8)), (bs.drop (e.width / 8)).drop (n * (e.width / 8)))
          (by rw [List.length_drop]; omega)).mpr ⟨h6, rfl⟩
        simp only [this, h7, Outcome.ok.injEq, Prod.mk.injEq, true_and, List.drop_drop]
        congr 1
        omega
    · simp only [hok, Bool.false_eq_true, ↓reduceIte, reduceCtorEq, false_and, Outcome.bind]

/-- the array value appended to two related states: related results -/
theorem arr_wrap_same (pj pr : Dec (List Value × Bytes)) (h : ∀ x, pj = .ok x ↔ pr = .ok x) (sj sr : DState) (hr : RelC sj sr)
    (id : String) :
    SameFields RelP (pj.bind fun (vs, r') => .ok ({ sj with fields := sj.fields ++ [(id, Value.arr vs)] }, r'))
      (pr.bind fun (vs, r) => .ok ({ sr with fields := sr.fields ++ [(id, Value.arr vs)] }, r)) := by
  constructor
  · intro a ha
    obtain ⟨⟨vs, r⟩, h1, h2⟩ := bind_ok _ _ _ ha
    simp only [Outcome.ok.injEq] at h2
    refine ⟨({ sr with fields := sr.fields ++ [(id, Value.arr vs)] }, r), by rw [(h (vs, r)).mp h1]; rfl, ?_⟩
    rw [← h2]
    exact ⟨relC_arr sj sr hr id vs, rfl⟩
  · intro b hb
    obtain ⟨⟨vs, r⟩, h1, h2⟩ := bind_ok _ _ _ hb
    simp only [Outcome.ok.injEq] at h2
    refine ⟨({ sj with fields := sj.fields ++ [(id, Value.arr vs)] }, r), by rw [(h (vs, r)).mpr h1]; rfl, ?_⟩
    rw [← h2]
    exact ⟨relC_arr sj sr hr id vs, rfl⟩

/-- an array of enums: the emitted count / size / remaining-octets logic with `fromX` per element is the reference's -/
theorem enum_array_same2 (en : Endian) (id nm : String) (e : Enum.Decl) (shape : Shape)
    (hw : e.width = 8 ∨ e.width = 16 ∨ e.width = 32 ∨ e.width = 64)
    (bs : Bytes) (hb : bs.length < 2 ^ 31) (sj sr : DState) (hr : RelC sj sr) :
    SameFields RelP (Java.decItem en (.array id (.enumTy nm e) (.static (e.width / 8)) shape none) bs sj)
      (Pdlv.decItem { e := en, mode := .ideal } (.array id (.enumTy nm e) (.static (e.width / 8)) shape none) bs sr) := by
  have hbad : ¬ (e.width % 8 ≠ 0 ∨ e.width = 0 ∨ e.width > 64) := by rcases hw with h | h | h | h <;> rw [h] <;> decide
  have hpos : 0 < e.width / 8 := by rcases hw with h | h | h | h <;> rw [h] <;> decide
  have hk8 : e.width / 8 ≤ 8 := by rcases hw with h | h | h | h <;> rw [h] <;> decide
  have hw0 : ¬ (e.width / 8 = 0) := by omega
  have husz : (2 : Nat) ^ 31 * 8 < usizeMax := by decide
  obtain ⟨hf, hp, hsz, hcn⟩ := hr
  have hr' : RelC sj sr := ⟨hf, hp, hsz, hcn⟩
  have ji := decEnums_ok_iff en e hw
  have ri := decRepeat_enum_ok_iff en e
  simp only [Java.decItem, hbad, ↓reduceIte, Pdlv.decItem, withPad, decTy_enum, ← hsz id, ← hcn id]
  cases shape with
  | static n =>
    have hk : arrayKeysOk (.static (e.width / 8)) (.static n) (sj.ctx.get (.count id)) (sj.ctx.get (.size id)) (sr.ctx.get (.esize id)) = true := rfl
    simp only [hk, Bool.not_true, Bool.false_eq_true, ↓reduceIte, Outcome.bind]
    refine arr_wrap_same _ _ (fun x => ?_) sj sr hr' id
    simp only [decArray]
    constructor
    · intro h
      obtain ⟨h1, h2, h3⟩ := (ji n bs x).mp h
      have hl : ¬ bs.length < n * (e.width / 8) := by omega
      simp only [hl, ↓reduceIte, (ri n bs x h1).mpr ⟨h2, h3⟩, Outcome.bind]
      rw [h3]
      simp [unwrapArr, Cxx.vals_length]
    · intro h
      by_cases hl : bs.length < n * (e.width / 8)
      · simp [hl] at h
      · simp only [hl, ↓reduceIte] at h
        obtain ⟨⟨vs, r⟩, h1, h2⟩ := bind_ok _ _ _ h
        obtain ⟨h3, h4⟩ := (ri n bs (vs, r) (by omega)).mp h1
        obtain ⟨vs', h5, h6⟩ := bind_ok _ _ _ h2
        simp only [unwrapArr] at h5
        split at h5
        · simp only [Outcome.ok.injEq] at h5 h6
          subst h5
          rw [← h6]
          exact (ji n bs (vs, r)).mpr ⟨by omega, h3, h4⟩
        · cases h5
  | countField =>
    cases hc : sj.ctx.get (.count id) with
    | none =>
      simp only [Option.bind_none, Outcome.bind, arrayKeysOk, Option.isSome_none, Bool.false_and, Bool.not_false, ↓reduceIte]
      exact sf_err_panic _ _ _
    | some c =>
      simp only [Option.bind_some, arrayKeysOk, Option.isSome_some, Bool.true_and, Bool.not_true, Bool.false_eq_true, ↓reduceIte]
      cases hn : nonNeg c with
      | none =>
        have hx := nonNeg_none c hn
        have hpw : c ≤ c * (e.width / 8) := Nat.le_mul_of_pos_right c hpos
        simp only [Outcome.bind, decArray, umulM]
        by_cases hu : c * (e.width / 8) < usizeMax
        · simp only [hu, ↓reduceIte]
          rw [if_pos (by omega)]
          exact sf_err _ _ _
        · simp only [hu, ↓reduceIte]; exact sf_err _ _ _
      | some n =>
        obtain ⟨rfl, hx⟩ := nonNeg_some c n hn
        simp only [Outcome.bind]
        refine arr_wrap_same _ _ (fun x => ?_) sj sr hr' id
        have hu : n * (e.width / 8) < usizeMax := by
          have : n * (e.width / 8) ≤ 2 ^ 31 * 8 := Nat.mul_le_mul (by omega) hk8
          omega
        simp only [decArray, umulM, hu, ↓reduceIte, Outcome.bind]
        constructor
        · intro h
          obtain ⟨h1, h2, h3⟩ := (ji n bs x).mp h
          have hl : ¬ bs.length < n * (e.width / 8) := by omega
          simp only [hl, ↓reduceIte]
          exact (ri n bs x h1).mpr ⟨h2, h3⟩
        · intro h
          by_cases hl : bs.length < n * (e.width / 8)
          · simp [hl] at h
          · simp only [hl, ↓reduceIte] at h
            obtain ⟨h3, h4⟩ := (ri n bs x (by omega)).mp h
            exact (ji n bs x).mpr ⟨by omega, h3, h4⟩
  | sizeField =>
    cases hc : sj.ctx.get (.size id) with
    | none =>
      simp only [Option.bind_none, Outcome.bind, arrayKeysOk, Option.isSome_none, Bool.false_and, Bool.not_false, ↓reduceIte]
      exact sf_err_panic _ _ _
    | some c =>
      simp only [Option.bind_some, arrayKeysOk, Option.isSome_some, Bool.true_and, Bool.not_true, Bool.false_eq_true, ↓reduceIte]
      cases hn : nonNeg c with
      | none =>
        have hx := nonNeg_none c hn
        simp only [Outcome.bind, decArray]
        rw [if_pos (by omega)]
        exact sf_err _ _ _
      | some n =>
        obtain ⟨rfl, hx⟩ := nonNeg_some c n hn
        simp only [decArray, hw0, ↓reduceIte]
        by_cases hm : n % (e.width / 8) ≠ 0
        · simp only [hm, ne_eq, not_false_eq_true, ↓reduceIte, Outcome.bind]
          by_cases hl : bs.length < n
          · simp only [hl, ↓reduceIte]; exact sf_err _ _ _
          · simp only [hl, ↓reduceIte]; exact sf_err _ _ _
        · have hm' : n % (e.width / 8) = 0 := by omega
          have hdiv : n / (e.width / 8) * (e.width / 8) = n := Nat.div_mul_cancel (Nat.dvd_of_mod_eq_zero hm')
          simp only [hm', ne_eq, not_true_eq_false, ↓reduceIte, Outcome.bind]
          refine arr_wrap_same _ _ (fun x => ?_) sj sr hr' id
          constructor
          · intro h
            obtain ⟨h1, h2, h3⟩ := (ji (n / (e.width / 8)) bs x).mp h
            have hl : ¬ bs.length < n := by omega
            simp only [hl, ↓reduceIte]
            exact (ri (n / (e.width / 8)) bs x h1).mpr ⟨h2, h3⟩
          · intro h
            by_cases hl : bs.length < n
            · simp [hl] at h
            · simp only [hl, ↓reduceIte] at h
              obtain ⟨h3, h4⟩ := (ri (n / (e.width / 8)) bs x (by omega)).mp h
              exact (ji (n / (e.width / 8)) bs x).mpr ⟨by omega, h3, h4⟩
  | unknown =>
    have hk : arrayKeysOk (.static (e.width / 8)) .unknown (sj.ctx.get (.count id)) (sj.ctx.get (.size id)) (sr.ctx.get (.esize id)) = true := rfl
    simp only [hk, Bool.not_true, Bool.false_eq_true, ↓reduceIte, decArray, hw0]
    by_cases hm : bs.length % (e.width / 8) ≠ 0
    · simp only [hm, ne_eq, not_false_eq_true, ↓reduceIte, Outcome.bind]; exact sf_err _ _ _
    · have hm' : bs.length % (e.width / 8) = 0 := by omega
      have hdiv : bs.length / (e.width / 8) * (e.width / 8) = bs.length := Nat.div_mul_cancel (Nat.dvd_of_mod_eq_zero hm')
      simp only [hm', ne_eq, not_true_eq_false, ↓reduceIte, Outcome.bind]
      refine arr_wrap_same _ _ (fun x => ?_) sj sr hr' id
      constructor
      · intro h
        obtain ⟨h1, h2, h3⟩ := (ji (bs.length / (e.width / 8)) bs x).mp h
        exact (ri (bs.length / (e.width / 8)) bs x h1).mpr ⟨h2, h3⟩
      · intro h
        obtain ⟨h3, h4⟩ := (ri (bs.length / (e.width / 8)) bs x (by omega)).mp h
        exact (ji (bs.length / (e.width / 8)) bs x).mpr ⟨by omega, h3, h4⟩

theorem items_same2 (en : Endian) : ∀ (is : Items), decWfItems2 is = true → ∀ (bs : Bytes), bs.length < 2 ^ 31 →
    ∀ (sj sr : DState), RelC sj sr →
    SameFields RelP (Java.decItems en is bs sj) (Pdlv.decItems { e := en, mode := .ideal } is bs sr)
  | .nil, _, bs, _, sj, sr, hr => by
    simp only [Java.decItems, Pdlv.decItems]
    exact sf_ok _ _ _ ⟨hr, rfl⟩
  | .cons i r, hw, bs, hb, sj, sr, hr => by
    -- one field, then the rest on a remainder that is no longer than the input
    have step : SameFields RelP (Java.decItem en i bs sj) (Pdlv.decItem { e := en, mode := .ideal } i bs sr) ∧
        decWfItems2 r = true := by
      cases i with
      | chunk fs =>
        simp only [decWfItems2, Bool.and_eq_true, Bool.or_eq_true, beq_iff_eq] at hw
        obtain ⟨⟨hcw, hW⟩, hwr⟩ := hw
        have hW' : chunkBits fs = 8 ∨ chunkBits fs = 16 ∨ chunkBits fs = 32 := by
          rcases hW with (h | h) | h
          · exact Or.inl h
          · exact Or.inr (Or.inl h)
          · exact Or.inr (Or.inr h)
        refine ⟨?_, hwr⟩
        have := chunk_same2 en fs hcw hW' bs sj sr hr
        simpa [Java.decItem, Pdlv.decItem] using this
      | payload mode =>
        simp only [decWfItems2, Bool.and_eq_true] at hw
        exact ⟨payload_same2 en mode hw.1 bs hb sj sr hr, hw.2⟩
      | array id elem ew shape pad =>
        cases elem with
        | scalar w =>
          cases ew with
          | static eb =>
            cases pad with
            | none =>
              simp only [decWfItems2, Bool.and_eq_true, Bool.or_eq_true, beq_iff_eq] at hw
              obtain ⟨⟨hww, heb⟩, hwr⟩ := hw
              subst heb
              have hw4 : w = 8 ∨ w = 16 ∨ w = 32 ∨ w = 64 := by
                rcases hww with ((h | h) | h) | h
                · exact Or.inl h
                · exact Or.inr (Or.inl h)
                · exact Or.inr (Or.inr (Or.inl h))
                · exact Or.inr (Or.inr (Or.inr h))
              exact ⟨array_same2 en id w shape hw4 bs hb sj sr hr, hwr⟩
            | some p => simp [decWfItems2] at hw
          | unknown => simp [decWfItems2] at hw
          | dynamic => simp [decWfItems2] at hw
        | enumTy nm e =>
          cases ew with
          | static eb =>
            cases pad with
            | none =>
              simp only [decWfItems2, Bool.and_eq_true, Bool.or_eq_true, beq_iff_eq] at hw
              obtain ⟨⟨hww, heb⟩, hwr⟩ := hw
              subst heb
              have hw4 : e.width = 8 ∨ e.width = 16 ∨ e.width = 32 ∨ e.width = 64 := by
                rcases hww with ((h | h) | h) | h
                · exact Or.inl h
                · exact Or.inr (Or.inl h)
                · exact Or.inr (Or.inr (Or.inl h))
                · exact Or.inr (Or.inr (Or.inr h))
              exact ⟨enum_array_same2 en id nm e shape hw4 bs hb sj sr hr, hwr⟩
            | some p => simp [decWfItems2] at hw
          | unknown => simp [decWfItems2] at hw
          | dynamic => simp [decWfItems2] at hw
        | custom a b => simp [decWfItems2] at hw
        | struct a b => simp [decWfItems2] at hw
      | typedef a b c => simp [decWfItems2] at hw
      | optional a b c d => simp [decWfItems2] at hw
    obtain ⟨hitem, hwr⟩ := step
    simp only [Java.decItems, Pdlv.decItems]
    constructor
    · intro a ha
      obtain ⟨x, h1, h2⟩ := bind_ok _ _ _ ha
      obtain ⟨y, h3, h4, h5⟩ := hitem.1 x h1
      have hcons := decItem_consumes { e := en, mode := .ideal } i bs sr y.1 y.2 h3
      obtain ⟨b, h6, h7⟩ := (items_same2 en r hwr x.2 (by rw [h5]; omega) x.1 y.1 h4).1 a h2
      exact ⟨b, by rw [h3]; simp only [Outcome.bind]; rw [← h5]; exact h6, h7⟩
    · intro b hb'
      obtain ⟨y, h1, h2⟩ := bind_ok _ _ _ hb'
      obtain ⟨x, h3, h4, h5⟩ := hitem.2 y h1
      have hcons := decItem_consumes { e := en, mode := .ideal } i bs sr y.1 y.2 h1
      obtain ⟨a, h6, h7⟩ := (items_same2 en r hwr x.2 (by rw [h5]; omega) x.1 y.1 h4).2 b (by rw [h5]; exact h2)
      exact ⟨a, by rw [h3]; simp only [Outcome.bind]; exact h6, h7⟩

/-- `fromBytes` on the extended class is the reference `decode_full` -/
theorem decode_same2 (c : Cfg) (nm : String) (items : Items) (hw : decWfItems2 items = true) (bs : Bytes)
    (hb : bs.length < 2 ^ 31) (v : Value) :
    Java.decodeFull c (.root nm items) bs = .ok v ↔
      Pdlv.decodeFull { e := c.e, mode := .ideal } (.root nm items) bs = .ok v := by
  have hs := items_same2 c.e items hw bs hb DState.empty DState.empty ⟨rfl, rfl, fun _ => rfl, fun _ => rfl⟩
  have hval : ∀ (sa sb : DState), RelC sa sb →
      Value.obj (sa.fields ++ (match sa.payload with | some p => [("payload", Value.ofBytes p)] | none => [])) =
      Value.obj (sb.fields ++ (match sb.payload with | some p => [("payload", Value.ofBytes p)] | none => [])) := by
    intro sa sb hr
    rw [hr.1, hr.2.1]
  simp only [Java.decodeFull, Pdlv.decodeFull, Pdlv.decBody]
  constructor
  · intro h
    obtain ⟨⟨sa, ra⟩, h1, h2⟩ := bind_ok _ _ _ h
    obtain ⟨⟨sb, rb⟩, h3, h4, h5⟩ := hs.1 _ h1
    simp only at h4 h5 h2
    subst h5
    by_cases hre : ra.isEmpty = true
    · simp only [hre, ↓reduceIte, Outcome.ok.injEq] at h2
      simp only [h3, Outcome.bind, hre, ↓reduceIte, Outcome.ok.injEq]
      rw [← h2]
      have := hval sa sb h4
      cases hp : sb.payload <;> cases hq : sa.payload <;> simp_all
    · simp only [hre, Bool.false_eq_true, ↓reduceIte] at h2
      cases h2
  · intro h
    obtain ⟨⟨v1, r1⟩, h1, h2⟩ := bind_ok _ _ _ h
    obtain ⟨⟨sb, rb⟩, h3, h4⟩ := bind_ok _ _ _ h1
    obtain ⟨⟨sa, ra⟩, h5, h6, h7⟩ := hs.2 _ h3
    simp only at h6 h7 h2 h4
    simp only [Outcome.ok.injEq, Prod.mk.injEq] at h4
    subst h7
    by_cases hre : r1.isEmpty = true
    · simp only [hre, ↓reduceIte, Outcome.ok.injEq] at h2
      have hre' : ra.isEmpty = true := by rw [← h4.2] at hre; exact hre
      simp only [h5, Outcome.bind, hre', ↓reduceIte, Outcome.ok.injEq]
      rw [← h2, ← h4.1]
      have := hval sa sb h6
      cases hp : sb.payload <;> cases hq : sa.payload <;> simp_all
    · simp only [hre, Bool.false_eq_true, ↓reduceIte] at h2
      cases h2

end Java
end Pdlv
