/-
  Helper lemmas for the enum theorems (C15).
-/
import Pdlv.Enum

namespace Pdlv
namespace Enum

theorem evalArms_append (as bs : Arms) (x : Nat) :
    evalArms (as ++ bs) x = (evalArms as x).orElse (fun _ => evalArms bs x) := by
  induction as with
  | nil => simp [evalArms, Option.orElse]
  | cons a as ih =>
    obtain ⟨p, r⟩ := a
    simp only [List.cons_append, evalArms]
    split
    · simp [Option.orElse]
    · exact ih

theorem litArms_eval (ts : List TagV) (x : Nat) :
    evalArms (litArms ts) x = (ts.find? (·.value == x)).map (fun t => Res.named t.id) := by
  induction ts with
  | nil => simp [litArms, evalArms]
  | cons t ts ih =>
    simp only [litArms, List.map, evalArms, Pat.matches, List.find?] at *
    by_cases h : t.value == x
    · simp [h, Rhs.eval]
    · simp [h, ih]

/-- "named first, then range" on a tag list, without the default / error fallbacks -/
def specTags (tags : List Tag) (x : Nat) : Option Res :=
  match (namedTags tags).find? (·.value == x) with
  | some t => some (.named t.id)
  | none =>
    match (ranges tags).find? (inRng · x) with
    | some r => some (.inRange r.1 x)
    | none => none

/-- The only ordering hazard of a first-match `match`: a range arm placed *before* a
    named tag whose value lies in that range. -/
def NoLateShadow : List Tag → Prop
  | [] => True
  | .value _ :: ts => NoLateShadow ts
  | .range _ lo hi _ _ :: ts =>
      (∀ t ∈ namedTags ts, ¬ (lo ≤ t.value ∧ t.value ≤ hi)) ∧ NoLateShadow ts
  | .other _ _ :: ts => NoLateShadow ts

theorem tagArms_eval (tags : List Tag) (h : NoLateShadow tags) (x : Nat) :
    evalArms (tagArms tags) x = specTags tags x := by
  induction tags with
  | nil => simp [tagArms, evalArms, specTags, namedTags, ranges]
  | cons tg ts ih =>
    cases tg with
    | value t =>
      simp only [tagArms, evalArms, Pat.matches, NoLateShadow] at *
      by_cases hx : t.value == x
      · simp [hx, Rhs.eval, specTags, namedTags]
      · simp only [hx, Bool.false_eq_true, ↓reduceIte, ih h]
        simp [specTags, namedTags, ranges, List.find?, hx]
    | other id l =>
      simp only [tagArms, NoLateShadow] at *
      rw [ih h]; simp [specTags, namedTags, ranges]
    | range id lo hi sub l =>
      simp only [tagArms, NoLateShadow] at *
      obtain ⟨hsh, hrest⟩ := h
      rw [evalArms_append, litArms_eval]
      cases hsub : sub.find? (·.value == x) with
      | some t =>
        simp [specTags, namedTags, List.find?_append, hsub, Option.orElse]
      | none =>
        simp only [Option.map_none, Option.orElse, evalArms, Pat.matches]
        by_cases hin : (decide (lo ≤ x) && decide (x ≤ hi)) = true
        · simp only [hin, ↓reduceIte, Rhs.eval]
          have hnone : (namedTags ts).find? (·.value == x) = none := by
            rw [List.find?_eq_none]
            intro t ht hv
            have : t.value = x := by simpa using hv
            apply hsh t ht
            subst this
            simpa using hin
          simp [specTags, namedTags, List.find?_append, hsub, hnone, ranges, List.find?, inRng, hin]
        · simp only [hin, Bool.false_eq_true, ↓reduceIte, ih hrest]
          simp [specTags, namedTags, List.find?_append, hsub, ranges, List.find?, inRng, hin]

/-! ### Completeness -/

theorem chain_covers : ∀ (s : List (Nat × Nat)) (a : Nat × Nat) (l : Nat × Nat),
    chainOk (a :: s) = some true → (a :: s).getLast? = some l →
    ∀ x, a.1 ≤ x → x ≤ l.2 → ∃ iv ∈ a :: s, iv.1 ≤ x ∧ x ≤ iv.2 := by
  intro s
  induction s with
  | nil =>
    intro a l _ hl x h1 h2
    simp at hl; subst hl
    exact ⟨a, by simp, h1, h2⟩
  | cons b rest ih =>
    intro a l hc hl x h1 h2
    simp only [chainOk] at hc
    split at hc
    · cases hc
    · rename_i hb0
      split at hc
      · rename_i hab
        have hab' : a.2 = b.1 - 1 := by simpa using hab
        by_cases hxa : x ≤ a.2
        · exact ⟨a, by simp, h1, hxa⟩
        · have hl' : (b :: rest).getLast? = some l := by
            simpa [List.getLast?_cons_cons] using hl
          obtain ⟨iv, hiv, h⟩ := ih b l hc hl' x (by omega) h2
          exact ⟨iv, List.mem_cons_of_mem _ hiv, h⟩
      · cases hc

theorem insertPair_perm (a : Nat × Nat) (l : List (Nat × Nat)) : (insertPair a l).Perm (a :: l) := by
  induction l with
  | nil => simp [insertPair]
  | cons b l ih =>
    simp only [insertPair]
    split
    · exact List.Perm.refl _
    · exact (List.Perm.cons b ih).trans (List.Perm.swap a b l)

theorem sortPairs_perm (l : List (Nat × Nat)) : (sortPairs l).Perm l := by
  induction l with
  | nil => simp [sortPairs]
  | cons a l ih =>
    simp only [sortPairs]
    exact (insertPair_perm a _).trans (List.Perm.cons a ih)

theorem intervals_mem (tags : List Tag) (iv : Nat × Nat) (h : iv ∈ intervals tags) :
    (∃ t ∈ topTags tags, t.value = iv.1 ∧ t.value = iv.2) ∨
    (∃ r ∈ ranges tags, r.2.1 = iv.1 ∧ r.2.2 = iv.2) := by
  induction tags with
  | nil => simp [intervals] at h
  | cons tg ts ih =>
    cases tg with
    | value t =>
      simp only [intervals, List.mem_cons] at h
      rcases h with h | h
      · left; exact ⟨t, by simp [topTags], by simp [h]⟩
      · rcases ih h with ⟨t', ht', h'⟩ | ⟨r, hr, h'⟩
        · left; exact ⟨t', by simp [topTags, ht'], h'⟩
        · right; exact ⟨r, by simpa [ranges] using hr, h'⟩
    | other id l =>
      simp only [intervals] at h
      rcases ih h with ⟨t', ht', h'⟩ | ⟨r, hr, h'⟩
      · left; exact ⟨t', by simpa [topTags] using ht', h'⟩
      · right; exact ⟨r, by simpa [ranges] using hr, h'⟩
    | range id lo hi sub l =>
      simp only [intervals, List.mem_cons] at h
      rcases h with h | h
      · right; exact ⟨(id, lo, hi), by simp [ranges], by simp [h]⟩
      · rcases ih h with ⟨t', ht', h'⟩ | ⟨r, hr, h'⟩
        · left; exact ⟨t', by simpa [topTags] using ht', h'⟩
        · right; exact ⟨r, by simp [ranges, hr], h'⟩

theorem topTags_sub_named (tags : List Tag) : ∀ t ∈ topTags tags, t ∈ namedTags tags := by
  induction tags with
  | nil => simp [topTags]
  | cons tg ts ih =>
    cases tg with
    | value t => intro t' h; simp only [topTags, namedTags, List.mem_cons] at *; rcases h with h | h
                 · exact Or.inl h
                 · exact Or.inr (ih _ h)
    | other id l => intro t' h; simp only [topTags, namedTags] at *; exact ih _ h
    | range id lo hi sub l =>
      intro t' h; simp only [topTags, namedTags, List.mem_append] at *; exact Or.inr (ih _ h)

/-- What `enum_is_complete` returning `true` buys: every x ≤ max is a top-level tag value
    or lies in a range. -/
theorem complete_covers (tags : List Tag) (max : Nat) (h : isComplete? tags max = some true)
    (x : Nat) (hx : x ≤ max) :
    (∃ t ∈ topTags tags, t.value = x) ∨ (∃ r ∈ ranges tags, inRng r x = true) := by
  unfold isComplete? at h
  simp only at h
  generalize hs : sortPairs (intervals tags) = s at h
  have hperm : s.Perm (intervals tags) := by rw [← hs]; exact sortPairs_perm _
  cases s with
  | nil => simp at h
  | cons a rest =>
    cases hl : (a :: rest).getLast? with
    | none => simp at hl
    | some l =>
      simp only [List.head?_cons, hl] at h
      split at h
      · rename_i hfl
        simp only [Bool.and_eq_true, beq_iff_eq] at hfl
        obtain ⟨iv, hiv, h1, h2⟩ := chain_covers rest a l h hl x (by omega) (by omega)
        have hmem : iv ∈ intervals tags := hperm.mem_iff.mp hiv
        rcases intervals_mem tags iv hmem with ⟨t, ht, e1, e2⟩ | ⟨r, hr, e1, e2⟩
        · left; exact ⟨t, ht, by omega⟩
        · right; refine ⟨r, hr, ?_⟩
          simp [inRng]; omega
      · cases h

end Enum
end Pdlv
