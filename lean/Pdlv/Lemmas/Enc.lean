/-
  Pdlv.Lemmas.Enc — lengths of the encoder model's building blocks (used by C05, C13, C16).
-/
import Pdlv.Wire
import Pdlv.Lemmas.Bits

namespace Pdlv

/-- every integer write produces exactly `w / 8` octets -/
theorem putUint_length (e : Endian) (w v : Nat) : (putUint e w v).length = w / 8 := by
  cases e <;> simp [putUint, toLE_length, toBE_length]

/-- a bit-field group is written as exactly `bits / 8` octets — whatever its fields are -/
theorem encChunk_length (c : Cfg) (all : Items) (p : Enc Bytes) (n : Nat) (v : Value) (fs : List BitField)
    (bs : Bytes) (h : encItem c all p n v (.chunk fs) = .ok bs) :
    bs.length = lenItem (.chunk fs) v := by
  simp only [encItem, Outcome.bind] at h
  cases hx : encChunkFields (c.mode == .ideal) all n v fs 0 0 with
  | ok x =>
    simp only [hx, Outcome.ok.injEq] at h
    rw [← h, putUint_length]; rfl
  | err e => simp [hx] at h
  | panic p => simp [hx] at h

/-- the payload is written verbatim -/
theorem encPayload_verbatim (c : Cfg) (all : Items) (p : Bytes) (n : Nat) (v : Value) (m : PayloadMode) :
    encItem c all (.ok p) n v (.payload m) = .ok p := by
  simp only [encItem]

/-- element loops: if every element's encoding has the length `g` promises, the array's
    encoding has the summed length (`iter().map(encoded_len).sum()`) -/
theorem encListWith_length (f : Value → Enc Bytes) (g : Value → Nat)
    (hf : ∀ v bs, f v = .ok bs → bs.length = g v) :
    ∀ vs bs, encListWith f vs = .ok bs → bs.length = sumLen g vs := by
  intro vs
  induction vs with
  | nil => intro bs h; simp [encListWith] at h; simp [← h, sumLen]
  | cons v vs ih =>
    intro bs h
    simp only [encListWith, Outcome.bind] at h
    cases hv : f v with
    | ok a =>
      simp only [hv] at h
      cases hr : encListWith f vs with
      | ok b =>
        simp only [hr, Outcome.ok.injEq] at h
        rw [← h, List.length_append, hf v a hv, ih b hr, sumLen]
      | err e => simp [hr] at h
      | panic p => simp [hr] at h
    | err e => simp [hv] at h
    | panic p => simp [hv] at h

/-- scalars, enums and custom fields are written on exactly their declared width -/
theorem encTy_scalar_length (c : Cfg) (w : Nat) (v : Value) (bs : Bytes)
    (h : encTy c (.scalar w) v = .ok bs) : bs.length = lenTy (.scalar w) v := by
  cases v with
  | int x =>
    simp only [encTy] at h
    split at h
    · cases h
    · split at h
      · cases h
      · simp only [Outcome.ok.injEq] at h; rw [← h, putUint_length]; rfl
  | arr _ => simp [encTy] at h
  | obj _ => simp [encTy] at h
  | null => simp [encTy] at h

/-- **integers round-trip at every width and in both byte orders**: what `put_uint{_le}(v, k)`
    writes, `get_uint{_le}(k)` reads back — for every k and every v that fits -/
theorem getUint_putUint (e : Endian) (k v : Nat) (rest : Bytes) (hv : v < 2 ^ (8 * k)) :
    getUint e (8 * k) (putUint e (8 * k) v ++ rest) = .ok (v, rest) := by
  have hk : 8 * k / 8 = k := by omega
  unfold getUint putUint
  simp only [hk]
  cases e with
  | little =>
    simp only [List.length_append, toLE_length]
    have : ¬ (k + rest.length < k) := by omega
    simp only [this, ↓reduceIte]
    rw [List.take_left' (toLE_length k v), List.drop_left' (toLE_length k v), fromLE_toLE_of_lt k v hv]
  | big =>
    simp only [List.length_append, toBE_length]
    have : ¬ (k + rest.length < k) := by omega
    simp only [this, ↓reduceIte]
    rw [List.take_left' (toBE_length k v), List.drop_left' (toBE_length k v)]
    simp [fromBE, toBE, fromLE_toLE_of_lt k v hv]


end Pdlv
