/-
  Pdlv.Lemmas.RefEq — the encoder model in reference mode writes the bit-level wire format
  `Pdlv.Ref`: lemmas (chunks, size / count / element-size correspondences, arrays).
-/
import Pdlv.Lemmas.RefBits
import Pdlv.Thm.C05

namespace Pdlv
open Ref

/-! ### chunk widths -/

theorem foldl_add_shift (l : List Nat) (a : Nat) : l.foldl (· + ·) a = a + l.foldl (· + ·) 0 := by
  induction l generalizing a with
  | nil => simp
  | cons x l ih => simp only [List.foldl_cons]; rw [ih (a + x), ih (0 + x)]; omega

theorem chunkBits_cons (f : BitField) (fs : List BitField) : chunkBits (f :: fs) = f.width + chunkBits fs := by
  unfold chunkBits
  simp only [List.map_cons, List.foldl_cons]
  rw [foldl_add_shift]; omega

theorem chunkBits_nil : chunkBits [] = 0 := rfl

/-- a value the emitted conversion accepts fits the enum's width -/
theorem enumOk_lt (e : Enum.Decl) (x : Nat) (h : enumOk e x = true) : x < 2 ^ e.width := by
  rcases Nat.lt_or_ge x (2 ^ e.width) with hlt | hge
  · exact hlt
  · have : Enum.spec e x = .err := by simp [Enum.spec, hge]
    simp [enumOk, this] at h

/-! ### what the chunk encoder needs to know about the arrays of the field list -/

/-- the reference's array table agrees with the value and the element types of the field list -/
def ArrCorr (all : Items) (v : Value) (arrs : List ArrInfo) : Prop :=
  ∀ t elem ew, firstArray all t = some (elem, ew) →
    ∃ a vs, lookupArr arrs t = some a ∧ v.get? t = some (.arr vs) ∧ a.count = vs.length ∧
      a.elemLens = vs.map (lenTy elem) ∧ a.bytes.length = sumLen (lenTy elem) vs

theorem sumLen_eq_sum (f : Value → Nat) (vs : List Value) : sumLen f vs = (vs.map f).foldl (· + ·) 0 := by
  induction vs with
  | nil => rfl
  | cons v vs ih => simp only [sumLen, List.map_cons, List.foldl_cons]; rw [foldl_add_shift, ih]; omega

theorem sizeFind_firstArray (v : Value) : ∀ (is : Items) (t : String) (s0 : Nat),
    sizeOfTarget.find t v is = .ok s0 →
      ∃ elem ew vs, firstArray is t = some (elem, ew) ∧ v.get? t = some (.arr vs) ∧ s0 = sumLen (lenTy elem) vs
  | .nil, t, s0, h => by simp [sizeOfTarget.find] at h
  | .cons i r, t, s0, h => by
    cases i with
    | array id elem ew shape pad =>
      simp only [sizeOfTarget.find] at h
      by_cases hid : (id == t) = true
      · simp only [hid, ↓reduceIte] at h
        have hid' : id = t := by simpa using hid
        obtain ⟨vs, hvs, h2⟩ := bind_ok _ _ _ h
        have hget : v.get? id = some (.arr vs) := by
          simp only [listField] at hvs
          split at hvs
          · rename_i ws hws; simp only [Outcome.ok.injEq] at hvs; rw [hws, hvs]
          · cases hvs
        refine ⟨elem, ew, vs, by simp [firstArray, hid], hid' ▸ hget, ?_⟩
        cases elem with
        | scalar w =>
          simp only [Outcome.ok.injEq] at h2
          rw [← h2]
          have : sumLen (lenTy (.scalar w)) vs = sumLen (fun _ => w / 8) vs := by
            congr 1
          rw [this, sumLen_const]
        | enumTy nm en =>
          simp only [Outcome.ok.injEq] at h2
          rw [← h2]
          have : sumLen (lenTy (.enumTy nm en)) vs = sumLen (fun _ => en.width / 8) vs := by
            congr 1
          rw [this, sumLen_const]
        | custom nm w => simp only [Outcome.ok.injEq] at h2; exact h2.symm
        | struct nm b => simp only [Outcome.ok.injEq] at h2; exact h2.symm
      · have hid' : (id == t) = false := by simpa using hid
        simp only [hid', Bool.false_eq_true, ↓reduceIte] at h
        obtain ⟨elem', ew', vs, h1, h2, h3⟩ := sizeFind_firstArray v r t s0 h
        exact ⟨elem', ew', vs, by simp [firstArray, hid', h1], h2, h3⟩
    | chunk fs =>
      simp only [sizeOfTarget.find] at h
      obtain ⟨elem', ew', vs, h1, h2, h3⟩ := sizeFind_firstArray v r t s0 h
      exact ⟨elem', ew', vs, by simp [firstArray, h1], h2, h3⟩
    | typedef id ty sb =>
      simp only [sizeOfTarget.find] at h
      obtain ⟨elem', ew', vs, h1, h2, h3⟩ := sizeFind_firstArray v r t s0 h
      exact ⟨elem', ew', vs, by simp [firstArray, h1], h2, h3⟩
    | optional id ty ci cv =>
      simp only [sizeOfTarget.find] at h
      obtain ⟨elem', ew', vs, h1, h2, h3⟩ := sizeFind_firstArray v r t s0 h
      exact ⟨elem', ew', vs, by simp [firstArray, h1], h2, h3⟩
    | payload m =>
      simp only [sizeOfTarget.find] at h
      obtain ⟨elem', ew', vs, h1, h2, h3⟩ := sizeFind_firstArray v r t s0 h
      exact ⟨elem', ew', vs, by simp [firstArray, h1], h2, h3⟩

/-! ### one chunk -/

theorem backingOf_ge (w : Nat) (h : w ≤ 64) : w ≤ backingOf w := by
  unfold backingOf Enum.backing Enum.backing?
  repeat' split
  all_goals (simp only [Option.getD_some, Option.getD_none]; omega)

theorem elemTy_firstArray : ∀ (is : Items) (t : String),
    encChunkFields.elemTy t is = (firstArray is t).map (·.1)
  | .nil, t => rfl
  | .cons i r, t => by
    cases i with
    | array id elem ew shape pad =>
      simp only [encChunkFields.elemTy, firstArray]
      split
      · rfl
      · exact elemTy_firstArray r t
    | chunk fs => simp only [encChunkFields.elemTy, firstArray]; exact elemTy_firstArray r t
    | typedef id ty sb => simp only [encChunkFields.elemTy, firstArray]; exact elemTy_firstArray r t
    | optional id ty ci cv => simp only [encChunkFields.elemTy, firstArray]; exact elemTy_firstArray r t
    | payload m => simp only [encChunkFields.elemTy, firstArray]; exact elemTy_firstArray r t

def vote (v : Value) (o : String × Nat) : Nat := if isPresent v o.1 then o.2 else 1 - o.2

theorem flag_consistent (v : Value) (opts : List (String × Nat)) (bit : Nat)
    (hv : ∀ o ∈ opts, o.2 ≤ 1) (hall : ∀ o ∈ opts, vote v o = bit) :
    opts.all (fun (k, val) => (isPresent v k) == (val == bit)) = true := by
  rw [List.all_eq_true]
  intro ⟨k, val⟩ ho
  have h1 := hv _ ho
  have h2 := hall _ ho
  simp only [vote] at h1 h2
  by_cases hp : isPresent v k = true
  · simp only [hp, ↓reduceIte] at h2
    simp [hp, h2]
  · have hp' : isPresent v k = false := by simpa using hp
    simp only [hp', Bool.false_eq_true, ↓reduceIte] at h2
    have : val ≠ bit := by omega
    simp [hp', this]

theorem arith_shift (acc x shift w N : Nat) :
    acc + x * 2 ^ shift + 2 ^ (shift + w) * N = acc + 2 ^ shift * (x + 2 ^ w * N) := by
  rw [Nat.pow_add, Nat.mul_add, Nat.mul_assoc, Nat.mul_comm x]
  omega

/-- **the chunk encoder packs exactly the reference bit stream**: if the emitted shift/or
    computation (reference mode) succeeds with the integer `X`, the reference assigns the chunk
    the bits of a number `N` with `X = acc + 2^shift · N` -/
theorem chunk_ref (all : Items) (pl : Nat) (v : Value) (arrs : List ArrInfo) (H : ArrCorr all v arrs) :
    ∀ (fs : List BitField) (shift acc X : Nat),
      (∀ f ∈ fs, bfOk f = true ∧ targetOk all f = true) →
      encChunkFields true all pl v fs shift acc = .ok X →
      ∃ N, chunkBitsOf arrs pl v fs = some (bitsOf (chunkBits fs) N) ∧ X = acc + 2 ^ shift * N := by
  intro fs
  induction fs with
  | nil =>
    intro shift acc X _ h
    simp only [encChunkFields, Outcome.ok.injEq] at h
    exact ⟨0, by simp [chunkBitsOf, chunkBits_nil, bitsOf], by omega⟩
  | cons f fs ih =>
    intro shift acc X hok h
    have hfs : ∀ g ∈ fs, bfOk g = true ∧ targetOk all g = true := fun g hg => hok g (List.mem_cons_of_mem _ hg)
    obtain ⟨hbf, htg⟩ := hok f (List.mem_cons_self ..)
    -- the common step: the field contributes `x < 2^w`
    have step : ∀ (w x : Nat), f.width = w → x < 2 ^ w →
        encChunkFields true all pl v fs (shift + w) (acc + x * 2 ^ shift) = .ok X →
        ∃ N, (chunkBitsOf arrs pl v fs).map (bitsOf w x ++ ·) = some (bitsOf (chunkBits (f :: fs)) N) ∧
          X = acc + 2 ^ shift * N := by
      intro w x hw hx hrest
      obtain ⟨N', hN', hX⟩ := ih (shift + w) (acc + x * 2 ^ shift) X hfs hrest
      refine ⟨x + 2 ^ w * N', ?_, ?_⟩
      · rw [hN', Option.map_some, chunkBits_cons, hw, bitsOf_append w (chunkBits fs) x N' hx]
      · rw [hX, arith_shift]
    unfold encChunkFields at h
    cases f with
    | scalar id w =>
      simp only [BitField.width] at h step
      obtain ⟨x, hx, h2⟩ := bind_ok _ _ _ h
      simp only [natField] at hx
      split at hx
      · rename_i n hget
        simp only [Outcome.ok.injEq] at hx; subst hx
        split at h2
        · cases h2
        · split at h2
          · cases h2
          · rename_i hb hm
            have hlt : n < 2 ^ w := by
              by_cases hbw : backingOf w > w
              · have : ¬ n > maskBits w := fun hh => hm ⟨hbw, hh⟩
                have hpos : 0 < 2 ^ w := Nat.two_pow_pos w
                unfold maskBits at this; omega
              · have hle : backingOf w ≤ w := by omega
                have : 2 ^ backingOf w ≤ 2 ^ w := Nat.pow_le_pow_right (by decide) hle
                omega
            obtain ⟨N, hN, hX⟩ := step w n rfl hlt h2
            refine ⟨N, ?_, hX⟩
            simp only [chunkBitsOf, hget, fits, hlt, decide_true, ↓reduceIte]
            exact hN
      · cases hx
    | flag id opts =>
      simp only [BitField.width] at h step
      cases opts with
      | nil => cases h
      | cons o rest =>
        obtain ⟨oid, setv⟩ := o
        simp only at h
        split at h
        · cases h
        · rename_i hcons
          simp only [bfOk, List.all_eq_true, decide_eq_true_eq] at hbf
          have hsetv : setv ≤ 1 := hbf (oid, setv) (List.mem_cons_self ..)
          let bit := if isPresent v oid then setv else 1 - setv
          have hbit : bit < 2 ^ 1 := by
            show (if isPresent v oid then setv else 1 - setv) < 2 ^ 1
            split <;> omega
          obtain ⟨N, hN, hX⟩ := step 1 bit rfl hbit h
          refine ⟨N, ?_, hX⟩
          have hcon : ((oid, setv) :: rest).all (fun (k, val) => (isPresent v k) == (val == bit)) = true := by
            apply flag_consistent v _ bit (fun o ho => hbf o ho)
            intro o ho
            -- every optional field votes for the same flag value
            by_cases hlen : rest = []
            · subst hlen
              have : o = (oid, setv) := by simpa using ho
              subst this; rfl
            · have hlen2 : ((oid, setv) :: rest).length ≥ 2 := by
                cases rest with
                | nil => exact absurd rfl hlen
                | cons _ _ => simp
              -- not (zero ∧ one)
              have hnot : ¬ ((((oid, setv) :: rest).any fun (k, val) => if val = 1 then !isPresent v k else isPresent v k) = true ∧
                  (((oid, setv) :: rest).any fun (k, val) => if val = 1 then isPresent v k else !isPresent v k) = true) := by
                intro hzo
                exact hcons ⟨hlen2, hzo.1, hzo.2⟩
              have voteBit : ∀ q ∈ ((oid, setv) :: rest), vote v q = 0 ∨ vote v q = 1 := by
                intro q hq
                have := hbf q hq
                simp only [vote]; split <;> omega
              have isOne : ∀ q ∈ ((oid, setv) :: rest), vote v q = 1 →
                  (((oid, setv) :: rest).any fun (k, val) => if val = 1 then isPresent v k else !isPresent v k) = true := by
                intro q hq hv1
                rw [List.any_eq_true]
                refine ⟨q, hq, ?_⟩
                obtain ⟨k, val⟩ := q
                have hval := hbf (k, val) hq
                simp only [vote] at hv1
                by_cases hp : isPresent v k = true
                · simp only [hp, ↓reduceIte] at hv1; simp [hp, hv1]
                · have hp' : isPresent v k = false := by simpa using hp
                  simp only [hp', Bool.false_eq_true, ↓reduceIte] at hv1
                  have : val ≠ 1 := by omega
                  simp [hp', this]
              have isZero : ∀ q ∈ ((oid, setv) :: rest), vote v q = 0 →
                  (((oid, setv) :: rest).any fun (k, val) => if val = 1 then !isPresent v k else isPresent v k) = true := by
                intro q hq hv0
                rw [List.any_eq_true]
                refine ⟨q, hq, ?_⟩
                obtain ⟨k, val⟩ := q
                have hval := hbf (k, val) hq
                simp only [vote] at hv0
                by_cases hp : isPresent v k = true
                · simp only [hp, ↓reduceIte] at hv0; simp [hp, hv0]
                · have hp' : isPresent v k = false := by simpa using hp
                  simp only [hp', Bool.false_eq_true, ↓reduceIte] at hv0
                  have : val = 1 := by omega
                  simp [hp', this]
              have hfirst : vote v (oid, setv) = bit := rfl
              rcases voteBit o ho with h0 | h1
              · rcases voteBit (oid, setv) (List.mem_cons_self ..) with f0 | f1
                · rw [h0, ← hfirst, f0]
                · exact absurd ⟨isZero o ho h0, isOne _ (List.mem_cons_self ..) f1⟩ hnot
              · rcases voteBit (oid, setv) (List.mem_cons_self ..) with f0 | f1
                · exact absurd ⟨isZero _ (List.mem_cons_self ..) f0, isOne o ho h1⟩ hnot
                · rw [h1, ← hfirst, f1]
          simp only [chunkBitsOf]
          have hfit : fits 1 bit = true := by simp [fits]; exact hbit
          simp only [bit] at hcon hfit hN ⊢
          simp only [hcon, hfit, ↓reduceIte]
          exact hN
    | enumTy id ty e =>
      simp only [BitField.width] at h step
      obtain ⟨x, hx, h2⟩ := bind_ok _ _ _ h
      simp only [natField] at hx
      split at hx
      · rename_i n hget
        simp only [Outcome.ok.injEq] at hx; subst hx
        split at h2
        · rename_i hok
          have hlt := enumOk_lt e n hok
          obtain ⟨N, hN, hX⟩ := step e.width n rfl hlt h2
          refine ⟨N, ?_, hX⟩
          simp only [chunkBitsOf, hget, hok, fits, hlt, decide_true, ↓reduceIte]
          exact hN
        · cases h2
      · cases hx
    | fixed w c =>
      simp only [BitField.width] at h step
      simp only [bfOk, decide_eq_true_eq] at hbf
      obtain ⟨N, hN, hX⟩ := step w c rfl hbf h
      refine ⟨N, ?_, hX⟩
      simp only [chunkBitsOf, fits, hbf, decide_true, ↓reduceIte]
      exact hN
    | reserved w =>
      simp only [BitField.width] at h step
      obtain ⟨N, hN, hX⟩ := step w 0 rfl (Nat.two_pow_pos w) h
      refine ⟨N, ?_, hX⟩
      simp only [chunkBitsOf, fits, Nat.two_pow_pos w, decide_true, ↓reduceIte]
      exact hN
    | size t w m =>
      simp only [BitField.width] at h step
      obtain ⟨s0, hs0, h2⟩ := bind_ok _ _ _ h
      simp only [Bool.true_or, ↓reduceIte] at h2
      split at h2
      · cases h2
      · rename_i hmask
        have hlt : s0 + m < 2 ^ w := by
          have hpos : 0 < 2 ^ w := Nat.two_pow_pos w
          unfold maskBits at hmask; omega
        obtain ⟨N, hN, hX⟩ := step w (s0 + m) rfl hlt h2
        refine ⟨N, ?_, hX⟩
        simp only [bfOk, bne_iff_ne, ne_eq] at hbf
        simp only [sizeOfTarget] at hs0
        by_cases hpay : t = "_payload_"
        · subst hpay
          simp only [BEq.rfl, Bool.true_or, ↓reduceIte, Outcome.ok.injEq] at hs0
          subst hs0
          simp only [chunkBitsOf, BEq.rfl, ↓reduceIte, fits, hlt, decide_true]
          exact hN
        · have hne1 : (t == "_payload_") = false := by simpa using hpay
          have hne2 : (t == "_body_") = false := by simpa using hbf
          simp only [hne1, hne2, Bool.or_self, Bool.false_eq_true, ↓reduceIte] at hs0
          obtain ⟨elem, ew, vs, hfa, hget, hs⟩ := sizeFind_firstArray v all t s0 hs0
          obtain ⟨a, vs', hla, hget', _, _, hlen⟩ := H t elem ew hfa
          have : vs' = vs := by rw [hget] at hget'; simpa using hget'.symm
          subst this
          simp only [chunkBitsOf, hne1, Bool.false_eq_true, ↓reduceIte, hla, hlen, ← hs, fits, hlt, decide_true]
          exact hN
    | count t w =>
      simp only [BitField.width] at h step
      obtain ⟨vs, hvs, h2⟩ := bind_ok _ _ _ h
      simp only [true_or, true_and] at h2
      split at h2
      · cases h2
      · rename_i hmask
        have hpos : 0 < 2 ^ w := Nat.two_pow_pos w
        have hlt : vs.length < 2 ^ w := by unfold maskBits at hmask; omega
        have hget : v.get? t = some (.arr vs) := by
          simp only [listField] at hvs
          split at hvs
          · rename_i ws hws; simp only [Outcome.ok.injEq] at hvs; rw [hws, hvs]
          · cases hvs
        -- the count written is the length itself (no wrap: it fits the field, hence the backing type)
        have hw64 : w ≤ 64 := by simpa [bfOk] using hbf
        have hmod : vs.length % 2 ^ backingOf w = vs.length :=
          Nat.mod_eq_of_lt (Nat.lt_of_lt_of_le hlt (Nat.pow_le_pow_right (by decide) (backingOf_ge w hw64)))
        rw [hmod] at h2
        obtain ⟨N, hN, hX⟩ := step w vs.length rfl hlt h2
        refine ⟨N, ?_, hX⟩
        simp only [targetOk] at htg
        cases hfa : firstArray all t with
        | none => simp [hfa] at htg
        | some p =>
          obtain ⟨elem, ew⟩ := p
          obtain ⟨a, vs', hla, hget', hcnt, _, _⟩ := H t elem ew hfa
          have : vs' = vs := by rw [hget] at hget'; simpa using hget'.symm
          subst this
          simp only [chunkBitsOf, hla, hcnt, fits, hlt, decide_true, ↓reduceIte]
          exact hN
    | elemSize t w =>
      simp only [BitField.width] at h step
      obtain ⟨vs, hvs, h2⟩ := bind_ok _ _ _ h
      have hget : v.get? t = some (.arr vs) := by
        simp only [listField] at hvs
        split at hvs
        · rename_i ws hws; simp only [Outcome.ok.injEq] at hvs; rw [hws, hvs]
        · cases hvs
      simp only [targetOk] at htg
      cases hfa : firstArray all t with
      | none => simp [hfa] at htg
      | some p =>
        obtain ⟨elem, ew⟩ := p
        simp only [elemTy_firstArray, hfa, Option.map_some] at h2
        obtain ⟨a, vs', hla, hget', _, hlens, _⟩ := H t elem ew hfa
        have hvv : vs' = vs := by rw [hget] at hget'; simpa using hget'.symm
        subst hvv
        have hpos : 0 < 2 ^ w := Nat.two_pow_pos w
        cases vs' with
        | nil =>
          simp only [List.any_nil, Bool.false_eq_true, ↓reduceIte] at h2
          split at h2
          · cases h2
          · obtain ⟨N, hN, hX⟩ := step w 0 rfl hpos h2
            refine ⟨N, ?_, hX⟩
            simp only [chunkBitsOf, hla, hlens, List.map_nil, allEq, List.headD_nil, fits, hpos, decide_true, ↓reduceIte]
            exact hN
        | cons x xs =>
          simp only at h2
          split at h2
          · cases h2
          · rename_i hall
            split at h2
            · cases h2
            · rename_i hmask
              have hlt : lenTy elem x < 2 ^ w := by unfold maskBits at hmask; omega
              obtain ⟨N, hN, hX⟩ := step w (lenTy elem x) rfl hlt h2
              refine ⟨N, ?_, hX⟩
              have hallEq : allEq (lenTy elem x :: xs.map (lenTy elem)) = true := by
                simp only [allEq, List.all_eq_true, List.mem_map]
                rintro _ ⟨y, hy, rfl⟩
                have hno : ¬ ((x :: xs).any fun z => lenTy elem z != lenTy elem x) = true := hall
                rw [List.any_eq_true] at hno
                have h3 : ¬ (lenTy elem y != lenTy elem x) = true := fun hh => hno ⟨y, List.mem_cons_of_mem _ hy, hh⟩
                simpa using h3
              simp only [chunkBitsOf, hla, hlens, List.map_cons, hallEq, List.headD_cons, fits, hlt, decide_true, ↓reduceIte]
              exact hN

/-! ### the array table -/

/-- the reference's array table, computed with the encoder model's element encoder -/
def wireArrs (c : Cfg) : Items → Value → List ArrInfo
  | .nil, _ => []
  | .cons (.array id elem _ _ _) r, v =>
    match v.get? id with
    | some (.arr vs) =>
      match encListWith (encTy c elem) vs with
      | .ok es => { id := id, bytes := es, elemLens := vs.map (lenTy elem), count := vs.length } :: wireArrs c r v
      | _ => wireArrs c r v
    | _ => wireArrs c r v
  | .cons _ r, v => wireArrs c r v

theorem wireArrs_ids_sublist (c : Cfg) (v : Value) : ∀ (is : Items),
    ((wireArrs c is v).map (·.id)).Sublist (arrayIds is)
  | .nil => by simp [wireArrs, arrayIds]
  | .cons i r => by
    have ih := wireArrs_ids_sublist c v r
    cases i with
    | array id elem ew shape pad =>
      simp only [wireArrs, arrayIds]
      split
      · split
        · simp only [List.map_cons]; exact ih.cons₂ _
        · exact ih.cons _
      · exact ih.cons _
    | chunk fs => simpa [wireArrs, arrayIds] using ih
    | typedef id ty sb => simpa [wireArrs, arrayIds] using ih
    | optional id ty ci cv => simpa [wireArrs, arrayIds] using ih
    | payload m => simpa [wireArrs, arrayIds] using ih

theorem lookupArr_of_mem (arrs : List ArrInfo) (a : ArrInfo) (hm : a ∈ arrs)
    (hn : (arrs.map (·.id)).Nodup) : lookupArr arrs a.id = some a := by
  induction arrs with
  | nil => simp at hm
  | cons b l ih =>
    simp only [List.map_cons, List.nodup_cons] at hn
    rcases List.mem_cons.mp hm with rfl | hm
    · simp [lookupArr]
    · have hne : b.id ≠ a.id := by
        intro heq
        exact hn.1 (heq ▸ List.mem_map_of_mem hm)
      have hne' : (b.id == a.id) = false := by simpa using hne
      simp only [lookupArr, List.find?_cons, hne']
      exact ih hm hn.2

/-- element loops: if the encoder model agrees with the reference on every element (and writes
    `g x` octets), it agrees on the run -/
theorem encElems_of_encListWith (W : Value → Enc Bytes) (R : Value → Option Bytes) (g : Value → Nat)
    (h : ∀ x b, W x = .ok b → R x = some b ∧ b.length = g x) :
    ∀ vs es, encListWith W vs = .ok es → encElems R vs = some (es, vs.map g) := by
  intro vs
  induction vs with
  | nil => intro es he; simp [encListWith] at he; simp [encElems, ← he]
  | cons x xs ih =>
    intro es he
    simp only [encListWith] at he
    obtain ⟨a, ha, h2⟩ := bind_ok _ _ _ he
    obtain ⟨b, hb, h3⟩ := bind_ok _ _ _ h2
    simp only [Outcome.ok.injEq] at h3
    obtain ⟨r1, r2⟩ := h x a ha
    simp only [encElems, r1, ih b hb, List.map_cons, r2, ← h3]

end Pdlv
