/-
  Pdlv.Lemmas.CxxAgree — the model of the struct parser the C++ back end emits (`Pdlv.Cxx.decBody`)
  refines the reference decoder (`Pdlv.decBody`, reference mode) on the layouts `Cxx.wfBody`: it accepts
  the same inputs with the same values, and it reaches a failed slice assertion only where the reference
  decoder itself would stop outside its domain (which, by C01, is never on well-formed layouts).
-/
import Pdlv.Cxx
import Pdlv.Lemmas.PyAgree
import Pdlv.Thm.C01
import Pdlv.Lemmas.CxxVals

namespace Pdlv
namespace Cxx

/-- same acceptance and results; a hazard on the left only where the right stops too -/
def Refines {α : Type} (p q : Dec α) : Prop :=
  (∀ a, p = .ok a ↔ q = .ok a) ∧ (∀ h, p = .panic h → ∃ h', q = .panic h')

theorem Refines.rfl {α : Type} (p : Dec α) : Refines p p := ⟨fun _ => Iff.rfl, fun h hp => ⟨h, hp⟩⟩

theorem Refines.of_eq {α : Type} {p q : Dec α} (h : p = q) : Refines p q := by subst h; exact Refines.rfl p

theorem Refines.bind {α β : Type} {p q : Dec α} {f g : α → Dec β} (h : Refines p q)
    (hf : ∀ a, q = .ok a → Refines (f a) (g a)) : Refines (p.bind f) (q.bind g) := by
  constructor
  · intro b
    constructor
    · intro hb
      obtain ⟨a, ha, hfa⟩ := bind_ok _ _ _ hb
      have hq := (h.1 a).mp ha
      rw [hq]
      exact ((hf a hq).1 b).mp hfa
    · intro hb
      obtain ⟨a, ha, hga⟩ := bind_ok _ _ _ hb
      have hp := (h.1 a).mpr ha
      rw [hp]
      exact ((hf a ha).1 b).mpr hga
  · intro hz hp
    cases hpp : p with
    | ok a =>
      rw [hpp] at hp
      have hq := (h.1 a).mp hpp
      obtain ⟨h', hg⟩ := (hf a hq).2 hz hp
      exact ⟨h', by rw [hq]; exact hg⟩
    | err e => rw [hpp] at hp; simp [Outcome.bind] at hp
    | panic h0 =>
      obtain ⟨h', hq⟩ := h.2 h0 hpp
      exact ⟨h', by rw [hq]; exact Eq.refl _⟩

theorem Refines.err_left {α : Type} (e : DecErr) (q : Dec α) (hq : ∀ a, q ≠ .ok a) : Refines (.err e) q :=
  ⟨fun a => ⟨fun h => (by cases h), fun h => absurd h (hq a)⟩, fun _ h => (by cases h)⟩

theorem Refines.err_err {α : Type} (e e' : DecErr) : Refines (.err e : Dec α) (.err e') :=
  Refines.err_left e _ (fun _ h => (by cases h))

theorem Refines.panic_panic {α : Type} (h h' : Hazard) : Refines (.panic h : Dec α) (.panic h') :=
  ⟨fun a => ⟨fun x => (by cases x), fun x => (by cases x)⟩, fun _ _ => ⟨h', Eq.refl _⟩⟩

/-! ### loops -/

theorem decRepeat_ref (f g : Bytes → Dec (Value × Bytes))
    (h : ∀ bs, bs.length < usizeMax → Refines (f bs) (g bs)) (hg : Consumes g 0) :
    ∀ (n : Nat) (bs : Bytes), bs.length < usizeMax → Refines (decRepeat f n bs) (decRepeat g n bs)
  | 0, bs, _ => Refines.rfl _
  | n + 1, bs, hb => by
    simp only [decRepeat]
    refine Refines.bind (h bs hb) (fun x hx => ?_)
    have := hg bs x.1 x.2 hx
    exact Refines.bind (decRepeat_ref f g h hg n x.2 (by omega)) (fun _ _ => Refines.rfl _)

/-- a loop of `n` reads of `w` octets behind a check of `n * w` octets -/
theorem decRepeat_guard (w : Nat) (f g : Bytes → Dec (Value × Bytes))
    (h : ∀ bs, w ≤ bs.length → bs.length < usizeMax → Refines (f bs) (g bs)) (hg : Exact g w) :
    ∀ (n : Nat) (bs : Bytes), n * w ≤ bs.length → bs.length < usizeMax → Refines (decRepeat f n bs) (decRepeat g n bs)
  | 0, bs, _, _ => Refines.rfl _
  | n + 1, bs, hn, hb => by
    have e1 : (n + 1) * w = n * w + w := by rw [Nat.add_mul]; omega
    simp only [decRepeat]
    refine Refines.bind (h bs (by omega) hb) (fun x hx => ?_)
    have := hg bs x.1 x.2 hx
    exact Refines.bind (decRepeat_guard w f g h hg n x.2 (by omega) (by omega)) (fun _ _ => Refines.rfl _)

theorem decWhile_ref (f g : Bytes → Dec (Value × Bytes))
    (h : ∀ bs, bs.length < usizeMax → Refines (f bs) (g bs)) :
    ∀ (fuel : Nat) (bs : Bytes), bs.length < usizeMax → Refines (decWhile f fuel bs) (decWhile g fuel bs)
  | 0, bs, _ => Refines.rfl _
  | fuel + 1, bs, hb => by
    simp only [decWhile]
    split
    · exact Refines.rfl _
    · refine Refines.bind (h bs hb) (fun x _ => ?_)
      split
      · rename_i hl
        exact Refines.bind (decWhile_ref f g h fuel x.2 (by omega)) (fun _ _ => Refines.rfl _)
      · exact Refines.rfl _

theorem decRepeat_length (f : Bytes → Dec (Value × Bytes)) :
    ∀ (n : Nat) (bs : Bytes) (vs : List Value) (r : Bytes), decRepeat f n bs = .ok (vs, r) → vs.length = n
  | 0, bs, vs, r, h => by
    simp only [decRepeat, Outcome.ok.injEq, Prod.mk.injEq] at h
    rw [← h.1]; rfl
  | n + 1, bs, vs, r, h => by
    simp only [decRepeat] at h
    obtain ⟨⟨x, a1⟩, _, h2⟩ := bind_ok _ _ _ h
    obtain ⟨⟨xs, a2⟩, h3, h4⟩ := bind_ok _ _ _ h2
    simp only [Outcome.ok.injEq, Prod.mk.injEq] at h4
    rw [← h4.1, List.length_cons, decRepeat_length f n a1 xs a2 h3]

/-- the reference drops nothing by checking the length of a counted array -/
theorem unwrap_after_repeat (g : Bytes → Dec (Value × Bytes)) (n : Nat) (sp : Bytes) :
    Refines (decRepeat g n sp)
      ((decRepeat g n sp).bind fun (vs, r) => (unwrapArr n vs).bind fun vs => .ok (vs, r)) := by
  cases hr : decRepeat g n sp with
  | err e => exact Refines.err_err _ _
  | panic h => exact Refines.panic_panic _ _
  | ok x =>
    obtain ⟨vs, r⟩ := x
    have := decRepeat_length g n sp vs r hr
    simp [Outcome.bind, unwrapArr, this]
    exact Refines.rfl _

theorem Refines.trans {α : Type} {p q r : Dec α} (h1 : Refines p q) (h2 : Refines q r) : Refines p r :=
  ⟨fun a => (h1.1 a).trans (h2.1 a), fun h hp => by
    obtain ⟨h', hq⟩ := h1.2 h hp
    exact h2.2 h' hq⟩

/-! ### arrays -/

/-- what the array cases need of the element parsers `f` (emitted C++) and `g` (reference) -/
def ElemRel (f g : Bytes → Dec (Value × Bytes)) : ElemWidth → Prop
  | .static w => (∀ bs, w ≤ bs.length → bs.length < usizeMax → Refines (f bs) (g bs)) ∧ Exact g w
  | .unknown => (∀ bs, bs.length < usizeMax → Refines (f bs) (g bs)) ∧ Consumes g 0
  | .dynamic => False

theorem array_ref (f g : Bytes → Dec (Value × Bytes)) (ew : ElemWidth) (shape : Shape) (cw cnt siz esz : Option Nat)
    (sp : Bytes) (hsp : sp.length < usizeMax) (hel : ElemRel f g ew)
    (hcw : ∀ w, ew = .static w → shape = .countField → ∃ c, cw = some c ∧ c ≤ 16 ∧ w * 65535 < 2 ^ 31) :
    Refines (arrayFull f ew shape cw cnt siz sp) (decArray .ideal g ew shape cnt siz esz sp) := by
  cases ew with
  | dynamic => exact absurd hel (by simp [ElemRel])
  | unknown =>
    obtain ⟨hfg, hcons⟩ := hel
    cases shape with
    | sizeField =>
      simp only [arrayFull, decArray]
      cases siz with
      | none => exact Refines.rfl _
      | some sz =>
        simp only
        split
        · exact Refines.rfl _
        · exact Refines.bind (decWhile_ref f g hfg _ _ (by rw [List.length_take]; omega)) (fun _ _ => Refines.rfl _)
    | static n =>
      simp only [arrayFull, decArray]
      exact Refines.trans (decRepeat_ref f g hfg hcons n sp hsp) (unwrap_after_repeat g n sp)
    | countField =>
      simp only [arrayFull, decArray]
      cases cnt with
      | none => exact Refines.rfl _
      | some n => exact decRepeat_ref f g hfg hcons n sp hsp
    | unknown =>
      simp only [arrayFull, decArray]
      exact Refines.bind (decWhile_ref f g hfg _ _ hsp) (fun _ _ => Refines.rfl _)
  | static w =>
    obtain ⟨hfg, hex⟩ := hel
    cases shape with
    | static n =>
      simp only [arrayFull, decArray]
      split
      · exact Refines.rfl _
      · rename_i hl
        exact Refines.trans (decRepeat_guard w f g hfg hex n sp (by omega) hsp) (unwrap_after_repeat g n sp)
    | countField =>
      obtain ⟨c, rfl, hc16, hw⟩ := hcw w rfl rfl
      simp only [arrayFull, decArray]
      cases cnt with
      | none => exact Refines.rfl _
      | some n =>
        simp only [mulCount, hc16, ↓reduceIte, hw, Outcome.bind, umulM]
        by_cases hnw : n * w < usizeMax
        · simp only [hnw, ↓reduceIte, Nat.mul_comm w n]
          split
          · exact Refines.rfl _
          · rename_i hl
            exact decRepeat_guard w f g hfg hex n sp (by omega) hsp
        · simp only [hnw, ↓reduceIte]
          rw [if_pos (by rw [Nat.mul_comm]; omega)]
          exact Refines.err_err _ _
    | sizeField =>
      simp only [arrayFull, decArray]
      cases siz with
      | none => exact Refines.rfl _
      | some sz =>
        simp only
        split
        · exact Refines.rfl _
        · rename_i hl
          split
          · exact Refines.rfl _
          · split
            · exact Refines.rfl _
            · rename_i hw0 hm
              have hm' : sz % w = 0 := by omega
              have : sz / w * w = sz := Nat.div_mul_cancel (Nat.dvd_of_mod_eq_zero hm')
              exact decRepeat_guard w f g hfg hex _ sp (by omega) hsp
    | unknown =>
      simp only [arrayFull, decArray]
      split
      · exact Refines.rfl _
      · split
        · exact Refines.rfl _
        · rename_i hw0 hm
          have hm' : sp.length % w = 0 := by omega
          have : sp.length / w * w = sp.length := Nat.div_mul_cancel (Nat.dvd_of_mod_eq_zero hm')
          exact decRepeat_guard w f g hfg hex _ sp (by omega) hsp

/-! ### elements, fields, field lists -/

open Py (ideal decChunk_flag)

theorem decArray_no_keys (m : Mode) (g : Bytes → Dec (Value × Bytes)) (ew : ElemWidth) (shape : Shape)
    (cnt siz esz : Option Nat) (sp : Bytes) (hew : ew ≠ .dynamic) (hk : arrayKeysOk ew shape cnt siz esz = false) :
    decArray m g ew shape cnt siz esz sp = .panic .badLayout := by
  cases ew with
  | dynamic => exact absurd rfl hew
  | static w => cases shape <;> cases cnt <;> cases siz <;> simp_all [arrayKeysOk, decArray]
  | unknown => cases shape <;> cases cnt <;> cases siz <;> simp_all [arrayKeysOk, decArray]

/-- the element parsers of an array, from what the class says about the element type -/
theorem elemRel_of (c : Cfg) (elem : Ty) (ew : ElemWidth) (hnc : ∀ nm w, elem ≠ .custom nm w)
    (hs : isStruct elem = true → ∀ bs, bs.length < usizeMax → Refines (decElem c elem bs) (Pdlv.decTy (ideal c) elem bs))
    (hshape : match ew with
      | .static w => staticTy elem = some w ∧ localWfTy elem = true
      | .unknown => isStruct elem = true
      | .dynamic => False) :
    ElemRel (decElem c elem) (Pdlv.decTy (ideal c) elem) ew := by
  cases ew with
  | dynamic => exact hshape
  | unknown =>
    exact ⟨hs hshape, fun bs v r h => by have := decTy_consumes (ideal c) elem bs v r h; omega⟩
  | static w =>
    obtain ⟨hst, hlw⟩ := hshape
    refine ⟨?_, decTy_exact_len (ideal c) elem w hst hlw⟩
    intro bs hwl hb
    cases elem with
    | scalar w' =>
      simp only [staticTy, Option.some.injEq] at hst
      have : ¬ bs.length < w' / 8 := by omega
      exact Refines.of_eq (by simp [decElem, rawRead, this, Pdlv.decTy, ideal])
    | enumTy nm en =>
      simp only [staticTy, Option.some.injEq] at hst
      have : ¬ bs.length < en.width / 8 := by omega
      exact Refines.of_eq (by simp [decElem, rawRead, this, Pdlv.decTy, ideal])
    | custom nm w' => exact absurd rfl (hnc nm w')
    | struct nm b => exact hs rfl bs hb

/-- a successful reference decode of a field list consumed at least the run of bit-field groups it starts with -/
theorem run_needs (c : Cfg) : ∀ (is : Items) (bs rest : Bytes) (st st' : DState),
    Pdlv.decItems (ideal c) is bs st = .ok (st', rest) → runTotal is ≤ bs.length
  | .nil, bs, rest, st, st', _ => by simp [runTotal]
  | .cons i r, bs, rest, st, st', h => by
    cases i with
    | chunk fs =>
      simp only [Pdlv.decItems] at h
      obtain ⟨⟨st1, b1⟩, h1, h2⟩ := bind_ok _ _ _ h
      have ih := run_needs c r b1 rest st1 st' h2
      have hex := decItem_exact_len (ideal c) (.chunk fs) (chunkBits fs / 8) st (by simp [staticItem]) (by simp [localWfItem]) bs st1 b1 h1
      simp only [runTotal]
      omega
    | _ => simp [runTotal]

/-- no array size modifier anywhere in the field list -/
def ModFree (all : Items) : Prop := ∀ id w m, sizeField id all = some (w, m) → id = "_payload_" ∨ m = 0

theorem sizeFieldIn_plain (id : String) : ∀ (fs : List BitField), fs.all Py.bfPlain = true → ∀ w m,
    sizeFieldIn id fs = some (w, m) → id = "_payload_" ∨ m = 0
  | [], _, w, m, h => by simp [sizeFieldIn] at h
  | f :: fs, hp, w, m, h => by
    simp only [List.all_cons, Bool.and_eq_true] at hp
    cases f with
    | size t w' m' =>
      simp only [sizeFieldIn] at h
      split at h
      · rename_i ht
        simp only [Option.some.injEq, Prod.mk.injEq] at h
        simp only [Py.bfPlain, Bool.or_eq_true, beq_iff_eq] at hp
        have ht' : t = id := by simpa using ht
        rcases hp.1 with h1 | h1
        · exact Or.inl (by rw [← ht', h1])
        · exact Or.inr (by rw [← h.2, h1])
      · exact sizeFieldIn_plain id fs hp.2 w m h
    | _ => exact sizeFieldIn_plain id fs hp.2 w m (by simpa [sizeFieldIn] using h)

theorem sizeField_wf (all : Items) (id : String) :
    ∀ (is : Items), wfItems all is = true → ∀ w m, sizeField id is = some (w, m) → id = "_payload_" ∨ m = 0
  | .nil, _, w, m, h => by simp [sizeField] at h
  | .cons i r, hw, w, m, h => by
    simp only [wfItems, Bool.and_eq_true] at hw
    have hr := sizeField_wf all id r hw.2
    cases i with
    | chunk fs =>
      simp only [sizeField] at h
      cases hin : sizeFieldIn id fs with
      | some x =>
        rw [hin] at h
        simp only [Option.some_or, Option.some.injEq] at h
        subst h
        exact sizeFieldIn_plain id fs (by simpa [wfItem] using hw.1) w m hin
      | none =>
        rw [hin] at h
        simp only [Option.none_or] at h
        exact hr w m h
    | typedef a b c' => exact hr w m (by simpa [sizeField] using h)
    | optional a b c' d => exact hr w m (by simpa [sizeField] using h)
    | payload md => exact hr w m (by simpa [sizeField] using h)
    | array a b c' d e => exact hr w m (by simpa [sizeField] using h)

theorem subModifier_id (all : Items) (hall : ModFree all) (id : String) (hid : id ≠ "_payload_") (s : Option Nat) :
    subModifier all id s = s := by
  unfold subModifier
  cases s with
  | none => rfl
  | some sz =>
    cases hf : sizeField id all with
    | none => rfl
    | some x =>
      obtain ⟨w, m⟩ := x
      rcases hall id w m hf with h | h
      · exact absurd h hid
      · subst h; simp

/-- a statically counted array of scalars in a padded slot it fits: the emitted code checks `n * w` octets, reads,
    and skips what is left of the padding; the reference parses from the first `p` octets -/
theorem padded_scalar_ref (c : Cfg) (all rest : Items) (id : String) (w' n p : Nat) (hnp : n * (w' / 8) ≤ p)
    (hall : ModFree all) (hid : id ≠ "_payload_") (bs : Bytes) (st : DState) :
    Refines (Cxx.decItem c all rest (.array id (.scalar w') (.static (w' / 8)) (.static n) (some p)) bs st)
      (Pdlv.decItem (ideal c) (.array id (.scalar w') (.static (w' / 8)) (.static n) (some p)) bs st) := by
  have hk : arrayKeysOk (.static (w' / 8)) (.static n) (st.ctx.get (.count id)) (st.ctx.get (.size id)) (st.ctx.get (.esize id)) = true := rfl
  have hf : decElem c (.scalar w') = scalarEl c.e w' := by
    funext b; simp [decElem, rawRead_eq, scalarEl]
  simp only [Cxx.decItem, Pdlv.decItem, afterPad, withPad, ideal, subModifier_id all hall id hid, hk, Bool.not_true,
    Bool.false_eq_true, ↓reduceIte, arrayFull, decArray, decTy_scalar, hf]
  by_cases hl : bs.length < n * (w' / 8)
  · have hlp : bs.length < p := by omega
    simp only [hl, hlp, ↓reduceIte, Outcome.bind]
    exact Refines.err_err _ _
  · have hle : n * (w' / 8) ≤ bs.length := by omega
    simp only [hl, ↓reduceIte, decRepeat_vals c.e w' n bs hle, Outcome.bind, List.length_drop]
    have hcons : bs.length - (bs.length - n * (w' / 8)) = n * (w' / 8) := by omega
    rw [hcons]
    by_cases hlp : bs.length < p
    · have h1 : n * (w' / 8) < p := by omega
      have h2 : bs.length - n * (w' / 8) < p - n * (w' / 8) := by omega
      simp only [h1, h2, hlp, ↓reduceIte]
      exact Refines.err_err _ _
    · have htk : n * (w' / 8) ≤ (bs.take p).length := by rw [List.length_take]; omega
      have hnl : ¬ (bs.take p).length < n * (w' / 8) := by omega
      simp only [hlp, ↓reduceIte, hnl, decRepeat_vals c.e w' n (bs.take p) htk, unwrapArr, vals_length,
        vals_take c.e w' n bs p hnp]
      by_cases h1 : n * (w' / 8) < p
      · have h2 : ¬ (bs.length - n * (w' / 8) < p - n * (w' / 8)) := by omega
        simp only [h1, h2, ↓reduceIte, List.drop_drop]
        have : n * (w' / 8) + (p - n * (w' / 8)) = p := by omega
        rw [this]
        exact Refines.rfl _
      · have : n * (w' / 8) = p := by omega
        simp only [this, Nat.lt_irrefl, ↓reduceIte]
        exact Refines.rfl _

mutual
theorem ty_ref (c : Cfg) : ∀ (ty : Ty), wfTy ty = true → isStruct ty = true → ∀ bs, bs.length < usizeMax →
    Refines (decElem c ty bs) (Pdlv.decTy (ideal c) ty bs)
  | .scalar w, _, hs, _, _ => by simp [isStruct] at hs
  | .enumTy nm en, _, hs, _, _ => by simp [isStruct] at hs
  | .custom nm w, _, hs, _, _ => by simp [isStruct] at hs
  | .struct _ (.root nm items), hw, _, bs, hb => by
    simp only [wfTy] at hw
    simp only [decElem, Pdlv.decTy, Cxx.decBody, Pdlv.decBody]
    exact Refines.bind (items_ref c items (sizeField_wf items · items hw) items hw false bs DState.empty hb) (fun _ _ => Refines.rfl _)
  | .struct _ (.derived ..), hw, _, _, _ => by simp [wfTy] at hw

theorem item_ref (c : Cfg) (all rest : Items) (hall : ModFree all) : ∀ (i : Item), wfItem all rest i = true → ∀ (bs : Bytes) (st : DState),
    bs.length < usizeMax → Refines (Cxx.decItem c all rest i bs st) (Pdlv.decItem (ideal c) i bs st)
  | .chunk fs, hw, bs, st, _ => by
    simp only [wfItem] at hw
    simp only [Cxx.decItem, Pdlv.decItem, ideal, BEq.rfl]
    exact Refines.of_eq (decChunk_flag c.e fs hw bs st)
  | .typedef id ty sb, hw, bs, st, hb => by
    simp only [wfItem, Bool.and_eq_true, Bool.not_eq_true'] at hw
    obtain ⟨⟨hst, hwt⟩, hunk⟩ := hw
    cases ty with
    | scalar w => simp [isStruct] at hst
    | enumTy nm en => simp [isStruct] at hst
    | custom nm w => simp [isStruct] at hst
    | struct nm b =>
      have href := ty_ref c (.struct nm b) hwt hst bs hb
      simp only [decElem, Pdlv.decTy] at href
      simp only [Cxx.decItem, hunk, Bool.false_eq_true, ↓reduceIte, Pdlv.decItem, Pdlv.decTy]
      exact Refines.bind href (fun _ _ => Refines.rfl _)
  | .optional id ty cid cval, hw, bs, st, hb => by
    simp only [wfItem] at hw
    unfold Cxx.decItem
    cases hctx : st.ctx.get (.val cid) with
    | none =>
      simp only [condValue, hctx, Outcome.bind, Pdlv.decItem]
      exact Refines.rfl _
    | some cv =>
      simp only [condValue, hctx, Outcome.bind, Pdlv.decItem]
      by_cases hcv : cv = cval
      · simp only [hcv, ↓reduceIte]
        cases ty with
        | scalar w =>
          simp only [ideal]
          by_cases hl : bs.length < w / 8
          · simp only [hl, ↓reduceIte, decide_true]
            exact Refines.rfl _
          · simp only [hl, ↓reduceIte, decide_false, Bool.false_eq_true]
            refine Refines.of_eq ?_
            simp only [Pdlv.decTy]
            cases getUint c.e w bs <;> rfl
        | enumTy nm en =>
          simp only [ideal]
          by_cases hl : bs.length < en.width / 8
          · simp only [hl, ↓reduceIte, decide_true]
            exact Refines.rfl _
          · simp only [hl, ↓reduceIte, decide_false, Bool.false_eq_true]
            refine Refines.of_eq ?_
            simp only [Pdlv.decTy]
            cases hg : getUint c.e en.width bs with
            | ok x =>
              simp only [Outcome.bind]
              by_cases ho : enumOk en x.1 = true
              · simp [ho]
              · simp [ho]
            | err e => rfl
            | panic h => rfl
        | custom nm w => simp [wfTy] at hw
        | struct nm b =>
          have href := ty_ref c (.struct nm b) hw rfl bs hb
          simp only [decElem, Pdlv.decTy] at href
          simp only [Bool.false_eq_true, ↓reduceIte, Pdlv.decTy]
          exact Refines.bind href (fun _ _ => Refines.rfl _)
      · simp only [hcv, ↓reduceIte]
        exact Refines.rfl _
  | .payload mode, hw, bs, st, _ => by
    cases mode with
    | sized m =>
      simp only [Cxx.decItem, Pdlv.decItem]
      exact Refines.rfl _
    | last =>
      simp only [wfItem, beq_iff_eq] at hw
      simp only [Cxx.decItem, Pdlv.decItem, hw, ↓reduceIte]
      exact Refines.rfl _
    | beforeStatic k =>
      simp only [wfItem, beq_iff_eq] at hw
      simp only [Cxx.decItem, Pdlv.decItem, hw]
      by_cases hk : k = 0
      · subst hk
        simp only [↓reduceIte, Nat.not_lt_zero, Nat.sub_zero, List.take_length, List.drop_length]
        exact Refines.rfl _
      · simp only [hk, ↓reduceIte]
        exact Refines.rfl _
    | undelimited => simp [wfItem] at hw
  | .array id elem ew shape pad, hw, bs, st, hb => by
    simp only [wfItem, Bool.and_eq_true, bne_iff_ne, ne_eq] at hw
    obtain ⟨⟨⟨hpad, hidp⟩, hwt⟩, hshape⟩ := hw
    cases pad with
    | some p =>
      cases elem with
      | scalar w' =>
        cases ew with
        | static w =>
          cases shape with
          | static n =>
            simp only [padOk, Bool.and_eq_true, beq_iff_eq, decide_eq_true_eq] at hpad
            obtain ⟨hw8, hnp⟩ := hpad
            subst hw8
            exact padded_scalar_ref c all rest id w' n p hnp hall hidp bs st
          | _ => simp [padOk] at hpad
        | _ => simp [padOk] at hpad
      | _ => simp [padOk] at hpad
    | none =>
    have hnc : ∀ nm w, elem ≠ .custom nm w := by
      intro nm w h; subst h; simp [wfTy] at hwt
    have hnd : ew ≠ .dynamic := by
      intro h; subst h; simp at hshape
    have hel : ElemRel (decElem c elem) (Pdlv.decTy (ideal c) elem) ew := by
      apply elemRel_of c elem ew hnc (fun hs bs hb => ty_ref c elem hwt hs bs hb)
      cases ew with
      | static w =>
        simp only [Bool.and_eq_true, beq_iff_eq] at hshape
        exact ⟨hshape.1.1, hshape.1.2⟩
      | unknown => exact hshape
      | dynamic => exact absurd rfl hnd
    have hcw : ∀ w, ew = .static w → shape = .countField →
        ∃ cc, countWidth id all = some cc ∧ cc ≤ 16 ∧ w * 65535 < 2 ^ 31 := by
      intro w h1 h2
      subst h1; subst h2
      simp only [Bool.and_eq_true, beq_iff_eq, countOk] at hshape
      cases hcc : countWidth id all with
      | none => simp [hcc] at hshape
      | some cc =>
        simp only [hcc, Bool.and_eq_true, decide_eq_true_eq] at hshape
        exact ⟨cc, rfl, hshape.2.1, hshape.2.2⟩
    have harr := array_ref (decElem c elem) (Pdlv.decTy (ideal c) elem) ew shape (countWidth id all)
      (st.ctx.get (.count id)) (st.ctx.get (.size id)) (st.ctx.get (.esize id)) bs hb hel hcw
    simp only [Cxx.decItem, Pdlv.decItem, afterPad, withPad, ideal, subModifier_id all hall id hidp]
    by_cases hk : arrayKeysOk ew shape (st.ctx.get (.count id)) (st.ctx.get (.size id)) (st.ctx.get (.esize id)) = true
    · simp only [hk, Bool.not_true, Bool.false_eq_true, ↓reduceIte]
      exact Refines.bind harr (fun _ _ => Refines.of_eq (by simp [Outcome.bind]))
    · have hk' : arrayKeysOk ew shape (st.ctx.get (.count id)) (st.ctx.get (.size id)) (st.ctx.get (.esize id)) = false := by
        simpa using hk
      simp only [hk', Bool.not_false, ↓reduceIte]
      have hp := decArray_no_keys .ideal (Pdlv.decTy (ideal c) elem) ew shape _ _ _ bs hnd hk'
      rw [hp] at harr
      constructor
      · intro a
        constructor
        · intro h
          obtain ⟨x, hx, _⟩ := bind_ok _ _ _ h
          exact absurd ((harr.1 x).mp hx) (by simp)
        · intro h; cases h
      · intro _ _; exact ⟨_, Eq.refl _⟩

theorem items_ref (c : Cfg) (all : Items) (hall : ModFree all) : ∀ (is : Items), wfItems all is = true → ∀ (inRun : Bool) (bs : Bytes) (st : DState),
    bs.length < usizeMax → Refines (Cxx.decItems c all is inRun bs st) (Pdlv.decItems (ideal c) is bs st)
  | .nil, _, _, bs, st, _ => Refines.rfl _
  | .cons i r, hw, inRun, bs, st, hb => by
    simp only [wfItems, Bool.and_eq_true] at hw
    simp only [Cxx.decItems]
    have step : ∀ (b : Bool), Refines ((Cxx.decItem c all r i bs st).bind fun x => Cxx.decItems c all r b x.2 x.1)
        (Pdlv.decItems (ideal c) (.cons i r) bs st) := by
      intro b
      simp only [Pdlv.decItems]
      refine Refines.bind (item_ref c all r hall i hw.1 bs st hb) (fun x hx => ?_)
      have := decItem_consumes (ideal c) i bs st x.1 x.2 hx
      exact items_ref c all hall r hw.2 b x.2 x.1 (by omega)
    cases hr : runLen i with
    | none => exact step false
    | some n =>
      simp only
      split
      · rename_i hc
        simp only [Bool.and_eq_true, Bool.not_eq_true', decide_eq_true_eq] at hc
        apply Refines.err_left
        intro a ha
        have := run_needs c (.cons i r) bs a.2 st a.1 ha
        omega
      · exact step true
end

/-- the struct parser the C++ back end emits refines the reference decoder on `Cxx.wfBody` -/
theorem struct_parser_refines_reference (c : Cfg) (nm : String) (items : Items) (hw : wfBody (.root nm items) = true)
    (bs : Bytes) (hb : bs.length < usizeMax) :
    Refines (Cxx.decBody c (.root nm items) bs) (Pdlv.decBody (ideal c) (.root nm items) bs) := by
  simp only [wfBody] at hw
  simp only [Cxx.decBody, Pdlv.decBody]
  exact Refines.bind (items_ref c items (sizeField_wf items · items hw) items hw false bs DState.empty hb) (fun _ _ => Refines.rfl _)

end Cxx
end Pdlv
