/-
  Pdlv.Lemmas.JavaChunk — a bit-field group of at most 32 bits is packed by the emitted Java (`Pdlv.Java.encChunk`)
  exactly as the reference packs it: the typed shifts and ORs of `ExprTree` lose nothing below 33 bits.
-/
import Pdlv.Java
import Pdlv.Lemmas.PySer
import Pdlv.Lemmas.RefEq
import Pdlv.Lemmas.Exact

namespace Pdlv
namespace Java


theorem bits_mono {a b : JT} (h : a.rank ≤ b.rank) : a.bits ≤ b.bits := by
  cases a <;> cases b <;> simp [JT.rank, JT.bits] at h ⊢

theorem maxT_left (a b : JT) : a.rank ≤ (maxT a b).rank := by
  unfold maxT; split <;> omega

theorem maxT_right (a b : JT) : b.rank ≤ (maxT a b).rank := by
  unfold maxT; split <;> omega

theorem foldl_max_ge (es : List E) : ∀ (a : JT), a.rank ≤ (es.foldl (fun a x => maxT a x.ty) a).rank ∧
    ∀ e ∈ es, e.ty.rank ≤ (es.foldl (fun a x => maxT a x.ty) a).rank := by
  induction es with
  | nil => intro a; exact ⟨Nat.le_refl _, fun e he => by simp at he⟩
  | cons x xs ih =>
    intro a
    simp only [List.foldl_cons]
    obtain ⟨h1, h2⟩ := ih (maxT a x.ty)
    refine ⟨Nat.le_trans (maxT_left a x.ty) h1, ?_⟩
    intro e he
    rcases List.mem_cons.mp he with rfl | he
    · exact Nat.le_trans (maxT_right a e.ty) h1
    · exact h2 e he

theorem cast_val_of_lt (e : E) (t : JT) (h : e.val < 2 ^ t.bits) : (cast e t).val = e.val := by
  unfold cast
  split
  · rfl
  · simp only; exact Nat.mod_eq_of_lt h

theorem cast_ty (e : E) (t : JT) : (cast e t).ty = t := by
  unfold cast; split
  · assumption
  · rfl

/-- the shifted fields sit on top of each other: field `i` is `x * 2^off` with `x < 2^w`, the next one starts at
    `off + w`; each fits its own Java type -/
def Stacked : List E → Nat → Nat → Prop
  | [], off, top => off = top
  | e :: r, off, top => ∃ x w, e.val = x * 2 ^ off ∧ x < 2 ^ w ∧ e.val < 2 ^ e.ty.bits ∧ Stacked r (off + w) top

def sumVals : List E → Nat
  | [] => 0
  | e :: r => e.val + sumVals r

theorem or_fold_sum (t : JT) : ∀ (es : List E) (off top a : Nat), Stacked es off top → a < 2 ^ off →
    (∀ e ∈ es, e.ty.rank ≤ t.rank) →
    es.foldl (fun a x => a ||| (cast x t).val) a = a + sumVals es ∧ a + sumVals es < 2 ^ top
  | [], off, top, a, hs, ha, _ => by
    simp only [Stacked] at hs
    subst hs
    simp [sumVals, ha]
  | e :: r, off, top, a, hs, ha, ht => by
    obtain ⟨x, w, hv, hx, hfit, hr⟩ := hs
    have hte : e.ty.bits ≤ t.bits := bits_mono (ht e (List.mem_cons_self ..))
    have hc : (cast e t).val = e.val :=
      cast_val_of_lt e t (Nat.lt_of_lt_of_le hfit (Nat.pow_le_pow_right (by decide) hte))
    simp only [List.foldl_cons, hc, sumVals]
    have hor : a ||| e.val = a + e.val := by
      rw [hv, Nat.or_comm, Nat.mul_comm x, ← Nat.two_pow_add_eq_or_of_lt ha]
      omega
    rw [hor]
    have hlt : a + e.val < 2 ^ (off + w) := by
      rw [hv, Nat.pow_add]
      have : x * 2 ^ off + 2 ^ off ≤ 2 ^ w * 2 ^ off := by
        have : (x + 1) * 2 ^ off ≤ 2 ^ w * 2 ^ off := Nat.mul_le_mul_right _ (by omega)
        rw [Nat.add_mul, Nat.one_mul] at this; exact this
      rw [Nat.mul_comm (2 ^ off)]; omega
    obtain ⟨h1, h2⟩ := or_fold_sum t r (off + w) top (a + e.val) hr hlt (fun e' he' => ht e' (List.mem_cons_of_mem _ he'))
    exact ⟨by rw [h1]; omega, by omega⟩

theorem width_sum (f : BitField) (fs : List BitField) : chunkBits (f :: fs) = f.width + chunkBits fs :=
  chunkBits_cons f fs

/-- one field, shifted to its offset inside a group of at most 32 bits -/
theorem lshift_exact (e : E) (x w off : Nat) (hx : x < 2 ^ w) (hv : e.val = x) (hfit : e.val < 2 ^ e.ty.bits)
    (hint : e.ty.rank ≤ 2) (hlit : e.lit = some 0 → x = 0) (hw : 0 < w) (h32 : off + w ≤ 32) :
    (lshift e off).val = x * 2 ^ off ∧ (lshift e off).val < 2 ^ (lshift e off).ty.bits ∧ (lshift e off).ty.rank ≤ 2 := by
  unfold lshift
  by_cases hz : (e.lit = some 0 || off = 0) = true
  · simp only [hz, ↓reduceIte]
    simp only [Bool.or_eq_true, decide_eq_true_eq] at hz
    rcases hz with h0 | h0
    · have := hlit h0
      subst this
      exact ⟨by simp [hv], hfit, hint⟩
    · subst h0
      exact ⟨by simp [hv], hfit, hint⟩
  · simp only [hz, Bool.false_eq_true, ↓reduceIte]
    have hti : limitToInt e.ty = .int := by
      unfold limitToInt maxT
      cases hty : e.ty <;> simp [JT.rank, hty] at hint ⊢
    have hoff : off < 32 := by omega
    have hcast : (cast e .int).val = x := by
      rw [cast_val_of_lt e .int (Nat.lt_of_lt_of_le hfit (Nat.pow_le_pow_right (by decide) (bits_mono (b := .int) hint)))]
      exact hv
    simp only [hti, JT.bits, hcast, Nat.mod_eq_of_lt hoff, JT.rank, Nat.le_refl, and_true]
    have hlt : x * 2 ^ off < 2 ^ 32 := by
      have h1 : x * 2 ^ off < 2 ^ w * 2 ^ off := Nat.mul_lt_mul_of_pos_right hx (Nat.two_pow_pos off)
      have h2 : 2 ^ w * 2 ^ off = 2 ^ (w + off) := (Nat.pow_add 2 w off).symm
      have h3 : 2 ^ (w + off) ≤ 2 ^ 32 := Nat.pow_le_pow_right (by decide) (by omega)
      omega
    rw [Nat.mod_eq_of_lt hlt]
    exact ⟨rfl, hlt⟩

theorem fitting_bits (w : Nat) (h : w ≤ 64) : w ≤ (fitting w).bits := by
  unfold fitting
  split
  · simp [JT.bits]; omega
  · split
    · simp [JT.bits]; omega
    · split
      · simp [JT.bits]; omega
      · simp [JT.bits]; omega

theorem fitting_rank (w : Nat) (h : w ≤ 32) : (fitting w).rank ≤ 2 := by
  unfold fitting
  split
  · simp [JT.rank]
  · split
    · simp [JT.rank]
    · simp [h, JT.rank]

/-- the fields of a group, from offset `off`: what the reference adds up is what the emitted Java stacks -/
theorem pack_ref (all : Items) (pl : Nat) (v : Value) :
    ∀ (fs : List BitField) (off acc X : Nat), fs.all bfOkE = true → off + chunkBits fs ≤ 32 →
      Pdlv.encChunkFields true all pl v fs off acc = .ok X →
      ∃ es, packFields all pl v fs off = .ok es ∧ Stacked es off (off + chunkBits fs) ∧ X = acc + sumVals es ∧
        ∀ e ∈ es, e.ty.rank ≤ 2
  | [], off, acc, X, _, _, h => by
    simp only [Pdlv.encChunkFields, Outcome.ok.injEq] at h
    exact ⟨[], rfl, by simp [Stacked, chunkBits], by simp [sumVals, h], fun e he => by simp at he⟩
  | f :: fs, off, acc, X, hw, h32, h => by
    simp only [List.all_cons, Bool.and_eq_true] at hw
    rw [width_sum] at h32
    have ih := fun a X' => pack_ref all pl v fs (off + f.width) a X' hw.2 (by omega)
    unfold Pdlv.encChunkFields at h
    have fin : ∀ (e : E) (x : Nat), toNum all pl v f = .ok e → x < 2 ^ f.width → e.val = x → e.val < 2 ^ e.ty.bits →
        e.ty.rank ≤ 2 → (e.lit = some 0 → x = 0) → 0 < f.width →
        Pdlv.encChunkFields true all pl v fs (off + f.width) (acc + x * 2 ^ off) = .ok X →
        ∃ es, packFields all pl v (f :: fs) off = .ok es ∧ Stacked es off (off + chunkBits (f :: fs)) ∧ X = acc + sumVals es ∧
          ∀ e ∈ es, e.ty.rank ≤ 2 := by
      intro e x hte hx hv hfit hrk hlit hpos hrest
      obtain ⟨es, h1, h2, h3, h4⟩ := ih _ X hrest
      obtain ⟨l1, l2, l3⟩ := lshift_exact e x f.width off hx hv hfit hrk hlit hpos (by omega)
      refine ⟨lshift e off :: es, by simp [packFields, hte, h1, Outcome.bind], ?_, ?_, ?_⟩
      · refine ⟨x, f.width, l1, hx, l2, ?_⟩
        rw [width_sum, ← Nat.add_assoc]; exact h2
      · simp only [sumVals, l1]; omega
      · intro e' he'
        rcases List.mem_cons.mp he' with rfl | he'
        · exact l3
        · exact h4 e' he'
    cases f with
    | scalar id w =>
      simp only [bfOkE, bfOkJ, Bool.and_eq_true, decide_eq_true_eq] at hw
      obtain ⟨x, hx, h2⟩ := bind_ok _ _ _ h
      split at h2
      · cases h2
      · rename_i hb
        split at h2
        · cases h2
        · rename_i hm
          have hlt : x < 2 ^ w := by
            by_cases hbw : backingOf w > w
            · have : ¬ x > maskBits w := fun hgt => hm ⟨hbw, hgt⟩
              simp only [maskBits] at this
              have := Nat.two_pow_pos w
              omega
            · have h1 := backingOf_ge w hw.1.2
              have : backingOf w = w := by omega
              rw [this] at hb; omega
          have hw32 : w ≤ 32 := by simp only [BitField.width] at h32; omega
          have hte : toNum all pl v (.scalar id w) = .ok (sym (if w = 1 then .int else fitting w) x) := by
            simp only [toNum, hx, Outcome.bind]
            rw [if_neg (by omega)]
          refine fin _ x hte (by simpa [BitField.width] using hlt) ?_ ?_ ?_ (by simp [sym]) (by simpa [BitField.width] using hw.1.1)
            (by simpa [BitField.width] using h2)
          · simp only [sym]
            apply Nat.mod_eq_of_lt
            split
            · have : x < 2 ^ 32 := Nat.lt_of_lt_of_le hlt (Nat.pow_le_pow_right (by decide) hw32)
              simpa [JT.bits] using this
            · exact Nat.lt_of_lt_of_le hlt (Nat.pow_le_pow_right (by decide) (fitting_bits w (by omega)))
          · simp only [sym]; exact Nat.mod_lt _ (Nat.two_pow_pos _)
          · simp only [sym]
            split
            · simp [JT.rank]
            · exact fitting_rank w hw32
    | enumTy id ty e =>
      simp only [bfOkE, bfOkJ, Bool.and_eq_true, decide_eq_true_eq] at hw
      obtain ⟨x, hx, h2⟩ := bind_ok _ _ _ h
      split at h2
      · rename_i hok
        have hlt := Py.enumOk_lt e x hok
        have hw32 : e.width ≤ 32 := by simp only [BitField.width] at h32; omega
        have hte : toNum all pl v (.enumTy id ty e) = .ok (sym (fitting e.width) x) := by
          simp only [toNum, hx, Outcome.bind]
          rw [if_neg (by omega)]
        refine fin _ x hte (by simpa [BitField.width] using hlt) ?_ ?_ ?_ (by simp [sym]) (by simpa [BitField.width] using hw.1.1)
          (by simpa [BitField.width] using h2)
        · simp only [sym]
          exact Nat.mod_eq_of_lt (Nat.lt_of_lt_of_le hlt (Nat.pow_le_pow_right (by decide) (fitting_bits e.width (by omega))))
        · simp only [sym]; exact Nat.mod_lt _ (Nat.two_pow_pos _)
        · simp only [sym]; exact fitting_rank e.width hw32
      · cases h2
    | fixed w c =>
      simp only [bfOkE, bfOkJ, Bool.and_eq_true, decide_eq_true_eq] at hw
      have hte : toNum all pl v (.fixed w c) = .ok (num c) := by simp [toNum, hw.1.2]
      have hc32 : c < 2 ^ 32 := by have := hw.1.2; omega
      refine fin _ c hte (by simpa [BitField.width] using hw.1.1.2) ?_ ?_ (by simp [num, JT.rank]) ?_
        (by simpa [BitField.width] using hw.1.1.1) (by simpa [BitField.width] using h)
      · simp only [num]; exact Nat.mod_eq_of_lt hc32
      · simp only [num, JT.bits]; exact Nat.mod_lt _ (by decide)
      · intro hl; simp only [num, Option.some.injEq] at hl; exact hl
    | reserved w =>
      simp only [bfOkE, bfOkJ, decide_eq_true_eq] at hw
      have hte : toNum all pl v (.reserved w) = .ok (num 0) := by simp [toNum]
      refine fin _ 0 hte (Nat.two_pow_pos _) (by simp [num]) (by simp [num, JT.bits]) (by simp [num, JT.rank]) (fun _ => rfl)
        (by simpa [BitField.width] using hw.1) (by simpa [BitField.width] using h)
    | flag id o => simp [bfOkE, bfOkJ] at hw
    | size t w m =>
      simp only [bfOkE, Bool.and_eq_true, decide_eq_true_eq] at hw
      obtain ⟨s0, hs, h2⟩ := bind_ok _ _ _ h
      simp only [Bool.true_or, ↓reduceIte] at h2
      split at h2
      · cases h2
      · rename_i hm
        have hlt : s0 + m < 2 ^ w := by
          simp only [maskBits] at hm
          have := Nat.two_pow_pos w
          omega
        have hw32 : ¬ w > 32 := by omega
        have hte : toNum all pl v (.size t w m) = .ok (cast (sym .int (s0 + m)) (fitting w)) := by
          simp only [toNum, hw32, ↓reduceIte, hs, Outcome.bind]
          rw [if_neg (by omega)]
        have h232 : s0 + m < 2 ^ 32 := Nat.lt_of_lt_of_le hlt (Nat.pow_le_pow_right (by decide) hw.1.2)
        have hsv : (sym .int (s0 + m)).val = s0 + m := by simp only [sym, JT.bits]; exact Nat.mod_eq_of_lt h232
        have hcv : (cast (sym .int (s0 + m)) (fitting w)).val = s0 + m := by
          rw [cast_val_of_lt _ _ (by rw [hsv]; exact Nat.lt_of_lt_of_le hlt (Nat.pow_le_pow_right (by decide) (fitting_bits w (by omega)))), hsv]
        refine fin _ (s0 + m) hte (by simpa [BitField.width] using hlt) hcv ?_ ?_ ?_ (by simpa [BitField.width] using hw.1.1)
          (by simpa [BitField.width] using h2)
        · rw [hcv, cast_ty]
          exact Nat.lt_of_lt_of_le hlt (Nat.pow_le_pow_right (by decide) (fitting_bits w (by omega)))
        · rw [cast_ty]; exact fitting_rank w hw.1.2
        · intro hl
          have : (cast (sym .int (s0 + m)) (fitting w)).lit = none := by
            unfold cast; split <;> rfl
          rw [this] at hl; cases hl
    | count t w =>
      simp only [bfOkE, Bool.and_eq_true, decide_eq_true_eq] at hw
      obtain ⟨vs, hvs, h2⟩ := bind_ok _ _ _ h
      split at h2
      · cases h2
      · rename_i hm
        simp only [true_or, true_and] at hm
        have hlt : vs.length < 2 ^ w := by
          simp only [maskBits] at hm
          have := Nat.two_pow_pos w
          omega
        have hbk : vs.length % 2 ^ backingOf w = vs.length := by
          apply Nat.mod_eq_of_lt
          exact Nat.lt_of_lt_of_le hlt (Nat.pow_le_pow_right (by decide) (backingOf_ge w (by omega)))
        rw [hbk] at h2
        have hw32 : ¬ w > 32 := by omega
        have hte : toNum all pl v (.count t w) = .ok (cast (sym .int vs.length) (fitting w)) := by
          simp only [toNum, hw32, ↓reduceIte, hvs, Outcome.bind]
          rw [if_neg (by omega)]
        have h232 : vs.length < 2 ^ 32 := Nat.lt_of_lt_of_le hlt (Nat.pow_le_pow_right (by decide) hw.1.2)
        have hsv : (sym .int vs.length).val = vs.length := by simp only [sym, JT.bits]; exact Nat.mod_eq_of_lt h232
        have hcv : (cast (sym .int vs.length) (fitting w)).val = vs.length := by
          rw [cast_val_of_lt _ _ (by rw [hsv]; exact Nat.lt_of_lt_of_le hlt (Nat.pow_le_pow_right (by decide) (fitting_bits w (by omega)))), hsv]
        refine fin _ vs.length hte (by simpa [BitField.width] using hlt) hcv ?_ ?_ ?_ (by simpa [BitField.width] using hw.1.1)
          (by simpa [BitField.width] using h2)
        · rw [hcv, cast_ty]
          exact Nat.lt_of_lt_of_le hlt (Nat.pow_le_pow_right (by decide) (fitting_bits w (by omega)))
        · rw [cast_ty]; exact fitting_rank w hw.1.2
        · intro hl
          have : (cast (sym .int vs.length) (fitting w)).lit = none := by
            unfold cast; split <;> rfl
          rw [this] at hl; cases hl
    | elemSize t w => simp [bfOkE, bfOkJ] at hw

/-- a whole group -/
theorem bfOkE_of_J (fs : List BitField) (h : fs.all bfOkJ = true) : fs.all bfOkE = true := by
  rw [List.all_eq_true] at h ⊢
  intro f hf
  have := h f hf
  cases f <;> simp_all [bfOkE, bfOkJ]

theorem chunk_ref (en : Endian) (all : Items) (pl : Nat) (v : Value) (fs : List BitField)
    (hw : fs.all bfOkE = true ∧ chunkBits fs ≤ 32)
    (X : Nat) (h : Pdlv.encChunkFields true all pl v fs 0 0 = .ok X) :
    encChunk en all pl v fs = .ok (putUint en (chunkBits fs) X) := by
  obtain ⟨es, h1, h2, h3, h4⟩ := pack_ref all pl v fs 0 0 X hw.1 (by omega) h
  have hnot : ¬ chunkBits fs > 64 := by omega
  simp only [encChunk, hnot, ↓reduceIte, h1, Outcome.bind, putGroup, Outcome.ok.injEq]
  simp only [Nat.zero_add] at h2 h3
  -- the OR of the stacked fields is their sum
  have hor : (orAll es).val = X ∧ X < 2 ^ chunkBits fs ∧ (orAll es).ty.rank ≤ 2 := by
    cases es with
    | nil =>
      simp only [Stacked] at h2
      simp only [sumVals] at h3
      subst h3
      simp [orAll, num, ← h2, JT.rank]
    | cons e r =>
      simp only [orAll]
      have hge := foldl_max_ge (e :: r) .byte
      obtain ⟨hs, hlt⟩ := or_fold_sum ((e :: r).foldl (fun a x => maxT a x.ty) .byte) (e :: r) 0 (chunkBits fs) 0 h2
        (by simp) hge.2
      simp only [Nat.zero_add] at hs hlt
      refine ⟨by rw [hs, h3], by rw [h3]; exact hlt, ?_⟩
      -- the widest type among types of rank at most 2 has rank at most 2
      have : ∀ (l : List E) (a : JT), a.rank ≤ 2 → (∀ x ∈ l, x.ty.rank ≤ 2) → (l.foldl (fun a x => maxT a x.ty) a).rank ≤ 2 := by
        intro l
        induction l with
        | nil => intro a ha _; exact ha
        | cons y ys ih =>
          intro a ha hys
          simp only [List.foldl_cons]
          apply ih
          · unfold maxT; split
            · exact hys y (List.mem_cons_self ..)
            · exact ha
          · exact fun x hx => hys x (List.mem_cons_of_mem _ hx)
      exact this (e :: r) .byte (by simp [JT.rank]) h4
  obtain ⟨hv, hX, _⟩ := hor
  have hfit : (orAll es).val < 2 ^ (fitting (chunkBits fs)).bits :=
    Nat.lt_of_lt_of_le (by rw [hv]; exact hX) (Nat.pow_le_pow_right (by decide) (fitting_bits _ (by omega)))
  rw [cast_val_of_lt _ _ hfit, hv, Nat.mod_eq_of_lt hX]

end Java
end Pdlv

namespace Pdlv
namespace Java

/-! ### the decoder: groups of 8, 16 and 32 bits -/

/-- `(group >>> offset) & mask`, or the raw group variable when the field is the whole group: the field's bits -/
theorem mask_exact (W chunk off w : Nat) (hW : W = 8 ∨ W = 16 ∨ W = 32) (hc : chunk < 2 ^ W) (hw : 0 < w)
    (hfit : off + w ≤ W) :
    (maskField (fitting W) chunk off w).val % 2 ^ w = (chunk / 2 ^ off) % 2 ^ w := by
  have hbits : (fitting W).bits = W := by
    rcases hW with h | h | h <;> subst h <;> rfl
  have hrk : (fitting W).rank ≤ 2 := fitting_rank W (by omega)
  have hsym : (sym (fitting W) chunk).val = chunk := by
    simp only [sym, hbits]; exact Nat.mod_eq_of_lt hc
  have hlim : limitToInt (fitting W) = .int := by
    unfold limitToInt maxT
    rcases hW with h | h | h <;> subst h <;> rfl
  have hc32 : chunk < 2 ^ 32 := Nat.lt_of_lt_of_le hc (Nat.pow_le_pow_right (by decide) (by omega))
  have hcastint : (cast (sym (fitting W) chunk) .int).val = chunk := by
    rw [cast_val_of_lt _ _ (by rw [hsym]; simpa [JT.bits] using hc32), hsym]
  -- the shifted group
  have hsh : (rshift (sym (fitting W) chunk) off).val = chunk / 2 ^ off ∧
      (limitToInt (rshift (sym (fitting W) chunk) off).ty = .int) := by
    unfold rshift
    by_cases hz : ((sym (fitting W) chunk).lit = some 0 || off = 0) = true
    · simp only [hz, ↓reduceIte]
      simp only [sym, Bool.or_eq_true, decide_eq_true_eq] at hz
      rcases hz with h0 | h0
      · cases h0
      · subst h0; exact ⟨by simp [hsym], hlim⟩
    · have hty : (sym (fitting W) chunk).ty = fitting W := rfl
      have hoff : off % 32 = off := Nat.mod_eq_of_lt (by omega)
      simp only [hz, Bool.false_eq_true, ↓reduceIte, hty, hlim, JT.bits, hcastint, hoff]
      trivial
  unfold maskField
  by_cases hraw : off = 0 ∧ (fitting W).bits = w
  · simp only [hraw, and_self, ↓reduceIte]
    obtain ⟨h0, _⟩ := hraw
    subst h0
    rw [hsh.1]
  · simp only [hraw, ↓reduceIte]
    have hand : (andMask (rshift (sym (fitting W) chunk) off) w).val = (chunk / 2 ^ off) % 2 ^ w := by
      unfold andMask
      simp only [hsh.2, JT.bits]
      have hle : (rshift (sym (fitting W) chunk) off).val < 2 ^ 32 := by
        rw [hsh.1]; exact Nat.lt_of_le_of_lt (Nat.div_le_self _ _) hc32
      rw [cast_val_of_lt _ _ (by simpa [JT.bits] using hle), hsh.1]
      apply Nat.mod_eq_of_lt
      exact Nat.lt_of_lt_of_le (Nat.mod_lt _ (Nat.two_pow_pos w)) (Nat.pow_le_pow_right (by decide) (by omega))
    have hlt : (andMask (rshift (sym (fitting W) chunk) off) w).val < 2 ^ (fitting w).bits := by
      rw [hand]
      exact Nat.lt_of_lt_of_le (Nat.mod_lt _ (Nat.two_pow_pos w)) (Nat.pow_le_pow_right (by decide) (fitting_bits w (by omega)))
    rw [cast_val_of_lt _ _ hlt, hand, Nat.mod_mod]

/-- the masked branch: the field's bits, typed `fitting w` -/
theorem mask_masked (W chunk off w : Nat) (hW : W = 8 ∨ W = 16 ∨ W = 32) (hc : chunk < 2 ^ W) (hw : 0 < w)
    (hfit : off + w ≤ W) (hraw : ¬ (off = 0 ∧ (fitting W).bits = w)) :
    (maskField (fitting W) chunk off w).val = (chunk / 2 ^ off) % 2 ^ w ∧ (maskField (fitting W) chunk off w).ty = fitting w := by
  have hbits : (fitting W).bits = W := by
    rcases hW with h | h | h <;> subst h <;> rfl
  have hsym : (sym (fitting W) chunk).val = chunk := by
    simp only [sym, hbits]; exact Nat.mod_eq_of_lt hc
  have hlim : limitToInt (fitting W) = .int := by
    unfold limitToInt maxT
    rcases hW with h | h | h <;> subst h <;> rfl
  have hc32 : chunk < 2 ^ 32 := Nat.lt_of_lt_of_le hc (Nat.pow_le_pow_right (by decide) (by omega))
  have hcastint : (cast (sym (fitting W) chunk) .int).val = chunk := by
    rw [cast_val_of_lt _ _ (by rw [hsym]; simpa [JT.bits] using hc32), hsym]
  have hsh : (rshift (sym (fitting W) chunk) off).val = chunk / 2 ^ off ∧
      (limitToInt (rshift (sym (fitting W) chunk) off).ty = .int) := by
    unfold rshift
    by_cases hz : ((sym (fitting W) chunk).lit = some 0 || off = 0) = true
    · simp only [hz, ↓reduceIte]
      simp only [sym, Bool.or_eq_true, decide_eq_true_eq] at hz
      rcases hz with h0 | h0
      · cases h0
      · subst h0; exact ⟨by simp [hsym], hlim⟩
    · have hty : (sym (fitting W) chunk).ty = fitting W := rfl
      have hoff : off % 32 = off := Nat.mod_eq_of_lt (by omega)
      simp only [hz, Bool.false_eq_true, ↓reduceIte, hty, hlim, JT.bits, hcastint, hoff]
      trivial
  unfold maskField
  simp only [hraw, ↓reduceIte]
  have hand : (andMask (rshift (sym (fitting W) chunk) off) w).val = (chunk / 2 ^ off) % 2 ^ w := by
    unfold andMask
    simp only [hsh.2, JT.bits]
    have hle : (rshift (sym (fitting W) chunk) off).val < 2 ^ 32 := by
      rw [hsh.1]; exact Nat.lt_of_le_of_lt (Nat.div_le_self _ _) hc32
    rw [cast_val_of_lt _ _ (by simpa [JT.bits] using hle), hsh.1]
    apply Nat.mod_eq_of_lt
    exact Nat.lt_of_lt_of_le (Nat.mod_lt _ (Nat.two_pow_pos w)) (Nat.pow_le_pow_right (by decide) (by omega))
  have hlt : (andMask (rshift (sym (fitting W) chunk) off) w).val < 2 ^ (fitting w).bits := by
    rw [hand]
    exact Nat.lt_of_lt_of_le (Nat.mod_lt _ (Nat.two_pow_pos w)) (Nat.pow_le_pow_right (by decide) (fitting_bits w (by omega)))
  exact ⟨by rw [cast_val_of_lt _ _ hlt, hand], cast_ty _ _⟩

/-- same acceptance; on success the same decoded fields (the reference also keeps a context the Java class has no
    use for: no optional, size or count field is in the class) -/
def SameFields {α β : Type} (R : α → β → Prop) (p : Dec α) (q : Dec β) : Prop :=
  (∀ a, p = .ok a → ∃ b, q = .ok b ∧ R a b) ∧ (∀ b, q = .ok b → ∃ a, p = .ok a ∧ R a b)

theorem fields_same (W chunk : Nat) (hW : W = 8 ∨ W = 16 ∨ W = 32) (hc : chunk < 2 ^ W) :
    ∀ (fs : List BitField) (off : Nat) (sj sr : DState), fs.all bfOkJ = true → off + chunkBits fs ≤ W →
      (sj.fields = sr.fields ∧ sj.payload = sr.payload) →
      SameFields (fun a b => a.fields = b.fields ∧ a.payload = b.payload) (decFields (fitting W) chunk fs off sj)
        (Pdlv.decChunkFields true fs off chunk sr)
  | [], off, sj, sr, _, _, hf => by
    simp only [decFields, Pdlv.decChunkFields]
    exact ⟨fun a h => ⟨sr, rfl, by cases h; exact hf⟩, fun b h => ⟨sj, rfl, by cases h; exact hf⟩⟩
  | f :: fs, off, sj, sr, hw, hfit, hf => by
    simp only [List.all_cons, Bool.and_eq_true] at hw
    rw [width_sum] at hfit
    have ih := fun sj' sr' h' => fields_same W chunk hW hc fs (off + f.width) sj' sr' hw.2 (by omega) h'
    unfold decFields Pdlv.decChunkFields
    cases f with
    | scalar id w =>
      simp only [bfOkJ, Bool.and_eq_true, decide_eq_true_eq] at hw
      simp only [BitField.width] at hfit ih ⊢
      simp only [mask_exact W chunk off w hW hc hw.1.1 (by omega)]
      exact ih _ _ (by simp [hf.1, hf.2])
    | enumTy id ty e =>
      simp only [bfOkJ, Bool.and_eq_true, decide_eq_true_eq] at hw
      simp only [BitField.width] at hfit ih ⊢
      simp only [mask_exact W chunk off e.width hW hc hw.1.1 (by omega)]
      by_cases hok : enumOk e (chunk / 2 ^ off % 2 ^ e.width) = true
      · simp only [hok, ↓reduceIte]
        exact ih _ _ (by simp [hf.1, hf.2])
      · simp only [hok, Bool.false_eq_true, ↓reduceIte]
        exact ⟨fun a h => (by cases h), fun b h => (by cases h)⟩
    | fixed w c =>
      simp only [bfOkJ, Bool.and_eq_true, decide_eq_true_eq] at hw
      simp only [BitField.width] at hfit ih ⊢
      simp only [mask_exact W chunk off w hW hc hw.1.1.1 (by omega)]
      by_cases hok : chunk / 2 ^ off % 2 ^ w = c
      · simp only [hok, ↓reduceIte]
        exact ih _ _ hf
      · simp only [hok, ↓reduceIte]
        exact ⟨fun a h => (by cases h), fun b h => (by cases h)⟩
    | reserved w =>
      simp only [BitField.width] at ih ⊢
      exact ih _ _ hf
    | flag id o => simp [bfOkJ] at hw
    | size t w m => simp [bfOkJ] at hw
    | count t w => simp [bfOkJ] at hw
    | elemSize t w => simp [bfOkJ] at hw

end Java
end Pdlv

namespace Pdlv
namespace Java


def RelSt (a b : DState) : Prop := a.fields = b.fields ∧ a.payload = b.payload

theorem chunk_same_aux (fs : List BitField) (hw : fs.all bfOkJ = true)
    (hW : chunkBits fs = 8 ∨ chunkBits fs = 16 ∨ chunkBits fs = 32) (ch : Nat) (hc : ch < 2 ^ chunkBits fs) (rest : Bytes)
    (sj sr : DState) (hr : RelSt sj sr) :
    SameFields (fun a b => RelSt a.1 b.1 ∧ a.2 = b.2)
      ((decFields (fitting (chunkBits fs)) ch fs 0 sj).bind fun st' => (.ok (st', rest) : Dec (DState × Bytes)))
      ((Pdlv.decChunkFields true fs 0 ch sr).bind fun st' => (.ok (st', rest) : Dec (DState × Bytes))) := by
  have hsame := fields_same (chunkBits fs) ch hW hc fs 0 sj sr hw (by omega) hr
  constructor
  · intro a ha
    obtain ⟨sa, h1, h2⟩ := bind_ok _ _ _ ha
    obtain ⟨sb, h3, h4⟩ := hsame.1 sa h1
    refine ⟨(sb, rest), by rw [h3]; rfl, ?_⟩
    simp only [Outcome.ok.injEq] at h2
    subst h2
    exact ⟨h4, rfl⟩
  · intro b hb
    obtain ⟨sb, h1, h2⟩ := bind_ok _ _ _ hb
    obtain ⟨sa, h3, h4⟩ := hsame.2 sb h1
    refine ⟨(sa, rest), by rw [h3]; rfl, ?_⟩
    simp only [Outcome.ok.injEq] at h2
    subst h2
    exact ⟨h4, rfl⟩

theorem chunk_same (en : Endian) (fs : List BitField) (hw : chunkWf fs = true)
    (hW : chunkBits fs = 8 ∨ chunkBits fs = 16 ∨ chunkBits fs = 32) (bs : Bytes) (sj sr : DState) (hr : RelSt sj sr) :
    SameFields (fun a b => RelSt a.1 b.1 ∧ a.2 = b.2) (Java.decChunk en fs bs sj) (Pdlv.decChunk en true fs bs sr) := by
  simp only [chunkWf, Bool.and_eq_true, decide_eq_true_eq] at hw
  have h64 : ¬ chunkBits fs > 64 := by omega
  have hnot : ¬ (chunkBits fs = 24 ∨ chunkBits fs = 40 ∨ chunkBits fs = 48 ∨ chunkBits fs = 56) := by omega
  by_cases hl : bs.length < chunkBits fs / 8
  · simp only [Java.decChunk, Pdlv.decChunk, h64, hl, ↓reduceIte]
    exact ⟨fun a h => (by cases h), fun b h => (by cases h)⟩
  · have hlen : (bs.take (chunkBits fs / 8)).length = chunkBits fs / 8 := by rw [List.length_take]; omega
    have h8 : 8 * (chunkBits fs / 8) = chunkBits fs := by omega
    have h1 := fromLE_lt (bs.take (chunkBits fs / 8))
    have h2 := fromBE_lt (bs.take (chunkBits fs / 8))
    rw [hlen, h8] at h1 h2
    cases en with
    | little =>
      simp only [Java.decChunk, Pdlv.decChunk, h64, hl, ↓reduceIte, getGroup, hnot]
      exact chunk_same_aux fs hw.1 hW _ h1 _ sj sr hr
    | big =>
      simp only [Java.decChunk, Pdlv.decChunk, h64, hl, ↓reduceIte, getGroup, hnot]
      exact chunk_same_aux fs hw.1 hW _ h2 _ sj sr hr

theorem items_same (en : Endian) : ∀ (is : Items), decWfItems is = true → ∀ (bs : Bytes) (sj sr : DState), RelSt sj sr →
    SameFields (fun a b => RelSt a.1 b.1 ∧ a.2 = b.2) (Java.decItems en is bs sj)
      (Pdlv.decItems { e := en, mode := .ideal } is bs sr)
  | .nil, _, bs, sj, sr, hr => by
    simp only [Java.decItems, Pdlv.decItems]
    exact ⟨fun a h => ⟨(sr, bs), rfl, by cases h; exact ⟨hr, rfl⟩⟩, fun b h => ⟨(sj, bs), rfl, by cases h; exact ⟨hr, rfl⟩⟩⟩
  | .cons i r, hw, bs, sj, sr, hr => by
    cases i with
    | chunk fs =>
      simp only [decWfItems, Bool.and_eq_true, Bool.or_eq_true, beq_iff_eq] at hw
      obtain ⟨⟨hcw, hW⟩, hwr⟩ := hw
      have hW' : chunkBits fs = 8 ∨ chunkBits fs = 16 ∨ chunkBits fs = 32 := by
        rcases hW with (h | h) | h
        · exact Or.inl h
        · exact Or.inr (Or.inl h)
        · exact Or.inr (Or.inr h)
      have hc := chunk_same en fs hcw hW' bs sj sr hr
      simp only [Java.decItems, Java.decItem, Pdlv.decItems, Pdlv.decItem, BEq.rfl]
      constructor
      · intro a ha
        obtain ⟨x, h1, h2⟩ := bind_ok _ _ _ ha
        obtain ⟨y, h3, h4, h5⟩ := hc.1 x h1
        obtain ⟨b, h6, h7⟩ := (items_same en r hwr x.2 x.1 y.1 h4).1 a h2
        exact ⟨b, by rw [h3]; simp only [Outcome.bind]; rw [← h5]; exact h6, h7⟩
      · intro b hb
        obtain ⟨y, h1, h2⟩ := bind_ok _ _ _ hb
        obtain ⟨x, h3, h4, h5⟩ := hc.2 y h1
        obtain ⟨a, h6, h7⟩ := (items_same en r hwr x.2 x.1 y.1 h4).2 b (by rw [h5]; exact h2)
        exact ⟨a, by rw [h3]; simp only [Outcome.bind]; exact h6, h7⟩
    | typedef a b c => simp [decWfItems] at hw
    | optional a b c d => simp [decWfItems] at hw
    | payload m => simp [decWfItems] at hw
    | array a b c d e => simp [decWfItems] at hw

/-- `fromBytes` of a packet made of 8-, 16- and 32-bit groups is the reference `decode_full` -/
theorem decode_same (c : Cfg) (nm : String) (items : Items) (hw : decWfItems items = true) (bs : Bytes) (v : Value) :
    Java.decodeFull c (.root nm items) bs = .ok v ↔
      Pdlv.decodeFull { e := c.e, mode := .ideal } (.root nm items) bs = .ok v := by
  have hs := items_same c.e items hw bs DState.empty DState.empty ⟨rfl, rfl⟩
  have hval : ∀ (sa sb : DState), RelSt sa sb →
      Value.obj (sa.fields ++ (match sa.payload with | some p => [("payload", Value.ofBytes p)] | none => [])) =
      Value.obj (sb.fields ++ (match sb.payload with | some p => [("payload", Value.ofBytes p)] | none => [])) := by
    intro sa sb hr
    rw [hr.1, hr.2]
  simp only [Java.decodeFull, Pdlv.decodeFull, Pdlv.decBody]
  constructor
  · intro h
    obtain ⟨⟨sa, ra⟩, h1, h2⟩ := bind_ok _ _ _ h
    obtain ⟨⟨sb, rb⟩, h3, h4, h5⟩ := hs.1 _ h1
    simp only at h4 h5 h2
    subst h5
    by_cases hre : ra.isEmpty = true
    · simp only [hre, ↓reduceIte, Outcome.ok.injEq] at h2
      simp only [h3, Outcome.bind, hre, ↓reduceIte, Outcome.ok.injEq]
      rw [← h2]
      have := hval sa sb h4
      cases hp : sb.payload <;> cases hq : sa.payload <;> simp_all
    · simp only [hre, Bool.false_eq_true, ↓reduceIte] at h2
      cases h2
  · intro h
    obtain ⟨⟨v1, r1⟩, h1, h2⟩ := bind_ok _ _ _ h
    obtain ⟨⟨sb, rb⟩, h3, h4⟩ := bind_ok _ _ _ h1
    obtain ⟨⟨sa, ra⟩, h5, h6, h7⟩ := hs.2 _ h3
    simp only at h6 h7 h2 h4
    simp only [Outcome.ok.injEq, Prod.mk.injEq] at h4
    subst h7
    by_cases hre : r1.isEmpty = true
    · simp only [hre, ↓reduceIte, Outcome.ok.injEq] at h2
      have hre' : ra.isEmpty = true := by rw [← h4.2] at hre; exact hre
      simp only [h5, Outcome.bind, hre', ↓reduceIte, Outcome.ok.injEq]
      rw [← h2, ← h4.1]
      have := hval sa sb h6
      cases hp : sb.payload <;> cases hq : sa.payload <;> simp_all
    · simp only [hre, Bool.false_eq_true, ↓reduceIte] at h2
      cases h2

end Java
end Pdlv
