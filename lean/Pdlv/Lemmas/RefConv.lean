/-
  Pdlv.Lemmas.RefConv — the converse of C03's main theorem: whenever the bit-level reference assigns an
  encoding to a value, the reference-mode encoder succeeds (and, by the forward theorem, writes it).
  Every check of the encoder is reflected in `Pdlv.Ref`.
-/
import Pdlv.Lemmas.Exact
import Pdlv.Thm.C03

namespace Pdlv
open Ref

/-- what an entry of the reference's array table says about the value and the field list -/
def RefFacts (c : Cfg) (all : Items) (v : Value) (arrs : List ArrInfo) : Prop :=
  ∀ t a, lookupArr arrs t = some a →
    ∃ elem ew vs es, firstArray all t = some (elem, ew) ∧ v.get? t = some (.arr vs) ∧ a.count = vs.length ∧
      a.elemLens = vs.map (lenTy elem) ∧ a.bytes.length = sumLen (lenTy elem) vs ∧
      encListWith (encTy c elem) vs = .ok es

theorem allEq_map (g : Value → Nat) : ∀ (vs : List Value), allEq (vs.map g) = true →
    ∀ x ∈ vs, g x = (vs.map g).headD 0
  | [], _, x, hx => by cases hx
  | y :: ys, h, x, hx => by
    simp only [List.map_cons, allEq, List.all_eq_true, List.mem_map, beq_iff_eq, forall_exists_index, and_imp,
      forall_apply_eq_imp_iff₂] at h
    simp only [List.map_cons, List.headD_cons]
    rcases List.mem_cons.mp hx with rfl | hx'
    · rfl
    · exact h x hx'

theorem fits_le_mask (w x : Nat) (h : fits w x = true) : ¬ (x > maskBits w) := by
  simp only [fits, decide_eq_true_eq] at h
  simp only [maskBits]; omega

/-- one bit-field group: if the reference assigns bits, every check of the encoder passes -/
theorem chunk_conv (c : Cfg) (all : Items) (pl : Nat) (v : Value) (arrs : List ArrInfo) (H : RefFacts c all v arrs) :
    ∀ (fs : List BitField) (bits : List Bool) (shift acc : Nat),
      (∀ f ∈ fs, bfOk f = true ∧ bfNarrow f = true) →
      chunkBitsOf arrs pl v fs = some bits → ∃ X, encChunkFields true all pl v fs shift acc = .ok X
  | [], _, shift, acc, _, _ => ⟨acc, by simp [encChunkFields]⟩
  | f :: fs, bits, shift, acc, hok, h => by
    have hfs : ∀ g ∈ fs, bfOk g = true ∧ bfNarrow g = true := fun g hg => hok g (List.mem_cons_of_mem _ hg)
    obtain ⟨hbf, hnw⟩ := hok f (List.mem_cons_self ..)
    -- whatever value this field contributes, the rest of the group goes through
    have rest : ∀ (rb : Option (List Bool)) (s a : Nat), (∃ b, rb = some b) → rb = chunkBitsOf arrs pl v fs →
        ∃ X, encChunkFields true all pl v fs s a = .ok X := by
      intro rb s a ⟨b, hb⟩ hrb
      exact chunk_conv c all pl v arrs H fs b s a hfs (by rw [← hrb, hb])
    -- `emit w x = some _` means `fits w x` and the rest has bits
    have emit_inv : ∀ (w x : Nat) (r : Option (List Bool)),
        (if fits w x then r.map (bitsOf w x ++ ·) else none) = some bits → fits w x = true ∧ ∃ b, r = some b := by
      intro w x r hh
      split at hh
      · rename_i hf
        cases r with
        | none => simp at hh
        | some b => exact ⟨hf, b, rfl⟩
      · cases hh
    unfold chunkBitsOf at h
    unfold encChunkFields
    cases f with
    | scalar id w =>
      simp only [bfNarrow, decide_eq_true_eq] at hnw
      simp only at h
      split at h
      · rename_i x hget
        obtain ⟨hf, hb⟩ := emit_inv w x _ h
        have hlt : x < 2 ^ w := by simpa [fits] using hf
        have hbk := Nat.pow_le_pow_right (by decide : 2 > 0) (backingOf_ge w hnw)
        simp only [natField, hget, Outcome.bind]
        rw [if_neg (by omega), if_neg (by intro hh; exact fits_le_mask w x hf hh.2)]
        exact rest _ _ _ hb rfl
      · cases h
    | flag id opts =>
      cases opts with
      | nil => simp at h
      | cons o rs =>
        obtain ⟨oid, setv⟩ := o
        simp only at h ⊢
        -- the flag's value
        generalize hbit : (if isPresent v oid = true then setv else 1 - setv) = bit at h ⊢
        split at h
        · rename_i hall
          obtain ⟨_, hb⟩ := emit_inv 1 bit _ h
          -- all votes equal the flag's value: never both a 0-vote and a 1-vote
          have hno : ¬ (((oid, setv) :: rs).length ≥ 2 ∧
              (((oid, setv) :: rs).any fun (k, val) => if val = 1 then !isPresent v k else isPresent v k) = true ∧
              (((oid, setv) :: rs).any fun (k, val) => if val = 1 then isPresent v k else !isPresent v k) = true) := by
            simp only [bfOk, List.all_eq_true, decide_eq_true_eq] at hbf
            rw [List.all_eq_true] at hall
            intro ⟨_, hz, ho⟩
            simp only [List.any_eq_true] at hz ho
            obtain ⟨⟨k0, v0⟩, hm0, hz0⟩ := hz
            obtain ⟨⟨k1, v1⟩, hm1, ho1⟩ := ho
            have a0 := hall _ hm0
            have a1 := hall _ hm1
            have b0 := hbf _ hm0
            have b1 := hbf _ hm1
            have bs := hbf _ (List.mem_cons_self ..)
            simp only at a0 a1 b0 b1 bs hz0 ho1
            have hbit1 : bit ≤ 1 := by
              rw [← hbit]; split <;> omega
            by_cases p0 : isPresent v k0 = true <;> by_cases p1 : isPresent v k1 = true <;>
              simp_all <;> omega
          rw [if_neg hno]
          exact rest _ _ _ hb rfl
        · cases h
    | enumTy id ty e =>
      simp only at h
      split at h
      · rename_i x hget
        split at h
        · rename_i hok'
          obtain ⟨_, hb⟩ := emit_inv e.width x _ h
          simp only [natField, hget, Outcome.bind, hok', ↓reduceIte]
          exact rest _ _ _ hb rfl
        · cases h
      · cases h
    | fixed w cst =>
      obtain ⟨_, hb⟩ := emit_inv w cst _ h
      exact rest _ _ _ hb rfl
    | reserved w =>
      obtain ⟨_, hb⟩ := emit_inv w 0 _ h
      exact rest _ _ _ hb rfl
    | size t w m =>
      simp only [bfOk, bne_iff_ne, ne_eq] at hbf
      simp only at h
      split at h
      · rename_i htp
        have htp' : t = "_payload_" := by simpa using htp
        subst htp'
        obtain ⟨hf, hb⟩ := emit_inv w (pl + m) _ h
        simp only [sizeOfTarget, BEq.rfl, Bool.true_or, ↓reduceIte, Outcome.bind, Bool.or_true]
        rw [if_neg (fits_le_mask w _ hf)]
        exact rest _ _ _ hb rfl
      · rename_i htp
        have htp' : (t == "_payload_") = false := by simpa using htp
        have htb : (t == "_body_") = false := by simpa using hbf
        split at h
        · rename_i a ha
          obtain ⟨hf, hb⟩ := emit_inv w (a.bytes.length + m) _ h
          obtain ⟨elem, ew, vs, es, hfa, hget, _, _, hlen, _⟩ := H t a ha
          have hs : sizeOfTarget all t pl v = .ok (sumLen (lenTy elem) vs) := by
            simp only [sizeOfTarget, htp', htb, Bool.or_self, Bool.false_eq_true, ↓reduceIte]
            exact sizeFind_of_firstArray v all t elem ew vs hfa hget
          simp only [hs, Outcome.bind, Bool.true_or, ↓reduceIte]
          rw [← hlen, if_neg (fits_le_mask w _ hf)]
          exact rest _ _ _ hb rfl
        · cases h
    | count t w =>
      simp only [bfNarrow, decide_eq_true_eq] at hnw
      simp only at h
      split at h
      · rename_i a ha
        obtain ⟨hf, hb⟩ := emit_inv w a.count _ h
        obtain ⟨elem, ew, vs, es, _, hget, hcnt, _, _, _⟩ := H t a ha
        simp only [listField, hget, Outcome.bind]
        rw [← hcnt, if_neg (by intro hh; exact fits_le_mask w _ hf hh.2)]
        exact rest _ _ _ hb rfl
      · cases h
    | elemSize t w =>
      simp only at h
      split at h
      · rename_i a ha
        split at h
        · rename_i hall
          obtain ⟨hf, hb⟩ := emit_inv w (a.elemLens.headD 0) _ h
          obtain ⟨elem, ew, vs, es, hfa, hget, _, hlens, _, _⟩ := H t a ha
          have hety : encChunkFields.elemTy t all = some elem := by rw [elemTy_firstArray, hfa]; rfl
          simp only [listField, hget, Outcome.bind, hety]
          rw [hlens] at hall hf
          cases vs with
          | nil =>
            simp only [List.any_nil, Bool.false_eq_true, ↓reduceIte]
            rw [if_neg (by simp [maskBits])]
            exact rest _ _ _ hb rfl
          | cons x xs =>
            have hany : ((x :: xs).any fun y => lenTy elem y != lenTy elem x) = false := by
              rw [List.any_eq_false]
              intro y hy
              simp only [bne_iff_ne, ne_eq, Decidable.not_not]
              have := allEq_map (lenTy elem) (x :: xs) hall y hy
              simpa using this
            simp only [hany, Bool.false_eq_true, ↓reduceIte]
            simp only [List.map_cons, List.headD_cons] at hf
            rw [if_neg (fits_le_mask w _ hf)]
            exact rest _ _ _ hb rfl
        · cases h
      · cases h

theorem encList_of_encElems (W : Value → Enc Bytes) (R : Value → Option Bytes) (g : Value → Nat)
    (h : ∀ x b, R x = some b → W x = .ok b ∧ b.length = g x) :
    ∀ (vs : List Value) (bs : Bytes) (ls : List Nat), encElems R vs = some (bs, ls) →
      encListWith W vs = .ok bs ∧ ls = vs.map g
  | [], bs, ls, he => by
    simp only [encElems, Option.some.injEq, Prod.mk.injEq] at he
    simp [encListWith, ← he.1, ← he.2]
  | x :: xs, bs, ls, he => by
    simp only [encElems] at he
    cases hx : R x with
    | none => simp [hx] at he
    | some a =>
      cases hr : encElems R xs with
      | none => simp [hx, hr] at he
      | some y =>
        obtain ⟨b, l2⟩ := y
        simp only [hx, hr, Option.some.injEq, Prod.mk.injEq] at he
        obtain ⟨q1, q2⟩ := h x a hx
        obtain ⟨r1, r2⟩ := encList_of_encElems W R g h xs b l2 hr
        simp only [encListWith, q1, r1, Outcome.bind]
        exact ⟨by rw [← he.1], by rw [← he.2, q2, r2]; rfl⟩


theorem refArray_inv (e : Endian) (arrs : List ArrInfo) (p : Bytes) (v : Value) (id : String) (elem : Ty) (ew : ElemWidth)
    (shape : Shape) (pad : Option Nat) (a : Bytes)
    (h : Ref.encItem e arrs p v (.array id elem ew shape pad) = some a) :
    ∃ ai, lookupArr arrs id = some ai ∧ (∀ n, shape = .static n → ai.count = n) ∧
      (∀ q, pad = some q → ai.bytes.length ≤ q) := by
  simp only [Ref.encItem] at h
  cases hla : lookupArr arrs id with
  | none => simp [hla] at h
  | some ai =>
    simp only [hla] at h
    refine ⟨ai, rfl, ?_, ?_⟩
    · intro n hn
      subst hn
      by_cases hc : (ai.count == n) = true
      · simpa using hc
      · simp [hc] at h
    · intro q hq
      subst hq
      cases shape with
      | static n =>
        by_cases hc : (ai.count == n) = true
        · simp only [hc, Bool.not_true, Bool.false_eq_true, ↓reduceIte] at h
          by_cases hle : ai.bytes.length ≤ q
          · exact hle
          · simp [hle] at h
        · simp [hc] at h
      | countField =>
        simp only [Bool.not_true, Bool.false_eq_true, ↓reduceIte] at h
        by_cases hle : ai.bytes.length ≤ q
        · exact hle
        · simp [hle] at h
      | sizeField =>
        simp only [Bool.not_true, Bool.false_eq_true, ↓reduceIte] at h
        by_cases hle : ai.bytes.length ≤ q
        · exact hle
        · simp [hle] at h
      | unknown =>
        simp only [Bool.not_true, Bool.false_eq_true, ↓reduceIte] at h
        by_cases hle : ai.bytes.length ≤ q
        · exact hle
        · simp [hle] at h

mutual
theorem ty_conv (c : Cfg) (hm : c.mode = .ideal) : ∀ (ty : Ty) (x : Value) (bs : Bytes), convWfTy ty = true →
    Ref.encTy c.e ty x = some bs → encTy c ty x = .ok bs
  | .scalar w, x, bs, hw, h => by
    simp only [convWfTy, Bool.and_eq_true, beq_iff_eq, decide_eq_true_eq] at hw
    simp only [Ref.encTy] at h
    cases x with
    | int n =>
      simp only at h
      split at h
      · rename_i hf
        have hlt : n < 2 ^ w := by simpa [fits] using hf
        have hbk := Nat.pow_le_pow_right (by decide : 2 > 0) (backingOf_ge w hw.2)
        -- the encoder succeeds; the forward theorem identifies the bytes
        have hok : ∃ b, encTy c (.scalar w) (.int n) = .ok b := by
          simp only [encTy]
          rw [if_neg (by omega)]
          have : elemOutOfRange c.mode w n = false := by
            simp only [elemOutOfRange, hm]; exact decide_eq_false (fits_le_mask w n hf)
          simp [this]
        obtain ⟨b, hb⟩ := hok
        have := encTy_ref c hm (.scalar w) (.int n) b (by simp [refWfTy, hw.1]) hb
        simp only [Ref.encTy, hf, ↓reduceIte] at this
        rw [hb, ← Option.some.inj (h.symm.trans this)]
      · cases h
    | _ => simp at h
  | .enumTy nm en, x, bs, hw, h => by
    simp only [convWfTy, beq_iff_eq] at hw
    simp only [Ref.encTy] at h
    cases x with
    | int n =>
      simp only at h
      split at h
      · rename_i hok
        have hb : encTy c (.enumTy nm en) (.int n) = .ok (putUint c.e en.width n) := by simp [encTy, hok]
        have := encTy_ref c hm (.enumTy nm en) (.int n) _ (by simp [refWfTy, hw]) hb
        simp only [Ref.encTy, hok, ↓reduceIte] at this
        rw [hb, ← Option.some.inj (h.symm.trans this)]
      · cases h
    | _ => simp at h
  | .custom nm w, x, bs, hw, h => by
    simp only [convWfTy, beq_iff_eq] at hw
    simp only [Ref.encTy] at h
    cases x with
    | int n =>
      simp only at h
      split at h
      · rename_i hf
        have hlt : n < 2 ^ w := by simpa [fits] using hf
        have hb : encTy c (.custom nm w) (.int n) = .ok (putUint c.e w n) := by simp [encTy, hlt]
        have := encTy_ref c hm (.custom nm w) (.int n) _ (by simp [refWfTy, hw]) hb
        simp only [Ref.encTy, hf, ↓reduceIte] at this
        rw [hb, ← Option.some.inj (h.symm.trans this)]
      · cases h
    | _ => simp at h
  | .struct _ (.root nm items), x, bs, hw, h => by
    simp only [convWfTy, Bool.and_eq_true, decide_eq_true_eq] at hw
    obtain ⟨⟨⟨hcw, hrw⟩, hlw⟩, hnd⟩ := hw
    simp only [Ref.encTy, Ref.encBody] at h
    simp only [encTy, encBody]
    cases hp : (if items.hasPayload = true then (x.get? "payload").bind valBytes else some []) with
    | none => simp [hp] at h
    | some p =>
      cases ha : Ref.arrays c.e items x with
      | none => simp [hp, ha] at h
      | some arrs =>
        simp only [hp, ha] at h
        have H := arrays_conv c hm items x arrs hcw hlw ha
        obtain ⟨bs', hb'⟩ := items_conv c hm items p x arrs H hnd items bs hcw hrw hlw (fun t ht => ht) h
        -- the forward theorem: the bytes are the reference's
        have hfw := encTy_ref c hm (.struct nm (.root nm items)) x bs' (by simp [refWfTy, hrw, hlw, hnd])
          (by simp only [encTy, encBody, hp]; exact hb')
        simp only [Ref.encTy, Ref.encBody, hp, ha] at hfw
        have hbb : bs' = bs := (Option.some.inj (h.symm.trans hfw)).symm
        subst hbb
        exact hb'

  | .struct _ (.derived ..), x, bs, hw, _ => by simp [convWfTy] at hw

/-- the reference's array table says what the encoder will find -/
theorem arrays_conv (c : Cfg) (hm : c.mode = .ideal) : ∀ (is : Items) (v : Value) (arrs : List ArrInfo),
    convWfItems is = true → lenWfItems is = true → Ref.arrays c.e is v = some arrs → RefFacts c is v arrs
  | .nil, v, arrs, _, _, h => by
    simp only [Ref.arrays, Option.some.injEq] at h
    subst h
    intro t a ha; simp [lookupArr] at ha
  | .cons i r, v, arrs, hw, hl, h => by
    simp only [convWfItems, Bool.and_eq_true] at hw
    simp only [lenWfItems, Bool.and_eq_true] at hl
    cases i with
    | array id elem ew shape pad =>
      simp only [Ref.arrays] at h
      cases hg : v.get? id with
      | none => simp [hg] at h
      | some y =>
        cases y with
        | arr vs =>
          simp only [hg] at h
          cases he : encElems (Ref.encTy c.e elem) vs with
          | none => simp [he] at h
          | some pr =>
            obtain ⟨bs, ls⟩ := pr
            cases hr : Ref.arrays c.e r v with
            | none => simp [he, hr] at h
            | some t =>
              simp only [he, hr, Option.some.injEq] at h
              subst h
              have ih := arrays_conv c hm r v t hw.2 hl.2 hr
              simp only [convWfItem] at hw
              simp only [lenWfItem, Bool.and_eq_true] at hl
              obtain ⟨q1, q2⟩ := encList_of_encElems (encTy c elem) (Ref.encTy c.e elem) (lenTy elem)
                (fun x b hx => ⟨ty_conv c hm elem x b hw.1 hx,
                  encTy_len c elem x b hl.1.2 (ty_conv c hm elem x b hw.1 hx)⟩) vs bs ls he
              intro t' a ha
              simp only [lookupArr, List.find?_cons] at ha
              by_cases hid : (id == t') = true
              · simp only [hid, Option.some.injEq] at ha
                subst ha
                refine ⟨elem, ew, vs, bs, by simp [firstArray, hid], ?_, rfl, q2, ?_, q1⟩
                · have : id = t' := by simpa using hid
                  rw [← this]; exact hg
                · exact encListWith_length (encTy c elem) (lenTy elem) (fun x b hx => encTy_len c elem x b hl.1.2 hx) vs bs q1
              · have hid' : (id == t') = false := by simpa using hid
                simp only [hid'] at ha
                obtain ⟨el, ew', vs', es', f1, f2, f3, f4, f5, f6⟩ := ih t' a ha
                exact ⟨el, ew', vs', es', by simp [firstArray, hid', f1], f2, f3, f4, f5, f6⟩
        | _ => simp [hg] at h
    | chunk fs =>
      simp only [Ref.arrays] at h
      intro t a ha
      obtain ⟨el, ew', vs', es', f1, f2, f3, f4, f5, f6⟩ := arrays_conv c hm r v arrs hw.2 hl.2 h t a ha
      exact ⟨el, ew', vs', es', by simp [firstArray, f1], f2, f3, f4, f5, f6⟩
    | typedef a1 a2 a3 =>
      simp only [Ref.arrays] at h
      intro t a ha
      obtain ⟨el, ew', vs', es', f1, f2, f3, f4, f5, f6⟩ := arrays_conv c hm r v arrs hw.2 hl.2 h t a ha
      exact ⟨el, ew', vs', es', by simp [firstArray, f1], f2, f3, f4, f5, f6⟩
    | optional a1 a2 a3 a4 =>
      simp only [Ref.arrays] at h
      intro t a ha
      obtain ⟨el, ew', vs', es', f1, f2, f3, f4, f5, f6⟩ := arrays_conv c hm r v arrs hw.2 hl.2 h t a ha
      exact ⟨el, ew', vs', es', by simp [firstArray, f1], f2, f3, f4, f5, f6⟩
    | payload md =>
      simp only [Ref.arrays] at h
      intro t a ha
      obtain ⟨el, ew', vs', es', f1, f2, f3, f4, f5, f6⟩ := arrays_conv c hm r v arrs hw.2 hl.2 h t a ha
      exact ⟨el, ew', vs', es', by simp [firstArray, f1], f2, f3, f4, f5, f6⟩

/-- the field list: every item the reference encodes, the encoder encodes -/
theorem items_conv (c : Cfg) (hm : c.mode = .ideal) (all : Items) (p : Bytes) (v : Value) (arrs : List ArrInfo)
    (H : RefFacts c all v arrs) (hnd : (arrayIds all).Nodup) :
    ∀ (is : Items) (bs : Bytes), convWfItems is = true → refWfItems all is = true → lenWfItems is = true →
      (∀ t ∈ arrayItems is, t ∈ arrayItems all) →
      Ref.encItems c.e arrs p v is = some bs → ∃ bs', encItems c all (.ok p) p.length v is = .ok bs'
  | .nil, bs, _, _, _, _, _ => ⟨[], by simp [encItems]⟩
  | .cons i r, bs, hw, hr, hl, harr, h => by
    simp only [convWfItems, Bool.and_eq_true] at hw
    simp only [refWfItems, Bool.and_eq_true] at hr
    simp only [lenWfItems, Bool.and_eq_true] at hl
    simp only [Ref.encItems] at h
    cases hi : Ref.encItem c.e arrs p v i with
    | none => simp [hi] at h
    | some a =>
      cases hrest : Ref.encItems c.e arrs p v r with
      | none => simp [hi, hrest] at h
      | some b =>
        have harr' : ∀ t ∈ arrayItems r, t ∈ arrayItems all := by
          intro t ht; apply harr
          cases i <;> simp [arrayItems, ht]
        obtain ⟨b', hb'⟩ := items_conv c hm all p v arrs H hnd r b hw.2 hr.2 hl.2 harr' hrest
        have hitem : ∃ a', encItem c all (.ok p) p.length v i = .ok a' := by
          cases i with
          | chunk fs =>
            simp only [Ref.encItem, Option.map_eq_some_iff] at hi
            obtain ⟨bits, hbits, _⟩ := hi
            simp only [convWfItem, List.all_eq_true] at hw
            simp only [refWfItem, Bool.and_eq_true, List.all_eq_true] at hr
            obtain ⟨X, hX⟩ := chunk_conv c all p.length v arrs H fs bits 0 0
              (fun f hf => ⟨(hr.1.2 f hf).1, hw.1 f hf⟩) hbits
            exact ⟨putUint c.e (chunkBits fs) X, by simp only [encItem, hm, BEq.rfl, hX, Outcome.bind]⟩
          | typedef id ty sb =>
            simp only [Ref.encItem] at hi
            simp only [convWfItem] at hw
            cases hg : v.get? id with
            | none => simp [hg] at hi
            | some x =>
              simp only [hg] at hi
              exact ⟨a, by simp only [encItem, hg]; exact ty_conv c hm ty x a hw.1 hi⟩
          | optional id ty cid cval =>
            simp only [Ref.encItem] at hi
            simp only [convWfItem] at hw
            cases hg : v.get? id with
            | none => exact ⟨[], by simp [encItem, hg]⟩
            | some x =>
              cases x with
              | null => exact ⟨[], by simp [encItem, hg]⟩
              | int n =>
                simp only [hg] at hi
                have := ty_conv c hm ty (.int n) a hw.1 hi
                cases ty with
                | scalar w =>
                  simp only [convWfTy, Bool.and_eq_true, beq_iff_eq, decide_eq_true_eq] at hw
                  simp only [Ref.encTy] at hi
                  split at hi
                  · rename_i hf
                    have hlt : n < 2 ^ w := by simpa [fits] using hf
                    have hbk := Nat.pow_le_pow_right (by decide : 2 > 0) (backingOf_ge w hw.1.2)
                    refine ⟨putUint c.e w n, ?_⟩
                    simp only [encItem, hg]
                    rw [if_neg (by omega), if_neg (by intro hh; exact fits_le_mask w n hf hh.2)]
                  · cases hi
                | enumTy nm en => exact ⟨a, by simpa [encItem, hg] using this⟩
                | custom nm w => exact ⟨a, by simpa [encItem, hg] using this⟩
                | struct nm bd => exact ⟨a, by simpa [encItem, hg] using this⟩
              | arr l =>
                simp only [hg] at hi
                have := ty_conv c hm ty (.arr l) a hw.1 hi
                cases ty with
                | scalar w => simp [Ref.encTy] at hi
                | enumTy nm en => exact ⟨a, by simpa [encItem, hg] using this⟩
                | custom nm w => exact ⟨a, by simpa [encItem, hg] using this⟩
                | struct nm bd => exact ⟨a, by simpa [encItem, hg] using this⟩
              | obj l =>
                simp only [hg] at hi
                have := ty_conv c hm ty (.obj l) a hw.1 hi
                cases ty with
                | scalar w => simp [Ref.encTy] at hi
                | enumTy nm en => exact ⟨a, by simpa [encItem, hg] using this⟩
                | custom nm w => exact ⟨a, by simpa [encItem, hg] using this⟩
                | struct nm bd => exact ⟨a, by simpa [encItem, hg] using this⟩
          | payload md => exact ⟨p, by simp [encItem]⟩
          | array id elem ew shape pad =>
            simp only [lenWfItem, Bool.and_eq_true] at hl
            obtain ⟨ai, hla, hcnt, hpadle⟩ := refArray_inv c.e arrs p v id elem ew shape pad a hi
            obtain ⟨el, ew', vs, es, f1, f2, f3, f4, f5, f6⟩ := H id ai hla
            have hfa := firstArray_of_mem all id elem ew (harr _ (by simp [arrayItems])) hnd
            rw [hfa] at f1
            simp only [Option.some.injEq, Prod.mk.injEq] at f1
            obtain ⟨rfl, rfl⟩ := f1
            have hcc : checkCount shape vs.length = .ok () := by
              cases shape with
              | static n => simp [checkCount, ← f3, hcnt n rfl]
              | _ => rfl
            have hlen := encList_len_arrSize c elem ew hl.1 vs es f6
            have hes : es.length = ai.bytes.length := by
              rw [f5]; exact encListWith_length (encTy c elem) (lenTy elem) (fun x b hx => encTy_len c elem x b hl.1.2 hx) vs es f6
            cases pad with
            | none =>
              exact ⟨es, by simp only [encItem, listField, f2, Outcome.bind, hcc, checkPad, f6, padTo]⟩
            | some q =>
              have hle := hpadle q rfl
              refine ⟨es ++ zeros (q - es.length), ?_⟩
              simp only [encItem, listField, f2, Outcome.bind, hcc, checkPad]
              rw [if_neg (by omega)]
              simp only [f6, padTo]
              rw [if_pos (by omega)]
        obtain ⟨a', ha'⟩ := hitem
        exact ⟨a' ++ b', by simp [encItems, ha', hb', Outcome.bind]⟩
end

/-- **C03, converse**: whenever the bit-level reference assigns an encoding to a value, the reference-mode
    encoder succeeds and writes it -/
theorem ref_to_encode (e : Endian) (nm : String) (items : Items) (hw : convWfBody (.root nm items) = true)
    (v : Value) (bs : Bytes) (h : Ref.encode e (.root nm items) v = some bs) :
    encBody { e := e, mode := .ideal } (.root nm items) v = .ok bs := by
  have := ty_conv { e := e, mode := .ideal } rfl (.struct nm (.root nm items)) v bs (by simpa [convWfBody] using hw)
    (by simpa [Ref.encTy, Ref.encode] using h)
  simpa [encTy] using this

theorem convWf_refWf (nm : String) (items : Items) (hw : convWfBody (.root nm items) = true) :
    refWfBody (.root nm items) = true := by
  simp only [convWfBody, convWfTy, Bool.and_eq_true, decide_eq_true_eq] at hw
  simp [refWfBody, hw.1.1.2, hw.1.2, hw.2]

/-- **C03, both directions**: the reference-mode encoder produces `bs` for `v` exactly when `bs` is the
    reference encoding of `v` — every range check, size / count / element-size computation, flag consistency
    check and padding bound of the encoder is the one doc/reference.md prescribes, neither more nor less -/
theorem encode_iff_ref (e : Endian) (nm : String) (items : Items) (hw : convWfBody (.root nm items) = true)
    (v : Value) (bs : Bytes) :
    encBody { e := e, mode := .ideal } (.root nm items) v = .ok bs ↔ Ref.encode e (.root nm items) v = some bs :=
  ⟨encode_ideal_eq_ref e _ (convWf_refWf nm items hw) v bs, ref_to_encode e nm items hw v bs⟩

end Pdlv
