/-
  Pdlv.Lemmas.CxxChild — the model of the CHILD views the C++ back end emits (`Pdlv.Cxx.viewBody`: a valid parent view, the
  child's own fields parsed from the parent's payload, no constraint checked) against the reference `decode_full` of the
  child: everything the reference accepts is a valid view with the reference's values, and a valid view is either what the
  reference accepts, with the same values, or an input whose constraints do not hold (`ConstraintValue`).
-/
import Pdlv.Lemmas.CxxView
import Pdlv.Thm.C01

namespace Pdlv
namespace Cxx

open Py (ideal)

/-- the octets `decode_partial` parses a child from: the parent value's payload -/
def pbytesOf (pv : Value) : Bytes :=
  match pv.fields.lookup "payload" with
  | some (.arr vs) => vs.map fun v => UInt8.ofNat ((Value.asNat? v).getD 0)
  | _ => []

/-- the payload a decoder records is cut from its input -/
theorem decItems_payload_le (c : Cfg) : ∀ (is : Items) (bs r : Bytes) (st st' : DState),
    Pdlv.decItems c is bs st = .ok (st', r) → ∀ p, st'.payload = some p → st.payload = some p ∨ p.length ≤ bs.length
  | .nil, bs, r, st, st', h, p, hp => by
    simp only [Pdlv.decItems, Outcome.ok.injEq, Prod.mk.injEq] at h
    obtain ⟨rfl, _⟩ := h
    exact Or.inl hp
  | .cons i is, bs, r, st, st', h, p, hp => by
    simp only [Pdlv.decItems] at h
    obtain ⟨⟨st1, b1⟩, h1, h2⟩ := bind_ok _ _ _ h
    have hcons := decItem_consumes c i bs st st1 b1 h1
    rcases decItems_payload_le c is b1 r st1 st' h2 p hp with h3 | h3
    · by_cases hi : i.isPayload = false
      · rw [(decItem_mono c i bs b1 st st1 h1).2.1 hi] at h3
        exact Or.inl h3
      · right
        cases i with
        | payload mode =>
          simp only [Pdlv.decItem] at h1
          cases mode with
          | sized m =>
            simp only at h1
            split at h1
            · cases h1
            · split at h1
              · cases h1
              · split at h1
                · cases h1
                · simp only [Outcome.ok.injEq, Prod.mk.injEq] at h1
                  rw [← h1.1] at h3
                  simp only [Option.some.injEq] at h3
                  rw [← h3, List.length_take]; omega
          | last =>
            simp only [Outcome.ok.injEq, Prod.mk.injEq] at h1
            rw [← h1.1] at h3
            simp only [Option.some.injEq] at h3
            rw [← h3]; omega
          | beforeStatic k =>
            simp only at h1
            split at h1
            · cases h1
            · simp only [Outcome.ok.injEq, Prod.mk.injEq] at h1
              rw [← h1.1] at h3
              simp only [Option.some.injEq] at h3
              rw [← h3, List.length_take]; omega
          | undelimited => simp at h1
        | chunk _ => simp [Item.isPayload] at hi
        | typedef _ _ _ => simp [Item.isPayload] at hi
        | optional _ _ _ _ => simp [Item.isPayload] at hi
        | array _ _ _ _ _ => simp [Item.isPayload] at hi
    · right; omega

theorem lookup_none_of_not_mem (l : List (String × Value)) (k : String) (h : k ∉ l.map Prod.fst) : l.lookup k = none := by
  rw [List.lookup_eq_none_iff]
  intro kv hkv
  simp only [bne_iff_ne, ne_eq]
  intro hk
  exact h (List.mem_map.mpr ⟨kv, hkv, hk.symm⟩)

/-- the payload octets read back from an assembled value are the recorded payload -/
theorem pbytesOf_none (F C : List (String × Value)) (hF : F.lookup "payload" = none) (hC : C.lookup "payload" = none) :
    pbytesOf (.obj (F ++ C ++ [])) = [] := by
  simp [pbytesOf, Value.fields, List.lookup_append, hF, hC]

theorem pbytesOf_some (F C : List (String × Value)) (hF : F.lookup "payload" = none) (hC : C.lookup "payload" = none)
    (p : Bytes) : (pbytesOf (.obj (F ++ C ++ [("payload", Value.ofBytes p)]))).length = p.length := by
  simp [pbytesOf, Value.fields, List.lookup_append, hF, hC, Value.ofBytes, List.lookup]

theorem filter_lookup_payload (l : List (String × Value)) (cs : List (String × Nat)) :
    (l.filter fun (k, _) => k != "payload" && !(cs.any (·.1 == k))).lookup "payload" = none := by
  rw [List.lookup_eq_none_iff]
  intro kv hkv
  simp only [List.mem_filter, Bool.and_eq_true, bne_iff_ne, ne_eq] at hkv
  simp only [bne_iff_ne, ne_eq]
  exact fun h => hkv.2.1 h.symm

/-- `decode_partial` once the constraints hold: the own fields parsed from the parent's payload, nothing left over -/
theorem decPartialWith_pbytes (f : Bytes → Dec (DState × Bytes)) (parent : Body) (cs : List (String × Nat)) (pv : Value)
    (hp : parent.hasPayload = true) (hv : violated parent pv cs = false) :
    decPartialWith f parent cs pv =
      (f (pbytesOf pv)).bind fun (st, rest) =>
        if rest.isEmpty then
          .ok (.obj (st.fields ++ (pv.fields.filter fun (k, _) => k != "payload" && !(cs.any (·.1 == k))) ++
                    (match st.payload with
                     | some p => [("payload", Value.ofBytes p)]
                     | none => [])))
        else .err .trailingBytes := by
  unfold decPartialWith pbytesOf
  simp only [hv, Bool.false_eq_true, ↓reduceIte, hp]
  cases pv.fields.lookup "payload" with
  | none => rfl
  | some x => cases x <;> rfl

theorem decPartialWith_violated (f : Bytes → Dec (DState × Bytes)) (parent : Body) (cs : List (String × Nat)) (pv : Value)
    (hv : violated parent pv cs = true) : decPartialWith f parent cs pv = .err .constraintValue := by
  simp [decPartialWith, hv]

/-- the child level of `viewBody` on a valid parent view -/
theorem viewBody_step (c : Cfg) (nm : String) (parent : Body) (cs allCs : List (String × Nat)) (items : Items) (bs : Bytes)
    (pv : Value) (phz : Option Hazard) (hpv : viewBody c parent bs = .ok (pv, phz)) (hp : parent.hasPayload = true) :
    viewBody c (.derived nm parent cs allCs items) bs =
      if (pbytesOf pv).length ≥ usizeMax then .panic .badLayout
      else
        (viewItems c items items false (pbytesOf pv) (DState.empty, phz)).bind fun ((st, hz), r) =>
          if !r.isEmpty then .err .trailingBytes
          else .ok (.obj (st.fields ++ (pv.fields.filter fun (k, _) => k != "payload" && !(cs.any (·.1 == k))) ++
                          (match st.payload with
                           | some p => [("payload", Value.ofBytes p)]
                           | none => [])), hz) := by
  simp only [viewBody, hpv, Outcome.bind, hp, ↓reduceIte]
  unfold pbytesOf
  cases pv.fields.lookup "payload" with
  | none => rfl
  | some x => cases x <;> rfl

/-- the statement carried down the chain of ancestors -/
def ChainOk (c : Cfg) (b : Body) (bs : Bytes) : Prop :=
  (∀ v r, Pdlv.decBody (ideal c) b bs = .ok (v, r) → r.isEmpty = true → viewBody c b bs = .ok (v, none)) ∧
  (∀ v hz, viewBody c b bs = .ok (v, hz) → hz = none ∧
    ((∃ r, r.isEmpty = true ∧ Pdlv.decBody (ideal c) b bs = .ok (v, r)) ∨ Pdlv.decBody (ideal c) b bs = .err .constraintValue)) ∧
  (∀ v r, Pdlv.decBody (ideal c) b bs = .ok (v, r) → (pbytesOf v).length ≤ bs.length)

theorem chain_root (c : Cfg) (nm : String) (items : Items) (hw : vwfItems items items = true)
    (hid : (itemsIds items).contains "payload" = false) (bs : Bytes)
    (hb : bs.length < usizeMax) : ChainOk c (.root nm items) bs := by
  have h := items_refv c items (sizeField_vwf items · items hw) items hw false bs DState.empty hb
  refine ⟨?_, ?_, ?_⟩
  · intro v r hd hr
    simp only [Pdlv.decBody] at hd
    obtain ⟨⟨s1, r1⟩, hc, hd2⟩ := bind_ok _ _ _ hd
    simp only [Outcome.ok.injEq, Prod.mk.injEq] at hd2
    have hp := (h.1 s1 r1).mpr hc
    have hr1 : r1.isEmpty = true := by rw [hd2.2]; exact hr
    simp only [viewBody, hp, Outcome.bind, hr1, Bool.not_true, Bool.false_eq_true, ↓reduceIte, Outcome.ok.injEq, Prod.mk.injEq,
      and_true]
    rw [← hd2.1]
    cases s1.payload <;> rfl
  · intro v hz hp
    simp only [viewBody] at hp
    obtain ⟨⟨⟨s1, z1⟩, r1⟩, ha, hbb⟩ := bind_ok _ _ _ hp
    cases z1 with
    | some z => exact absurd ha (h.2.1 s1 z r1)
    | none =>
      have hq := (h.1 s1 r1).mp ha
      simp only at hbb
      split at hbb
      · cases hbb
      · rename_i hr
        simp only [Outcome.ok.injEq, Prod.mk.injEq] at hbb
        have hr' : r1.isEmpty = true := by simpa using hr
        refine ⟨hbb.2.symm, Or.inl ⟨r1, hr', ?_⟩⟩
        simp only [Pdlv.decBody, hq, Outcome.bind, Outcome.ok.injEq, Prod.mk.injEq, and_true]
        rw [← hbb.1]
        cases s1.payload <;> rfl
  · intro v r hd
    simp only [Pdlv.decBody] at hd
    obtain ⟨⟨s1, r1⟩, hc, hd2⟩ := bind_ok _ _ _ hd
    simp only [Outcome.ok.injEq, Prod.mk.injEq] at hd2
    obtain ⟨hkeys, _⟩ := decItems_ids (ideal c) items bs r1 DState.empty s1 hc
    simp only [DState.empty, List.map_nil, List.nil_append] at hkeys
    have hF : s1.fields.lookup "payload" = none :=
      lookup_none_of_not_mem _ _ (by rw [hkeys]; simpa using hid)
    rw [← hd2.1]
    cases hp : s1.payload with
    | none =>
      have := pbytesOf_none s1.fields [] hF rfl
      simp only [List.append_nil] at this ⊢
      simp only [this, List.length_nil, Nat.zero_le]
    | some p =>
      have := pbytesOf_some s1.fields [] hF rfl p
      simp only [List.append_nil] at this
      simp only [this]
      rcases decItems_payload_le (ideal c) items bs r1 DState.empty s1 hc p hp with h0 | h0
      · simp [DState.empty] at h0
      · exact h0

theorem chain_ok (c : Cfg) : ∀ (b : Body), vwfChain b = true → ∀ (bs : Bytes), bs.length < usizeMax → ChainOk c b bs
  | .root nm items, hw, bs, hb => by
    simp only [vwfChain, Bool.and_eq_true, Bool.not_eq_true'] at hw
    exact chain_root c nm items hw.1 hw.2 bs hb
  | .derived nm parent cs allCs items, hw, bs, hb => by
    simp only [vwfChain, Bool.and_eq_true, Bool.not_eq_true'] at hw
    obtain ⟨⟨⟨hwi, hid⟩, hpp⟩, hwp⟩ := hw
    have ih := chain_ok c parent hwp bs hb
    have hitems : ∀ (pb : Bytes), pb.length < usizeMax →
        RefV (viewItems c items items false pb (DState.empty, none)) (Pdlv.decItems (ideal c) items pb DState.empty) :=
      fun pb hpb => items_refv c items (sizeField_vwf items · items hwi) items hwi false pb DState.empty hpb
    refine ⟨?_, ?_, ?_⟩
    · -- what the reference accepts is a valid view
      intro v r hd hr
      simp only [Pdlv.decBody] at hd
      obtain ⟨⟨pv, r0⟩, hpd, hd2⟩ := bind_ok _ _ _ hd
      obtain ⟨v1, hpw, hd3⟩ := bind_ok _ _ _ hd2
      simp only [Outcome.ok.injEq, Prod.mk.injEq] at hd3
      obtain ⟨rfl, rfl⟩ := hd3
      have hpv := ih.1 pv r0 hpd hr
      have hbound := ih.2.2 pv r0 hpd
      by_cases hv : violated parent pv cs = true
      · rw [decPartialWith_violated _ _ _ _ hv] at hpw; cases hpw
      · have hv' : violated parent pv cs = false := by simpa using hv
        rw [decPartialWith_pbytes _ _ _ _ hpp hv'] at hpw
        rw [viewBody_step c nm parent cs allCs items bs pv none hpv hpp, if_neg (by omega)]
        obtain ⟨⟨s1, r1⟩, hc, hd4⟩ := bind_ok _ _ _ hpw
        have hp := ((hitems (pbytesOf pv) (by omega)).1 s1 r1).mpr hc
        simp only at hd4
        split at hd4
        · rename_i hre
          simp only [Outcome.ok.injEq] at hd4
          simp only [hp, Outcome.bind, hre, Bool.not_true, Bool.false_eq_true, ↓reduceIte, Outcome.ok.injEq, Prod.mk.injEq,
            and_true]
          rw [← hd4]
        · cases hd4
    · -- a valid view is what the reference accepts, or an input whose constraints do not hold
      intro v hz hp
      have hp0 := hp
      simp only [viewBody] at hp0
      obtain ⟨⟨pv, phz⟩, hpv, _⟩ := bind_ok _ _ _ hp0
      obtain ⟨rfl, href⟩ := ih.2.1 pv phz hpv
      rw [viewBody_step c nm parent cs allCs items bs pv none hpv hpp] at hp
      split at hp
      · cases hp
      · rename_i hlen
        obtain ⟨⟨⟨s1, z1⟩, r1⟩, ha, hbb⟩ := bind_ok _ _ _ hp
        have hr := hitems (pbytesOf pv) (by omega)
        cases z1 with
        | some z => exact absurd ha (hr.2.1 s1 z r1)
        | none =>
          have hq := (hr.1 s1 r1).mp ha
          simp only at hbb
          split at hbb
          · cases hbb
          · rename_i hre
            simp only [Outcome.ok.injEq, Prod.mk.injEq] at hbb
            have hre' : r1.isEmpty = true := by simpa using hre
            refine ⟨hbb.2.symm, ?_⟩
            rcases href with ⟨r0, hr0, hpd⟩ | hcv
            · by_cases hv : violated parent pv cs = true
              · right
                simp only [Pdlv.decBody, hpd, Outcome.bind, decPartialWith_violated _ _ _ _ hv]
              · left
                have hv' : violated parent pv cs = false := by simpa using hv
                refine ⟨r0, hr0, ?_⟩
                simp only [Pdlv.decBody, hpd, Outcome.bind, decPartialWith_pbytes _ _ _ _ hpp hv', hq, hre', ↓reduceIte,
                  Outcome.ok.injEq, Prod.mk.injEq, and_true]
                rw [← hbb.1]
            · right
              simp only [Pdlv.decBody, hcv, Outcome.bind]
    · -- the payload of the child's value is cut from the parent's payload
      intro v r hd
      simp only [Pdlv.decBody] at hd
      obtain ⟨⟨pv, r0⟩, hpd, hd2⟩ := bind_ok _ _ _ hd
      obtain ⟨v1, hpw, hd3⟩ := bind_ok _ _ _ hd2
      simp only [Outcome.ok.injEq, Prod.mk.injEq] at hd3
      obtain ⟨rfl, rfl⟩ := hd3
      have hbound := ih.2.2 pv r0 hpd
      by_cases hv : violated parent pv cs = true
      · rw [decPartialWith_violated _ _ _ _ hv] at hpw; cases hpw
      · have hv' : violated parent pv cs = false := by simpa using hv
        rw [decPartialWith_pbytes _ _ _ _ hpp hv'] at hpw
        obtain ⟨⟨s1, r1⟩, hc, hd4⟩ := bind_ok _ _ _ hpw
        simp only at hd4
        split at hd4
        · simp only [Outcome.ok.injEq] at hd4
          obtain ⟨hkeys, _⟩ := decItems_ids (ideal c) items (pbytesOf pv) r1 DState.empty s1 hc
          simp only [DState.empty, List.map_nil, List.nil_append] at hkeys
          have hF : s1.fields.lookup "payload" = none :=
            lookup_none_of_not_mem _ _ (by rw [hkeys]; simpa using hid)
          rw [← hd4]
          cases hp : s1.payload with
          | none =>
            simp only [pbytesOf_none s1.fields _ hF (filter_lookup_payload pv.fields cs), List.length_nil, Nat.zero_le]
          | some p =>
            simp only [pbytesOf_some s1.fields _ hF (filter_lookup_payload pv.fields cs) p]
            rcases decItems_payload_le (ideal c) items (pbytesOf pv) r1 DState.empty s1 hc p hp with h0 | h0
            · simp [DState.empty] at h0
            · omega
        · cases hd4

/-- the payload of a valid view's value is cut from the input as well (through the reference's state, which a valid view
    shares) -/
theorem view_payload_le (c : Cfg) : ∀ (b : Body), vwfChain b = true → ∀ (bs : Bytes), bs.length < usizeMax →
    ∀ v hz, viewBody c b bs = .ok (v, hz) → (pbytesOf v).length ≤ bs.length
  | .root nm items, hw, bs, hb, v, hz, hp => by
    simp only [vwfChain, Bool.and_eq_true, Bool.not_eq_true'] at hw
    have hok := chain_root c nm items hw.1 hw.2 bs hb
    obtain ⟨_, href⟩ := hok.2.1 v hz hp
    rcases href with ⟨r, _, hd⟩ | hcv
    · exact hok.2.2 v r hd
    · simp only [Pdlv.decBody] at hcv
      -- a root has no constraint to violate
      cases hdi : Pdlv.decItems (ideal c) items bs DState.empty with
      | ok a => simp [hdi, Outcome.bind] at hcv
      | panic q => simp [hdi, Outcome.bind] at hcv
      | err e =>
        -- the view is valid, so the reference's parser of the own fields accepted
        exfalso
        have h := items_refv c items (sizeField_vwf items · items hw.1) items hw.1 false bs DState.empty hb
        simp only [viewBody] at hp
        obtain ⟨⟨⟨s1, z1⟩, r1⟩, ha, _⟩ := bind_ok _ _ _ hp
        cases z1 with
        | some z => exact absurd ha (h.2.1 s1 z r1)
        | none =>
          have hq := (h.1 s1 r1).mp ha
          rw [hdi] at hq
          cases hq
  | .derived nm parent cs allCs items, hw, bs, hb, v, hz, hp => by
    have hw0 := hw
    simp only [vwfChain, Bool.and_eq_true, Bool.not_eq_true'] at hw
    obtain ⟨⟨⟨hwi, hid⟩, hpp⟩, hwp⟩ := hw
    have hp0 := hp
    simp only [viewBody] at hp0
    obtain ⟨⟨pv, phz⟩, hpv, _⟩ := bind_ok _ _ _ hp0
    have ihb := view_payload_le c parent hwp bs hb pv phz hpv
    obtain ⟨rfl, _⟩ := (chain_ok c parent hwp bs hb).2.1 pv phz hpv
    rw [viewBody_step c nm parent cs allCs items bs pv none hpv hpp] at hp
    split at hp
    · cases hp
    · obtain ⟨⟨⟨s1, z1⟩, r1⟩, ha, hbb⟩ := bind_ok _ _ _ hp
      have hr := items_refv c items (sizeField_vwf items · items hwi) items hwi false (pbytesOf pv) DState.empty (by omega)
      cases z1 with
      | some z => exact absurd ha (hr.2.1 s1 z r1)
      | none =>
        have hc := (hr.1 s1 r1).mp ha
        simp only at hbb
        split at hbb
        · cases hbb
        · simp only [Outcome.ok.injEq, Prod.mk.injEq] at hbb
          obtain ⟨hkeys, _⟩ := decItems_ids (ideal c) items (pbytesOf pv) r1 DState.empty s1 hc
          simp only [DState.empty, List.map_nil, List.nil_append] at hkeys
          have hF : s1.fields.lookup "payload" = none :=
            lookup_none_of_not_mem _ _ (by rw [hkeys]; simpa using hid)
          rw [← hbb.1]
          cases hpl : s1.payload with
          | none =>
            simp only [pbytesOf_none s1.fields _ hF (filter_lookup_payload pv.fields cs), List.length_nil, Nat.zero_le]
          | some p =>
            simp only [pbytesOf_some s1.fields _ hF (filter_lookup_payload pv.fields cs) p]
            rcases decItems_payload_le (ideal c) items (pbytesOf pv) r1 DState.empty s1 hc p hpl with h0 | h0
            · simp [DState.empty] at h0
            · omega

/-- no slice accessor is called beyond its slice anywhere along the chain: a hazard of the view parser of a level is a
    hazard of the reference's parser of that level's own fields on the same octets, which C01 excludes -/
theorem chain_no_panic (c : Cfg) : ∀ (b : Body), vwfChain b = true → decWfBody b = true → ∀ (bs : Bytes), bs.length < usizeMax →
    ∀ h, viewBody c b bs ≠ .panic h
  | .root nm items, hw, hd, bs, hb, h, hp => by
    simp only [vwfChain, Bool.and_eq_true, Bool.not_eq_true'] at hw
    have hr := items_refv c items (sizeField_vwf items · items hw.1) items hw.1 false bs DState.empty hb
    simp only [viewBody] at hp
    cases hv : viewItems c items items false bs (DState.empty, none) with
    | panic h0 =>
      obtain ⟨h', hq⟩ := hr.2.2 h0 hv
      have := decode_full_no_panic_ideal c.e (.root nm items) hd bs
      have e : ideal c = { e := c.e, mode := .ideal } := rfl
      rw [e] at hq
      simp [Pdlv.decodeFull, Pdlv.decBody, hq, Outcome.bind, Outcome.isPanic] at this
    | err e => simp [hv, Outcome.bind] at hp
    | ok a =>
      obtain ⟨⟨s1, z1⟩, r1⟩ := a
      simp only [hv, Outcome.bind] at hp
      split at hp <;> cases hp
  | .derived nm parent cs allCs items, hw, hd, bs, hb, h, hp => by
    have hw0 := hw
    simp only [vwfChain, Bool.and_eq_true, Bool.not_eq_true'] at hw
    obtain ⟨⟨⟨hwi, hid⟩, hpp⟩, hwp⟩ := hw
    simp only [decWfBody, Bool.and_eq_true] at hd
    cases hpv : viewBody c parent bs with
    | panic h0 => exact chain_no_panic c parent hwp hd.1 bs hb h0 hpv
    | err e => simp [viewBody, hpv, Outcome.bind] at hp
    | ok a =>
      obtain ⟨pv, phz⟩ := a
      obtain ⟨rfl, _⟩ := (chain_ok c parent hwp bs hb).2.1 pv phz hpv
      have hbound := view_payload_le c parent hwp bs hb pv none hpv
      rw [viewBody_step c nm parent cs allCs items bs pv none hpv hpp, if_neg (by omega)] at hp
      have hr := items_refv c items (sizeField_vwf items · items hwi) items hwi false (pbytesOf pv) DState.empty (by omega)
      cases hv : viewItems c items items false (pbytesOf pv) (DState.empty, none) with
      | panic h0 =>
        obtain ⟨h', hq⟩ := hr.2.2 h0 hv
        have := decode_full_no_panic_ideal c.e (.root nm items) hd.2 (pbytesOf pv)
        have e : ideal c = { e := c.e, mode := .ideal } := rfl
        rw [e] at hq
        simp [Pdlv.decodeFull, Pdlv.decBody, hq, Outcome.bind, Outcome.isPanic] at this
      | err e => simp [hv, Outcome.bind] at hp
      | ok a =>
        obtain ⟨⟨s1, z1⟩, r1⟩ := a
        simp only [hv, Outcome.bind] at hp
        split at hp <;> cases hp

end Cxx
end Pdlv
