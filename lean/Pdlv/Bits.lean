/-
  Pdlv.Bits — byte-level primitives: little/big-endian integers on byte lists, the
  `usize` arithmetic the generated Rust performs on wire-controlled values.
-/
namespace Pdlv

abbrev Bytes := List UInt8

/-- `k` little-endian bytes of `n` (the low `8k` bits). `BufMut::put_uint_le(n, k)`. -/
def toLE : Nat → Nat → Bytes
  | 0, _ => []
  | k + 1, n => UInt8.ofNat (n % 256) :: toLE k (n / 256)

/-- `Buf::get_uint_le` on exactly these bytes. -/
def fromLE : Bytes → Nat
  | [] => 0
  | b :: bs => b.toNat + 256 * fromLE bs

/-- `BufMut::put_uint(n, k)` (big-endian). -/
def toBE (k n : Nat) : Bytes := (toLE k n).reverse

def fromBE (bs : Bytes) : Nat := fromLE bs.reverse

def zeros (k : Nat) : Bytes := List.replicate k 0

def usizeMax : Nat := 2 ^ 64

def hexDigit (n : Nat) : Char :=
  if n < 10 then Char.ofNat (48 + n) else Char.ofNat (87 + n)

def Bytes.toHex (bs : Bytes) : String :=
  String.ofList (bs.flatMap fun b => [hexDigit (b.toNat / 16), hexDigit (b.toNat % 16)])

def hexVal (c : Char) : Option Nat :=
  if '0' ≤ c ∧ c ≤ '9' then some (c.toNat - 48)
  else if 'a' ≤ c ∧ c ≤ 'f' then some (c.toNat - 87)
  else if 'A' ≤ c ∧ c ≤ 'F' then some (c.toNat - 55)
  else none

def hexToBytes : List Char → Option Bytes
  | [] => some []
  | [_] => none
  | a :: b :: rest =>
    match hexVal a, hexVal b, hexToBytes rest with
    | some x, some y, some r => some (UInt8.ofNat (16 * x + y) :: r)
    | _, _, _ => none

end Pdlv
