/-
  Pdlv.Peg — a PEG interpreter with pest's semantics (implicit WHITESPACE / COMMENT skipping
  between the elements of sequences and repetitions in non-atomic rules, atomic `@{}`,
  compound-atomic `${}` and silent `_{}` rules, ordered choice with backtracking), producing
  pest's tree of pairs (rule, start, end, children).  Input is a list of bytes; positions are
  byte offsets, as in pest (whose `Position::pos` is a byte index into the UTF-8 source).
-/
namespace Pdlv
namespace Peg

inductive Expr
  | str (s : String)
  | range (lo hi : Char)       -- ASCII ranges only
  | any
  | soi
  | eoi
  | seq (a b : Expr)
  | choice (a b : Expr)
  | opt (a : Expr)
  | star (a : Expr)
  | plus (a : Expr)
  | notP (a : Expr)
  | andP (a : Expr)      -- positive lookahead `&e`
  | rule (name : String)
deriving Repr, Inhabited, BEq

inductive Kind | normal | silent | atomic | compound
deriving DecidableEq, Repr, Inhabited

structure Rule where
  name : String
  kind : Kind
  body : Expr
deriving Repr, Inhabited, BEq

abbrev Grammar := List Rule

def Expr.appSeq : Expr → Expr → Expr
  | .seq x y, t => .seq x (appSeq y t)
  | x, t => .seq x t

def Expr.appChoice : Expr → Expr → Expr
  | .choice x y, t => .choice x (appChoice y t)
  | x, t => .choice x t

/-- sequences and choices re-associated to the right (`a ~ b ~ c` has one meaning however it is nested) -/
def Expr.canon : Expr → Expr
  | .seq a b => Expr.appSeq a.canon b.canon
  | .choice a b => Expr.appChoice a.canon b.canon
  | .opt a => .opt a.canon
  | .star a => .star a.canon
  | .plus a => .plus a.canon
  | .notP a => .notP a.canon
  | .andP a => .andP a.canon
  | e => e

/-- names of the rules on which two grammars differ (missing on one side, or different kind / body) -/
def grammarDiff (g h : Grammar) : List String :=
  let one (a b : Grammar) := a.filterMap fun r =>
    match b.find? (·.name == r.name) with
    | some r' => if r.kind == r'.kind && r.body.canon == r'.body.canon then none else some r.name
    | none => some r.name
  (one g h ++ (one h g).filter fun n => !(one g h).contains n)

/-- pest's `Pair` -/
inductive Pair
  | mk (rule : String) (start stop : Nat) (children : List Pair)
deriving Repr, Inhabited

def Pair.rule : Pair → String | .mk r _ _ _ => r
def Pair.start : Pair → Nat | .mk _ s _ _ => s
def Pair.stop : Pair → Nat | .mk _ _ e _ => e
def Pair.children : Pair → List Pair | .mk _ _ _ c => c

structure St where
  pos : Nat
  pairs : List Pair      -- produced so far at this level, in order
deriving Inhabited

inductive Atomicity | nonAtomic | atomic | compound
deriving DecidableEq, Repr

def utf8Len (b : UInt8) : Nat :=
  if b.toNat < 0x80 then 1 else if b.toNat < 0xE0 then 2 else if b.toNat < 0xF0 then 3 else 4

def matchStr (input : Array UInt8) (pos : Nat) (s : List UInt8) : Bool :=
  let rec go (i : Nat) : List UInt8 → Bool
    | [] => true
    | c :: cs => if h : i < input.size then (input[i] == c && go (i + 1) cs) else false
  go pos s

abbrev Eval := Expr → Atomicity → Bool → St → Option St

/-- implicit skip: `(WHITESPACE | COMMENT)*`, only in non-atomic context; it runs atomically.
    `r` evaluates an expression (the interpreter one level down) -/
def skipLoop (r : Eval) (tk : Bool) : Nat → St → St
  | 0, st => st
  | n + 1, st =>
    match r (.rule "WHITESPACE") .atomic tk st with
    | some s1 => if s1.pos > st.pos then skipLoop r tk n s1 else st
    | none =>
      match r (.rule "COMMENT") .atomic tk st with
      | some s2 => if s2.pos > st.pos then skipLoop r tk n s2 else st
      | none => st

def skipWith (r : Eval) (size : Nat) (at_ : Atomicity) (tk : Bool) (st : St) : St :=
  if at_ != .nonAtomic then st else skipLoop r tk (size + 1) st

def repeatLoop (r : Eval) (size : Nat) (a : Expr) (at_ : Atomicity) (tk : Bool) : Nat → St → St
  | 0, st => st
  | n + 1, st =>
    let st1 := skipWith r size at_ tk st
    match r a at_ tk st1 with
    | some st2 => if st2.pos > st.pos then repeatLoop r size a at_ tk n st2 else st
    | none => st

def repeatMore (r : Eval) (size : Nat) (a : Expr) (at_ : Atomicity) (tk : Bool) (st : St) : St :=
  repeatLoop r size a at_ tk (size + 1) st

/-- The interpreter.  `fuel` bounds the nesting depth of expression evaluations (rule references and
    sub-expressions); a total function, by structural recursion on it. -/
def run (g : Grammar) (input : Array UInt8) : Nat → Eval
  | 0, _, _, _, _ => none
  | fuel + 1, e, at_, tk, st =>
    let r : Eval := run g input fuel
    match e with
    -- `tokens`: whether rules produce pairs (false inside an atomic rule)
    | .str s =>
      let bs := s.toUTF8.toList
      if matchStr input st.pos bs then some { st with pos := st.pos + bs.length } else none
    | .range lo hi =>
      if h : st.pos < input.size then
        let b := input[st.pos].toNat
        if lo.toNat ≤ b ∧ b ≤ hi.toNat then some { st with pos := st.pos + 1 } else none
      else none
    | .any =>
      -- one UTF-8 scalar; a sequence cut short by the end of the input ends there (pest never sees one:
      -- its input is a `&str`)
      if h : st.pos < input.size then some { st with pos := min (st.pos + utf8Len input[st.pos]) input.size } else none
    | .soi => if st.pos = 0 then some st else none
    | .eoi => if st.pos ≥ input.size then some st else none
    | .seq a b =>
      match r a at_ tk st with
      | none => none
      | some st1 => r b at_ tk (skipWith r input.size at_ tk st1)
    | .choice a b =>
      match r a at_ tk st with
      | some x => some x
      | none => r b at_ tk st
    | .opt a =>
      match r a at_ tk st with
      | some x => some x
      | none => some st
    | .star a =>
      -- first iteration without a leading skip, later ones as `sequence(skip, a)`
      match r a at_ tk st with
      | none => some st
      | some st1 => some (repeatMore r input.size a at_ tk st1)
    | .plus a =>
      match r a at_ tk st with
      | none => none
      | some st1 => some (repeatMore r input.size a at_ tk st1)
    | .notP a =>
      match r a at_ false st with
      | some _ => none
      | none => some st
    | .andP a =>
      match r a at_ false st with
      | some _ => some st
      | none => none
    | .rule name =>
      match g.find? (·.name == name) with
      | none => none
      | some rl =>
        let (at', tk') : Atomicity × Bool := match rl.kind with
          | .atomic => (.atomic, false)
          | .compound => (.compound, tk)
          | _ => (at_, tk)
        match r rl.body at' tk' { pos := st.pos, pairs := [] } with
        | none => none
        | some inner =>
          if rl.kind == .silent then some { pos := inner.pos, pairs := st.pairs ++ inner.pairs }
          else if tk then some { pos := inner.pos, pairs := st.pairs ++ [Pair.mk name st.pos inner.pos inner.pairs] }
          else some { pos := inner.pos, pairs := st.pairs }

/-- nesting depth allowed (the PDL grammar needs about 150) -/
def defaultFuel : Nat := 4096

def parse (g : Grammar) (start : String) (input : Array UInt8) : Option (List Pair) :=
  (run g input defaultFuel (.rule start) .nonAtomic true { pos := 0, pairs := [] }).map (·.pairs)

end Peg
end Pdlv
