/-
  Pdlv.Peg — a PEG interpreter with pest's semantics (implicit WHITESPACE / COMMENT skipping
  between the elements of sequences and repetitions in non-atomic rules, atomic `@{}`,
  compound-atomic `${}` and silent `_{}` rules, ordered choice with backtracking), producing
  pest's tree of pairs (rule, start, end, children).  Input is a list of bytes; positions are
  byte offsets, as in pest (whose `Position::pos` is a byte index into the UTF-8 source).
-/
namespace Pdlv
namespace Peg

inductive Expr
  | str (s : String)
  | range (lo hi : Char)       -- ASCII ranges only
  | any
  | soi
  | eoi
  | seq (a b : Expr)
  | choice (a b : Expr)
  | opt (a : Expr)
  | star (a : Expr)
  | plus (a : Expr)
  | notP (a : Expr)
  | andP (a : Expr)      -- positive lookahead `&e`
  | rule (name : String)
deriving Repr, Inhabited

inductive Kind | normal | silent | atomic | compound
deriving DecidableEq, Repr, Inhabited

structure Rule where
  name : String
  kind : Kind
  body : Expr
deriving Repr, Inhabited

abbrev Grammar := List Rule

/-- pest's `Pair` -/
inductive Pair
  | mk (rule : String) (start stop : Nat) (children : List Pair)
deriving Repr, Inhabited

def Pair.rule : Pair → String | .mk r _ _ _ => r
def Pair.start : Pair → Nat | .mk _ s _ _ => s
def Pair.stop : Pair → Nat | .mk _ _ e _ => e
def Pair.children : Pair → List Pair | .mk _ _ _ c => c

structure St where
  pos : Nat
  pairs : List Pair      -- produced so far at this level, in order
deriving Inhabited

inductive Atomicity | nonAtomic | atomic | compound
deriving DecidableEq, Repr

def utf8Len (b : UInt8) : Nat :=
  if b.toNat < 0x80 then 1 else if b.toNat < 0xE0 then 2 else if b.toNat < 0xF0 then 3 else 4

def matchStr (input : Array UInt8) (pos : Nat) (s : List UInt8) : Bool :=
  let rec go (i : Nat) : List UInt8 → Bool
    | [] => true
    | c :: cs => if h : i < input.size then (input[i] == c && go (i + 1) cs) else false
  go pos s

/-- The interpreter.  `fuel` bounds the total number of expression evaluations. -/
partial def run (g : Grammar) (input : Array UInt8) : Expr → Atomicity → Bool → St → Option St
  -- `tokens`: whether rules produce pairs (false inside an atomic rule)
  | .str s, _, _, st =>
    let bs := s.toUTF8.toList
    if matchStr input st.pos bs then some { st with pos := st.pos + bs.length } else none
  | .range lo hi, _, _, st =>
    if h : st.pos < input.size then
      let b := input[st.pos].toNat
      if lo.toNat ≤ b ∧ b ≤ hi.toNat then some { st with pos := st.pos + 1 } else none
    else none
  | .any, _, _, st =>
    if h : st.pos < input.size then some { st with pos := st.pos + utf8Len input[st.pos] } else none
  | .soi, _, _, st => if st.pos = 0 then some st else none
  | .eoi, _, _, st => if st.pos ≥ input.size then some st else none
  | .seq a b, at_, tk, st =>
    match run g input a at_ tk st with
    | none => none
    | some st1 =>
      let st2 := skip g input at_ tk st1
      run g input b at_ tk st2
  | .choice a b, at_, tk, st =>
    match run g input a at_ tk st with
    | some r => some r
    | none => run g input b at_ tk st
  | .opt a, at_, tk, st =>
    match run g input a at_ tk st with
    | some r => some r
    | none => some st
  | .star a, at_, tk, st =>
    -- first iteration without a leading skip, later ones as `sequence(skip, a)`
    match run g input a at_ tk st with
    | none => some st
    | some st1 => some (repeatMore g input a at_ tk st1)
  | .plus a, at_, tk, st =>
    match run g input a at_ tk st with
    | none => none
    | some st1 => some (repeatMore g input a at_ tk st1)
  | .notP a, at_, _, st =>
    match run g input a at_ false st with
    | some _ => none
    | none => some st
  | .andP a, at_, _, st =>
    match run g input a at_ false st with
    | some _ => some st
    | none => none
  | .rule name, at_, tk, st =>
    match g.find? (·.name == name) with
    | none => none
    | some r =>
      let (at', tk') : Atomicity × Bool := match r.kind with
        | .atomic => (.atomic, false)
        | .compound => (.compound, tk)
        | _ => (at_, tk)
      match run g input r.body at' tk' { pos := st.pos, pairs := [] } with
      | none => none
      | some inner =>
        if r.kind == .silent then some { pos := inner.pos, pairs := st.pairs ++ inner.pairs }
        else if tk then some { pos := inner.pos, pairs := st.pairs ++ [Pair.mk name st.pos inner.pos inner.pairs] }
        else some { pos := inner.pos, pairs := st.pairs }
where
  /-- implicit skip: `(WHITESPACE | COMMENT)*`, only in non-atomic context; it runs atomically -/
  skip (g : Grammar) (input : Array UInt8) (at_ : Atomicity) (tk : Bool) (st : St) : St :=
    if at_ != .nonAtomic then st
    else
      let rec loop (n : Nat) (st : St) : St :=
        match n with
        | 0 => st
        | n + 1 =>
          match run g input (.rule "WHITESPACE") .atomic tk st with
          | some s1 => if s1.pos > st.pos then loop n s1 else st
          | none =>
            match run g input (.rule "COMMENT") .atomic tk st with
            | some s2 => if s2.pos > st.pos then loop n s2 else st
            | none => st
      loop (input.size + 1) st
  repeatMore (g : Grammar) (input : Array UInt8) (a : Expr) (at_ : Atomicity) (tk : Bool) (st : St) : St :=
    let rec loop (n : Nat) (st : St) : St :=
      match n with
      | 0 => st
      | n + 1 =>
        let st1 := skip g input at_ tk st
        match run g input a at_ tk st1 with
        | some st2 => if st2.pos > st.pos then loop n st2 else st
        | none => st
    loop (input.size + 1) st

def parse (g : Grammar) (start : String) (input : Array UInt8) : Option (List Pair) :=
  (run g input (.rule start) .nonAtomic true { pos := 0, pairs := [] }).map (·.pairs)

end Peg
end Pdlv
