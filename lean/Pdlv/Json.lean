/-
  Pdlv.Json — reader for the serde JSON form of `ast::File` (parsed or analyzed),
  as printed by pdl-compiler's json back end / the verification driver.
-/
import Lean.Data.Json
import Pdlv.Ast

namespace Pdlv
open Lean (Json)

namespace J

def str (j : Json) (k : String) : Except String String := do
  (← j.getObjVal? k).getStr?

def nat (j : Json) (k : String) : Except String Nat := do
  (← j.getObjVal? k).getNat?

def optNat (j : Json) (k : String) : Except String (Option Nat) :=
  match j.getObjVal? k with
  | .ok .null => pure none
  | .ok v => do pure (some (← v.getNat?))
  | .error _ => pure none

def optStr (j : Json) (k : String) : Except String (Option String) :=
  match j.getObjVal? k with
  | .ok .null => pure none
  | .ok v => do pure (some (← v.getStr?))
  | .error _ => pure none

def arr (j : Json) (k : String) : Except String (List Json) := do
  pure (← (← j.getObjVal? k).getArr?).toList

def has (j : Json) (k : String) : Bool :=
  match j.getObjVal? k with
  | .ok _ => true
  | .error _ => false

def loc (j : Json) : Except String SrcLoc := do
  pure { offset := ← nat j "offset", line := ← nat j "line", column := ← nat j "column" }

def range (j : Json) : Except String SrcRange :=
  match j.getObjVal? "loc" with
  | .ok l => do
    pure { start := ← loc (← l.getObjVal? "start"), stop := ← loc (← l.getObjVal? "end") }
  | .error _ => pure {}

def tagV (j : Json) : Except String TagV := do
  pure { id := ← str j "id", value := ← nat j "value", loc := ← range j }

def tag (j : Json) : Except String Tag := do
  if has j "value" then
    pure (.value (← tagV j))
  else if has j "range" then
    let r ← j.getObjVal? "range"
    let subs ← arr j "tags"
    pure (.range (← str j "id") (← nat r "start") (← nat r "end") (← subs.mapM tagV) (← range j))
  else
    pure (.other (← str j "id") (← range j))

def constraint (j : Json) : Except String Constraint := do
  pure { id := ← str j "id", value := ← optNat j "value", tagId := ← optStr j "tag_id",
         loc := ← range j }

def optConstraint (j : Json) (k : String) : Except String (Option Constraint) :=
  match j.getObjVal? k with
  | .ok .null => pure none
  | .ok v => do pure (some (← constraint v))
  | .error _ => pure none

def pair (j : Json) : Except String (String × Nat) := do
  let a ← j.getArr?
  match a.toList with
  | [x, y] => pure (← x.getStr?, ← y.getNat?)
  | _ => throw "pair expected"

def fieldDesc (j : Json) : Except String FieldDesc := do
  let kind ← str j "kind"
  match kind with
  | "checksum_field" => pure (.checksum (← str j "field_id"))
  | "padding_field" => pure (.padding (← nat j "size"))
  | "size_field" => pure (.size (← str j "field_id") (← nat j "width"))
  | "count_field" => pure (.count (← str j "field_id") (← nat j "width"))
  | "elementsize_field" => pure (.elementSize (← str j "field_id") (← nat j "width"))
  | "body_field" => pure .body
  | "payload_field" => pure (.payload (← optStr j "size_modifier"))
  | "fixed_field" =>
    if has j "enum_id" then pure (.fixedEnum (← str j "enum_id") (← str j "tag_id"))
    else pure (.fixedScalar (← nat j "width") (← nat j "value"))
  | "reserved_field" => pure (.reserved (← nat j "width"))
  | "array_field" =>
    pure (.array (← str j "id") (← optNat j "width") (← optStr j "type_id")
            (← optStr j "size_modifier") (← optNat j "size"))
  | "scalar_field" => pure (.scalar (← str j "id") (← nat j "width"))
  | "flag_field" => pure (.flag (← str j "id") (← (← arr j "optional_field_ids").mapM pair))
  | "typedef_field" => pure (.typedef (← str j "id") (← str j "type_id"))
  | "group_field" =>
    pure (.group (← str j "group_id") (← (← arr j "constraints").mapM constraint))
  | k => throw s!"unknown field kind {k}"

def field (j : Json) : Except String Field := do
  pure { desc := ← fieldDesc j, cond := ← optConstraint j "cond", loc := ← range j }

def declDesc (j : Json) : Except String DeclDesc := do
  let kind ← str j "kind"
  match kind with
  | "checksum_declaration" =>
    pure (.checksum (← str j "id") (← str j "function") (← nat j "width"))
  | "custom_field_declaration" =>
    pure (.customField (← str j "id") (← optNat j "width") (← str j "function"))
  | "enum_declaration" =>
    pure (.enum (← str j "id") (← (← arr j "tags").mapM tag) (← nat j "width"))
  | "packet_declaration" =>
    pure (.packet (← str j "id") (← (← arr j "constraints").mapM constraint)
            (← (← arr j "fields").mapM field) (← optStr j "parent_id"))
  | "struct_declaration" =>
    pure (.struct (← str j "id") (← (← arr j "constraints").mapM constraint)
            (← (← arr j "fields").mapM field) (← optStr j "parent_id"))
  | "group_declaration" => pure (.group (← str j "id") (← (← arr j "fields").mapM field))
  | "test_declaration" => pure (.test (← str j "type_id"))
  | k => throw s!"unknown decl kind {k}"

def decl (j : Json) : Except String Decl := do
  pure { desc := ← declDesc j, loc := ← range j }

def file (j : Json) : Except String File := do
  let e ← j.getObjVal? "endianness"
  let v ← str e "value"
  let endian ← match v with
    | "little_endian" => pure Endian.little
    | "big_endian" => pure Endian.big
    | s => throw s!"bad endianness {s}"
  pure { endian, decls := ← (← arr j "declarations").mapM decl }

end J

def parseFile (s : String) : Except String File := do
  J.file (← Json.parse s)

end Pdlv
