/-
  Pdlv.Syntax — the PDL grammar of pdl-compiler/src/parser.rs (the inline pest grammar),
  transcribed as `Peg` data, and the tree-to-AST conversion of `parse_toplevel`, with
  `SourceLocation::new` and the integer conversion `as_usize` modelled as written.
-/
import Pdlv.Peg
import Pdlv.Ast

namespace Pdlv
namespace Syntax
open Peg

/-! ### `SourceLocation::new` -/

/-- the loop of `SourceLocation::new(offset, line_starts)` -/
def srcLocNew (offset : Nat) (lineStarts : List Nat) : SrcLoc :=
  let rec go (line : Nat) (acc : SrcLoc) : List Nat → SrcLoc
    | [] => acc
    | s :: rest =>
      if s > offset then acc
      else go (line + 1) { offset := offset, line := line, column := offset - s } rest
  go 0 { offset := offset, line := 0, column := offset } lineStarts

/-- `codespan_reporting::files::line_starts`: 0 and the offset after every '\n' -/
def lineStarts (input : Array UInt8) : List Nat :=
  0 :: ((List.range input.size).filterMap fun i => if input[i]! == 10 then some (i + 1) else none)

/-! ### integer literals: `as_usize` -/

def digitVal (c : Char) : Option Nat :=
  if '0' ≤ c ∧ c ≤ '9' then some (c.toNat - 48)
  else if 'a' ≤ c ∧ c ≤ 'f' then some (c.toNat - 87)
  else if 'A' ≤ c ∧ c ≤ 'F' then some (c.toNat - 55)
  else none

/-- `usize::from_str_radix(s, radix)`: digits of the radix only, no overflow of 64 bits -/
def fromStrRadix (radix : Nat) (s : List Char) : Option Nat :=
  if s.isEmpty then none else
  s.foldl (fun acc c => match acc, digitVal c with
    | some n, some d => if d < radix ∧ n * radix + d < 2 ^ 64 then some (n * radix + d) else none
    | _, _ => none) (some 0)

/-- `Helpers::as_usize`: a `0x` or `0X` prefix selects radix 16 (the upper-case prefix since the
    `fix:` commit "convert hexadecimal literals written with an upper-case 0X prefix") -/
def asUsize (text : String) : Option Nat :=
  match text.toList with
  | '0' :: 'x' :: rest => fromStrRadix 16 rest
  | '0' :: 'X' :: rest => fromStrRadix 16 rest
  | cs => fromStrRadix 10 cs

/-! ### the grammar -/

def s (x : String) : Expr := .str x
def r (x : String) : Expr := .rule x
def seqs : List Expr → Expr
  | [] => .str ""
  | [e] => e
  | e :: es => .seq e (seqs es)
def alts : List Expr → Expr
  | [] => .notP (.str "")
  | [e] => e
  | e :: es => .choice e (alts es)

/-- keyword rules: `KW = @{ "kw" ~ &(WHITESPACE | COMMENT) }` (a lookahead since the `fix:` commit
    "allow a comment directly after a declaration keyword"; before: `~ WHITESPACE`) -/
def kw (name word : String) : Rule :=
  ⟨name, .atomic, .seq (s word) (.andP (.choice (r "WHITESPACE") (r "COMMENT")))⟩

def grammar : Grammar := [
  ⟨"WHITESPACE", .silent, alts [s " ", s "\n", s "\r", s "\t"]⟩,
  ⟨"COMMENT", .normal, alts [r "block_comment", r "line_comment"]⟩,
  ⟨"block_comment", .normal, seqs [s "/*", .star (.seq (.notP (s "*/")) .any), s "*/"]⟩,
  ⟨"line_comment", .normal, seqs [s "//", .star (.seq (.notP (s "\n")) .any)]⟩,
  ⟨"alpha", .normal, alts [.range 'a' 'z', .range 'A' 'Z']⟩,
  ⟨"digit", .normal, .range '0' '9'⟩,
  ⟨"hexdigit", .normal, alts [r "digit", .range 'a' 'f', .range 'A' 'F']⟩,
  ⟨"alphanum", .normal, alts [r "alpha", r "digit", s "_"]⟩,
  ⟨"identifier", .atomic, .seq (r "alpha") (.star (r "alphanum"))⟩,
  ⟨"payload_identifier", .atomic, s "_payload_"⟩,
  ⟨"body_identifier", .atomic, s "_body_"⟩,
  ⟨"intvalue", .atomic, .plus (r "digit")⟩,
  ⟨"hexvalue", .atomic, .seq (alts [s "0x", s "0X"]) (.plus (r "hexdigit"))⟩,
  ⟨"integer", .atomic, alts [r "hexvalue", r "intvalue"]⟩,
  ⟨"string", .atomic, seqs [s "\"", .star (.seq (.notP (s "\"")) .any), s "\""]⟩,
  ⟨"size_modifier", .atomic, .seq (s "+") (r "intvalue")⟩,
  kw "ENUM" "enum", kw "PACKET" "packet", kw "STRUCT" "struct", kw "GROUP" "group",
  kw "CHECKSUM" "checksum", kw "CUSTOM_FIELD" "custom_field", kw "TEST" "test",
  ⟨"endianness_declaration", .compound,
    .seq (alts [s "little_endian_packets", s "big_endian_packets"]) (r "WHITESPACE")⟩,
  ⟨"enum_value", .normal, seqs [r "identifier", s "=", r "integer"]⟩,
  ⟨"enum_value_list", .normal, seqs [r "enum_value", .star (.seq (s ",") (r "enum_value")), .opt (s ",")]⟩,
  ⟨"enum_range", .normal, seqs [r "identifier", s "=", r "integer", s "..", r "integer",
      .opt (seqs [s "{", r "enum_value_list", s "}"])]⟩,
  ⟨"enum_other", .normal, seqs [r "identifier", s "=", s ".."]⟩,
  ⟨"enum_tag", .normal, alts [r "enum_range", r "enum_value", r "enum_other"]⟩,
  ⟨"enum_tag_list", .normal, seqs [r "enum_tag", .star (.seq (s ",") (r "enum_tag")), .opt (s ",")]⟩,
  ⟨"enum_declaration", .normal, seqs [r "ENUM", r "identifier", s ":", r "integer", s "{", r "enum_tag_list", s "}"]⟩,
  ⟨"constraint", .normal, seqs [r "identifier", s "=", alts [r "identifier", r "integer"]]⟩,
  -- (trailing comma since the `fix:` commit "accept a trailing comma in constraint lists")
  ⟨"constraint_list", .normal, seqs [r "constraint", .star (.seq (s ",") (r "constraint")), .opt (s ",")]⟩,
  ⟨"checksum_field", .normal, seqs [s "_checksum_start_", s "(", r "identifier", s ")"]⟩,
  ⟨"padding_field", .normal, seqs [s "_padding_", s "[", r "integer", s "]"]⟩,
  ⟨"size_field", .normal, seqs [s "_size_", s "(", alts [r "identifier", r "payload_identifier", r "body_identifier"],
      s ")", s ":", r "integer"]⟩,
  ⟨"count_field", .normal, seqs [s "_count_", s "(", r "identifier", s ")", s ":", r "integer"]⟩,
  ⟨"elementsize_field", .normal, seqs [s "_elementsize_", s "(", r "identifier", s ")", s ":", r "integer"]⟩,
  ⟨"body_field", .atomic, s "_body_"⟩,
  ⟨"payload_field", .normal, seqs [s "_payload_", .opt (seqs [s ":", s "[", r "size_modifier", s "]"])]⟩,
  ⟨"fixed_field", .normal, seqs [s "_fixed_", s "=",
      alts [seqs [r "integer", s ":", r "integer"], seqs [r "identifier", s ":", r "identifier"]]]⟩,
  ⟨"reserved_field", .normal, seqs [s "_reserved_", s ":", r "integer"]⟩,
  ⟨"array_field", .normal, seqs [r "identifier", s ":", alts [r "integer", r "identifier"],
      s "[", .opt (alts [r "size_modifier", r "integer"]), s "]"]⟩,
  ⟨"scalar_field", .normal, seqs [r "identifier", s ":", r "integer"]⟩,
  ⟨"typedef_field", .normal, seqs [r "identifier", s ":", r "identifier"]⟩,
  ⟨"group_field", .normal, seqs [r "identifier", .opt (seqs [s "{", .opt (r "constraint_list"), s "}"])]⟩,
  ⟨"field_desc", .silent, alts [r "checksum_field", r "padding_field", r "size_field", r "count_field",
      r "elementsize_field", r "body_field", r "payload_field", r "fixed_field", r "reserved_field",
      r "array_field", r "scalar_field", r "typedef_field", r "group_field"]⟩,
  ⟨"field", .normal, seqs [r "field_desc", .opt (.seq (s "if") (r "constraint"))]⟩,
  ⟨"field_list", .normal, seqs [r "field", .star (.seq (s ",") (r "field")), .opt (s ",")]⟩,
  ⟨"packet_declaration", .normal, seqs [r "PACKET", r "identifier", .opt (.seq (s ":") (r "identifier")),
      .opt (seqs [s "(", r "constraint_list", s ")"]), s "{", .opt (r "field_list"), s "}"]⟩,
  ⟨"struct_declaration", .normal, seqs [r "STRUCT", r "identifier", .opt (.seq (s ":") (r "identifier")),
      .opt (seqs [s "(", r "constraint_list", s ")"]), s "{", .opt (r "field_list"), s "}"]⟩,
  ⟨"group_declaration", .normal, seqs [r "GROUP", r "identifier", s "{", r "field_list", s "}"]⟩,
  ⟨"checksum_declaration", .normal, seqs [r "CHECKSUM", r "identifier", s ":", r "integer", r "string"]⟩,
  ⟨"custom_field_declaration", .normal, seqs [r "CUSTOM_FIELD", r "identifier", .opt (.seq (s ":") (r "integer")), r "string"]⟩,
  ⟨"test_case", .normal, r "string"⟩,
  ⟨"test_case_list", .silent, seqs [r "test_case", .star (.seq (s ",") (r "test_case")), .opt (s ",")]⟩,
  ⟨"test_declaration", .normal, seqs [r "TEST", r "identifier", s "{", r "test_case_list", s "}"]⟩,
  ⟨"declaration", .silent, alts [r "enum_declaration", r "packet_declaration", r "struct_declaration",
      r "group_declaration", r "checksum_declaration", r "custom_field_declaration", r "test_declaration"]⟩,
  ⟨"file", .normal, seqs [.soi, r "endianness_declaration", .star (r "declaration"), .eoi]⟩
]

/-! ### tree → AST (`parse_toplevel`) -/

structure Ctx where
  input : Array UInt8
  starts : List Nat

def Ctx.loc (c : Ctx) (p : Pair) : SrcRange :=
  { start := srcLocNew p.start c.starts, stop := srcLocNew p.stop c.starts }

def Ctx.text (c : Ctx) (p : Pair) : String :=
  String.fromUTF8! ((c.input.extract p.start p.stop).toList.toByteArray)

/-- `Helpers::children`: inner pairs without comments -/
def kids (p : Pair) : List Pair := p.children.filter (·.rule != "COMMENT")

abbrev P := Except String

def expect (ps : List Pair) (rule : String) : P (Pair × List Pair) :=
  match ps with
  | p :: rest => if p.rule == rule then pure (p, rest) else throw s!"expected rule {rule}, got {p.rule}"
  | [] => throw s!"expected rule {rule}, got nothing"

def maybe (ps : List Pair) (rule : String) : Option Pair × List Pair :=
  match ps with
  | p :: rest => if p.rule == rule then (some p, rest) else (none, ps)
  | [] => (none, ps)

def intOf (c : Ctx) (p : Pair) : P Nat :=
  match asUsize (c.text p) with
  | some n => pure n
  | none => throw s!"cannot convert '{c.text p}' to usize"

def identOrInt (c : Ctx) (ps : List Pair) : P ((Option String × Option Nat) × List Pair) :=
  match ps with
  | p :: rest =>
    if p.rule == "identifier" then pure ((some (c.text p), none), rest)
    else if p.rule == "integer" then do pure ((none, some (← intOf c p)), rest)
    else throw "expected identifier or integer"
  | [] => throw "expected identifier or integer, got nothing"

def parseConstraint (c : Ctx) (p : Pair) : P Constraint := do
  if p.rule != "constraint" then throw "expected constraint"
  let (idp, rest) ← expect (kids p) "identifier"
  let ((tag, val), _) ← identOrInt c rest
  pure { id := c.text idp, loc := c.loc p, value := val, tagId := tag }

def parseConstraintListOpt (c : Ctx) (ps : List Pair) : P (List Constraint × List Pair) :=
  match maybe ps "constraint_list" with
  | (some l, rest) => do pure (← (kids l).mapM (parseConstraint c), rest)
  | (none, rest) => pure ([], rest)

def parseEnumValue (c : Ctx) (p : Pair) : P TagV := do
  if p.rule != "enum_value" then throw "expected enum_value"
  let (idp, rest) ← expect (kids p) "identifier"
  let (ip, _) ← expect rest "integer"
  pure { id := c.text idp, value := ← intOf c ip, loc := c.loc p }

def parseEnumTag (c : Ctx) (p : Pair) : P Tag := do
  if p.rule != "enum_tag" then throw "expected enum_tag"
  match kids p with
  | t :: _ =>
    if t.rule == "enum_value" then pure (.value (← parseEnumValue c t))
    else if t.rule == "enum_range" then do
      let (idp, rest) ← expect (kids t) "identifier"
      let (a, rest) ← expect rest "integer"
      let (b, rest) ← expect rest "integer"
      let subs ← match maybe rest "enum_value_list" with
        | (some l, _) => (kids l).mapM (parseEnumValue c)
        | (none, _) => pure []
      pure (.range (c.text idp) (← intOf c a) (← intOf c b) subs (c.loc t))
    else if t.rule == "enum_other" then do
      let (idp, _) ← expect (kids t) "identifier"
      pure (.other (c.text idp) (c.loc t))
    else throw "expected enum_value or enum_range"
  | [] => throw "expected enum_value or enum_range, got nothing"

def parseField (c : Ctx) (p : Pair) : P Field := do
  match kids p with
  | [] => throw "empty field"
  | desc :: more =>
    let cond ← match more with
      | cp :: _ => do pure (some (← parseConstraint c cp))
      | [] => pure none
    let ch := kids desc
    let d ← (match desc.rule with
      | "checksum_field" => do
        let (i, _) ← expect ch "identifier"; pure (FieldDesc.checksum (c.text i))
      | "padding_field" => do
        let (i, _) ← expect ch "integer"; pure (FieldDesc.padding (← intOf c i))
      | "size_field" =>
        (match ch with
         | t :: rest =>
           if t.rule == "identifier" || t.rule == "payload_identifier" || t.rule == "body_identifier" then do
             let (w, _) ← expect rest "integer"; pure (FieldDesc.size (c.text t) (← intOf c w))
           else throw "expected identifier"
         | [] => throw "expected identifier, got nothing")
      | "count_field" => do
        let (i, rest) ← expect ch "identifier"
        let (w, _) ← expect rest "integer"; pure (FieldDesc.count (c.text i) (← intOf c w))
      | "elementsize_field" => do
        let (i, rest) ← expect ch "identifier"
        let (w, _) ← expect rest "integer"; pure (FieldDesc.elementSize (c.text i) (← intOf c w))
      | "body_field" => pure FieldDesc.body
      | "payload_field" =>
        pure (FieldDesc.payload ((maybe ch "size_modifier").1.map (c.text ·)))
      | "fixed_field" =>
        (match ch with
         | t :: rest =>
           if t.rule == "integer" then do
             let v ← intOf c t
             let (w, _) ← expect rest "integer"; pure (FieldDesc.fixedScalar (← intOf c w) v)
           else if t.rule == "identifier" then do
             let (e, _) ← expect rest "identifier"; pure (FieldDesc.fixedEnum (c.text e) (c.text t))
           else throw "unreachable"
         | [] => throw "unreachable")
      | "reserved_field" => do
        let (w, _) ← expect ch "integer"; pure (FieldDesc.reserved (← intOf c w))
      | "array_field" => do
        let (i, rest) ← expect ch "identifier"
        let ((ty, w), rest) ← identOrInt c rest
        let (size, modifier) ← (match rest with
          | n :: _ =>
            if n.rule == "integer" then do pure (some (← intOf c n), none)
            else if n.rule == "size_modifier" then pure (none, some (c.text n))
            else throw "expected integer or size_modifier"
          | [] => pure (none, none) : P (Option Nat × Option String))
        pure (FieldDesc.array (c.text i) w ty modifier size)
      | "scalar_field" => do
        let (i, rest) ← expect ch "identifier"
        let (w, _) ← expect rest "integer"; pure (FieldDesc.scalar (c.text i) (← intOf c w))
      | "typedef_field" => do
        let (i, rest) ← expect ch "identifier"
        let (t, _) ← expect rest "identifier"; pure (FieldDesc.typedef (c.text i) (c.text t))
      | "group_field" => do
        let (i, rest) ← expect ch "identifier"
        let (cs, _) ← parseConstraintListOpt c rest
        pure (FieldDesc.group (c.text i) cs)
      | other => throw s!"expected rule *_field, got {other}" : P FieldDesc)
    pure { desc := d, cond := cond, loc := c.loc p }

def parseFieldListOpt (c : Ctx) (ps : List Pair) : P (List Field × List Pair) :=
  match maybe ps "field_list" with
  | (some l, rest) => do pure (← (kids l).mapM (parseField c), rest)
  | (none, rest) => pure ([], rest)

def parseString (c : Ctx) (ps : List Pair) : P (String × List Pair) := do
  let (sp, rest) ← expect ps "string"
  let t := c.text sp
  pure (String.ofList ((t.toList.drop 1).dropLast), rest)

structure Comment where
  loc : SrcRange
  text : String

structure Parsed where
  file : File
  endianLoc : SrcRange
  comments : List Comment

partial def collectComments (c : Ctx) (p : Pair) : List Comment :=
  (if p.rule == "COMMENT" then [{ loc := c.loc p, text := c.text p }] else [])
    ++ p.children.flatMap (collectComments c)

def parseTop (c : Ctx) (root : Pair) : P Parsed := do
  let mut decls : List Decl := []
  let mut endian : Endian := .little
  let mut eloc : SrcRange := {}
  for node in kids root do
    let loc := c.loc node
    match node.rule with
    | "endianness_declaration" =>
      eloc := loc
      let t := (c.text node).trimAscii.toString
      endian := if t == "little_endian_packets" then .little else .big
    | "checksum_declaration" =>
      let (_, rest) ← expect (kids node) "CHECKSUM"
      let (i, rest) ← expect rest "identifier"
      let (w, rest) ← expect rest "integer"
      let (fn, _) ← parseString c rest
      decls := decls ++ [{ desc := .checksum (c.text i) fn (← intOf c w), loc := loc }]
    | "custom_field_declaration" =>
      let (_, rest) ← expect (kids node) "CUSTOM_FIELD"
      let (i, rest) ← expect rest "identifier"
      let (w, rest) := maybe rest "integer"
      let w ← match w with
        | some w => do pure (some (← intOf c w))
        | none => pure none
      let (fn, _) ← parseString c rest
      decls := decls ++ [{ desc := .customField (c.text i) w fn, loc := loc }]
    | "enum_declaration" =>
      let (_, rest) ← expect (kids node) "ENUM"
      let (i, rest) ← expect rest "identifier"
      let (w, rest) ← expect rest "integer"
      let width ← intOf c w
      let (l, _) ← expect rest "enum_tag_list"
      let tags ← (kids l).mapM (parseEnumTag c)
      decls := decls ++ [{ desc := .enum (c.text i) tags width, loc := loc }]
    | "packet_declaration" | "struct_declaration" =>
      let (_, rest) ← expect (kids node) (if node.rule == "packet_declaration" then "PACKET" else "STRUCT")
      let (i, rest) ← expect rest "identifier"
      let (par, rest) := maybe rest "identifier"
      let (cs, rest) ← parseConstraintListOpt c rest
      let (fs, _) ← parseFieldListOpt c rest
      let parent := par.map (c.text ·)
      decls := decls ++ [{ desc := (if node.rule == "packet_declaration" then .packet (c.text i) cs fs parent
                                     else .struct (c.text i) cs fs parent), loc := loc }]
    | "group_declaration" =>
      let (_, rest) ← expect (kids node) "GROUP"
      let (i, rest) ← expect rest "identifier"
      let (l, _) ← expect rest "field_list"
      let fs ← (kids l).mapM (parseField c)
      decls := decls ++ [{ desc := .group (c.text i) fs, loc := loc }]
    | "test_declaration" => pure ()
    | "EOI" => pure ()
    | other => throw s!"unreachable rule {other}"
  pure { file := { endian := endian, decls := decls }, endianLoc := eloc, comments := collectComments c root }

inductive ParseResult
  | ok (p : Parsed)
  | syntaxError          -- pest reports a parsing error
  | convError (msg : String)   -- `parse_toplevel` returns Err (e.g. integer conversion)

def parseWith (g : Grammar) (input : Array UInt8) : ParseResult :=
  match Peg.parse g "file" input with
  | some [root] =>
    match parseTop { input := input, starts := lineStarts input } root with
    | .ok p => .ok p
    | .error m => .convError m
  | _ => .syntaxError

/-- the parser over the transcribed grammar -/
def parse (input : Array UInt8) : ParseResult := parseWith grammar input

end Syntax
end Pdlv
