/-
  Pdlv.Enum — enum semantics.

  * `Enum.spec`      : what the property (C15) prescribes, written from the statement.
  * `rustFromArms`   : model of the `match value { .. }` emitted by
                       `generate_enum_decl` (pdl-compiler/src/backends/rust/mod.rs) for
                       `impl TryFrom<uN> for E`, with first-match evaluation `evalArms`.
  * `rustInto`       : model of `impl From<&E> for uN`.
  * `pyFromInt`      : model of Python's `E.from_int` (python.rs `generate_enum_declaration`).
  * `cxxIsValid`     : model of C++ `IsValidE` (cxx.rs `generate_enum_is_valid`).
-/
import Pdlv.Ast

namespace Pdlv
namespace Enum

structure Decl where
  width : Nat
  tags : List Tag
deriving Repr, Inhabited

/-- Result of converting an integer: the value space of the generated Rust enum. -/
inductive Res
  | named (id : String)
  | inRange (id : String) (x : Nat)
  | dflt (id : String) (x : Nat)
  | err
deriving DecidableEq, Repr, Inhabited

/-! ### Flattened views of the tag list -/

/-- all named tags, in declaration order, nested tags in place of their range -/
def namedTags : List Tag → List TagV
  | [] => []
  | .value t :: ts => t :: namedTags ts
  | .range _ _ _ sub _ :: ts => sub ++ namedTags ts
  | .other _ _ :: ts => namedTags ts

/-- top-level value tags only -/
def topTags : List Tag → List TagV
  | [] => []
  | .value t :: ts => t :: topTags ts
  | _ :: ts => topTags ts

def ranges : List Tag → List (String × Nat × Nat)
  | [] => []
  | .range id lo hi _ _ :: ts => (id, lo, hi) :: ranges ts
  | _ :: ts => ranges ts

def otherTag : List Tag → Option String
  | [] => none
  | .other id _ :: _ => some id
  | _ :: ts => otherTag ts

def inRng (r : String × Nat × Nat) (x : Nat) : Bool := r.2.1 ≤ x && x ≤ r.2.2

/-! ### Specification (property C15) -/

def spec (e : Decl) (x : Nat) : Res :=
  if 2 ^ e.width ≤ x then .err else
  match (namedTags e.tags).find? (·.value == x) with
  | some t => .named t.id
  | none =>
    match (ranges e.tags).find? (inRng · x) with
    | some r => .inRange r.1 x
    | none =>
      match otherTag e.tags with
      | some o => .dflt o x
      | none => .err

/-- converting back -/
def Res.toNat? (e : Decl) : Res → Option Nat
  | .named id => ((namedTags e.tags).find? (·.id == id)).map (·.value)
  | .inRange _ x => some x
  | .dflt _ x => some x
  | .err => none

/-! ### Rust: `generate_enum_decl` -/

/-- `types::Integer::new(width).width`; `none` is the `panic!` for width > 64. -/
def backing? (w : Nat) : Option Nat :=
  if w ≤ 8 then some 8 else if w ≤ 16 then some 16 else if w ≤ 32 then some 32
  else if w ≤ 64 then some 64 else none

def backing (w : Nat) : Nat := (backing? w).getD 64

/-- `scalar_max(width)` on a 64-bit host. -/
def scalarMax (w : Nat) : Nat := if 64 ≤ w then 2 ^ 64 - 1 else 2 ^ w - 1

/-- the `(lo, hi)` list `enum_is_complete` sorts: value tags and ranges, *not* nested tags -/
def intervals : List Tag → List (Nat × Nat)
  | [] => []
  | .value t :: ts => (t.value, t.value) :: intervals ts
  | .range _ lo hi _ _ :: ts => (lo, hi) :: intervals ts
  | .other _ _ :: ts => intervals ts

def pairLe (a b : Nat × Nat) : Bool := a.1 < b.1 || (a.1 == b.1 && a.2 ≤ b.2)

/-- insertion into a sorted list (structural, so the kernel can evaluate it) -/
def insertPair (a : Nat × Nat) : List (Nat × Nat) → List (Nat × Nat)
  | [] => [a]
  | b :: l => if pairLe a b then a :: b :: l else b :: insertPair a l

/-- `ranges.sort_unstable()`: the sorted permutation under the (total) lexicographic order
    is unique, so any sorting algorithm models it. -/
def sortPairs : List (Nat × Nat) → List (Nat × Nat)
  | [] => []
  | a :: l => insertPair a (sortPairs l)

/-- `windows(2).all(|[l, r]| l.1 == r.0 - 1)`; `r.0 - 1` is a usize subtraction: it panics
    (debug) for `r.0 = 0`, which the model reports as `none`. -/
def chainOk : List (Nat × Nat) → Option Bool
  | [] => some true
  | [_] => some true
  | a :: b :: rest =>
    if b.1 = 0 then none
    else if a.2 == b.1 - 1 then chainOk (b :: rest)
    else some false

/-- `enum_is_complete(tags, max)`; `none` = the generator panics
    (`unwrap` on an empty list, or the subtraction above). -/
def isComplete? (tags : List Tag) (max : Nat) : Option Bool :=
  let s := sortPairs (intervals tags)
  match s.head?, s.getLast? with
  | some f, some l =>
    -- Rust evaluates `&&` left to right and short-circuits
    if f.1 == 0 && l.2 == max then chainOk s else some false
  | _, _ => none

inductive Pat | lit (v : Nat) | rng (lo hi : Nat) | wild
deriving DecidableEq, Repr, Inhabited

inductive Rhs | named (id : String) | inRange (id : String) | dflt (id : String) | err
deriving DecidableEq, Repr, Inhabited

def Pat.matches : Pat → Nat → Bool
  | .lit v, x => v == x
  | .rng lo hi, x => lo ≤ x && x ≤ hi
  | .wild, _ => true

def Rhs.eval : Rhs → Nat → Res
  | .named id, _ => .named id
  | .inRange id, x => .inRange id x
  | .dflt id, x => .dflt id x
  | .err, _ => .err

abbrev Arms := List (Pat × Rhs)

/-- first-match evaluation of a Rust `match`; `none` = no arm matches (rustc would reject
    the program as non-exhaustive) -/
def evalArms : Arms → Nat → Option Res
  | [], _ => none
  | (p, r) :: as, x => if p.matches x then some (r.eval x) else evalArms as x

def litArms (ts : List TagV) : Arms := ts.map (fun t => (Pat.lit t.value, Rhs.named t.id))

/-- arms for the declared tags, in declaration order (nested tags before their range) -/
def tagArms : List Tag → Arms
  | [] => []
  | .value t :: ts => (.lit t.value, .named t.id) :: tagArms ts
  | .range id lo hi sub _ :: ts => litArms sub ++ (.rng lo hi, .inRange id) :: tagArms ts
  | .other _ _ :: ts => tagArms ts

/-- the default arm, pushed `if !is_complete && is_open` -/
def defaultArms (complete : Bool) (other : Option String) (w : Nat) : Arms :=
  match complete, other with
  | false, some o => [(.rng 0 (scalarMax w), .dflt o)]
  | _, _ => []

/-- the error arm, pushed `if backing_type.width != width || (!is_complete && !is_open)` -/
def wildArms (complete : Bool) (other : Option String) (back w : Nat) : Arms :=
  if back != w || (!complete && other.isNone) then [(.wild, .err)] else []

/-- the `from_cases` of `generate_enum_decl`, given what the generator computed -/
def fromArmsWith (e : Decl) (complete : Bool) (back : Nat) : Arms :=
  tagArms e.tags ++ (defaultArms complete (otherTag e.tags) e.width
    ++ wildArms complete (otherTag e.tags) back e.width)

/-- `none` = `generate_enum_decl` panics on this declaration -/
def rustFromArms? (e : Decl) : Option Arms :=
  match backing? e.width, isComplete? e.tags (scalarMax e.width) with
  | some b, some c => some (fromArmsWith e c b)
  | _, _ => none

/-- `impl From<&E> for uN` : the `into_cases` match, on a value of the generated enum -/
def rustInto (e : Decl) : Res → Option Nat
  | .named id => ((namedTags e.tags).find? (·.id == id)).map (·.value)
  | .inRange _ x => some x
  | .dflt _ x => some x
  | .err => none

/-! ### Python: `from_int` -/

inductive PyRes
  | member (id : String)   -- an `enum.IntEnum` member
  | int (x : Nat)          -- the plain integer
  | raise                  -- `EnumValueError`
deriving DecidableEq, Repr, Inhabited

/-- Only *top-level* value tags become members of the IntEnum. -/
def pyFromInt (e : Decl) (x : Nat) : PyRes :=
  match (topTags e.tags).find? (·.value == x) with
  | some t => .member t.id
  | none =>
    if (otherTag e.tags).isSome then .int x
    else if (ranges e.tags).any (inRng · x) then .int x
    else .raise

/-! ### C++: `IsValid<E>` (only emitted for closed enums) -/

def cxxIsValid (e : Decl) (x : Nat) : Bool :=
  (topTags e.tags).any (·.value == x) || (ranges e.tags).any (inRng · x)

end Enum
end Pdlv
