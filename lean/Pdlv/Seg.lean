/-
  Pdlv.Seg — the encoder again, but producing *segments*: the pieces of the encoding that
  are written as one integer in the file's byte order (`swap = true`: bit-field groups, scalar /
  enum array elements, optional scalars / enums, sized custom fields) and the pieces that are
  plain octets (`swap = false`: payloads, padding).  Concatenating the segments gives the
  encoding (`Pdlv.Thm.C17.flatten_seg`); under the other endianness exactly the `swap`
  segments are byte-reversed (`seg_dual`).
-/
import Pdlv.Wire

namespace Pdlv

structure Seg where
  bytes : Bytes
  swap : Bool
deriving Repr, Inhabited

def Seg.flip (s : Seg) : Seg := if s.swap then { s with bytes := s.bytes.reverse } else s

def flatten (ss : List Seg) : Bytes := ss.flatMap (·.bytes)

def segListWith (f : Value → Enc (List Seg)) : List Value → Enc (List Seg)
  | [] => .ok []
  | v :: vs => (f v).bind fun a => (segListWith f vs).bind fun b => .ok (a ++ b)

/-- padding as a plain segment -/
def segPad (pad : Option Nat) (ss : List Seg) : Enc (List Seg) :=
  match pad with
  | none => .ok ss
  | some p =>
    let n := (flatten ss).length
    if n ≤ p then .ok (ss ++ [{ bytes := zeros (p - n), swap := false }]) else .panic .subOverflow

mutual
def segTy (c : Cfg) : Ty → Value → Enc (List Seg)
  | .scalar w, v => (encTy c (.scalar w) v).bind fun bs => .ok [{ bytes := bs, swap := true }]
  | .enumTy n en, v => (encTy c (.enumTy n en) v).bind fun bs => .ok [{ bytes := bs, swap := true }]
  | .custom n w, v => (encTy c (.custom n w) v).bind fun bs => .ok [{ bytes := bs, swap := true }]
  | .struct _ b, v => segBody c b v

def segItem (c : Cfg) (all : Items) (payload : Enc (List Seg)) (payloadLen : Nat) (v : Value) :
    Item → Enc (List Seg)
  | .chunk fs =>
    (encChunkFields (c.mode == .ideal) all payloadLen v fs 0 0).bind fun x =>
      .ok [{ bytes := putUint c.e (chunkBits fs) x, swap := true }]
  | .typedef id ty _ =>
    match v.get? id with
    | some x => segTy c ty x
    | none => .panic .badValue
  | .optional id ty _ _ =>
    match v.get? id with
    | some .null | none => .ok []
    | some x =>
      match ty with
      | .scalar w =>
        match x with
        | .int n =>
          if n ≥ 2 ^ backingOf w then .panic .badValue
          else if backingOf w > w ∧ n > maskBits w then .err .invalidScalarValue
          else .ok [{ bytes := putUint c.e w n, swap := true }]
        | _ => .panic .badValue
      | _ => segTy c ty x
  | .payload _ => payload
  | .array id elem ew shape pad =>
    (listField v id).bind fun vs =>
    (checkCount shape vs.length).bind fun _ =>
    (checkPad pad (arrSize ew (lenTy elem) vs)).bind fun _ =>
    (segListWith (segTy c elem) vs).bind fun ss => segPad pad ss

def segItems (c : Cfg) (all : Items) (payload : Enc (List Seg)) (payloadLen : Nat) (v : Value) :
    Items → Enc (List Seg)
  | .nil => .ok []
  | .cons i r =>
    (segItem c all payload payloadLen v i).bind fun a =>
    (segItems c all payload payloadLen v r).bind fun b => .ok (a ++ b)

def segBody (c : Cfg) : Body → Value → Enc (List Seg)
  | .root _ items, v =>
    match (if items.hasPayload then (v.get? "payload").bind valBytes else some []) with
    | none => .panic .badValue
    | some p => segItems c items (.ok [{ bytes := p, swap := false }]) p.length v items
  | .derived _ parent _ allCs items, v =>
    match (if items.hasPayload then (v.get? "payload").bind valBytes else some []) with
    | none => .panic .badValue
    | some p =>
      let v' := Value.obj (v.fields ++ allCs.map fun (k, cv) => (k, Value.int cv))
      segAround c parent v' (segItems c items (.ok [{ bytes := p, swap := false }]) p.length v' items)
        (lenItems items v')

def segAround (c : Cfg) : Body → Value → Enc (List Seg) → Nat → Enc (List Seg)
  | .root _ items, v, inner, len => segItems c items inner len v items
  | .derived _ parent _ _ items, v, inner, len =>
    segAround c parent v (segItems c items inner len v items) (lenItemsNoPayload items v + len)
end

end Pdlv
