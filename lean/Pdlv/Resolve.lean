/-
  Pdlv.Resolve — from an analyzed `File` to the layout IR of `Pdlv.Wire`, following the
  decisions the Rust generators take (`FieldParser::add`, `Encoder::encode_field`,
  `packet_data_fields`, `payload_field_offset_from_end`, …).  `none` = the generator does
  not support the construct (it would `todo!()`, `unreachable!()` or `assert!`).
-/
import Pdlv.Wire
import Pdlv.Schema

namespace Pdlv
namespace Resolve

def enumOf (f : File) (id : String) : Option Enum.Decl :=
  match f.lookup id with
  | some { desc := .enum _ tags w, .. } => some { width := w, tags := tags }
  | _ => none

def tagValue (e : Enum.Decl) (tag : String) : Option Nat :=
  ((Enum.namedTags e.tags).find? (·.id == tag)).map (·.value)

/-- fields of a declaration and of its ancestors, child first (`Scope::iter_fields`) -/
def allFields (f : File) : Nat → Decl → List Field
  | 0, d => d.fields
  | fuel + 1, d =>
    d.fields ++ (match d.parent?.bind f.lookup with
                 | some p => allFields f fuel p
                 | none => [])

def constraintValue (f : File) (fields : List Field) (c : Constraint) : Option Nat :=
  match c.value, c.tagId with
  | some v, _ => some v
  | none, some tag =>
    (fields.findSome? fun fl => match fl.desc with
      | .typedef id ty => if id == c.id then some ty else none
      | _ => none).bind fun ty => (enumOf f ty).bind fun e => tagValue e tag
  | none, none => none

def sizeModifier (m : Option String) : Option Nat :=
  match m with
  | none => some 0
  | some s =>      -- `size_modifier.parse::<usize>().expect(..)`: Rust accepts a leading '+'
    match s.toList with
    | '+' :: rest => (String.ofList rest).toNat?
    | _ => s.toNat?

def isBitfield (f : File) (fl : Field) : Bool :=
  match fl.desc with
  | .size .. | .count .. | .elementSize .. | .fixedScalar .. | .fixedEnum .. | .reserved _
  | .flag .. | .scalar .. => true
  | .typedef _ t => (enumOf f t).isSome
  | _ => false

def normTarget (t : String) : String := if t == "_body_" then "_payload_" else t

/-- modifier of the array / payload a size field designates -/
def targetModifier (fields : List Field) (t : String) : Option Nat :=
  match fields.find? (fun g => match g.desc with
      | .payload _ => t == "_payload_"
      | .body => t == "_body_"
      | .array id .. => id == t
      | _ => false) with
  | some g => (match g.desc with
      | .payload m => sizeModifier m
      | .array _ _ _ m _ => sizeModifier m
      | _ => some 0)
  | none => some 0

def bitField (f : File) (fields : List Field) (fl : Field) : Option BitField :=
  match fl.desc with
  | .scalar id w => some (.scalar id w)
  | .flag id opts => some (.flag id opts)
  | .typedef id t => (enumOf f t).map fun e => .enumTy id t e
  | .fixedScalar w v => some (.fixed w v)
  | .fixedEnum en tag => (enumOf f en).bind fun e => (tagValue e tag).map fun v => .fixed e.width v
  | .reserved w => some (.reserved w)
  | .size t w => (targetModifier fields t).map fun m => .size (normTarget t) w m
  | .count t w => some (.count t w)
  | .elementSize t w => some (.elemSize t w)
  | _ => none

def findArraySize (fields : List Field) (id : String) : Option Field :=
  fields.find? fun g => match g.desc with
    | .size t _ | .count t _ => t == id
    | _ => false

def shapeOf (fields : List Field) (id : String) (count : Option Nat) : Shape :=
  match count with
  | some n => .static n
  | none =>
    match findArraySize fields id with
    | some { desc := .count .., .. } => .countField
    | some { desc := .size .., .. } => .sizeField
    | _ => .unknown

/-- `payload_field_offset_from_end`, in bits -/
def offsetFromEnd (after : List Field) (sizes : List FieldSizes) : Option Nat :=
  match after, sizes with
  | [], _ => some 0
  | _ :: fs, s :: ss =>
    match (match s.padded with | some p => some p | none => s.fieldSize.static?), offsetFromEnd fs ss with
    | some a, some b => some (a + b)
    | _, _ => none
  | _ :: _, [] => none

mutual
/-- fuel bounds struct nesting / inheritance depth (declarations are acyclic after E2) -/
def tyOfDecl (f : File) (sc : List DeclSchema) : Nat → String → Option Ty
  | 0, _ => none
  | fuel + 1, t =>
    match f.lookup t with
    | some { desc := .enum _ tags w, .. } => some (.enumTy t { width := w, tags := tags })
    | some { desc := .customField _ (some w) _, .. } => some (.custom t w)
    | some { desc := .struct .., .. } => (body f sc fuel t).map (.struct t)
    | _ => none

def items (f : File) (sc : List DeclSchema) (fuel : Nat) (d : Decl) (all : List Field) :
    List Field → List FieldSizes → List BitField → Nat → Option (List Item)
  | [], _, chunk, bits => if chunk.isEmpty ∧ bits = 0 then some [] else none
  | fl :: rest, sz :: szs, chunk, bits =>
    let continue_ (it : Item) : Option (List Item) :=
      if chunk.isEmpty then (items f sc fuel d all rest szs [] 0).map (it :: ·) else none
    if let some c := fl.cond then
      match c.value with
      | none => none
      | some cv =>
        match fl.desc with
        | .scalar id w => continue_ (.optional id (.scalar w) c.id cv)
        | .typedef id t =>
          match fuel with
          | 0 => none
          | fuel' + 1 =>
            match tyOfDecl f sc fuel' t with
            | some (.custom ..) | none => none
            | some ty => continue_ (.optional id ty c.id cv)
        | _ => none
    else if isBitfield f fl then
      match bitField f all fl with
      | none => none
      | some b =>
        let bits' := bits + b.width
        if bits' % 8 = 0 then
          if bits' > 64 then none
          else (items f sc fuel d all rest szs [] 0).map (.chunk (chunk ++ [b]) :: ·)
        else items f sc fuel d all rest szs (chunk ++ [b]) bits'
    else
      match fl.desc with
      | .padding _ => if chunk.isEmpty then items f sc fuel d all rest szs [] 0 else none
      | .array id w t _ count =>
        let elem : Option Ty := match w, t with
          | some w, _ => some (.scalar w)
          | none, some t => (match fuel with | 0 => none | fuel' + 1 => tyOfDecl f sc fuel' t)
          | none, none => none
        match elem with
        | none => none
        | some elem =>
          let staticW : Option Nat := match w, t with
            | some w, _ => some w
            | none, some t => (Schema.total sc t).bind Size.static?
            | _, _ => none
          let ew : Option ElemWidth := match staticW with
            | some w => if w % 8 = 0 then some (.static (w / 8)) else none
            | none => some (if hasElementSize all id then .dynamic else .unknown)
          match ew with
          | none => none
          | some ew =>
            continue_ (.array id elem ew (shapeOf d.fields id count) (sz.padded.map (· / 8)))
      | .typedef id t =>
        match fuel with
        | 0 => none
        | fuel' + 1 =>
          match tyOfDecl f sc fuel' t with
          | none | some (.enumTy ..) => none
          | some ty =>
            continue_ (.typedef id ty (((Schema.total sc t).bind Size.static?).map (· / 8)))
      | .payload _ | .body =>
        let modifier := match fl.desc with
          | .payload m => sizeModifier m
          | _ => some 0
        match modifier with
        | none => none
        | some m =>
          if hasPayloadSize d.fields then continue_ (.payload (.sized m))
          else
            match offsetFromEnd rest szs with
            | none => continue_ (.payload .undelimited)
            | some 0 => continue_ (.payload .last)
            | some n => if n % 8 = 0 then continue_ (.payload (.beforeStatic (n / 8))) else none
      | _ => none
  | _ :: _, [], _, _ => none

def body (f : File) (sc : List DeclSchema) : Nat → String → Option Body
  | 0, _ => none
  | fuel + 1, name =>
    match f.lookup name with
    | none => none
    | some d =>
      match d.desc with
      | .packet .. | .struct .. =>
        match sc.find? (·.id == some name) with
        | none => none
        | some ds =>
          match items f sc fuel d (allFields f 16 d) d.fields ds.fields [] 0 with
          | none => none
          | some its =>
            match d.parent? with
            | none => some (.root name (Items.ofList its))
            | some p =>
              match body f sc fuel p, f.lookup p with
              | some pb, some pd =>
                let pfields := allFields f 16 pd
                let own := d.constraints.mapM fun c => (constraintValue f pfields c).map fun v => (c.id, v)
                match own with
                | none => none
                | some own =>
                  let parentAll := match pb with
                    | .derived _ _ _ a _ => a
                    | .root .. => []
                  some (.derived name pb own (parentAll ++ own) (Items.ofList its))
              | _, _ => none
      | _ => none
end

/-- Resolve a packet / struct by name. -/
def resolve (f : File) (name : String) : Option Body :=
  (Schema.build f).bind fun sc => body f sc (f.decls.length + 2) name

/-- Resolve a sized custom field or enum or struct as a stand-alone `Ty`. -/
def resolveTy (f : File) (name : String) : Option Ty :=
  (Schema.build f).bind fun sc => tyOfDecl f sc (f.decls.length + 3) name

end Resolve
end Pdlv
