import Lean.Data.Json
import Pdlv.Json
import Pdlv.Enum
import Pdlv.Resolve
import Pdlv.Ref
import Pdlv.Inherit
import Pdlv.Seg
import Pdlv.Static
import Pdlv.Py
import Pdlv.Cxx
import Pdlv.PySpec
import Pdlv.Java
import Pdlv.JavaSpec
import Pdlv.JavaStruct
import Pdlv.Interop
import Pdlv.Analyzer
import Pdlv.ToJson
import Pdlv.Syntax
import Pdlv.Backend

namespace Pdlv.Driver
open Lean (Json)

structure State where
  file : Option File := none
  /-- the grammar translated from parser.rs on this run (`grammar` request), used by `parse` when set -/
  grammar : Option Peg.Grammar := none

partial def pegExpr (j : Json) : Except String Peg.Expr := do
  let t ← J.str j "t"
  let list (k : String) : Except String (List Peg.Expr) := do
    let a ← J.arr j k
    a.mapM pegExpr
  let sub : Except String Peg.Expr := do pegExpr (← j.getObjVal? "e")
  let chr (k : String) : Except String Char := do
    match (← J.str j k).toList with
    | [c] => pure c
    | _ => throw "range bound is not one character"
  let rec nest (f : Peg.Expr → Peg.Expr → Peg.Expr) (e0 : Peg.Expr) : List Peg.Expr → Peg.Expr
    | [] => e0
    | [e] => e
    | e :: es => f e (nest f e0 es)
  match t with
  | "str" => pure (.str (← J.str j "v"))
  | "range" => pure (.range (← chr "lo") (← chr "hi"))
  | "any" => pure .any
  | "soi" => pure .soi
  | "eoi" => pure .eoi
  | "seq" => pure (nest .seq (.str "") (← list "a"))
  | "choice" => pure (nest .choice (.notP (.str "")) (← list "a"))
  | "opt" => pure (.opt (← sub))
  | "star" => pure (.star (← sub))
  | "plus" => pure (.plus (← sub))
  | "not" => pure (.notP (← sub))
  | "and" => pure (.andP (← sub))
  | "rule" => pure (.rule (← J.str j "n"))
  | other => throw s!"unknown grammar expression {other}"

def pegRule (j : Json) : Except String Peg.Rule := do
  let kind ← match (← J.str j "kind") with
    | "normal" => pure Peg.Kind.normal
    | "silent" => pure Peg.Kind.silent
    | "atomic" => pure Peg.Kind.atomic
    | "compound" => pure Peg.Kind.compound
    | k => throw s!"unknown rule kind {k}"
  pure { name := ← J.str j "name", kind := kind, body := ← pegExpr (← j.getObjVal? "body") }

def patJson : Enum.Pat → Json
  | .lit v => Json.mkObj [("lit", Json.num v)]
  | .rng lo hi => Json.mkObj [("lo", Json.num lo), ("hi", Json.num hi)]
  | .wild => Json.str "_"

def rhsJson : Enum.Rhs → Json
  | .named id => Json.mkObj [("named", Json.str id)]
  | .inRange id => Json.mkObj [("range", Json.str id)]
  | .dflt id => Json.mkObj [("default", Json.str id)]
  | .err => Json.str "err"

def resJson : Enum.Res → Json
  | .named id => Json.mkObj [("named", Json.str id)]
  | .inRange id x => Json.mkObj [("range", Json.str id), ("x", Json.num x)]
  | .dflt id x => Json.mkObj [("default", Json.str id), ("x", Json.num x)]
  | .err => Json.str "err"

def optJson {α} (f : α → Json) : Option α → Json
  | none => Json.null
  | some a => f a

def pyJson : Enum.PyRes → Json
  | .member id => Json.mkObj [("member", Json.str id)]
  | .int x => Json.mkObj [("int", Json.num x)]
  | .raise => Json.str "raise"

def enumsOf (f : File) : List (String × Enum.Decl) :=
  f.decls.filterMap fun d => match d.desc with
    | .enum id tags w => some (id, { width := w, tags := tags })
    | _ => none

def enumTable (f : File) : Json :=
  Json.arr ((enumsOf f).map fun (id, e) =>
    Json.mkObj [
      ("id", Json.str id), ("width", Json.num e.width),
      ("backing", optJson (fun (n : Nat) => Json.num n) (Enum.backing? e.width)),
      ("complete", optJson Json.bool (Enum.isComplete? e.tags (Enum.scalarMax e.width))),
      ("arms", optJson (fun (as : Enum.Arms) =>
          Json.arr (as.map fun (p, r) => Json.arr #[patJson p, rhsJson r]).toArray)
        (Enum.rustFromArms? e))]).toArray

def enumEval (f : File) (id : String) (xs : List Nat) : Except String Json := do
  match (enumsOf f).lookup id with
  | none => throw s!"no enum {id}"
  | some e =>
    let arms := Enum.rustFromArms? e
    pure <| Json.arr (xs.map fun x =>
      let s := Enum.spec e x
      Json.mkObj [
        ("x", Json.num x),
        ("spec", resJson s),
        ("rust", optJson (fun as => optJson resJson (Enum.evalArms as x)) arms),
        ("into", optJson (fun (n : Nat) => Json.num n) (Enum.rustInto e s)),
        ("py", pyJson (Enum.pyFromInt e x)),
        ("cxx", Json.bool (Enum.cxxIsValid e x))]).toArray

partial def valueOfJson : Json → Except String Value
  | .null => pure .null
  | .num n => if n.exponent = 0 ∧ n.mantissa ≥ 0 then pure (.int n.mantissa.toNat) else throw "non-natural number"
  | .arr a => do pure (.arr (← a.toList.mapM valueOfJson))
  | .obj o => do
    let kvs ← o.toList.mapM fun (k, v) => do pure (k, ← valueOfJson v)
    pure (.obj kvs)
  | .bool b => pure (.int (if b then 1 else 0))
  | .str _ => throw "string value"

partial def jsonOfValue : Value → Json
  | .null => .null
  | .int n => Json.num n
  | .arr vs => Json.arr (vs.map jsonOfValue).toArray
  | .obj fs => Json.mkObj (fs.map fun (k, v) => (k, jsonOfValue v))

def decErrName : DecErr → String
  | .unwrap => "UnwrapError" | .fixedValue => "FixedValueError" | .length => "LengthError"
  | .arraySize => "ArraySizeError" | .enumValue => "EnumValueError"
  | .constraintValue => "ConstraintValueError" | .trailingBytes => "TrailingBytesError"
  | .trailingBytesInArray => "TrailingBytesInArray"

def encErrName : EncErr → String
  | .sizeOverflow => "SizeOverflow" | .countOverflow => "CountOverflow"
  | .invalidScalarValue => "InvalidScalarValue" | .invalidArrayElementSize => "InvalidArrayElementSize"
  | .inconsistentConditionValue => "InconsistentConditionValue"

def hazardName : Hazard → String
  | .mulOverflow => "mulOverflow" | .readOOB => "readOOB" | .optionalRead => "optionalRead"
  | .customRead => "customRead" | .chunksZero => "chunksZero"
  | .remZero => "remZero" | .sliceOOB => "sliceOOB" | .nonTermination => "nonTermination"
  | .badValue => "badValue" | .badLayout => "badLayout" | .subOverflow => "subOverflow"

def decOut (r : Dec (Value × Bytes)) : Json :=
  match r with
  | .ok (v, rest) => Json.mkObj [("r", "ok"), ("value", jsonOfValue v), ("rest", Json.num rest.length)]
  | .err e => Json.mkObj [("r", "err"), ("e", Json.str (decErrName e))]
  | .panic h => Json.mkObj [("r", "panic"), ("h", Json.str (hazardName h))]

def encOut (r : Enc Bytes) : Json :=
  match r with
  | .ok bs => Json.mkObj [("r", "ok"), ("hex", Json.str bs.toHex)]
  | .err e => Json.mkObj [("r", "err"), ("e", Json.str (encErrName e))]
  | .panic h => Json.mkObj [("r", "panic"), ("h", Json.str (hazardName h))]

def getFile (st : State) : Except String File :=
  match st.file with
  | some f => pure f
  | none => throw "no file loaded"

def natList (j : Json) (k : String) : Except String (List Nat) := do
  (← J.arr j k).mapM (·.getNat?)

def handle (st : State) (req : Json) : Except String (State × Json) := do
  let op ← J.str req "op"
  match op with
  | "ping" => pure (st, Json.mkObj [("status", "ok")])
  | "load" =>
    let f ← J.file (← req.getObjVal? "file")
    pure ({ st with file := some f }, Json.mkObj [("status", "ok"), ("decls", Json.num f.decls.length)])
  | "enum_table" =>
    let f ← getFile st
    pure (st, Json.mkObj [("status", "ok"), ("enums", enumTable f)])
  | "enum_eval" =>
    let f ← getFile st
    let r ← enumEval f (← J.str req "id") (← natList req "xs")
    pure (st, Json.mkObj [("status", "ok"), ("results", r)])
  | "schema" =>
    let f ← getFile st
    let sizeJ : Size → Json := fun s => match s with
      | .static n => Json.mkObj [("static", Json.num n)]
      | .dynamic => Json.str "dynamic"
      | .unknown => Json.str "unknown"
    match Schema.build f with
    | none => pure (st, Json.mkObj [("status", "panic")])
    | some sc =>
      let declJ := (f.decls.zip sc).map fun (d, ds) =>
        let fieldsJ := (d.fields.zip ds.fields).map fun (fl, fs) =>
          Json.mkObj [("field_size", sizeJ fs.fieldSize),
            ("padded_size", match fs.padded with | some p => Json.num p | none => Json.null),
            ("element_size", match elementSize sc d fl with
              | some (.static n) => Json.mkObj [("static", Json.num n)]
              | some .dynamic => Json.str "dynamic"
              | some .unknown => Json.str "unknown"
              | none => Json.str "panic"),
            ("array_size", match arraySize d fl with
              | .staticCount n => Json.mkObj [("static_count", Json.num n)]
              | .dynamicCount => Json.str "dynamic_count"
              | .dynamicSize => Json.str "dynamic_size"
              | .unknown => Json.str "unknown"),
            ("is_bitfield", Json.bool (Resolve.isBitfield f fl))]
        Json.mkObj [("id", match ds.id with | some i => Json.str i | none => Json.null),
          ("decl_size", sizeJ ds.sizes.declSize), ("parent_size", sizeJ ds.sizes.parentSize),
          ("payload_size", sizeJ ds.sizes.payloadSize), ("total_size", sizeJ ds.sizes.total),
          ("fields", Json.arr fieldsJ.toArray)]
      pure (st, Json.mkObj [("status", "ok"), ("schema", Json.arr declJ.toArray)])
  | "inherit" =>
    let f ← getFile st
    let mode : Mode := match J.str req "mode" with
      | .ok "ideal" => .ideal
      | _ => .rust
    let cfg : Cfg := { e := f.endian, mode := mode }
    let cases ← J.arr req "cases"
    let optN : Option Nat → Json := fun o => match o with | some n => Json.num n | none => Json.null
    let outs ← cases.mapM fun c => do
      let k ← J.str c "k"
      let ty ← J.str c "type"
      match k with
      | "spec" =>
        let v ← valueOfJson (← c.getObjVal? "v")
        match Inherit.specialize cfg f ty v with
        | .ok none => pure (Json.mkObj [("r", "ok"), ("child", Json.null)])
        | .ok (some (cid, cv)) => pure (Json.mkObj [("r", "ok"), ("child", Json.str cid), ("value", jsonOfValue cv)])
        | .err e => pure (Json.mkObj [("r", "err"), ("e", Json.str (decErrName e))])
        | .panic h => pure (Json.mkObj [("r", "panic"), ("h", Json.str (hazardName h))])
      | "from" =>
        let v ← valueOfJson (← c.getObjVal? "v")
        match Inherit.fromParent cfg f ty v with
        | .ok cv => pure (Json.mkObj [("r", "ok"), ("value", jsonOfValue cv)])
        | .err e => pure (Json.mkObj [("r", "err"), ("e", Json.str (decErrName e))])
        | .panic h => pure (Json.mkObj [("r", "panic"), ("h", Json.str (hazardName h))])
      | "to" =>
        let v ← valueOfJson (← c.getObjVal? "v")
        match Inherit.toParent cfg f ty v with
        | .ok pv => pure (Json.mkObj [("r", "ok"), ("value", jsonOfValue pv)])
        | .err e => pure (Json.mkObj [("r", "err"), ("e", Json.str (encErrName e))])
        | .panic h => pure (Json.mkObj [("r", "panic"), ("h", Json.str (hazardName h))])
      | "pyspec" =>
        -- the model of `Root.parse_all(bytes)` of the Python back end with its try-each-child specialization
        match hexToBytes (← J.str c "hex").toList, PySpec.tree f ty with
        | some bs, some t =>
          match PySpec.parseAll cfg t bs with
          | .ok (cid, cv) => pure (Json.mkObj [("r", "ok"), ("type", Json.str cid), ("value", jsonOfValue cv), ("wf", Json.bool (PySpec.wfNode t))])
          | .err e => pure (Json.mkObj [("r", "err"), ("e", Json.str (decErrName e)), ("wf", Json.bool (PySpec.wfNode t))])
          | .panic h => pure (Json.mkObj [("r", "panic"), ("h", Json.str (hazardName h))])
        | _, _ => pure (Json.mkObj [("r", "none")])
      | "javaspec" =>
        -- the model of `Root.fromBytes(bytes)` of the Java back end with its first-fitting-child dispatch
        match hexToBytes (← J.str c "hex").toList, JavaSpec.tree f ty with
        | some bs, some t =>
          match JavaSpec.parseAll cfg t bs with
          | .ok (cid, cv) => pure (Json.mkObj [("r", "ok"), ("type", Json.str cid), ("value", jsonOfValue cv), ("wf", Json.bool (JavaSpec.wfNode t))])
          | .err e => pure (Json.mkObj [("r", "err"), ("e", Json.str (decErrName e)), ("wf", Json.bool (JavaSpec.wfNode t))])
          | .panic h => pure (Json.mkObj [("r", "panic"), ("h", Json.str (hazardName h)), ("wf", Json.bool (JavaSpec.wfNode t))])
        | _, _ => pure (Json.mkObj [("r", "none")])
      | "table" =>
        match f.lookup ty, Schema.build f with
        | some d, some sc =>
          match Inherit.table f sc d with
          | none => pure (Json.mkObj [("r", "ambiguous")])
          | some (ids, withSize, arms) =>
            pure (Json.mkObj [("r", "ok"), ("ids", Json.arr (ids.map Json.str).toArray), ("with_size", Json.bool withSize),
              ("arms", Json.arr (arms.map fun a => Json.mkObj [("child", Json.str a.child),
                ("pats", Json.arr (a.pats.map fun p => Json.mkObj [("t", Json.arr (p.1.map optN).toArray), ("len", optN p.2)]).toArray)]).toArray)])
        | _, _ => pure (Json.mkObj [("r", "none")])
      | _ => throw s!"unknown inherit case {k}"
    pure (st, Json.mkObj [("status", "ok"), ("out", Json.arr outs.toArray)])
  | "analyze" =>
    -- {"op":"analyze","file":<parsed ast json>}
    let f ← J.file (← req.getObjVal? "file")
    let rangeJ : SrcRange → Json := fun r =>
      Json.mkObj [("start", Json.num r.start.offset), ("end", Json.num r.stop.offset)]
    match Analyzer.analyze f with
    | .ok f' => pure (st, Json.mkObj [("status", "ok"), ("declarations", TJ.decls f')])
    | .diags ds =>
      pure (st, Json.mkObj [("status", "err"), ("diagnostics", Json.arr (ds.map fun d =>
        Json.mkObj [("code", Json.str s!"E{d.code}"), ("labels", Json.arr (d.labels.map rangeJ).toArray)]).toArray)])
    | .panic p => pure (st, Json.mkObj [("status", "panic"), ("site", Json.str (reprStr p))])
  | "backend_pre" =>
    -- {"op":"backend_pre","file":<analyzed ast json>} -> per back end, the broken preconditions
    let f ← J.file (← req.getObjVal? "file")
    let one (t : Backend.Target) : Json := Json.arr ((Backend.pre t f).map fun r => Json.str r.name).toArray
    pure (st, Json.mkObj [("status", "ok"), ("pre", Json.mkObj [("json", one .json), ("rust", one .rust),
      ("python", one .python), ("cxx", one .cxx), ("java", one .java)])])
  | "grammar" =>
    -- {"op":"grammar","rules":[..],"use":bool}: the grammar translated from parser.rs on this run, compared rule by
    -- rule with the transcribed `Syntax.grammar` the theorems and the tree-to-AST conversion were written against
    let rules ← (← J.arr req "rules").mapM pegRule
    let diff := Peg.grammarDiff rules Syntax.grammar
    let use := match req.getObjVal? "use" with | .ok (.bool b) => b | _ => false
    pure ({ st with grammar := if use then some rules else st.grammar },
      Json.mkObj [("status", "ok"), ("equal", Json.bool diff.isEmpty), ("rules", Json.num rules.length),
        ("transcribed_rules", Json.num Syntax.grammar.length), ("diff", Json.arr (diff.map Json.str).toArray)])
  | "parse" =>
    let text ← J.str req "text"
    match Syntax.parseWith (st.grammar.getD Syntax.grammar) text.toUTF8.data with
    | .ok p =>
      pure (st, Json.mkObj [("status", "ok"), ("declarations", TJ.decls p.file),
        ("endianness", Json.mkObj [("value", Json.str (match p.file.endian with | .little => "little_endian" | .big => "big_endian")),
                                   ("loc", TJ.range p.endianLoc)]),
        ("comments", Json.arr (p.comments.map fun c => Json.mkObj [("loc", TJ.range c.loc), ("text", Json.str c.text)]).toArray)])
    | .syntaxError => pure (st, Json.mkObj [("status", "parse_err"), ("kind", "syntax")])
    | .convError m => pure (st, Json.mkObj [("status", "parse_err"), ("kind", "conversion"), ("message", Json.str m)])
  | "srcloc" =>
    let off ← J.nat req "offset"
    let ls ← natList req "line_starts"
    let l := Syntax.srcLocNew off ls
    pure (st, Json.mkObj [("status", "ok"), ("offset", Json.num l.offset), ("line", Json.num l.line), ("column", Json.num l.column)])
  | "types" =>
    -- which declarations the Rust model supports
    let f ← getFile st
    let names := f.decls.filterMap fun d => match d.desc with
      | .packet id .. | .struct id .. => some id
      | _ => none
    let js := names.map fun n => Json.mkObj [("id", Json.str n), ("ok", Json.bool (Resolve.resolve f n).isSome)]
    pure (st, Json.mkObj [("status", "ok"), ("types", Json.arr js.toArray)])
  | "wire" =>
    -- {"op":"wire","type":T,"cases":[{"k":"dec","hex":..}|{"k":"decfull","hex":..}|{"k":"enc","v":..}|{"k":"len","v":..}]}
    let f ← getFile st
    let ty ← J.str req "type"
    match Resolve.resolve f ty with
    | none => pure (st, Json.mkObj [("status", "unsupported")])
    | some b =>
      let cases ← J.arr req "cases"
      let mode : Mode := match J.str req "mode" with
        | .ok "ideal" => .ideal
        | _ => .rust
      let cfg : Cfg := { e := f.endian, mode := mode }
      let outs ← cases.mapM fun c => do
        let k ← J.str c "k"
        match k with
        | "dec" =>
          match hexToBytes (← J.str c "hex").toList with
          | none => throw "bad hex"
          | some bs => pure (decOut (decBody cfg b bs))
        | "decfull" =>
          match hexToBytes (← J.str c "hex").toList with
          | none => throw "bad hex"
          | some bs => pure (decOut ((decodeFull cfg b bs).bind fun v => .ok (v, [])))
        | "pydecfull" =>
          -- the model of the parser the Python back end emits (`Pdlv.Py`), `parse_all`
          match hexToBytes (← J.str c "hex").toList with
          | none => throw "bad hex"
          | some bs => pure (decOut ((Py.decodeFull cfg b bs).bind fun v => .ok (v, [])))
        | "cxxdec" =>
          -- the model of `T::Parse(span, &out)` the C++ back end emits for structs (`Pdlv.Cxx`)
          match hexToBytes (← J.str c "hex").toList with
          | none => throw "bad hex"
          | some bs => pure (decOut (Cxx.decBody cfg b bs))
        | "cxxview" =>
          -- the model of `TView::Create(slice)`, `IsValid()` and the getters
          match hexToBytes (← J.str c "hex").toList with
          | none => throw "bad hex"
          | some bs => pure (decOut ((Cxx.viewDecode cfg b bs).bind fun v => .ok (v, [])))
        | "javaenc" =>
          -- the model of `toBytes()` the Java back end emits (bit-field groups only)
          let v ← valueOfJson (← c.getObjVal? "v")
          pure (encOut (Java.encBodyS cfg b v))
        | "javadec" =>
          match hexToBytes (← J.str c "hex").toList with
          | none => throw "bad hex"
          | some bs => pure (decOut ((Java.decodeFullS cfg b bs).bind fun v => .ok (v, [])))
        | "cxxenc" =>
          -- the model of the serializer the C++ back end emits
          let v ← valueOfJson (← c.getObjVal? "v")
          pure (encOut (Cxx.encBody cfg b v))
        | "pyenc" =>
          -- the model of the serializer the Python back end emits
          let v ← valueOfJson (← c.getObjVal? "v")
          pure (encOut (Py.encBody cfg b v))
        | "enc" =>
          let v ← valueOfJson (← c.getObjVal? "v")
          pure (encOut (encBody cfg b v))
        | "ref" =>
          let v ← valueOfJson (← c.getObjVal? "v")
          match Ref.encode f.endian b v with
          | some bs => pure (Json.mkObj [("r", "ok"), ("hex", Json.str bs.toHex)])
          | none => pure (Json.mkObj [("r", "none")])
        | "segs" =>
          let v ← valueOfJson (← c.getObjVal? "v")
          match segBody cfg b v with
          | .ok ss => pure (Json.mkObj [("r", "ok"), ("segs", Json.arr (ss.map fun s =>
              Json.arr #[Json.str s.bytes.toHex, Json.bool s.swap]).toArray)])
          | .err e => pure (Json.mkObj [("r", "err"), ("e", Json.str (encErrName e))])
          | .panic h => pure (Json.mkObj [("r", "panic"), ("h", Json.str (hazardName h))])
        | "len" =>
          let v ← valueOfJson (← c.getObjVal? "v")
          -- `len`: the model's `encoded_len`; `enclen`: the right-hand side of theorem `encBody_len`;
          -- `lenwf` / `decwf` / `refwf` / `nomod` / `rtwf`: the hypotheses of `encBody_len` /
          -- `decode_no_panic_ideal` / `encode_ideal_eq_ref` / `encode_rust_eq_ref` / `roundtrip_any` on this layout
          pure (Json.mkObj [("r", "ok"), ("len", Json.num (lenBody b v)), ("enclen", Json.num (encLen b v)),
            ("lenwf", Json.bool (lenWfBody b)), ("decwf", Json.bool (decWfBody b)),
            ("refwf", Json.bool (refWfBody b)), ("nomod", Json.bool (noModBody b)),
            ("rtwf", Json.bool (rtWfFull b)), ("exactwf", Json.bool (exactWfBody b)), ("typed", Json.bool (typedBody b v)), ("pywf", Json.bool (Py.wfBody b)), ("cxxwf", Json.bool (Cxx.wfBody b)), ("cxxvwf", Json.bool (Cxx.vwfBody b)), ("cxxvchain", Json.bool (Cxx.vwfChain b)), ("cxxserwf", Json.bool (Cxx.serWfBody b)), ("convwf", Json.bool (convWfBody b)), ("pyserwf", Json.bool (Py.serWfBody b)), ("pychildwf", Json.bool (Py.serWfChild b)), ("commonwf", Json.bool (match b with | .root nm items => Interop.commonWf nm items | _ => false)), ("javawf", Json.bool (Java.wfBody b)), ("javaencwf", Json.bool (match b with | .root _ items => Java.encWfItems items || Java.encWfItems3 items | _ => false)), ("javachildwf", Json.bool (Java.encWfChild b)), ("javadecwf", Json.bool (match b with | .root _ items => Java.decWfItems items || Java.decWfItems2 items || Java.decWfItems3 items | _ => false)), ("derived", Json.bool (match b with | .derived .. => true | _ => false))])
        | "canon" =>
          -- the right-hand side of theorem `roundtrip`: the normal form of the value
          let v ← valueOfJson (← c.getObjVal? "v")
          -- (`roundtrip_any`: packets and structs without parent and inheriting packets; `nocons`: its
          -- hypothesis on the value)
          pure (Json.mkObj [("r", "ok"), ("value", jsonOfValue (canonFull b v)),
            ("nocons", Json.bool (noConstrained b.allCs v))])
        | _ => throw s!"unknown case kind {k}"
      pure (st, Json.mkObj [("status", "ok"), ("out", Json.arr outs.toArray)])
  | _ => throw s!"unknown op {op}"

partial def loop (h : IO.FS.Stream) (out : IO.FS.Stream) (st : State) : IO Unit := do
  let line ← h.getLine
  if line.isEmpty then return ()
  if line.trimAscii.toString.isEmpty then
    loop h out st
  else
    let (st', resp) :=
      match Json.parse line with
      | .error e => (st, Json.mkObj [("status", "bad_json"), ("message", Json.str e)])
      | .ok req =>
        match handle st req with
        | .ok (st', r) => (st', r)
        | .error e => (st, Json.mkObj [("status", "error"), ("message", Json.str e)])
    out.putStrLn resp.compress
    out.flush
    loop h out st'

def main : IO Unit := do
  loop (← IO.getStdin) (← IO.getStdout) {}

end Pdlv.Driver
