import Lean.Data.Json
import Pdlv.Json
import Pdlv.Enum

namespace Pdlv.Driver
open Lean (Json)

structure State where
  file : Option File := none

def patJson : Enum.Pat → Json
  | .lit v => Json.mkObj [("lit", Json.num v)]
  | .rng lo hi => Json.mkObj [("lo", Json.num lo), ("hi", Json.num hi)]
  | .wild => Json.str "_"

def rhsJson : Enum.Rhs → Json
  | .named id => Json.mkObj [("named", Json.str id)]
  | .inRange id => Json.mkObj [("range", Json.str id)]
  | .dflt id => Json.mkObj [("default", Json.str id)]
  | .err => Json.str "err"

def resJson : Enum.Res → Json
  | .named id => Json.mkObj [("named", Json.str id)]
  | .inRange id x => Json.mkObj [("range", Json.str id), ("x", Json.num x)]
  | .dflt id x => Json.mkObj [("default", Json.str id), ("x", Json.num x)]
  | .err => Json.str "err"

def optJson {α} (f : α → Json) : Option α → Json
  | none => Json.null
  | some a => f a

def pyJson : Enum.PyRes → Json
  | .member id => Json.mkObj [("member", Json.str id)]
  | .int x => Json.mkObj [("int", Json.num x)]
  | .raise => Json.str "raise"

def enumsOf (f : File) : List (String × Enum.Decl) :=
  f.decls.filterMap fun d => match d.desc with
    | .enum id tags w => some (id, { width := w, tags := tags })
    | _ => none

def enumTable (f : File) : Json :=
  Json.arr ((enumsOf f).map fun (id, e) =>
    Json.mkObj [
      ("id", Json.str id), ("width", Json.num e.width),
      ("backing", optJson (fun (n : Nat) => Json.num n) (Enum.backing? e.width)),
      ("complete", optJson Json.bool (Enum.isComplete? e.tags (Enum.scalarMax e.width))),
      ("arms", optJson (fun (as : Enum.Arms) =>
          Json.arr (as.map fun (p, r) => Json.arr #[patJson p, rhsJson r]).toArray)
        (Enum.rustFromArms? e))]).toArray

def enumEval (f : File) (id : String) (xs : List Nat) : Except String Json := do
  match (enumsOf f).lookup id with
  | none => throw s!"no enum {id}"
  | some e =>
    let arms := Enum.rustFromArms? e
    pure <| Json.arr (xs.map fun x =>
      let s := Enum.spec e x
      Json.mkObj [
        ("x", Json.num x),
        ("spec", resJson s),
        ("rust", optJson (fun as => optJson resJson (Enum.evalArms as x)) arms),
        ("into", optJson (fun (n : Nat) => Json.num n) (Enum.rustInto e s)),
        ("py", pyJson (Enum.pyFromInt e x)),
        ("cxx", Json.bool (Enum.cxxIsValid e x))]).toArray

def getFile (st : State) : Except String File :=
  match st.file with
  | some f => pure f
  | none => throw "no file loaded"

def natList (j : Json) (k : String) : Except String (List Nat) := do
  (← J.arr j k).mapM (·.getNat?)

def handle (st : State) (req : Json) : Except String (State × Json) := do
  let op ← J.str req "op"
  match op with
  | "ping" => pure (st, Json.mkObj [("status", "ok")])
  | "load" =>
    let f ← J.file (← req.getObjVal? "file")
    pure ({ st with file := some f }, Json.mkObj [("status", "ok"), ("decls", Json.num f.decls.length)])
  | "enum_table" =>
    let f ← getFile st
    pure (st, Json.mkObj [("status", "ok"), ("enums", enumTable f)])
  | "enum_eval" =>
    let f ← getFile st
    let r ← enumEval f (← J.str req "id") (← natList req "xs")
    pure (st, Json.mkObj [("status", "ok"), ("results", r)])
  | _ => throw s!"unknown op {op}"

partial def loop (h : IO.FS.Stream) (out : IO.FS.Stream) (st : State) : IO Unit := do
  let line ← h.getLine
  if line.isEmpty then return ()
  if line.trimAscii.toString.isEmpty then
    loop h out st
  else
    let (st', resp) :=
      match Json.parse line with
      | .error e => (st, Json.mkObj [("status", "bad_json"), ("message", Json.str e)])
      | .ok req =>
        match handle st req with
        | .ok (st', r) => (st', r)
        | .error e => (st, Json.mkObj [("status", "error"), ("message", Json.str e)])
    out.putStrLn resp.compress
    out.flush
    loop h out st'

def main : IO Unit := do
  loop (← IO.getStdin) (← IO.getStdout) {}

end Pdlv.Driver
