/-
  Pdlv.JavaSpec — model of the dispatch the Java back end emits (java/codegen/packet.rs
  `build_child_fitting_constraints` / `fits_childs_constraints`, java/inheritance.rs `ClassHeirarchy`): a packet with a
  payload becomes an abstract class; after its own fields its parser takes the FIRST child, in declaration order, whose
  constraints on the parent's members hold and — when the child's own fields have a static width — whose width in octets
  equals the length of the payload, and calls that child's `fromPayload` on the payload.  Children with neither a
  constraint nor a static width are never candidates.  When no candidate fits, a parent with a `_payload_` builds its
  fallback child `Unknown<Parent>` (the raw payload), a parent with a `_body_` throws.  The chosen child is committed to:
  an exception in its parser is the result (there is no second try, unlike the Python back end).

  `fromPayload` of a child parses its own fields from the payload with the emitted field parser (`Pdlv.Java.decItems`),
  dispatches further when the child has a payload of its own, and throws when octets are left over.  The value of a
  child is assembled as the reference does (`decPartialWith`: own fields, then the inherited ones that are not
  constrained, then the payload).  A `byte[]` holds fewer than 2^31 octets: longer inputs do not exist in Java and are
  outside the model (`badLayout`).
-/
import Pdlv.Java
import Pdlv.JavaStruct
import Pdlv.Resolve

namespace Pdlv
namespace JavaSpec

/-- a declaration, whether it has a fallback child (`_payload_`, not `_body_`), and its children in declaration order -/
inductive Node
  | mk (body : Body) (fallback : Bool) (kids : List Node)

def bodyName : Body → String
  | .root nm _ => nm
  | .derived nm .. => nm

/-- `InheritanceNode::field_width()`: the width in bits of a class's own members when none of them is dynamic -/
def ownWidth : Items → Option Nat
  | .nil => some 0
  | .cons (.chunk fs) r => (ownWidth r).map (chunkBits fs + ·)
  | .cons (.array _ _ (.static w) (.static n) none) r => (ownWidth r).map (n * w * 8 + ·)
  | .cons (.typedef _ _ (some k)) r => (ownWidth r).map (k * 8 + ·)
  | .cons _ _ => none

def payloadOf (pv : Value) : Bytes :=
  match pv.fields.lookup "payload" with
  | some (.arr vs) => vs.map fun v => UInt8.ofNat ((v.asNat?).getD 0)
  | _ => []

/-- the filter of `build_child_fitting_constraints`: `!child.constraints.is_empty() || child.field_width().is_some()` -/
def candidate : Node → Bool
  | .mk (.derived _ _ cs _ items) _ _ => !cs.isEmpty || (ownWidth items).isSome
  | .mk (.root ..) _ _ => false

/-- `fits_childs_constraints`: every constraint holds of the parent's members, and `payload.limit() == width / 8` when
    the child's width is static -/
def fits (pv : Value) : Node → Bool
  | .mk (.derived _ parent cs _ items) _ _ =>
    !violated parent pv cs &&
      (match ownWidth items with
       | some w => (payloadOf pv).length == w / 8
       | none => true)
  | .mk (.root ..) _ _ => false

def assemble (st : DState) (copied : List (String × Value)) : Value :=
  .obj (st.fields ++ copied ++ (match st.payload with
                               | some p => [("payload", Value.ofBytes p)]
                               | none => []))

mutual
/-- `Child.fromPayload(payload)` on the parent's field values (with the parent's payload) -/
def fromPayload (c : Cfg) : Node → Value → Dec (String × Value)
  | .mk (.derived nm _ cs _ items) fb ks, pv =>
    let pbytes := payloadOf pv
    if pbytes.length ≥ 2 ^ 31 then .panic .badLayout
    else
      (Java.decItemsS c.e items pbytes DState.empty).bind fun (st, rest) =>
        let copied := pv.fields.filter fun (k, _) => k != "payload" && !(cs.any (·.1 == k))
        let v := assemble st copied
        if items.hasPayload then
          (dispatch c nm fb v ks).bind fun r => if rest.isEmpty then .ok r else .err .trailingBytes
        else if rest.isEmpty then .ok (nm, v) else .err .trailingBytes
  | .mk (.root ..) _ _, _ => .panic .badLayout
/-- the `if (fits) … else if (fits) … else fallback / throw` chain -/
def dispatch (c : Cfg) (nm : String) (fb : Bool) (pv : Value) : List Node → Dec (String × Value)
  | [] => if fb then .ok (nm, pv) else .err .constraintValue
  | k :: ks => if candidate k && fits pv k then fromPayload c k pv else dispatch c nm fb pv ks
end

/-- `Root.fromBytes(byte[])`: the class of the object built and its field values -/
def parseAll (c : Cfg) : Node → Bytes → Dec (String × Value)
  | .mk (.root nm items) fb ks, bs =>
    if bs.length ≥ 2 ^ 31 then .panic .badLayout
    else
      (Java.decItemsS c.e items bs DState.empty).bind fun (st, rest) =>
        let v := assemble st []
        (if items.hasPayload then dispatch c nm fb v ks else .ok (nm, v)).bind fun r =>
          if rest.isEmpty then .ok r else .err .trailingBytes
  | .mk (.derived ..) _ _, _ => .panic .badLayout

mutual
/-- the layouts of a tree: every node's own fields in the class of the parser theorems (struct-typed fields of static size
    included); a child's parent has a payload -/
def wfNode : Node → Bool
  | .mk (.derived _ parent _ _ items) _ ks => parent.hasPayload && Java.decWfItems3 items && wfNodes ks
  | .mk (.root _ items) _ ks => Java.decWfItems3 items && wfNodes ks
def wfNodes : List Node → Bool
  | [] => true
  | k :: ks => wfNode k && wfNodes ks
end

/-! ### building the tree from an analyzed file -/

def hasPayloadField (d : Decl) : Bool :=
  d.fields.any fun fl => match fl.desc with | .payload _ => true | _ => false

mutual
def nodeOf (f : File) : Nat → Decl → Option Node
  | 0, _ => none
  | fuel + 1, d =>
    match d.id?.bind (Resolve.resolve f), nodeList f fuel (f.children d) with
    | some b, some ks => some (.mk b (hasPayloadField d) ks)
    | _, _ => none
def nodeList (f : File) : Nat → List Decl → Option (List Node)
  | _, [] => some []
  | fuel, k :: ks =>
    match nodeOf f fuel k, nodeList f fuel ks with
    | some n, some r => some (n :: r)
    | _, _ => none
end

def tree (f : File) (root : String) : Option Node :=
  (f.lookup root).bind (nodeOf f (f.decls.length + 2))

end JavaSpec
end Pdlv
