/-
  Pdlv.Analyzer — executable model of `analyzer::analyze` (pdl-compiler/src/analyzer.rs): the
  passes in the order of `analyze()`, each returning its diagnostics (error code + label
  ranges, in emission order); the first pass that reports anything ends the analysis.
  `unwrap()` / `unreachable!()` / overflowing arithmetic on user numbers are partial here too:
  `APanic` names the site.
-/
import Pdlv.Schema

namespace Pdlv
namespace Analyzer

structure Diag where
  code : Nat
  labels : List SrcRange
deriving Repr, Inhabited

def mkD (code : Nat) (labels : List SrcRange) : Diag := { code := code, labels := labels }

inductive APanic
  | e17TagUnwrap        -- analyzer.rs:1064 (unreachable through the parser)
  | constraintOnFlag    -- analyzer.rs:1154: constraint on a field that `desugar_flags` turned into Flag
  | inlineValueUnwrap   -- inline_groups: constraint value / tag unwrap
  | desugarIdUnwrap     -- desugar_flags: `field.id().unwrap()` on an optional field without id
  | schemaOverflow      -- Schema::new: `size * width` overflows usize
  | schemaLookup        -- Schema::new: size of a declaration that is not annotated yet
  | offsetOverflow      -- check_field_offsets: `offset + size` overflows usize
  | condUnreachable     -- check_optional_fields: condition with neither value nor tag
deriving DecidableEq, Repr, Inhabited

inductive Res (α : Type)
  | ok (a : α)
  | diags (ds : List Diag)
  | panic (p : APanic)
deriving Repr, Inhabited

def bitWidth (v : Nat) : Nat := if v = 0 then 0 else Nat.log2 v + 1

/-- `scalar_max(width)` on a 64-bit host -/
def scalarMax (w : Nat) : Nat := if 64 ≤ w then 2 ^ 64 - 1 else 2 ^ w - 1

/-- `Scope::new`: last declaration with an id wins in the map; duplicates are E1 -/
def scopeDiags (f : File) : List Diag :=
  let rec go (seen : List (String × Decl)) : List Decl → List Diag
    | [] => []
    | d :: ds =>
      match d.id? with
      | none => go seen ds
      | some id =>
        match seen.lookup id with
        | some prev => (mkD 1 [d.loc, prev.loc]) :: go ((id, d) :: seen.filter (·.1 != id)) ds
        | none => go ((id, d) :: seen) ds
  go [] f.decls

/-- `scope.typedef.get(id)` (last wins) -/
def lookupDecl (f : File) (id : String) : Option Decl :=
  (f.decls.reverse.find? (fun d => d.id? == some id))

/-! ### check_decl_identifiers: DFS with Temporary / Permanent marks, post-order history -/

inductive Mark | temporary | permanent
deriving DecidableEq, Repr

structure DfsState where
  history : List Decl := []
  visited : List (String × Mark) := []
  diags : List Diag := []

def setMark (v : List (String × Mark)) (id : String) (m : Mark) : List (String × Mark) :=
  (id, m) :: v.filter (·.1 != id)

def fieldKindIsTypedefOrSizedArray (fl : Field) : Bool :=
  match fl.desc with
  | .typedef .. => true
  | .array _ _ _ _ (some _) => true
  | _ => false

/-- fuel bounds the recursion depth (number of declarations + 1 suffices: a deeper chain
    revisits a Temporary declaration) -/
def dfs (f : File) : Nat → Decl → DfsState → DfsState
  | 0, _, st => st
  | fuel + 1, decl, st =>
    match decl.id? with
    | none => st
    | some declId =>
      match st.visited.lookup declId with
      | some .permanent => st
      | some .temporary => { st with diags := st.diags ++ [(mkD 2 [decl.loc])] }
      | none =>
        let st := { st with visited := setMark st.visited declId .temporary }
        let st := decl.fields.foldl (fun st fl =>
          match fl.desc with
          | .group gid _ =>
            match lookupDecl f gid with
            | none => { st with diags := st.diags ++ [(mkD 3 [fl.loc])] }
            | some g =>
              match g.desc with
              | .group .. => dfs f fuel g st
              | _ => { st with diags := st.diags ++ [(mkD 4 [fl.loc])] }
          | .typedef _ tid | .array _ _ (some tid) _ _ =>
            match lookupDecl f tid with
            | none => { st with diags := st.diags ++ [(mkD 5 [fl.loc])] }
            | some t =>
              match t.desc with
              | .packet .. => { st with diags := st.diags ++ [(mkD 6 [fl.loc])] }
              | _ => if fieldKindIsTypedefOrSizedArray fl then dfs f fuel t st else st
          -- (since the `fix:` commit "sort an enum referenced by a fixed field before the
          -- declaration that uses it")
          | .fixedEnum en _ =>
            match lookupDecl f en with
            | some e => (match e.desc with
                | .enum .. => dfs f fuel e st
                | _ => st)
            | none => st
          | _ => st) st
        let st := match decl.parent? with
          | none => st
          | some pid =>
            match decl.desc, lookupDecl f pid with
            | .packet .., none | .struct .., none =>
              { st with diags := st.diags ++ [(mkD 7 [decl.loc])] }
            | .packet .., some p =>
              (match p.desc with
               | .packet .. => dfs f fuel p st
               | _ => { st with diags := st.diags ++ [(mkD 8 [decl.loc])] })
            | .struct .., some p =>
              (match p.desc with
               | .struct .. => dfs f fuel p st
               | _ => { st with diags := st.diags ++ [(mkD 8 [decl.loc])] })
            | _, _ => st
        { st with history := st.history ++ [decl], visited := setMark st.visited declId .permanent }

def checkDeclIdentifiers (f : File) : Res File :=
  let fuel := f.decls.length + 2
  let st := f.decls.foldl (fun st d =>
    match d.desc with
    | .test tid =>
      match lookupDecl f tid with
      | none => { st with diags := st.diags ++ [(mkD 9 [d.loc])] }
      | some t => (match t.desc with
          | .packet .. => st
          | _ => { st with diags := st.diags ++ [(mkD 10 [d.loc])] })
    | _ => dfs f fuel d st) ({} : DfsState)
  if st.diags.isEmpty then .ok { f with decls := st.history } else .diags st.diags

/-! ### simple per-declaration passes -/

def perDecl (f : File) (g : Decl → List Diag) : List Diag := f.decls.flatMap g

def checkFieldIdentifiers (f : File) : List Diag :=
  perDecl f fun d =>
    let rec go (seen : List (String × Field)) : List Field → List Diag
      | [] => []
      | fl :: fs =>
        match fl.id? with
        | none => go seen fs
        | some id =>
          match seen.lookup id with
          | some prev => (mkD 11 [fl.loc, prev.loc]) :: go ((id, fl) :: seen.filter (·.1 != id)) fs
          | none => go ((id, fl) :: seen) fs
    go [] d.fields

def orderedRange (lo hi : Nat) : Nat × Nat := (min lo hi, max lo hi)

structure EnumSt where
  byId : List (String × SrcRange) := []
  byValue : List (Nat × SrcRange) := []
  other : Option SrcRange := none
  diags : List Diag := []

def checkTagValue (t : TagV) (lo hi : Nat) (reserved : List (Nat × Nat)) (st : EnumSt) : EnumSt :=
  let st := match st.byId.lookup t.id with
    | some prev => { st with diags := st.diags ++ [(mkD 12 [t.loc, prev])],
                             byId := (t.id, t.loc) :: st.byId.filter (·.1 != t.id) }
    | none => { st with byId := (t.id, t.loc) :: st.byId }
  let st := match st.byValue.lookup t.value with
    | some prev => { st with diags := st.diags ++ [(mkD 13 [t.loc, prev])],
                             byValue := (t.value, t.loc) :: st.byValue.filter (·.1 != t.value) }
    | none => { st with byValue := (t.value, t.loc) :: st.byValue }
  let st := if lo ≤ t.value ∧ t.value ≤ hi then st
            else { st with diags := st.diags ++ [(mkD 14 [t.loc])] }
  reserved.foldl (fun st r =>
    if r.1 ≤ t.value ∧ t.value ≤ r.2 then { st with diags := st.diags ++ [(mkD 43 [t.loc])] }
    else st) st

def insertRange (a : Nat × Nat × SrcRange) : List (Nat × Nat × SrcRange) → List (Nat × Nat × SrcRange)
  | [] => [a]
  | b :: l =>
    -- stable sort by (lo, hi): insert after equal keys
    if a.1 < b.1 ∨ (a.1 = b.1 ∧ a.2.1 < b.2.1) then a :: b :: l else b :: insertRange a l

def checkEnumDeclarations (f : File) : List Diag :=
  perDecl f fun d =>
    match d.desc with
    | .enum _ tags w =>
      let max := scalarMax w
      let ranges : List (Nat × Nat × SrcRange) := tags.filterMap fun t => match t with
        | .range _ lo hi _ l => some ((orderedRange lo hi).1, (orderedRange lo hi).2, l)
        | _ => none
      let reserved := ranges.map fun r => (r.1, r.2.1)
      let st := tags.foldl (fun (st : EnumSt) t =>
        match t with
        | .value tv => checkTagValue tv 0 max reserved st
        | .range id lo hi sub l =>
          let st := match st.byId.lookup id with
            | some prev => { st with diags := st.diags ++ [(mkD 12 [l, prev])],
                                     byId := (id, l) :: st.byId.filter (·.1 != id) }
            | none => { st with byId := (id, l) :: st.byId }
          let st := if lo ≤ max ∧ hi ≤ max then st else { st with diags := st.diags ++ [(mkD 40 [l])] }
          let st := if lo ≥ hi then { st with diags := st.diags ++ [(mkD 40 [l])] } else st
          let (olo, ohi) := orderedRange lo hi
          sub.foldl (fun st tv => checkTagValue tv olo ohi [] st) st
        | .other id l =>
          let st := match st.byId.lookup id with
            | some prev => { st with diags := st.diags ++ [(mkD 12 [l, prev])],
                                     byId := (id, l) :: st.byId.filter (·.1 != id) }
            | none => { st with byId := (id, l) :: st.byId }
          let st := match st.other with
            | some prev => { st with diags := st.diags ++ [(mkD 44 [l, prev])] }
            | none => st
          { st with other := some l }) ({} : EnumSt)
      let sorted := ranges.foldl (fun acc r => insertRange r acc) []
      let rec overlaps : List (Nat × Nat × SrcRange) → List Diag
        | a :: b :: rest =>
          (if ¬ (a.2.1 < b.1 ∨ b.2.1 < a.1) then [(mkD 41 [b.2.2, a.2.2])] else [])
            ++ overlaps (b :: rest)
        | _ => []
      st.diags ++ overlaps sorted
    | _ => []

def findSizeTarget (d : Decl) (t : String) : Option Field :=
  d.fields.find? fun g => match g.desc with
    | .payload _ => t == "_payload_"
    | .body => t == "_body_"
    | _ => g.id? == some t

def checkSizeFields (f : File) : List Diag :=
  perDecl f fun d =>
    let rec go (sizeFor esizeFor : List (String × Field)) : List Field → List Diag
      | [] => []
      | fl :: fs =>
        let (dup, sizeFor', esizeFor') : List Diag × List (String × Field) × List (String × Field) :=
          match fl.desc with
          | .size t _ =>
            ((match sizeFor.lookup t with | some p => [(mkD 23 [fl.loc, p.loc])] | none => []),
             (t, fl) :: sizeFor.filter (·.1 != t), esizeFor)
          | .count t _ =>
            ((match sizeFor.lookup t with | some p => [(mkD 26 [fl.loc, p.loc])] | none => []),
             (t, fl) :: sizeFor.filter (·.1 != t), esizeFor)
          | .elementSize t _ =>
            ((match esizeFor.lookup t with | some p => [(mkD 29 [fl.loc, p.loc])] | none => []),
             sizeFor, (t, fl) :: esizeFor.filter (·.1 != t))
          | _ => ([], sizeFor, esizeFor)
        let inv : List Diag :=
          match fl.desc with
          | .size t _ =>
            (match findSizeTarget d t with
             | none => [(mkD 24 [fl.loc])]
             | some g => (match g.desc with
                | .body | .payload _ | .array .. => []
                | _ => [(mkD 25 [fl.loc, g.loc])]))
          | .count t _ =>
            (match d.fields.find? (fun g => g.id? == some t) with
             | none => [(mkD 27 [fl.loc])]
             | some g => (match g.desc with
                | .array .. => []
                | _ => [(mkD 28 [fl.loc, g.loc])]))
          | .elementSize t _ =>
            (match d.fields.find? (fun g => g.id? == some t) with
             | none => [(mkD 30 [fl.loc])]
             | some g => (match g.desc with
                | .array .. => []
                | _ => [(mkD 31 [fl.loc, g.loc])]))
          | _ => []
        dup ++ inv ++ go sizeFor' esizeFor' fs
    go [] [] d.fields

def checkFixedFields (f : File) : List Diag :=
  perDecl f fun d => d.fields.flatMap fun fl =>
    match fl.desc with
    | .fixedScalar w v => if bitWidth v > w then [(mkD 32 [fl.loc])] else []
    | .fixedEnum en tag =>
      (match lookupDecl f en with
       | none => [(mkD 33 [fl.loc])]
       | some e => (match e.desc with
          | .enum _ tags _ => if tags.any (·.id == tag) then [] else [(mkD 34 [fl.loc, e.loc])]
          | _ => [(mkD 35 [fl.loc, e.loc])]))
    | _ => []

def isPayloadField (fl : Field) : Bool :=
  match fl.desc with
  | .payload _ | .body => true
  | _ => false

def checkPayloadFields (f : File) : List Diag :=
  perDecl f fun d =>
    let rec go (prev : Option Field) : List Field → List Diag × Option Field
      | [] => ([], prev)
      | fl :: fs =>
        if isPayloadField fl then
          match prev with
          | some p => let (r, q) := go prev fs; ((mkD 36 [fl.loc, p.loc]) :: r, q)
          | none => go (some fl) fs
        else go prev fs
    let (ds, payload) := go none d.fields
    -- `file.iter_children(decl)`: declarations whose parent_id equals decl.id() (None == None included)
    let requires := f.decls.any fun c => c.parent? == d.id? && !c.fields.isEmpty
    ds ++ (if payload.isNone ∧ requires then [(mkD 37 [d.loc])] else [])

def checkArrayFields (f : File) : List Diag :=
  perDecl f fun d => d.fields.flatMap fun fl =>
    match fl.desc with
    | .array id _ _ _ (some _) =>
      (match d.fields.find? (fun g => match g.desc with
          | .size t _ | .count t _ => t == id
          | _ => false) with
       | some s => [(mkD 38 [s.loc, fl.loc])]
       | none => [])
    | _ => []

def checkPaddingFields (f : File) : List Diag :=
  perDecl f fun d =>
    let rec go (prevArr : Bool) : List Field → List Diag
      | [] => []
      | fl :: fs =>
        match fl.desc with
        | .padding _ => (if !prevArr then [(mkD 39 [fl.loc])] else []) ++ go false fs
        | .array .. => go true fs
        | _ => go false fs
    go false d.fields

def checkOptionalFields (f : File) : Res Unit :=
  let step (acc : List Diag × Option APanic) (d : Decl) : List Diag × Option APanic :=
    let rec go (scope : List (String × Field)) (acc : List Diag × Option APanic) : List Field → List Diag × Option APanic
      | [] => acc
      | fl :: fs =>
        let acc := match fl.cond with
          | none => acc
          | some c =>
            let d1 : List Diag := match fl.desc with
              | .scalar .. | .typedef .. => []
              | _ => [(mkD 45 [fl.loc])]
            let d2 : List Diag := match scope.lookup c.id with
              | none => [(mkD 46 [fl.loc])]
              | some g =>
                if g.cond.isSome then [(mkD 49 [fl.loc, g.loc])]
                else match g.desc with
                  | .scalar _ 1 => []
                  | _ => [(mkD 47 [fl.loc, g.loc])]
            let (d3, p) : List Diag × Option APanic := match c.value, c.tagId with
              | _, some _ => ([(mkD 48 [fl.loc])], none)
              | some 0, _ | some 1, _ => ([], none)
              | some _, _ => ([(mkD 48 [fl.loc])], none)
              | none, none => ([], some .condUnreachable)
            (acc.1 ++ d1 ++ d2 ++ d3, acc.2 <|> p)
        let scope := match fl.id? with
          | some id => (id, fl) :: scope.filter (·.1 != id)
          | none => scope
        go scope acc fs
    go [] acc d.fields
  let (ds, p) := f.decls.foldl step ([], none)
  match p with
  | some p => .panic p
  | none => if ds.isEmpty then .ok () else .diags ds

/-- `Scope::iter_fields(decl)`: the declaration's fields, then its ancestors' -/
def iterFields (f : File) : Nat → Decl → List Field
  | 0, d => d.fields
  | fuel + 1, d => d.fields ++ (match d.parent?.bind (lookupDecl f) with
                                | some p => iterFields f fuel p
                                | none => [])

/-- `check_constraint` -/
def checkConstraint (f : File) (c : Constraint) (decl : Decl) : List Diag × Option APanic :=
  match (iterFields f (f.decls.length + 1) decl).find? (fun fl => fl.id? == some c.id) with
  | none => ([(mkD 15 [c.loc])], none)
  | some fl =>
    match fl.desc with
    | .array .. => ([(mkD 16 [c.loc, fl.loc])], none)
    | .scalar _ w =>
      (match c.value with
       | none => (match c.tagId with
          | some _ => ([(mkD 17 [c.loc, fl.loc])], none)
          | none => ([], some .e17TagUnwrap))
       | some v => if bitWidth v > w then ([(mkD 18 [c.loc, fl.loc])], none) else ([], none))
    | .typedef _ tid =>
      (match lookupDecl f tid with
       | none => ([], none)
       | some t =>
         match t.desc with
         | .enum _ tags _ =>
           (match c.tagId with
            | none => ([(mkD 19 [c.loc, fl.loc])], none)
            | some tag =>
              (match tags.find? (·.id == tag) with
               | none => ([(mkD 20 [c.loc, fl.loc])], none)
               | some (.range ..) => ([(mkD 42 [c.loc, fl.loc])], none)
               | some _ => ([], none)))
         -- (since the `fix:` commit "report E21 instead of panicking when a tag constraint names a
         -- struct or custom typed field": the message no longer unwraps `constraint.value`)
         | _ => ([(mkD 21 [c.loc, fl.loc])], none))
    | _ => ([], some .constraintOnFlag)

def checkConstraintsList (f : File) (cs : List Constraint) (decl : Decl) (byId : List (String × Constraint)) :
    List Diag × Option APanic :=
  let rec go (byId : List (String × Constraint)) (acc : List Diag × Option APanic) : List Constraint → List Diag × Option APanic
    | [] => acc
    | c :: rest =>
      match acc.2 with
      | some _ => acc
      | none =>
        let (d1, p) := checkConstraint f c decl
        let d2 : List Diag := match byId.lookup c.id with
          | some prev => [(mkD 22 [c.loc, prev.loc])]
          | none => []
        go ((c.id, c) :: byId.filter (·.1 != c.id)) (acc.1 ++ d1 ++ (if p.isSome then [] else d2), p) rest
  go byId ([], none) cs

def parents (f : File) : Nat → Decl → List Decl
  | 0, _ => []
  | fuel + 1, d => match d.parent?.bind (lookupDecl f) with
    | some p => p :: parents f fuel p
    | none => []

def checkGroupConstraints (f : File) : Res Unit :=
  let (ds, p) := f.decls.foldl (fun (acc : List Diag × Option APanic) d =>
    d.fields.foldl (fun acc fl =>
      match acc.2 with
      | some _ => acc
      | none =>
        match fl.desc with
        | .group gid cs =>
          (match lookupDecl f gid with
           | none => acc
           | some g => let (a, p) := checkConstraintsList f cs g []; (acc.1 ++ a, p))
        | _ => acc) acc) ([], none)
  match p with
  | some p => .panic p
  | none => if ds.isEmpty then .ok () else .diags ds

def checkDeclConstraints (f : File) : Res Unit :=
  let (ds, p) := f.decls.foldl (fun (acc : List Diag × Option APanic) d =>
    match acc.2 with
    | some _ => acc
    | none =>
      match d.desc, d.parent? with
      | .packet _ cs _ _, some pid | .struct _ cs _ _, some pid =>
        (match lookupDecl f pid with
         | none => acc
         | some pd =>
           -- constraints of the ancestors, nearest first; a later insert overwrites
           let inherited := (parents f (f.decls.length + 1) d).foldl (fun m a =>
             a.constraints.foldl (fun m c => (c.id, c) :: m.filter (·.1 != c.id)) m) []
           let (a, p) := checkConstraintsList f cs pd inherited
           (acc.1 ++ a, p))
      | _, _ => acc) ([], none)
  match p with
  | some p => .panic p
  | none => if ds.isEmpty then .ok () else .diags ds

/-! ### inline_groups / desugar_flags -/

def insertCons (m : List (String × Constraint)) (c : Constraint) : List (String × Constraint) :=
  (c.id, c) :: m.filter (·.1 != c.id)

def inlineFields (f : File) : Nat → List Field → List (String × Constraint) → Except APanic (List Field)
  | 0, _, _ => .ok []
  | fuel + 1, fields, cons =>
    fields.foldlM (fun acc fl => do
      let r ← (match fl.desc with
        | .group gid gcs =>
          (match lookupDecl f gid with
           | some g => inlineFields f fuel g.fields (gcs.foldl insertCons cons)
           | none => .ok [])
        | .scalar id w =>
          (match cons.lookup id with
           | some c => (match c.value with
              | some v => .ok [{ fl with desc := .fixedScalar w v }]
              | none => .error .inlineValueUnwrap)
           | none => .ok [fl])
        | .typedef id tid =>
          (match cons.lookup id with
           | some c => (match c.tagId with
              | some t => .ok [{ fl with desc := .fixedEnum tid t }]
              | none => .error .inlineValueUnwrap)
           | none => .ok [fl])
        | _ => .ok [fl] : Except APanic (List Field))
      pure (acc ++ r)) []

def inlineGroups (f : File) : Except APanic File := do
  let fuel := f.decls.length + 1
  let ds ← f.decls.foldlM (fun acc d => do
    match d.desc with
    | .packet id cs fs p =>
      let fs' ← inlineFields f fuel fs []
      pure (acc ++ [{ d with desc := .packet id cs fs' p }])
    | .struct id cs fs p =>
      let fs' ← inlineFields f fuel fs []
      pure (acc ++ [{ d with desc := .struct id cs fs' p }])
    | .group .. => pure acc
    | _ => pure (acc ++ [d])) []
  pure { f with decls := ds }

def desugarFlags (f : File) : Except APanic File := do
  let ds ← f.decls.mapM fun d => do
    let fields := d.fields
    -- condition id -> [(optional field id, value)] in field order
    let conds ← fields.foldlM (fun (m : List (String × List (String × Nat))) fl =>
      match fl.cond with
      | none => pure m
      | some c =>
        match fl.id?, c.value with
        | some id, some v =>
          pure (match m.lookup c.id with
            | some l => m.map fun (k, x) => if k == c.id then (k, x ++ [(id, v)]) else (k, x)
            | none => m ++ [(c.id, [(id, v)])])
        | _, _ => .error .desugarIdUnwrap) []
    let fields' := fields.map fun fl =>
      match fl.id?.bind (fun k => List.lookup k conds) with
      | some opts => { fl with desc := .flag (fl.id?.getD "") opts }
      | none => fl
    pure (match d.desc with
      | .packet id cs _ p => { d with desc := .packet id cs fields' p }
      | .struct id cs _ p => { d with desc := .struct id cs fields' p }
      | .group id _ => { d with desc := .group id fields' }
      | _ => d)
  pure { f with decls := ds }

/-! ### size checks -/

def usizeOk (n : Nat) : Bool := n < 2 ^ 64

def schemaPanics (f : File) : Bool :=
  -- `*size * *width` in annotate_field
  f.decls.any fun d => d.fields.any fun fl => match fl.desc with
    | .array _ (some w) _ _ (some n) => !usizeOk (n * w)
    | _ => false

/-- `Size::add` / `Size::mul` / `8 * size` in `Schema::new` work on `usize`: the (overflow-checked)
    compiler panics as soon as a static size leaves `[0, 2^64)`.  All operands are sums and products
    of naturals, so some intermediate result overflows exactly when a final static quantity does. -/
def sizeBig : Size → Bool
  | .static n => !usizeOk n
  | _ => false

def schemaOverflows (sc : List DeclSchema) : Bool :=
  sc.any fun ds =>
    sizeBig ds.sizes.declSize || sizeBig ds.sizes.parentSize || sizeBig ds.sizes.payloadSize || sizeBig ds.sizes.total ||
    ds.fields.any fun fs => sizeBig fs.fieldSize || (match fs.padded with | some n => !usizeOk n | none => false)

/-- `Size::add` of two static sizes leaves `[0, 2^64)` -/
def addOverflows : Size → Size → Bool
  | .static x, .static y => !usizeOk (x + y)
  | _, _ => false

/-- the running `decl_size` of `annotate_decl` overflows at some field, even when a later dynamic or unknown
    field absorbs the sum (so that no FINAL static quantity is out of range) -/
def sumDeclOverflows : List Field → List FieldSizes → Size → Bool
  | f :: fs, s :: ss, d =>
    match f.desc with
    | .payload _ | .body => sumDeclOverflows fs ss d
    | _ =>
      let x := (match s.padded with | some pad => Size.static pad | none => s.fieldSize)
      addOverflows d x || sumDeclOverflows fs ss (d + x)
  | _, _, _ => false

def schemaSumOverflows (f : File) (sc : List DeclSchema) : Bool :=
  (f.decls.zip sc).any fun (d, ds) =>
    (match d.desc with
     | .packet .. | .struct .. | .group .. => sumDeclOverflows d.fields ds.fields (.static 0)
     | _ => false) ||
    addOverflows ds.sizes.declSize ds.sizes.parentSize

/-- `static_size += …` in `check_decl_sizes` adds up the static fields of a declaration (dynamic ones count 0) on `usize` -/
def declSizesOverflow (f : File) (sc : List DeclSchema) : Bool :=
  (f.decls.zip sc).any fun (_, ds) =>
    (ds.fields.foldl (fun (st : Nat × Bool) fs =>
      let n := st.1 + (fs.fieldSize.static?.getD 0)
      (n, st.2 || !usizeOk n)) (0, false)).2

def checkFieldOffsets (f : File) (sc : List DeclSchema) : Res Unit :=
  let r := (f.decls.zip sc).foldl (fun (acc : List Diag × Option APanic) (d, ds) =>
    let (a, _, p) := (d.fields.zip ds.fields).foldl (fun (st : List Diag × Nat × Option APanic) (fl, fs) =>
      let (acc, offset, p) := st
      let aligned : Bool := match fl.desc with
        | .typedef _ tid =>
          (match lookupDecl f tid with
           | some { desc := .enum .., .. } => true
           | _ => offset % 8 == 0)
        | .payload _ | .body | .array .. | .padding _ | .checksum _ => offset % 8 == 0
        | _ => true
      let acc := if aligned then acc else acc ++ [(mkD 51 [fl.loc])]
      match fs.fieldSize with
      | .static s => if usizeOk (offset + s) then (acc, offset + s, p) else (acc, 0, p <|> some .offsetOverflow)
      | _ => (acc, 0, p)) (acc.1, 0, acc.2)
    (a, p)) ([], none)
  match r.2 with
  | some p => .panic p
  | none => if r.1.isEmpty then .ok () else .diags r.1

def checkDeclSizes (f : File) (sc : List DeclSchema) : List Diag :=
  (f.decls.zip sc).flatMap fun (d, ds) =>
    let arr := d.fields.flatMap fun fl => match fl.desc with
      | .array _ (some w) _ _ _ => if w % 8 != 0 then [(mkD 52 [fl.loc])] else []
      | _ => []
    let total := ds.fields.foldl (fun n fs => n + (fs.fieldSize.static?.getD 0)) 0
    arr ++ (if total % 8 != 0 then [(mkD 53 [d.loc])] else [])

/-! ### analyze -/

def firstErr (ds : List Diag) (k : Unit → Res File) : Res File :=
  if ds.isEmpty then k () else .diags ds

def analyze (f : File) : Res File :=
  firstErr (scopeDiags f) fun _ =>
  match checkDeclIdentifiers f with
  | .diags ds => .diags ds
  | .panic p => .panic p
  | .ok f =>
    firstErr (checkFieldIdentifiers f) fun _ =>
    firstErr (checkEnumDeclarations f) fun _ =>
    firstErr (checkSizeFields f) fun _ =>
    firstErr (checkFixedFields f) fun _ =>
    firstErr (checkPayloadFields f) fun _ =>
    firstErr (checkArrayFields f) fun _ =>
    firstErr (checkPaddingFields f) fun _ =>
    match checkOptionalFields f with
    | .diags ds => .diags ds
    | .panic p => .panic p
    | .ok _ =>
      match checkGroupConstraints f with
      | .diags ds => .diags ds
      | .panic p => .panic p
      | .ok _ =>
        match inlineGroups f with
        | .error p => .panic p
        | .ok f =>
          match desugarFlags f with
          | .error p => .panic p
          | .ok f =>
            firstErr (scopeDiags f) fun _ =>
            match checkDeclConstraints f with
            | .diags ds => .diags ds
            | .panic p => .panic p
            | .ok _ =>
              if schemaPanics f then .panic .schemaOverflow
              else match Schema.build f with
                | none => .panic .schemaLookup
                | some sc =>
                  if schemaOverflows sc || schemaSumOverflows f sc then .panic .schemaOverflow else
                  match checkFieldOffsets f sc with
                  | .diags ds => .diags ds
                  | .panic p => .panic p
                  | .ok _ =>
                    if declSizesOverflow f sc then .panic .offsetOverflow
                    else firstErr (checkDeclSizes f sc) fun _ => .ok f

end Analyzer
end Pdlv
