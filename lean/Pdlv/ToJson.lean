/-
  Pdlv.ToJson — the serde JSON form of the AST (declarations only), for comparing analyzed
  files produced by the model with those produced by pdl-compiler.
-/
import Lean.Data.Json
import Pdlv.Ast

namespace Pdlv
open Lean (Json)
namespace TJ

def loc (l : SrcLoc) : Json :=
  Json.mkObj [("offset", Json.num l.offset), ("line", Json.num l.line), ("column", Json.num l.column)]

def range (r : SrcRange) : Json :=
  Json.mkObj [("file", Json.num (0 : Nat)), ("start", loc r.start), ("end", loc r.stop)]

def optNat : Option Nat → Json
  | some n => Json.num n
  | none => Json.null

def optStr : Option String → Json
  | some s => Json.str s
  | none => Json.null

def tagV (t : TagV) : Json :=
  Json.mkObj [("kind", "tag"), ("id", Json.str t.id), ("loc", range t.loc), ("value", Json.num t.value)]

def tag : Tag → Json
  | .value t => tagV t
  | .range id lo hi sub l =>
    Json.mkObj [("kind", "tag"), ("id", Json.str id), ("loc", range l),
      ("range", Json.mkObj [("start", Json.num lo), ("end", Json.num hi)]),
      ("tags", Json.arr (sub.map tagV).toArray)]
  | .other id l => Json.mkObj [("kind", "tag"), ("id", Json.str id), ("loc", range l)]

def constraint (c : Constraint) : Json :=
  Json.mkObj [("kind", "constraint"), ("id", Json.str c.id), ("loc", range c.loc),
    ("value", optNat c.value), ("tag_id", optStr c.tagId)]

def fieldDesc : FieldDesc → List (String × Json)
  | .checksum t => [("kind", "checksum_field"), ("field_id", Json.str t)]
  | .padding n => [("kind", "padding_field"), ("size", Json.num n)]
  | .size t w => [("kind", "size_field"), ("field_id", Json.str t), ("width", Json.num w)]
  | .count t w => [("kind", "count_field"), ("field_id", Json.str t), ("width", Json.num w)]
  | .elementSize t w => [("kind", "elementsize_field"), ("field_id", Json.str t), ("width", Json.num w)]
  | .body => [("kind", "body_field")]
  | .payload m => [("kind", "payload_field"), ("size_modifier", optStr m)]
  | .fixedScalar w v => [("kind", "fixed_field"), ("width", Json.num w), ("value", Json.num v)]
  | .fixedEnum e t => [("kind", "fixed_field"), ("enum_id", Json.str e), ("tag_id", Json.str t)]
  | .reserved w => [("kind", "reserved_field"), ("width", Json.num w)]
  | .array id w t m n =>
    [("kind", "array_field"), ("id", Json.str id), ("width", optNat w), ("type_id", optStr t),
     ("size_modifier", optStr m), ("size", optNat n)]
  | .scalar id w => [("kind", "scalar_field"), ("id", Json.str id), ("width", Json.num w)]
  | .flag id opts =>
    [("kind", "flag_field"), ("id", Json.str id),
     ("optional_field_ids", Json.arr (opts.map fun (k, v) => Json.arr #[Json.str k, Json.num v]).toArray)]
  | .typedef id t => [("kind", "typedef_field"), ("id", Json.str id), ("type_id", Json.str t)]
  | .group g cs => [("kind", "group_field"), ("group_id", Json.str g), ("constraints", Json.arr (cs.map constraint).toArray)]

def field (f : Field) : Json :=
  Json.mkObj ([("loc", range f.loc), ("cond", match f.cond with | some c => constraint c | none => Json.null)]
    ++ fieldDesc f.desc)

def declDesc : DeclDesc → List (String × Json)
  | .checksum id fn w => [("kind", "checksum_declaration"), ("id", Json.str id), ("function", Json.str fn), ("width", Json.num w)]
  | .customField id w fn => [("kind", "custom_field_declaration"), ("id", Json.str id), ("width", optNat w), ("function", Json.str fn)]
  | .enum id tags w => [("kind", "enum_declaration"), ("id", Json.str id), ("tags", Json.arr (tags.map tag).toArray), ("width", Json.num w)]
  | .packet id cs fs p =>
    [("kind", "packet_declaration"), ("id", Json.str id), ("constraints", Json.arr (cs.map constraint).toArray),
     ("fields", Json.arr (fs.map field).toArray), ("parent_id", optStr p)]
  | .struct id cs fs p =>
    [("kind", "struct_declaration"), ("id", Json.str id), ("constraints", Json.arr (cs.map constraint).toArray),
     ("fields", Json.arr (fs.map field).toArray), ("parent_id", optStr p)]
  | .group id fs => [("kind", "group_declaration"), ("id", Json.str id), ("fields", Json.arr (fs.map field).toArray)]
  | .test t => [("kind", "test_declaration"), ("type_id", Json.str t)]

def decl (d : Decl) : Json := Json.mkObj ([("loc", range d.loc)] ++ declDesc d.desc)

def decls (f : File) : Json := Json.arr (f.decls.map decl).toArray

end TJ
end Pdlv
