/-
  Pdlv.Ref — the wire format of doc/reference.md as mathematics, at the level of bits.

  Written from the language reference, not from the generators:
  * a bit-field of width w contributes its w bits, least significant first; consecutive
    bit-fields are concatenated up to the next byte boundary; the group's bytes are the
    bit stream cut in octets (little-endian), reversed for big-endian files;
  * a size field carries the octet size of the encoding of what it designates plus the size
    modifier, a count field the element count, an element-size field the common octet size of
    the elements;
  * reserved bits and padding are zero; fixed fields and constrained parent fields carry their
    constant; an optional field is present iff its flag takes the condition value; a child's
    fields occupy the parent's payload.
  `none` = the value has no encoding (a scalar does not fit, a size is not expressible, …).
-/
import Pdlv.Wire

namespace Pdlv
namespace Ref

/-- the `w` low bits of `n`, least significant first -/
def bitsOf : Nat → Nat → List Bool
  | 0, _ => []
  | w + 1, n => (n % 2 == 1) :: bitsOf w (n / 2)

def natOfBits : List Bool → Nat
  | [] => 0
  | b :: r => (if b then 1 else 0) + 2 * natOfBits r

/-- cut a bit stream into `k` octets; the first bit is the least significant of the first octet -/
def bytesOfBits : Nat → List Bool → Bytes
  | 0, _ => []
  | k + 1, bits => UInt8.ofNat (natOfBits (bits.take 8)) :: bytesOfBits k (bits.drop 8)

/-- bytes of a byte-aligned group in the file's byte order -/
def groupBytes (e : Endian) (bits : List Bool) : Bytes :=
  let bs := bytesOfBits (bits.length / 8) bits
  match e with
  | .little => bs
  | .big => bs.reverse

def fits (w x : Nat) : Bool := x < 2 ^ w

structure ArrInfo where
  id : String
  bytes : Bytes            -- concatenated element encodings (no padding)
  elemLens : List Nat
  count : Nat

def lookupArr (t : List ArrInfo) (id : String) : Option ArrInfo := t.find? (·.id == id)

def allEq : List Nat → Bool
  | [] => true
  | x :: xs => xs.all (· == x)

/-- bits of one chunk's fields -/
def chunkBitsOf (arrs : List ArrInfo) (payloadLen : Nat) (v : Value) : List BitField → Option (List Bool)
  | [] => some []
  | f :: fs =>
    let rest := chunkBitsOf arrs payloadLen v fs
    let emit (w x : Nat) : Option (List Bool) :=
      if fits w x then rest.map (bitsOf w x ++ ·) else none
    match f with
    | .scalar id w => match v.get? id with
      | some (.int x) => emit w x
      | _ => none
    | .flag _ opts =>
      match opts with
      | [] => none
      | (o, setv) :: _ =>
        let bit := if isPresent v o then setv else 1 - setv
        -- every optional field governed by this flag must agree with the flag's value
        if opts.all (fun (k, val) => (isPresent v k) == (val == bit)) then emit 1 bit else none
    | .enumTy id _ e => match v.get? id with
      | some (.int x) => if enumOk e x then emit e.width x else none
      | _ => none
    | .fixed w c => emit w c
    | .reserved w => emit w 0
    | .size t w m =>
      if t == "_payload_" then emit w (payloadLen + m)
      else match lookupArr arrs t with
        | some a => emit w (a.bytes.length + m)
        | none => none
    | .count t w => match lookupArr arrs t with
      | some a => emit w a.count
      | none => none
    | .elemSize t w => match lookupArr arrs t with
      | some a => if allEq a.elemLens then emit w (a.elemLens.headD 0) else none
      | none => none

/-- `Option` version of "encode every element and concatenate", also returning lengths -/
def encElems (f : Value → Option Bytes) : List Value → Option (Bytes × List Nat)
  | [] => some ([], [])
  | v :: vs =>
    match f v, encElems f vs with
    | some a, some (b, ls) => some (a ++ b, a.length :: ls)
    | _, _ => none

mutual
def encTy (e : Endian) : Ty → Value → Option Bytes
  | .scalar w, v => match v with
    | .int x => if fits w x then some (groupBytes e (bitsOf w x)) else none
    | _ => none
  | .enumTy _ en, v => match v with
    | .int x => if enumOk en x then some (groupBytes e (bitsOf en.width x)) else none
    | _ => none
  | .custom _ w, v => match v with
    | .int x => if fits w x then some (groupBytes e (bitsOf w x)) else none
    | _ => none
  | .struct _ b, v => encBody e b v none

/-- first pass: the encodings of the arrays of a field list (sizes are *derived from them*) -/
def arrays (e : Endian) : Items → Value → Option (List ArrInfo)
  | .nil, _ => some []
  | .cons (.array id elem _ _ _) r, v =>
    match v.get? id with
    | some (.arr vs) =>
      match encElems (encTy e elem) vs, arrays e r v with
      | some (bs, ls), some t => some ({ id := id, bytes := bs, elemLens := ls, count := vs.length } :: t)
      | _, _ => none
    | _ => none
  | .cons _ r, v => arrays e r v

def encItem (e : Endian) (arrs : List ArrInfo) (payload : Bytes) (v : Value) : Item → Option Bytes
  | .chunk fs => (chunkBitsOf arrs payload.length v fs).map (groupBytes e)
  | .typedef id ty _ => match v.get? id with
    | some x => encTy e ty x
    | none => none
  | .optional id ty _ _ => match v.get? id with
    | some .null | none => some []
    | some x => encTy e ty x
  | .payload _ => some payload
  | .array id _ _ shape pad =>
    match lookupArr arrs id with
    | none => none
    | some a =>
      let okCount := match shape with
        | .static n => a.count == n
        | _ => true
      if !okCount then none
      else match pad with
        | none => some a.bytes
        | some p => if a.bytes.length ≤ p then some (a.bytes ++ zeros (p - a.bytes.length)) else none

def encItems (e : Endian) (arrs : List ArrInfo) (payload : Bytes) (v : Value) : Items → Option Bytes
  | .nil => some []
  | .cons i r =>
    match encItem e arrs payload v i, encItems e arrs payload v r with
    | some a, some b => some (a ++ b)
    | _, _ => none

/-- `po`: the bytes that occupy this level's payload (a child's fields), if any -/
def encBody (e : Endian) : Body → Value → Option Bytes → Option Bytes
  | .root _ items, v, po =>
    let payload : Option Bytes := match po with
      | some p => some p
      | none => if items.hasPayload then (v.get? "payload").bind valBytes else some []
    match payload, arrays e items v with
    | some p, some arrs => encItems e arrs p v items
    | _, _ => none
  | .derived _ parent _ allCs items, v, po =>
    let v' := Value.obj (v.fields ++ allCs.map fun (k, c) => (k, Value.int c))
    let payload : Option Bytes := match po with
      | some p => some p
      | none => if items.hasPayload then (v.get? "payload").bind valBytes else some []
    match payload, arrays e items v' with
    | some p, some arrs =>
      match encItems e arrs p v' items with
      | some own => encBody e parent v' (some own)
      | none => none
    | _, _ => none
end

/-- The reference encoding of a value of a packet / struct. -/
def encode (e : Endian) (b : Body) (v : Value) : Option Bytes := encBody e b v none

end Ref
end Pdlv
