/-
  Pdlv.Java — model of what the Java back end emits for BIT-FIELD GROUPS (pdl-compiler/src/backends/java:
  `codegen/packet.rs` encoder / decoder, `codegen/mod.rs` `to_num` / `from_num` / `encode_bytes` / `decode_bytes`,
  `codegen/expr.rs` `ExprTree`, `preamble.rs` `Utils.putNN` / `getNN`), for packets and structs without parent whose
  fields are all bit-fields (scalars, enums, fixed values, reserved bits).

  Java has signed integral types only.  `ExprTree` builds typed expressions (`byte` / `short` / `int` / `long`) and
  inserts unsigned widening casts (`Byte.toUnsignedInt` …); what it emits is evaluated here as Java evaluates it:
  * every binary operator is computed in `max(type of the operands, int)` and wraps at that width; a shift uses the
    low 5 (int) / 6 (long) bits of its distance;
  * **encoder** — each field is shifted to its offset IN ITS OWN TYPE widened to at least `int` (`lshift`), the shifted
    fields are then cast to the widest type among them and OR-ed (`or_all`), and the result is cast to the group's type:
    a field of at most 32 bits whose offset + width exceeds 32 loses bits (KF-C19-int-chunk);
  * **decoder** — the group is read with `get` / `getShort` / `getInt` / `getLong` or, for 24 / 40 / 48 / 56 bits, with
    `Utils.getNN`, whose bytes are combined with `>>>` where `<<` is meant: only the least significant octet survives
    (KF-C19-get24); each field is `(group >>> offset) & mask`, except a field that IS the whole group, which is the raw
    (signed) group variable.
  Size and count fields (read as SIGNED Java integers: KF-C19-signed-size), arrays of scalars and payloads are modelled
  as the emitted `fromBytes` / `toBytes` handle them; arrays of enums and structs, typedef fields and children are not
  (`.panic .badLayout`).
-/
import Pdlv.Static

namespace Pdlv
namespace Java

inductive JT | byte | short | int | long
deriving DecidableEq, Repr, Inhabited

def JT.bits : JT → Nat
  | .byte => 8 | .short => 16 | .int => 32 | .long => 64

def JT.rank : JT → Nat
  | .byte => 0 | .short => 1 | .int => 2 | .long => 3

def maxT (a b : JT) : JT := if a.rank < b.rank then b else a

/-- `Integral::fitting` -/
def fitting (w : Nat) : JT :=
  if w ≤ 8 then .byte else if w ≤ 16 then .short else if w ≤ 32 then .int else .long

/-- `Integral::limit_to_int` -/
def limitToInt (t : JT) : JT := maxT t .int

/-- an `ExprTree` node with what Java computes for it: `ty` is `ExprTree::ty`, `lit` the literal it denotes (if it is
    one, through casts and parentheses), `val` the value as an unsigned bit pattern of `ty.bits` bits -/
structure E where
  ty : JT
  lit : Option Nat
  val : Nat
deriving Repr, Inhabited

def sym (t : JT) (v : Nat) : E := { ty := t, lit := none, val := v % 2 ^ t.bits }
def num (n : Nat) : E := { ty := .int, lit := some n, val := n % 2 ^ 32 }

/-- `ExprTree::cast` / `gen_cast`: unsigned widening, truncating narrowing -/
def cast (e : E) (to : JT) : E :=
  if e.ty = to then e else { ty := to, lit := e.lit, val := e.val % 2 ^ to.bits }

/-- `ExprTree::lshift`: pruned for a literal 0 on either side, else `<<` in `max(lhs, int)` -/
def lshift (l : E) (off : Nat) : E :=
  if l.lit = some 0 || off = 0 then l
  else
    let t := limitToInt l.ty
    { ty := t, lit := none, val := ((cast l t).val * 2 ^ (off % t.bits)) % 2 ^ t.bits }

/-- `ExprTree::rshift` (`>>>`) -/
def rshift (l : E) (off : Nat) : E :=
  if l.lit = some 0 || off = 0 then l
  else
    let t := limitToInt l.ty
    { ty := t, lit := none, val := (cast l t).val / 2 ^ (off % t.bits) }

/-- `ExprTree::and` with a mask literal -/
def andMask (l : E) (width : Nat) : E :=
  let t := limitToInt l.ty
  { ty := t, lit := none, val := (cast l t).val % 2 ^ width % 2 ^ t.bits }

/-- `ExprTree::or_all`: every operand cast to the widest type among them, then OR-ed -/
def orAll (es : List E) : E :=
  match es with
  | [] => num 0
  | e :: rest =>
    let t := (e :: rest).foldl (fun a x => maxT a x.ty) .byte
    { ty := t, lit := (if rest.isEmpty then e.lit else none),
      val := (e :: rest).foldl (fun a x => a ||| (cast x t).val) 0 }

/-- the value of one bit-field as `to_num` presents it to the packer -/
def toNum (all : Items) (pl : Nat) (v : Value) : BitField → Enc E
  | .scalar id w => (natField v id).bind fun x =>
      if x ≥ 2 ^ w then .panic .badValue        -- the setter refuses it
      else .ok (sym (if w = 1 then .int else fitting w) x)
  | .enumTy id _ e => (natField v id).bind fun x =>
      if x ≥ 2 ^ e.width then .panic .badValue else .ok (sym (fitting e.width) x)
  | .fixed _ c => if c < 2 ^ 31 then .ok (num c) else .panic .badLayout   -- (an int literal: KF-C10-java-largeLiteral)
  | .reserved _ => .ok (num 0)
  | .size t w m =>
    -- `cast(add(mul(symbol(x.length, int), num(elem_width / 8)), num(modifier)), fitting(width))`; the builder's setter has
    -- refused an array or payload whose size does not fit the field
    if w > 32 then .panic .badLayout
    else (sizeOfTarget all t pl v).bind fun s =>
      if s + m ≥ 2 ^ w then .panic .badValue else .ok (cast (sym .int (s + m)) (fitting w))
  | .count t w =>
    if w > 32 then .panic .badLayout
    else (listField v t).bind fun vs =>
      if vs.length ≥ 2 ^ w then .panic .badValue else .ok (cast (sym .int vs.length) (fitting w))
  | _ => .panic .badLayout

def packFields (all : Items) (pl : Nat) (v : Value) : List BitField → Nat → Enc (List E)
  | [], _ => .ok []
  | f :: fs, off => (toNum all pl v f).bind fun e => (packFields all pl v fs (off + f.width)).bind fun r => .ok (lshift e off :: r)

/-- the octets `encode_bytes` writes for a group of `width` bits holding `x` -/
def putGroup (en : Endian) (width x : Nat) : Bytes := putUint en width (x % 2 ^ width)

def encChunk (en : Endian) (all : Items) (pl : Nat) (v : Value) (fs : List BitField) : Enc Bytes :=
  let width := chunkBits fs
  if width > 64 then .panic .badLayout
  else (packFields all pl v fs 0).bind fun es => .ok (putGroup en width (cast (orAll es) (fitting width)).val)

/-- the elements of an array of scalars: `encode_bytes(width, element)` each -/
def encScalars (en : Endian) (w : Nat) : List Value → Enc Bytes
  | [] => .ok []
  | .int x :: r => if x ≥ 2 ^ w then .panic .badValue else (encScalars en w r).bind fun b => .ok (putGroup en w x ++ b)
  | _ :: _ => .panic .badValue

/-- the elements of an array of enums: `encode_bytes(width, element.toX())`; a value a closed enum does not declare has no
    Java object -/
def encEnums (en : Endian) (e : Enum.Decl) : List Value → Enc Bytes
  | [] => .ok []
  | .int x :: r =>
    if x ≥ 2 ^ e.width ∨ !enumOk e x then .panic .badValue
    else (encEnums en e r).bind fun b => .ok (putGroup en e.width x ++ b)
  | _ :: _ => .panic .badValue

def encItems (en : Endian) (all : Items) (payload : Bytes) (v : Value) : Items → Enc Bytes
  | .nil => .ok []
  | .cons i r =>
    (match i with
     | .chunk fs => encChunk en all payload.length v fs
     | .payload _ => .ok payload
     | .array id (.scalar w) (.static _) shape none =>
       if w % 8 ≠ 0 ∨ w = 0 ∨ w > 64 then .panic .badLayout
       else (listField v id).bind fun vs => (checkCount shape vs.length).bind fun _ => encScalars en w vs
     | .array id (.enumTy _ e) (.static _) shape none =>
       if e.width % 8 ≠ 0 ∨ e.width = 0 ∨ e.width > 64 then .panic .badLayout
       else (listField v id).bind fun vs => (checkCount shape vs.length).bind fun _ => encEnums en e vs
     | _ => .panic .badLayout).bind fun a => (encItems en all payload v r).bind fun b => .ok (a ++ b)

mutual
/-- `toBytes()`; of a child class: the own fields into a buffer, then `super.toBytes(buf)` — every ancestor's fields around
    it, the constrained members holding the constants the child's builder stored -/
def encBody (c : Cfg) : Body → Value → Enc Bytes
  | .root _ items, v =>
    match (if items.hasPayload then (v.get? "payload").bind valBytes else some []) with
    | none => .panic .badValue
    | some p => encItems c.e items p v items
  | .derived _ parent _ allCs items, v =>
    match (if items.hasPayload then (v.get? "payload").bind valBytes else some []) with
    | none => .panic .badValue
    | some p =>
      let v' := Value.obj (v.fields ++ allCs.map fun (k, c) => (k, Value.int c))
      (encItems c.e items p v' items).bind fun inner => encAround c parent v' inner
/-- the ancestors' `toBytes(ByteBuffer payload)`, innermost first -/
def encAround (c : Cfg) : Body → Value → Bytes → Enc Bytes
  | .root _ items, v, inner => encItems c.e items inner v items
  | .derived _ parent _ _ items, v, inner =>
    (encItems c.e items inner v items).bind fun x => encAround c parent v x
end

/-! ### the decoder -/

/-- `decode_bytes`: the group as an unsigned bit pattern of its type; `Utils.get24/40/48/56` keep only the octet
    whose shift is 0 (they combine the octets with `>>>`) -/
def getGroup (en : Endian) (width : Nat) (h : Bytes) : Nat :=
  if width = 24 ∨ width = 40 ∨ width = 48 ∨ width = 56 then
    match en with
    | .little => (h.head?.map UInt8.toNat).getD 0
    | .big => (h.getLast?.map UInt8.toNat).getD 0
  else match en with
    | .little => fromLE h
    | .big => fromBE h

/-- `mask(symbol(chunk, chunk_type), offset, width)` -/
def maskField (chunkTy : JT) (chunk off w : Nat) : E :=
  let e := rshift (sym chunkTy chunk) off
  if off = 0 ∧ chunkTy.bits = w then e            -- `leaf_ty` has the field's width: the raw group variable
  else cast (andMask e w) (fitting w)

/-- widening a Java integral value to `int` (sign extension), as a 32-bit pattern -/
def signExtend (e : E) : Nat :=
  if e.ty.bits ≥ 32 then e.val % 2 ^ 32
  else if e.val ≥ 2 ^ (e.ty.bits - 1) then e.val + 2 ^ 32 - 2 ^ e.ty.bits else e.val

/-- a 32-bit pattern read as a signed `int`: `none` when negative -/
def nonNeg (x : Nat) : Option Nat := if x < 2 ^ 31 then some x else none

def decFields (chunkTy : JT) (chunk : Nat) : List BitField → Nat → DState → Dec DState
  | [], _, st => .ok st
  | f :: fs, off, st =>
    let x := (maskField chunkTy chunk off f.width).val % 2 ^ f.width
    let next := decFields chunkTy chunk fs (off + f.width)
    match f with
    | .scalar id _ => next { st with fields := st.fields ++ [(id, .int x)] }
    | .enumTy id _ e => if enumOk e x then next { st with fields := st.fields ++ [(id, .int x)] } else .err .enumValue
    | .fixed _ c => if x = c then next st else .err .fixedValue
    | .reserved _ => next st
    | .size t w m =>
      -- `int xSize = <field> - modifier;` the field expression has its own Java type: the raw group variable (a signed
      -- `byte` / `short` / `int`) when the field is the whole group, an unsigned masked value otherwise
      if w > 32 then .panic .badLayout
      else
        let e := maskField chunkTy chunk off w
        next { st with ctx := (.size t, (signExtend e + 2 ^ 32 - m % 2 ^ 32) % 2 ^ 32) :: st.ctx }
    | .count t w =>
      if w > 32 then .panic .badLayout
      else next { st with ctx := (.count t, signExtend (maskField chunkTy chunk off w)) :: st.ctx }
    | _ => .panic .badLayout

def decChunk (en : Endian) (fs : List BitField) (bs : Bytes) (st : DState) : Dec (DState × Bytes) :=
  let width := chunkBits fs
  let k := width / 8
  if width > 64 then .panic .badLayout
  else if bs.length < k then .err .length       -- BufferUnderflowException
  else (decFields (fitting width) (getGroup en width (bs.take k)) fs 0 st).bind fun st' => .ok (st', bs.drop k)

/-- `count` reads of one scalar element (`decode_bytes(width)`; `BufferUnderflowException` when the buffer ends) -/
def decScalars (en : Endian) (w : Nat) : Nat → Bytes → Dec (List Value × Bytes)
  | 0, bs => .ok ([], bs)
  | n + 1, bs =>
    if bs.length < w / 8 then .err .length
    else (decScalars en w n (bs.drop (w / 8))).bind fun (vs, r) =>
      .ok (.int (getGroup en w (bs.take (w / 8)) % 2 ^ w) :: vs, r)

/-- `count` reads of one enum element: `E.fromByte / fromShort / …(decode_bytes(width))`, which throws for a value a closed
    enum does not declare -/
def decEnums (en : Endian) (e : Enum.Decl) : Nat → Bytes → Dec (List Value × Bytes)
  | 0, bs => .ok ([], bs)
  | n + 1, bs =>
    if bs.length < e.width / 8 then .err .length
    else
      let x := getGroup en e.width (bs.take (e.width / 8)) % 2 ^ e.width
      if !enumOk e x then .err .enumValue
      else (decEnums en e n (bs.drop (e.width / 8))).bind fun (vs, r) => .ok (.int x :: vs, r)

/-- one field of `fromBytes` -/
def decItem (en : Endian) (i : Item) (bs : Bytes) (st : DState) : Dec (DState × Bytes) :=
  match i with
  | .chunk fs => decChunk en fs bs st
  | .payload mode =>
    (match mode with
     | .sized _ =>
       -- `buf.slice(buf.position(), payloadSize)`: the modifier has been subtracted where the size was read
       (match (st.ctx.get (.size "_payload_")).bind nonNeg with
        | none => .err .length
        | some n => if bs.length < n then .err .length else .ok ({ st with payload := some (bs.take n) }, bs.drop n))
     | .last => .ok ({ st with payload := some bs }, [])
     | .beforeStatic k =>
       if bs.length < k then .err .length
       else .ok ({ st with payload := some (bs.take (bs.length - k)) }, bs.drop (bs.length - k))
     | .undelimited => .panic .badLayout)
  | .array id (.scalar w) (.static _) shape none =>
    if w % 8 ≠ 0 ∨ w = 0 ∨ w > 64 then .panic .badLayout
    else
      let eb := w / 8
      let count : Dec Nat := match shape with
        | .static n => .ok n
        | .countField => (match (st.ctx.get (.count id)).bind nonNeg with | some n => .ok n | none => .err .length)
        | .sizeField =>
          (match (st.ctx.get (.size id)).bind nonNeg with
           | some sz => if sz % eb ≠ 0 then .err .arraySize else .ok (sz / eb)
           | none => .err .length)
        | .unknown => if bs.length % eb ≠ 0 then .err .arraySize else .ok (bs.length / eb)
      count.bind fun n => (decScalars en w n bs).bind fun (vs, r') =>
        .ok ({ st with fields := st.fields ++ [(id, Value.arr vs)] }, r')
  | .array id (.enumTy _ e) (.static _) shape none =>
    -- (the same count / size / remaining-octets logic, the elements converted by the enum's `fromX`)
    let w := e.width
    if w % 8 ≠ 0 ∨ w = 0 ∨ w > 64 then .panic .badLayout
    else
      let eb := w / 8
      let count : Dec Nat := match shape with
        | .static n => .ok n
        | .countField => (match (st.ctx.get (.count id)).bind nonNeg with | some n => .ok n | none => .err .length)
        | .sizeField =>
          (match (st.ctx.get (.size id)).bind nonNeg with
           | some sz => if sz % eb ≠ 0 then .err .arraySize else .ok (sz / eb)
           | none => .err .length)
        | .unknown => if bs.length % eb ≠ 0 then .err .arraySize else .ok (bs.length / eb)
      count.bind fun n => (decEnums en e n bs).bind fun (vs, r') =>
        .ok ({ st with fields := st.fields ++ [(id, Value.arr vs)] }, r')
  | _ => .panic .badLayout

def decItems (en : Endian) : Items → Bytes → DState → Dec (DState × Bytes)
  | .nil, bs, st => .ok (st, bs)
  | .cons i r, bs, st => (decItem en i bs st).bind fun (st', bs') => decItems en r bs' st'

/-- `fromBytes(byte[])` -/
def decodeFull (c : Cfg) : Body → Bytes → Dec Value
  | .root _ items, bs =>
    (decItems c.e items bs DState.empty).bind fun (st, r) =>
      if r.isEmpty then
        .ok (.obj (st.fields ++ (match st.payload with
                                 | some p => [("payload", Value.ofBytes p)]
                                 | none => [])))
      else .err .trailingBytes
  | .derived .., _ => .panic .badLayout

/-! ### the layouts of the theorems -/

/-- the class: scalars, enums, fixed values that fit their field (and an `int` literal), reserved bits; no field of
    width 0 -/
def bfOkJ : BitField → Bool
  | .scalar _ w => decide (0 < w) && decide (w ≤ 64)
  | .enumTy _ _ e => decide (0 < e.width) && decide (e.width ≤ 64)
  | .fixed w c => decide (0 < w) && decide (c < 2 ^ w) && decide (c < 2 ^ 31)
  | .reserved w => decide (0 < w)
  | _ => false

def chunkWf (fs : List BitField) : Bool := fs.all bfOkJ && decide (chunkBits fs ≤ 32)

/-- groups the emitted decoder reads with `get` / `getShort` / `getInt` -/
def decWfItems : Items → Bool
  | .nil => true
  | .cons (.chunk fs) r =>
    chunkWf fs && (chunkBits fs == 8 || chunkBits fs == 16 || chunkBits fs == 32) && decWfItems r
  | .cons _ _ => false

/-- packets and structs without parent whose fields are bit-fields, in groups of at most 32 bits -/
def wfItems : Items → Bool
  | .nil => true
  | .cons (.chunk fs) r => chunkWf fs && wfItems r
  | .cons _ _ => false

def wfBody : Body → Bool
  | .root _ items => wfItems items
  | .derived .. => false

/-- bit-fields of the extended parser class: those of `bfOkJ`, and size / count fields that are NOT exactly as wide as a Java
    integral type (such a field is masked and comes out unsigned; one of exactly 8 / 16 / 32 bits is read back signed:
    KF-C19-signed-size), without a size modifier -/
def bfOkD : BitField → Bool
  | .size _ w m => decide (0 < w) && decide (w < (fitting w).bits) && decide (w ≤ 31) && m == 0
  | .count _ w => decide (0 < w) && decide (w < (fitting w).bits) && decide (w ≤ 31)
  | f => bfOkJ f

/-- packets and structs without parent: bit-field groups of 8 / 16 / 32 bits, arrays of 8- / 16- / 32- / 64-bit scalars and
    enums of every shape, payloads -/
def decWfItems2 : Items → Bool
  | .nil => true
  | .cons (.chunk fs) r =>
    fs.all bfOkD && (chunkBits fs == 8 || chunkBits fs == 16 || chunkBits fs == 32) && decWfItems2 r
  | .cons (.payload mode) r => (match mode with | .undelimited => false | .sized m => m == 0 | _ => true) && decWfItems2 r
  | .cons (.array _ (.scalar w) (.static eb) _ none) r =>
    (w == 8 || w == 16 || w == 32 || w == 64) && eb == w / 8 && decWfItems2 r
  | .cons (.array _ (.enumTy _ e) (.static eb) _ none) r =>
    (e.width == 8 || e.width == 16 || e.width == 32 || e.width == 64) && eb == e.width / 8 && decWfItems2 r
  | .cons _ _ => false

/-- bit-fields of the extended serializer class: those of `bfOkJ`, and size / count fields of at most 32 bits -/
def bfOkE : BitField → Bool
  | .size _ w _ => decide (0 < w) && decide (w ≤ 32)
  | .count _ w => decide (0 < w) && decide (w ≤ 32)
  | f => bfOkJ f

/-- packets and structs without parent: bit-field groups of at most 32 bits (size and count fields among them), arrays of
    scalars of a whole number of octets, payloads -/
def encWfItems : Items → Bool
  | .nil => true
  | .cons (.chunk fs) r => fs.all bfOkE && decide (chunkBits fs ≤ 32) && encWfItems r
  | .cons (.payload _) r => encWfItems r
  | .cons (.array _ (.scalar w) (.static _) _ none) r => decide (w % 8 = 0) && decide (0 < w) && decide (w ≤ 64) && encWfItems r
  | .cons (.array _ (.enumTy _ e) (.static _) _ none) r =>
    decide (e.width % 8 = 0) && decide (0 < e.width) && decide (e.width ≤ 64) && encWfItems r
  | .cons _ _ => false

/-- the ancestors of a child of the serializer theorem: in the class, with exactly one payload each -/
def encWfChain : Body → Bool
  | .root _ items => encWfItems items && items.hasPayload && decide ((payloadModes items).length ≤ 1)
  | .derived _ parent _ _ items =>
    encWfItems items && items.hasPayload && decide ((payloadModes items).length ≤ 1) && encWfChain parent

def encWfChild : Body → Bool
  | .derived nm parent cs allCs items => encWfItems items && encWfChain parent && lenWfBody (.derived nm parent cs allCs items)
  | .root .. => false

end Java
end Pdlv
