/-
  Pdlv.Java — model of what the Java back end emits for BIT-FIELD GROUPS (pdl-compiler/src/backends/java:
  `codegen/packet.rs` encoder / decoder, `codegen/mod.rs` `to_num` / `from_num` / `encode_bytes` / `decode_bytes`,
  `codegen/expr.rs` `ExprTree`, `preamble.rs` `Utils.putNN` / `getNN`), for packets and structs without parent whose
  fields are all bit-fields (scalars, enums, fixed values, reserved bits).

  Java has signed integral types only.  `ExprTree` builds typed expressions (`byte` / `short` / `int` / `long`) and
  inserts unsigned widening casts (`Byte.toUnsignedInt` …); what it emits is evaluated here as Java evaluates it:
  * every binary operator is computed in `max(type of the operands, int)` and wraps at that width; a shift uses the
    low 5 (int) / 6 (long) bits of its distance;
  * **encoder** — each field is shifted to its offset IN ITS OWN TYPE widened to at least `int` (`lshift`), the shifted
    fields are then cast to the widest type among them and OR-ed (`or_all`), and the result is cast to the group's type:
    a field of at most 32 bits whose offset + width exceeds 32 loses bits (KF-C19-int-chunk);
  * **decoder** — the group is read with `get` / `getShort` / `getInt` / `getLong` or, for 24 / 40 / 48 / 56 bits, with
    `Utils.getNN`, whose bytes are combined with `>>>` where `<<` is meant: only the least significant octet survives
    (KF-C19-get24); each field is `(group >>> offset) & mask`, except a field that IS the whole group, which is the raw
    (signed) group variable.
  Sizes, counts, arrays, payloads, typedef fields and children are not modelled (`.panic .badLayout`).
-/
import Pdlv.Static

namespace Pdlv
namespace Java

inductive JT | byte | short | int | long
deriving DecidableEq, Repr, Inhabited

def JT.bits : JT → Nat
  | .byte => 8 | .short => 16 | .int => 32 | .long => 64

def JT.rank : JT → Nat
  | .byte => 0 | .short => 1 | .int => 2 | .long => 3

def maxT (a b : JT) : JT := if a.rank < b.rank then b else a

/-- `Integral::fitting` -/
def fitting (w : Nat) : JT :=
  if w ≤ 8 then .byte else if w ≤ 16 then .short else if w ≤ 32 then .int else .long

/-- `Integral::limit_to_int` -/
def limitToInt (t : JT) : JT := maxT t .int

/-- an `ExprTree` node with what Java computes for it: `ty` is `ExprTree::ty`, `lit` the literal it denotes (if it is
    one, through casts and parentheses), `val` the value as an unsigned bit pattern of `ty.bits` bits -/
structure E where
  ty : JT
  lit : Option Nat
  val : Nat
deriving Repr, Inhabited

def sym (t : JT) (v : Nat) : E := { ty := t, lit := none, val := v % 2 ^ t.bits }
def num (n : Nat) : E := { ty := .int, lit := some n, val := n % 2 ^ 32 }

/-- `ExprTree::cast` / `gen_cast`: unsigned widening, truncating narrowing -/
def cast (e : E) (to : JT) : E :=
  if e.ty = to then e else { ty := to, lit := e.lit, val := e.val % 2 ^ to.bits }

/-- `ExprTree::lshift`: pruned for a literal 0 on either side, else `<<` in `max(lhs, int)` -/
def lshift (l : E) (off : Nat) : E :=
  if l.lit = some 0 || off = 0 then l
  else
    let t := limitToInt l.ty
    { ty := t, lit := none, val := ((cast l t).val * 2 ^ (off % t.bits)) % 2 ^ t.bits }

/-- `ExprTree::rshift` (`>>>`) -/
def rshift (l : E) (off : Nat) : E :=
  if l.lit = some 0 || off = 0 then l
  else
    let t := limitToInt l.ty
    { ty := t, lit := none, val := (cast l t).val / 2 ^ (off % t.bits) }

/-- `ExprTree::and` with a mask literal -/
def andMask (l : E) (width : Nat) : E :=
  let t := limitToInt l.ty
  { ty := t, lit := none, val := (cast l t).val % 2 ^ width % 2 ^ t.bits }

/-- `ExprTree::or_all`: every operand cast to the widest type among them, then OR-ed -/
def orAll (es : List E) : E :=
  match es with
  | [] => num 0
  | e :: rest =>
    let t := (e :: rest).foldl (fun a x => maxT a x.ty) .byte
    { ty := t, lit := (if rest.isEmpty then e.lit else none),
      val := (e :: rest).foldl (fun a x => a ||| (cast x t).val) 0 }

/-- the value of one bit-field as `to_num` presents it to the packer -/
def toNum (v : Value) : BitField → Enc E
  | .scalar id w => (natField v id).bind fun x =>
      if x ≥ 2 ^ w then .panic .badValue        -- the setter refuses it
      else .ok (sym (if w = 1 then .int else fitting w) x)
  | .enumTy id _ e => (natField v id).bind fun x =>
      if x ≥ 2 ^ e.width then .panic .badValue else .ok (sym (fitting e.width) x)
  | .fixed _ c => if c < 2 ^ 31 then .ok (num c) else .panic .badLayout   -- (an int literal: KF-C10-java-largeLiteral)
  | .reserved _ => .ok (num 0)
  | _ => .panic .badLayout

def packFields (v : Value) : List BitField → Nat → Enc (List E)
  | [], _ => .ok []
  | f :: fs, off => (toNum v f).bind fun e => (packFields v fs (off + f.width)).bind fun r => .ok (lshift e off :: r)

/-- the octets `encode_bytes` writes for a group of `width` bits holding `x` -/
def putGroup (en : Endian) (width x : Nat) : Bytes := putUint en width (x % 2 ^ width)

def encChunk (en : Endian) (v : Value) (fs : List BitField) : Enc Bytes :=
  let width := chunkBits fs
  if width > 64 then .panic .badLayout
  else (packFields v fs 0).bind fun es => .ok (putGroup en width (cast (orAll es) (fitting width)).val)

def encItems (en : Endian) (v : Value) : Items → Enc Bytes
  | .nil => .ok []
  | .cons (.chunk fs) r => (encChunk en v fs).bind fun a => (encItems en v r).bind fun b => .ok (a ++ b)
  | .cons _ _ => .panic .badLayout

/-- `toBytes()` -/
def encBody (c : Cfg) : Body → Value → Enc Bytes
  | .root _ items, v => encItems c.e v items
  | .derived .., _ => .panic .badLayout

/-! ### the decoder -/

/-- `decode_bytes`: the group as an unsigned bit pattern of its type; `Utils.get24/40/48/56` keep only the octet
    whose shift is 0 (they combine the octets with `>>>`) -/
def getGroup (en : Endian) (width : Nat) (h : Bytes) : Nat :=
  if width = 24 ∨ width = 40 ∨ width = 48 ∨ width = 56 then
    match en with
    | .little => (h.head?.map UInt8.toNat).getD 0
    | .big => (h.getLast?.map UInt8.toNat).getD 0
  else match en with
    | .little => fromLE h
    | .big => fromBE h

/-- `mask(symbol(chunk, chunk_type), offset, width)` -/
def maskField (chunkTy : JT) (chunk off w : Nat) : E :=
  let e := rshift (sym chunkTy chunk) off
  if off = 0 ∧ chunkTy.bits = w then e            -- `leaf_ty` has the field's width: the raw group variable
  else cast (andMask e w) (fitting w)

def decFields (chunkTy : JT) (chunk : Nat) : List BitField → Nat → DState → Dec DState
  | [], _, st => .ok st
  | f :: fs, off, st =>
    let x := (maskField chunkTy chunk off f.width).val % 2 ^ f.width
    let next := decFields chunkTy chunk fs (off + f.width)
    match f with
    | .scalar id _ => next { st with fields := st.fields ++ [(id, .int x)] }
    | .enumTy id _ e => if enumOk e x then next { st with fields := st.fields ++ [(id, .int x)] } else .err .enumValue
    | .fixed _ c => if x = c then next st else .err .fixedValue
    | .reserved _ => next st
    | _ => .panic .badLayout

def decChunk (en : Endian) (fs : List BitField) (bs : Bytes) (st : DState) : Dec (DState × Bytes) :=
  let width := chunkBits fs
  let k := width / 8
  if width > 64 then .panic .badLayout
  else if bs.length < k then .err .length       -- BufferUnderflowException
  else (decFields (fitting width) (getGroup en width (bs.take k)) fs 0 st).bind fun st' => .ok (st', bs.drop k)

def decItems (en : Endian) : Items → Bytes → DState → Dec (DState × Bytes)
  | .nil, bs, st => .ok (st, bs)
  | .cons (.chunk fs) r, bs, st => (decChunk en fs bs st).bind fun (st', bs') => decItems en r bs' st'
  | .cons _ _, _, _ => .panic .badLayout

/-- `fromBytes(byte[])` -/
def decodeFull (c : Cfg) : Body → Bytes → Dec Value
  | .root _ items, bs =>
    (decItems c.e items bs DState.empty).bind fun (st, r) =>
      if r.isEmpty then .ok (.obj st.fields) else .err .trailingBytes
  | .derived .., _ => .panic .badLayout

/-! ### the layouts of the theorems -/

/-- the class: scalars, enums, fixed values that fit their field (and an `int` literal), reserved bits; no field of
    width 0 -/
def bfOkJ : BitField → Bool
  | .scalar _ w => decide (0 < w) && decide (w ≤ 64)
  | .enumTy _ _ e => decide (0 < e.width) && decide (e.width ≤ 64)
  | .fixed w c => decide (0 < w) && decide (c < 2 ^ w) && decide (c < 2 ^ 31)
  | .reserved w => decide (0 < w)
  | _ => false

def chunkWf (fs : List BitField) : Bool := fs.all bfOkJ && decide (chunkBits fs ≤ 32)

/-- groups the emitted decoder reads with `get` / `getShort` / `getInt` -/
def decWfItems : Items → Bool
  | .nil => true
  | .cons (.chunk fs) r =>
    chunkWf fs && (chunkBits fs == 8 || chunkBits fs == 16 || chunkBits fs == 32) && decWfItems r
  | .cons _ _ => false

/-- packets and structs without parent whose fields are bit-fields, in groups of at most 32 bits -/
def wfItems : Items → Bool
  | .nil => true
  | .cons (.chunk fs) r => chunkWf fs && wfItems r
  | .cons _ _ => false

def wfBody : Body → Bool
  | .root _ items => wfItems items
  | .derived .. => false

end Java
end Pdlv
