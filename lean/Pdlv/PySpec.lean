/-
  Pdlv.PySpec — model of the specialization the Python back end emits (python.rs `generate_packet_parser`,
  `get_specialized_children`): after its own fields a packet's `parse` TRIES each child in declaration order
  (children that add nothing but a payload are replaced by their own children) and returns the first one whose
  `parse` raises nothing and leaves nothing of the payload; any exception — a constraint that does not hold, a
  `DecodeError`, but also an `IndexError` or `TypeError` — is swallowed (`except Exception: pass`), and the
  packet itself is returned when no child fits.

  A child's `parse(fields, span)` checks the constraints of its whole chain on the inherited `fields`, parses
  its own fields from the parent's payload with the emitted `FieldParser` (`Pdlv.Py.decItems`) and specializes
  further; the value of a child is assembled as the reference does (`decPartialWith`: own fields, then the
  inherited ones that are not constrained, then the payload) — the Python object is a dictionary, so the order
  is the model's choice.
-/
import Pdlv.Py
import Pdlv.Resolve

namespace Pdlv
namespace PySpec

/-- a declaration with the children its `parse` tries, in order (aliases already replaced by their children) -/
inductive Node
  | mk (body : Body) (extra : List (String × Nat)) (kids : List Node)

def bodyName : Body → String
  | .root nm _ => nm
  | .derived nm .. => nm

mutual
/-- `Child.parse(fields.copy(), payload)` followed by the `if remainder: raise` of the caller -/
def child (c : Cfg) : Node → Value → Dec (String × Value)
  | .mk (.derived nm parent cs _ items) extra ks, pv =>
    -- (`extra`: the constraints of the alias parents that were skipped on the way to this child; the constraints
    --  of the other ancestors were checked on the same values when their `parse` was entered)
    (decPartialWith (fun bs => Py.decItems c items false bs DState.empty) parent (cs ++ extra) pv).bind fun v =>
      match kids c ks v with
      | some r => .ok r
      | none => .ok (nm, v)
  | .mk (.root ..) _ _, _ => .panic .badLayout
/-- the `try: … except Exception: pass` chain over the children -/
def kids (c : Cfg) : List Node → Value → Option (String × Value)
  | [], _ => none
  | k :: ks, pv =>
    match child c k pv with
    | .ok r => some r
    | _ => kids c ks pv
end

/-- `Root.parse_all(bytes)`: the most specialized packet and its field values -/
def parseAll (c : Cfg) : Node → Bytes → Dec (String × Value)
  | .mk (.root nm items) _ ks, bs =>
    (Py.decodeFull c (.root nm items) bs).bind fun v =>
      match kids c ks v with
      | some r => .ok r
      | none => .ok (nm, v)
  | .mk (.derived ..) _ _, _ => .panic .badLayout

mutual
/-- the layouts of a tree: no skipped alias, every node's own fields in the class of the parser theorem -/
def wfNode : Node → Bool
  | .mk (.derived _ _ _ _ items) extra ks => extra.isEmpty && Py.wfItems items && wfNodes ks
  | .mk (.root _ items) extra ks => extra.isEmpty && Py.wfItems items && wfNodes ks
def wfNodes : List Node → Bool
  | [] => true
  | k :: ks => wfNode k && wfNodes ks
end

/-! ### building the tree from an analyzed file -/

def isAlias (d : Decl) : Bool :=
  d.fields.all fun fl => match fl.desc with | .payload _ | .body => true | _ => false

def addExtra (cs : List (String × Nat)) : Node → Node
  | .mk b e ks => .mk b (e ++ cs) ks

mutual
/-- `get_specialized_children` -/
def specKids (f : File) : Nat → Decl → Option (List Node)
  | 0, _ => none
  | fuel + 1, d => specList f fuel (f.children d)
def specList (f : File) : Nat → List Decl → Option (List Node)
  | _, [] => some []
  | fuel, k :: ks =>
    match specList f fuel ks with
    | none => none
    | some rest =>
      if isAlias k then
        match fuel, k.id?.bind (Resolve.resolve f) with
        | fuel' + 1, some (.derived _ _ cs _ _) =>
          (specKids f (fuel' + 1) k).map fun ns => ns.map (addExtra cs) ++ rest
        | _, _ => none
      else
        match k.id?.bind (Resolve.resolve f), specKids f fuel k with
        | some b, some ks' => some (.mk b [] ks' :: rest)
        | _, _ => none
end

def tree (f : File) (root : String) : Option Node :=
  match f.lookup root, Resolve.resolve f root with
  | some d, some b => (specKids f (f.decls.length + 2) d).map (Node.mk b [])
  | _, _ => none

end PySpec
end Pdlv
