/-
  Pdlv.Static — the static octet size of a layout, computed on the IR the way
  `Schema::total_size` classifies it (a constant exactly when every part is constant; an
  array followed by padding counts at its padded size).
-/
import Pdlv.Wire

namespace Pdlv

mutual
def staticTy : Ty → Option Nat
  | .scalar w => some (w / 8)
  | .enumTy _ e => some (e.width / 8)
  | .custom _ w => some (w / 8)
  | .struct _ b => staticBody b

def staticItem : Item → Option Nat
  | .chunk fs => some (chunkBits fs / 8)
  | .typedef _ ty _ => staticTy ty
  | .optional .. => none
  | .payload _ => none
  | .array _ elem _ shape pad =>
    match pad with
    | some p => some p
    | none =>
      match shape with
      | .static n => (staticTy elem).map (n * ·)
      | _ => none

def staticItems : Items → Option Nat
  | .nil => some 0
  | .cons i r =>
    match staticItem i, staticItems r with
    | some a, some b => some (a + b)
    | _, _ => none

def staticBody : Body → Option Nat
  | .root _ items => staticItems items
  | .derived .. => none
end

/-! ### what `encoded_len` relies on -/

mutual
/-- the static annotations of the layout agree with the types: a typedef / array element annotated
    with a static width has that static size (what `Schema` computes; C16); a field is typed by a
    struct without parent -/
def lenWfTy : Ty → Bool
  | .struct _ (.root _ items) => lenWfItems items
  | .struct _ (.derived ..) => false
  | _ => true
def lenWfItem : Item → Bool
  | .typedef _ ty sb => (match sb with | some n => staticTy ty == some n | none => true) && lenWfTy ty
  | .optional _ ty _ _ => lenWfTy ty
  | .array _ elem ew _ _ => (match ew with | .static w => staticTy elem == some w | _ => true) && lenWfTy elem
  | _ => true
def lenWfItems : Items → Bool
  | .nil => true
  | .cons i r => lenWfItem i && lenWfItems r
def lenWfBody : Body → Bool
  | .root _ items => lenWfItems items
  | .derived _ parent _ _ items => lenWfItems items && lenWfBody parent && parent.hasPayload
end

/-- `lenItems` with the payload item counted as `n` octets -/
def lenItemsP : Items → Value → Nat → Nat
  | .nil, _, _ => 0
  | .cons (.payload _) r, v, n => n + lenItemsP r v n
  | .cons i r, v, n => lenItem i v + lenItemsP r v n

/-- octets around an inner encoding of `n` octets, level by level up to the root -/
def aroundLen : Body → Value → Nat → Nat
  | .root _ items, v, n => lenItemsP items v n
  | .derived _ parent _ _ items, v, n => aroundLen parent v (lenItemsP items v n)

/-- the value an inheriting packet is serialized from: its data fields plus the constants its
    constraints (and its ancestors') fix -/
def withConstants (allCs : List (String × Nat)) (v : Value) : Value :=
  Value.obj (v.fields ++ allCs.map fun (k, c) => (k, Value.int c))

/-- length of the whole encoding as `encoded_len()` computes it: own items, wrapped by each
    ancestor's items -/
def encLen : Body → Value → Nat
  | .root _ items, v => lenItems items v
  | .derived _ parent _ allCs items, v =>
    aroundLen parent (withConstants allCs v) (lenItems items (withConstants allCs v))

/-! ### what the decoder relies on -/

/-- the context entries a chunk binds, in the order the emitted code binds them -/
def chunkKeys : List BitField → List Key
  | [] => []
  | .scalar id _ :: r => .val id :: chunkKeys r
  | .flag id _ :: r => .val id :: chunkKeys r
  | .enumTy id _ _ :: r => .val id :: chunkKeys r
  | .size t _ _ :: r => .size t :: chunkKeys r
  | .count t _ :: r => .count t :: chunkKeys r
  | .elemSize t _ :: r => .esize t :: chunkKeys r
  | .fixed .. :: r => chunkKeys r
  | .reserved _ :: r => chunkKeys r

/-- context entries available after an item -/
def availAfter (avail : List Key) : Item → List Key
  | .chunk fs => chunkKeys fs ++ avail
  | _ => avail

def Ty.selfGuarded : Ty → Bool
  | .custom .. | .struct .. => true
  | _ => false

def Ty.isStruct : Ty → Bool
  | .struct .. => true
  | _ => false

mutual
/-- octets every successful decode consumes at least -/
def minTy : Ty → Nat
  | .scalar w => w / 8
  | .enumTy _ e => e.width / 8
  | .custom _ w => w / 8
  | .struct _ b => minBody b
def minItem : Item → Nat
  | .chunk fs => chunkBits fs / 8
  | .typedef _ ty _ => minTy ty
  | .optional .. => 0
  | .payload _ => 0
  | .array _ _ _ _ pad => pad.getD 0
def minItems : Items → Nat
  | .nil => 0
  | .cons i r => minItem i + minItems r
def minBody : Body → Nat
  | .root _ items => minItems items
  | .derived _ parent _ _ _ => minBody parent
end

mutual
/-- the layout is one the decoder generator handles: every context entry an item reads is bound
    by an earlier chunk, plain typedef fields are custom fields or structs, elements without a
    static width are structs that consume at least one octet (loops make progress), static
    element widths are positive and agree with the element type -/
def decWfTy : Ty → Bool
  | .struct _ b => decWfBody b
  | _ => true
def decWfItem (avail : List Key) : Item → Bool
  | .chunk _ => true
  | .typedef _ ty _ => ty.selfGuarded && decWfTy ty
  | .optional _ ty cid _ => avail.contains (.val cid) && decWfTy ty
  | .payload mode =>
    (match mode with
     | .sized _ => avail.contains (.size "_payload_")
     | .undelimited => false
     | _ => true)
  | .array id elem ew shape _ =>
    decWfTy elem &&
    (match ew with
     | .static w => decide (w > 0) && (elem.selfGuarded || staticTy elem == some w)
     | .dynamic => avail.contains (.esize id) && elem.selfGuarded
     | .unknown => elem.selfGuarded && decide (minTy elem > 0)) &&
    (match shape with
     | .countField => avail.contains (.count id)
     | .sizeField => avail.contains (.size id)
     | _ => true)
def decWfItems (avail : List Key) : Items → Bool
  | .nil => true
  | .cons i r =>
    decWfItem avail i &&
    decWfItems (availAfter avail i) r
def decWfBody : Body → Bool
  | .root _ items => decWfItems [] items
  | .derived _ parent _ _ items => decWfBody parent && decWfItems [] items
end

/-! ### what the equality "encoder model in reference mode = bit-level reference" relies on -/

/-- the first array item with the given identifier -/
def firstArray : Items → String → Option (Ty × ElemWidth)
  | .nil, _ => none
  | .cons (.array id elem ew _ _) r, t => if id == t then some (elem, ew) else firstArray r t
  | .cons _ r, t => firstArray r t

def arrayIds : Items → List String
  | .nil => []
  | .cons (.array id ..) r => id :: arrayIds r
  | .cons _ r => arrayIds r

/-- what the analyzer guarantees about a bit-field (E48: condition values are 0 / 1, E32: a fixed
    value fits its width) and what `Pdlv.Resolve` normalises (`_body_` → `_payload_`) -/
def bfOk : BitField → Bool
  | .flag _ opts => opts.all (fun o => decide (o.2 ≤ 1))
  | .fixed w c => decide (c < 2 ^ w)
  | .size t _ _ => t != "_body_"
  | .count _ w => decide (w ≤ 64)
  | _ => true

/-- the target of a count / size / element-size field is an array of the field list (E24, E27, E30) -/
def targetOk (all : Items) : BitField → Bool
  | .size t _ _ => t == "_payload_" || (firstArray all t).isSome
  | .count t _ => (firstArray all t).isSome
  | .elemSize t _ => (firstArray all t).isSome
  | _ => true

mutual
/-- integer-valued element / field types are whole octets (E52 and the alignment rules); a field
    is typed by a struct without parent -/
def refWfTy : Ty → Bool
  | .scalar w => w % 8 == 0
  | .enumTy _ e => e.width % 8 == 0
  | .custom _ w => w % 8 == 0
  | .struct _ (.root _ items) => refWfItems items items && lenWfItems items && decide ((arrayIds items).Nodup)
  | .struct _ (.derived ..) => false
def refWfItem (all : Items) : Item → Bool
  | .chunk fs => chunkBits fs % 8 == 0 && fs.all (fun f => bfOk f && targetOk all f)
  | .typedef _ ty _ => refWfTy ty
  | .optional _ ty _ _ => refWfTy ty
  | .array _ elem _ _ _ => refWfTy elem && lenWfTy elem
  | .payload _ => true
def refWfItems (all : Items) : Items → Bool
  | .nil => true
  | .cons i r => refWfItem all i && refWfItems all r
end

/-- packets and structs without parent, and children of a packet without parent -/
def refWfBody : Body → Bool
  | .root _ items => refWfItems items items && lenWfItems items && decide ((arrayIds items).Nodup)
  | .derived _ (.root _ pitems) _ _ items =>
    refWfItems items items && lenWfItems items && decide ((arrayIds items).Nodup) &&
    refWfItems pitems pitems && lenWfItems pitems && decide ((arrayIds pitems).Nodup) && pitems.hasPayload
  | .derived _ (.derived ..) _ _ _ => false

/-! ### array size modifiers (`x: T[+n]`), which the Rust back end ignores (KF-C03-array-size-modifier) -/

def bfNoArrayMod : BitField → Bool
  | .size t _ m => t == "_payload_" || t == "_body_" || m == 0
  | _ => true

mutual
def noModTy : Ty → Bool
  | .struct _ b => noModBody b
  | _ => true
def noModItem : Item → Bool
  | .chunk fs => fs.all bfNoArrayMod
  | .typedef _ ty _ => noModTy ty
  | .optional _ ty _ _ => noModTy ty
  | .array _ elem _ _ _ => noModTy elem
  | .payload _ => true
def noModItems : Items → Bool
  | .nil => true
  | .cons i r => noModItem i && noModItems r
def noModBody : Body → Bool
  | .root _ items => noModItems items
  | .derived _ parent _ _ items => noModItems items && noModBody parent
end

/-! ### what the round trip relies on -/

/-- the optional items of a field list: (condition flag id, field id, condition value) -/
def optItems : Items → List (String × String × Nat)
  | .nil => []
  | .cons (.optional id _ cid cval) r => (cid, id, cval) :: optItems r
  | .cons _ r => optItems r

def payloadMode : Items → Option PayloadMode
  | .nil => none
  | .cons (.payload m) _ => some m
  | .cons _ r => payloadMode r

/-- a bit-field as the round trip needs it (on top of `bfOk`): the flag lists every optional field
    it governs with its condition value; no optional field is governed by a plain scalar; the
    payload's size field and the payload item carry the same modifier; count fields are narrower
    than `usize` -/
def bfRtOk (all : Items) : BitField → Bool
  | .flag id opts =>
    opts.all (fun o => decide (o.2 ≤ 1)) &&
    (optItems all).all (fun (cid, oid, cval) => cid != id || opts.contains (oid, cval))
  | .scalar id _ => (optItems all).all (fun (cid, _, _) => cid != id)
  | .enumTy id _ _ => (optItems all).all (fun (cid, _, _) => cid != id)
  | .fixed w c => decide (c < 2 ^ w)
  | .size t _ m =>
    t != "_body_" && (t != "_payload_" || payloadMode all == some (.sized m)) &&
    (t == "_payload_" || (firstArray all t).isSome)
  | .count t w => decide (w < 64) && (firstArray all t).isSome
  | .elemSize t _ => (firstArray all t).isSome
  | .reserved _ => true

/-! ### the fields a chunk contributes to the decoded value -/

def canonChunk (v : Value) : List BitField → List (String × Value)
  | [] => []
  | .scalar id _ :: r => (id, (v.get? id).getD .null) :: canonChunk v r
  | .enumTy id _ _ :: r => (id, (v.get? id).getD .null) :: canonChunk v r
  | _ :: r => canonChunk v r

/-- the payload octets of a value -/
def payloadBytes (v : Value) : Bytes := ((v.get? "payload").bind valBytes).getD []

mutual
/-- the value the decoder builds for a value the encoder accepts: fields in declaration order,
    nested struct values normalised the same way, the payload as a list of octets -/
def canonTy : Ty → Value → Value
  | .struct _ b, x => canonBody b x
  | _, x => x
def canonItem : Item → Value → List (String × Value)
  | .chunk fs, v => canonChunk v fs
  | .typedef id ty _, v => [(id, canonTy ty ((v.get? id).getD .null))]
  | .optional id ty _ _, v => [(id, if isPresent v id then canonTy ty ((v.get? id).getD .null) else .null)]
  | .payload _, _ => []
  | .array id elem _ _ _, v => [(id, .arr ((((v.get? id).bind Value.asList?).getD []).map (canonTy elem)))]
def canonItems : Items → Value → List (String × Value)
  | .nil, _ => []
  | .cons i r, v => canonItem i v ++ canonItems r v
def canonBody : Body → Value → Value
  | .root _ items, v =>
    .obj (canonItems items v ++ (if items.hasPayload then [("payload", Value.ofBytes (payloadBytes v))] else []))
  | .derived .., v => v
end

/-- octets every encoding contains at least (chunks and padded arrays) -/
def minEnc : Items → Nat
  | .nil => 0
  | .cons (.chunk fs) r => chunkBits fs / 8 + minEnc r
  | .cons (.array _ _ _ _ (some p)) r => p + minEnc r
  | .cons _ r => minEnc r

/-- items that take "all the rest" of their span -/
def greedyItem : Item → Bool
  | .payload (.sized _) => false
  | .payload _ => true
  | .array _ _ _ .unknown none => true
  | _ => false

def greedyItems : Items → Bool
  | .nil => false
  | .cons i r => greedyItem i || greedyItems r

/-- what follows a greedy item: nothing, or (payload before static fields) exactly `k` static octets -/
def tailOk : Item → Items → Bool
  | .payload .last, r => (match r with | .nil => true | _ => false)
  | .payload (.beforeStatic k), r => staticItems r == some k && !greedyItems r
  | .payload .undelimited, _ => false
  | .array _ _ _ .unknown none, r => (match r with | .nil => true | _ => false)
  | .array _ _ _ .unknown (some _), _ => false     -- an unsized array in a padded span absorbs the padding
  | _, _ => true

def payloadModes : Items → List PayloadMode
  | .nil => []
  | .cons (.payload m) r => m :: payloadModes r
  | .cons _ r => payloadModes r

def arrayItems : Items → List (String × Ty × ElemWidth)
  | .nil => []
  | .cons (.array id elem ew _ _) r => (id, elem, ew) :: arrayItems r
  | .cons _ r => arrayItems r

mutual
/-- the round-trippable class: whole-octet integers, structs without parent that are delimited
    (not greedy) when used as field types, element widths that agree with the element type, no
    element-size arrays, no array size modifiers, flags that list the fields they govern -/
def rtWfTy : Ty → Bool
  | .scalar w => w % 8 == 0
  | .enumTy _ e => e.width % 8 == 0
  | .custom _ w => w % 8 == 0
  | .struct _ (.root _ items) =>
    rtWfItems items items && decWfItems [] items && decide ((arrayIds items).Nodup) && !greedyItems items &&
    decide ((payloadModes items).length ≤ 1)
  | .struct _ (.derived ..) => false
def rtWfItem (all : Items) : Item → Bool
  | .chunk fs => chunkBits fs % 8 == 0 && fs.all (fun f => bfRtOk all f && bfNoArrayMod f)
  | .typedef _ ty _ => rtWfTy ty && ty.selfGuarded
  | .optional _ ty _ _ => rtWfTy ty
  | .payload _ => true
  | .array id elem ew _ _ =>
    rtWfTy elem && lenWfTy elem && id != "_payload_" &&
    (match ew with
     | .static w => decide (0 < w) && staticTy elem == some w
     | .dynamic => false
     | .unknown => (match elem with
        | .struct _ (.root _ items) => decide (0 < minEnc items) && lenWfItems items
        | _ => false))
def rtWfItems (all : Items) : Items → Bool
  | .nil => true
  | .cons i r => rtWfItem all i && tailOk i r && rtWfItems all r
end

def rtWfBody : Body → Bool
  | .root _ items =>
    rtWfItems items items && decWfItems [] items && decide ((arrayIds items).Nodup) &&
    decide ((payloadModes items).length ≤ 1)
  | .derived .. => false

/-! ### inheritance: what the decoder of an inheriting packet builds (C02 through ancestors) -/

/-- the fields a decoded value of `b` carries before its payload: the own fields, then the ancestors'
    fields that `decode_partial` copies (everything but the payload and the fields this level constrains) -/
def fieldsAround : Body → Value → List (String × Value)
  | .root _ items, v => canonItems items v
  | .derived _ parent cs _ items, v =>
    canonItems items v ++ (fieldsAround parent v).filter fun (k, _) => k != "payload" && !(cs.any (·.1 == k))

/-- the value `decode` returns for the encoding of `v`, any body: fields as `fieldsAround`, then the payload -/
def canonFull : Body → Value → Value
  | .root nm items, v => canonBody (.root nm items) v
  | .derived nm parent cs allCs items, v =>
    .obj (fieldsAround (.derived nm parent cs allCs items) (withConstants allCs v) ++
      (if items.hasPayload then [("payload", Value.ofBytes (payloadBytes v))] else []))

/-- where the first field named `k` of a chunk is: `some true` = a scalar / enum field -/
def chunkFind : List BitField → String → Option Bool
  | [], _ => none
  | .scalar id _ :: r, k => if id == k then some true else chunkFind r k
  | .enumTy id _ _ :: r, k => if id == k then some true else chunkFind r k
  | _ :: r, k => chunkFind r k

def itemFind : Item → String → Option Bool
  | .chunk fs, k => chunkFind fs k
  | .typedef id _ _, k => if id == k then some false else none
  | .optional id _ _ _, k => if id == k then some false else none
  | .array id _ _ _ _, k => if id == k then some false else none
  | .payload _, _ => none

def itemsFind : Items → String → Option Bool
  | .nil, _ => none
  | .cons i r, k => (itemFind i k).or (itemsFind r k)

/-- first field named `k` among `fieldsAround b`: `some true` = a scalar / enum bit-field, `some false` =
    another kind of field, `none` = no such field -/
def bodyFind : Body → String → Option Bool
  | .root _ items, k => itemsFind items k
  | .derived _ parent cs _ items, k =>
    (itemsFind items k).or (if k != "payload" && !(cs.any (·.1 == k)) then bodyFind parent k else none)

def Body.allCs : Body → List (String × Nat)
  | .root .. => []
  | .derived _ _ _ a _ => a

/-- one level of the round-trippable class -/
def rtWfLevel (items : Items) : Bool :=
  rtWfItems items items && decWfItems [] items && decide ((arrayIds items).Nodup) &&
  decide ((payloadModes items).length ≤ 1) && lenWfItems items

/-- a constraint `(k, cv)` of a level whose parent is `gp`, in a packet whose leaf fixes `leafCs`: the leaf
    serializes `cv` for `k`, and `k` is a scalar / enum field visible in the parent value or a field an
    ancestor already constrains to the same value -/
def constraintOk (leafCs : List (String × Nat)) (gp : Body) (kc : String × Nat) : Bool :=
  leafCs.lookup kc.1 == some kc.2 && kc.1 != "payload" &&
  (bodyFind gp kc.1 == some true || (bodyFind gp kc.1 == none && gp.allCs.lookup kc.1 == some kc.2))

/-- the ancestors of a round-trippable inheriting packet -/
def rtWfChain (leafCs : List (String × Nat)) : Body → Bool
  | .root _ items => rtWfLevel items && items.hasPayload && itemsFind items "payload" == none
  | .derived nm gp cs a items =>
    rtWfLevel items && items.hasPayload && bodyFind (.derived nm gp cs a items) "payload" == none &&
    cs.all (constraintOk leafCs gp) && rtWfChain leafCs gp

/-- "takes all the rest" is decided at the outermost ancestor -/
def greedyBody : Body → Bool
  | .root _ items => greedyItems items
  | .derived _ parent _ _ _ => greedyBody parent

/-- the round-trippable class, inheriting packets included -/
def rtWfFull : Body → Bool
  | .root nm items => rtWfBody (.root nm items)
  | .derived _ parent cs allCs items =>
    rtWfLevel items && cs.all (constraintOk allCs parent) && rtWfChain allCs parent

/-- the value has no field of its own under a constrained name (such a field does not exist in the
    generated type) -/
def noConstrained (allCs : List (String × Nat)) (v : Value) : Bool :=
  allCs.all fun kc => (v.get? kc.1).isNone

/-! ### the slack-free class (C04): every accepted input is the reference encoding of the value returned -/

def arrayShape : Items → String → Option Shape
  | .nil, _ => none
  | .cons (.array id _ _ sh _) r, t => if id == t then some sh else arrayShape r t
  | .cons _ r, t => arrayShape r t

/-- a bit-field of the slack-free class: a value (≤ 64 bits), a constant, or a size / count field whose
    target follows in the field list and is delimited by it (`later`: the items after the chunk) -/
def bfExact (later : Items) : BitField → Bool
  | .scalar _ w => decide (w ≤ 64)
  | .enumTy _ _ e => decide (e.width ≤ 64)
  | .fixed w c => decide (c < 2 ^ w)
  | .size t _ m =>
    if t == "_payload_" then payloadMode later == some (.sized m)
    else t != "_body_" && m == 0 && arrayShape later t == some .sizeField
  | .count t w => decide (w < 64) && arrayShape later t == some .countField
  | .flag id opts =>
    -- a condition flag: its value is 0 / 1 and every optional field it lists follows, governed by it
    !opts.isEmpty && opts.all (fun o => decide (o.2 ≤ 1)) &&
    opts.all (fun o => (optItems later).contains (id, o.1, o.2))
  | _ => false

/-- context keys bound by the chunks of a field list -/
def keysBound : Items → List Key
  | .nil => []
  | .cons (.chunk fs) r => chunkKeys fs ++ keysBound r
  | .cons _ r => keysBound r

def chunkIds : List BitField → List String
  | [] => []
  | .scalar id _ :: r => id :: chunkIds r
  | .enumTy id _ _ :: r => id :: chunkIds r
  | _ :: r => chunkIds r

/-- names of the fields the decoder appends to the value, in order -/
def itemsIds : Items → List String
  | .nil => []
  | .cons (.chunk fs) r => chunkIds fs ++ itemsIds r
  | .cons (.typedef id _ _) r => id :: itemsIds r
  | .cons (.optional id _ _ _) r => id :: itemsIds r
  | .cons (.array id _ _ _ _) r => id :: itemsIds r
  | .cons (.payload _) r => itemsIds r

/-- the list-level conditions of the slack-free class: identifiers and context keys are bound once -/
def exactLevel (items : Items) : Bool :=
  decide ((arrayIds items).Nodup) && decide ((payloadModes items).length ≤ 1) &&
  decide ((keysBound items).Nodup) && decide ((itemsIds items).Nodup) && !(itemsIds items).contains "payload"

mutual
def exactWfTy : Ty → Bool
  | .scalar w => w % 8 == 0 && decide (w ≤ 64)
  | .enumTy _ e => e.width % 8 == 0 && decide (e.width ≤ 64)
  | .custom _ w => w % 8 == 0
  | .struct _ (.root _ items) => exactWfItems items && exactLevel items
  | .struct _ (.derived ..) => false
def exactWfItem (later : Items) : Item → Bool
  | .chunk fs => chunkBits fs % 8 == 0 && fs.all (bfExact later)
  | .typedef _ ty _ => exactWfTy ty
  | .optional _ ty _ _ => exactWfTy ty
  | .payload _ => true
  | .array id elem ew _ pad =>
    pad.isNone && exactWfTy elem && lenWfTy elem && id != "_payload_" && id != "_body_" &&
    (match ew with
     | .static w => staticTy elem == some w
     | .dynamic => false
     | .unknown => true)
def exactWfItems : Items → Bool
  | .nil => true
  | .cons i r => exactWfItem r i && exactWfItems r
end

/-- does the field list delimit something by this context entry? -/
def consumes (is : Items) : Key → Bool
  | .count t => arrayShape is t == some .countField
  | .size t =>
    if t == "_payload_" then (match payloadMode is with | some (.sized _) => true | _ => false)
    else arrayShape is t == some .sizeField
  | .val _ => true
  | _ => false

/-- packets and structs without parent, without reserved bits, padding, element-size fields and array size
    modifiers, whose size and count fields each delimit a later array or the payload and whose condition
    flags each govern optional fields that follow -/
def exactWfBody : Body → Bool
  | .root _ items => exactWfItems items && exactLevel items
  | .derived .. => false

/-! ### values of the generated types (C05: "encode never panics") -/

/-- the value has what a bit-field of the generated struct needs: an integer of the backing type, a valid
    enum value, an array for every size / count / element-size target -/
def typedBf (all : Items) (v : Value) : BitField → Bool
  | .scalar id w => (match v.get? id with | some (.int x) => decide (x < 2 ^ backingOf w) | _ => false)
  | .enumTy id _ e => (match v.get? id with | some (.int x) => enumOk e x | _ => false)
  | .flag _ opts => !opts.isEmpty
  | .fixed .. => true
  | .reserved _ => true
  | .size t _ _ =>
    t == "_payload_" || t == "_body_" ||
    (match firstArray all t, v.get? t with | some _, some (.arr _) => true | _, _ => false)
  | .count t _ => (match v.get? t with | some (.arr _) => true | _ => false)
  | .elemSize t _ => (match firstArray all t, v.get? t with | some _, some (.arr _) => true | _, _ => false)

mutual
/-- `v` is a value of the Rust type generated for the layout: every field present with the right shape,
    integers within their backing type, enum values valid, `[T; N]` arrays of length `N` -/
def typedTy : Ty → Value → Bool
  | .scalar w, v => (match v with | .int x => decide (x < 2 ^ backingOf w) | _ => false)
  | .enumTy _ e, v => (match v with | .int x => enumOk e x | _ => false)
  | .custom _ w, v => (match v with | .int x => decide (x < 2 ^ w) | _ => false)
  | .struct _ b, v => typedBody b v
def typedItem (all : Items) (v : Value) : Item → Bool
  | .chunk fs => fs.all (typedBf all v)
  | .typedef id ty _ => (match v.get? id with | some x => typedTy ty x | none => false)
  | .optional id ty _ _ =>
    (match v.get? id with
     | some .null | none => true
     | some x => typedTy ty x)
  | .payload _ => true
  | .array id elem _ shape _ =>
    (match v.get? id with
     | some (.arr vs) => vs.all (typedTy elem) && (match shape with | .static n => vs.length == n | _ => true)
     | _ => false)
def typedItems (all : Items) (v : Value) : Items → Bool
  | .nil => true
  | .cons i r => typedItem all v i && typedItems all v r
def typedBody : Body → Value → Bool
  | .root _ items, v =>
    typedItems items v items && (!items.hasPayload || ((v.get? "payload").bind valBytes).isSome)
  | .derived _ parent _ allCs items, v =>
    typedItems items (withConstants allCs v) items &&
    (!items.hasPayload || ((v.get? "payload").bind valBytes).isSome) &&
    typedAround parent (withConstants allCs v)
def typedAround : Body → Value → Bool
  | .root _ items, v => typedItems items v items
  | .derived _ parent _ _ items, v => typedItems items v items && typedAround parent v
end

/-! ### statically sized layouts whose decoder reads exactly the static size (Lemmas/Local) -/

mutual
/-- the static annotations the locality theorem relies on: a statically sized array says so in its element
    width, fields are typed by structs without parent -/
def localWfTy : Ty → Bool
  | .struct _ (.root _ items) => localWfItems items
  | .struct _ (.derived ..) => false
  | _ => true
def localWfItem : Item → Bool
  | .typedef _ ty _ => localWfTy ty
  | .array _ elem ew shape pad =>
    localWfTy elem &&
    (match pad, shape with
     | none, .static _ => (match ew with | .static w => staticTy elem == some w | _ => false)
     | _, _ => true)
  | _ => true
def localWfItems : Items → Bool
  | .nil => true
  | .cons i r => localWfItem i && localWfItems r
end


/-! ### the class of the two-way theorem encoder <-> reference (Lemmas/RefConv) -/

/-- bit widths the chunk encoder can hold: at most 64 -/
def bfNarrow : BitField → Bool
  | .scalar _ w => decide (w ≤ 64)
  | .count _ w => decide (w ≤ 64)
  | _ => true


/-! ### the class: C03's hypotheses plus widths the encoder's integer types can hold -/

mutual
def convWfTy : Ty → Bool
  | .scalar w => w % 8 == 0 && decide (w ≤ 64)
  | .enumTy _ e => e.width % 8 == 0
  | .custom _ w => w % 8 == 0
  | .struct _ (.root _ items) => convWfItems items && refWfItems items items && lenWfItems items && decide ((arrayIds items).Nodup)
  | .struct _ (.derived ..) => false
def convWfItem : Item → Bool
  | .chunk fs => fs.all bfNarrow
  | .typedef _ ty _ => convWfTy ty
  | .optional _ ty _ _ => convWfTy ty
  | .array _ elem _ _ _ => convWfTy elem
  | .payload _ => true
def convWfItems : Items → Bool
  | .nil => true
  | .cons i r => convWfItem i && convWfItems r
end


/-- the class of the two-way theorem, for packets and structs without parent -/
def convWfBody : Body → Bool
  | .root nm items => convWfTy (.struct nm (.root nm items))
  | .derived .. => false


end Pdlv
