/-
  Pdlv.Static — the static octet size of a layout, computed on the IR the way
  `Schema::total_size` classifies it (a constant exactly when every part is constant; an
  array followed by padding counts at its padded size).
-/
import Pdlv.Wire

namespace Pdlv

mutual
def staticTy : Ty → Option Nat
  | .scalar w => some (w / 8)
  | .enumTy _ e => some (e.width / 8)
  | .custom _ w => some (w / 8)
  | .struct _ b => staticBody b

def staticItem : Item → Option Nat
  | .chunk fs => some (chunkBits fs / 8)
  | .typedef _ ty _ => staticTy ty
  | .optional .. => none
  | .payload _ => none
  | .array _ elem _ shape pad =>
    match pad with
    | some p => some p
    | none =>
      match shape with
      | .static n => (staticTy elem).map (n * ·)
      | _ => none

def staticItems : Items → Option Nat
  | .nil => some 0
  | .cons i r =>
    match staticItem i, staticItems r with
    | some a, some b => some (a + b)
    | _, _ => none

def staticBody : Body → Option Nat
  | .root _ items => staticItems items
  | .derived .. => none
end

/-! ### what `encoded_len` relies on -/

mutual
/-- the static annotations of the layout agree with the types: a typedef / array element annotated
    with a static width has that static size (what `Schema` computes; C16); a field is typed by a
    struct without parent -/
def lenWfTy : Ty → Bool
  | .struct _ (.root _ items) => lenWfItems items
  | .struct _ (.derived ..) => false
  | _ => true
def lenWfItem : Item → Bool
  | .typedef _ ty sb => (match sb with | some n => staticTy ty == some n | none => true) && lenWfTy ty
  | .optional _ ty _ _ => lenWfTy ty
  | .array _ elem ew _ _ => (match ew with | .static w => staticTy elem == some w | _ => true) && lenWfTy elem
  | _ => true
def lenWfItems : Items → Bool
  | .nil => true
  | .cons i r => lenWfItem i && lenWfItems r
def lenWfBody : Body → Bool
  | .root _ items => lenWfItems items
  | .derived _ parent _ _ items => lenWfItems items && lenWfBody parent && parent.hasPayload
end

/-- `lenItems` with the payload item counted as `n` octets -/
def lenItemsP : Items → Value → Nat → Nat
  | .nil, _, _ => 0
  | .cons (.payload _) r, v, n => n + lenItemsP r v n
  | .cons i r, v, n => lenItem i v + lenItemsP r v n

/-- octets around an inner encoding of `n` octets, level by level up to the root -/
def aroundLen : Body → Value → Nat → Nat
  | .root _ items, v, n => lenItemsP items v n
  | .derived _ parent _ _ items, v, n => aroundLen parent v (lenItemsP items v n)

/-- the value an inheriting packet is serialized from: its data fields plus the constants its
    constraints (and its ancestors') fix -/
def withConstants (allCs : List (String × Nat)) (v : Value) : Value :=
  Value.obj (v.fields ++ allCs.map fun (k, c) => (k, Value.int c))

/-- length of the whole encoding as `encoded_len()` computes it: own items, wrapped by each
    ancestor's items -/
def encLen : Body → Value → Nat
  | .root _ items, v => lenItems items v
  | .derived _ parent _ allCs items, v =>
    aroundLen parent (withConstants allCs v) (lenItems items (withConstants allCs v))

/-! ### what the decoder relies on -/

/-- the context entries a chunk binds, in the order the emitted code binds them -/
def chunkKeys : List BitField → List Key
  | [] => []
  | .scalar id _ :: r => .val id :: chunkKeys r
  | .flag id _ :: r => .val id :: chunkKeys r
  | .enumTy id _ _ :: r => .val id :: chunkKeys r
  | .size t _ _ :: r => .size t :: chunkKeys r
  | .count t _ :: r => .count t :: chunkKeys r
  | .elemSize t _ :: r => .esize t :: chunkKeys r
  | .fixed .. :: r => chunkKeys r
  | .reserved _ :: r => chunkKeys r

/-- context entries available after an item -/
def availAfter (avail : List Key) : Item → List Key
  | .chunk fs => chunkKeys fs ++ avail
  | _ => avail

def Ty.selfGuarded : Ty → Bool
  | .custom .. | .struct .. => true
  | _ => false

def Ty.isStruct : Ty → Bool
  | .struct .. => true
  | _ => false

mutual
/-- octets every successful decode consumes at least -/
def minTy : Ty → Nat
  | .scalar w => w / 8
  | .enumTy _ e => e.width / 8
  | .custom _ w => w / 8
  | .struct _ b => minBody b
def minItem : Item → Nat
  | .chunk fs => chunkBits fs / 8
  | .typedef _ ty _ => minTy ty
  | .optional .. => 0
  | .payload _ => 0
  | .array _ _ _ _ pad => pad.getD 0
def minItems : Items → Nat
  | .nil => 0
  | .cons i r => minItem i + minItems r
def minBody : Body → Nat
  | .root _ items => minItems items
  | .derived _ parent _ _ _ => minBody parent
end

mutual
/-- the layout is one the decoder generator handles: every context entry an item reads is bound
    by an earlier chunk, plain typedef fields are custom fields or structs, elements without a
    static width are structs that consume at least one octet (loops make progress), static
    element widths are positive and agree with the element type -/
def decWfTy : Ty → Bool
  | .struct _ b => decWfBody b
  | _ => true
def decWfItem (avail : List Key) : Item → Bool
  | .chunk _ => true
  | .typedef _ ty _ => ty.selfGuarded && decWfTy ty
  | .optional _ ty cid _ => avail.contains (.val cid) && decWfTy ty
  | .payload mode =>
    (match mode with
     | .sized _ => avail.contains (.size "_payload_")
     | .undelimited => false
     | _ => true)
  | .array id elem ew shape _ =>
    decWfTy elem &&
    (match ew with
     | .static w => decide (w > 0) && (elem.selfGuarded || staticTy elem == some w)
     | .dynamic => avail.contains (.esize id) && elem.selfGuarded
     | .unknown => elem.selfGuarded && decide (minTy elem > 0)) &&
    (match shape with
     | .countField => avail.contains (.count id)
     | .sizeField => avail.contains (.size id)
     | _ => true)
def decWfItems (avail : List Key) : Items → Bool
  | .nil => true
  | .cons i r =>
    decWfItem avail i &&
    decWfItems (availAfter avail i) r
def decWfBody : Body → Bool
  | .root _ items => decWfItems [] items
  | .derived _ parent _ _ items => decWfBody parent && decWfItems [] items
end

end Pdlv
