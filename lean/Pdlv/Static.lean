/-
  Pdlv.Static — the static octet size of a layout, computed on the IR the way
  `Schema::total_size` classifies it (a constant exactly when every part is constant; an
  array followed by padding counts at its padded size).
-/
import Pdlv.Wire

namespace Pdlv

mutual
def staticTy : Ty → Option Nat
  | .scalar w => some (w / 8)
  | .enumTy _ e => some (e.width / 8)
  | .custom _ w => some (w / 8)
  | .struct _ b => staticBody b

def staticItem : Item → Option Nat
  | .chunk fs => some (chunkBits fs / 8)
  | .typedef _ ty _ => staticTy ty
  | .optional .. => none
  | .payload _ => none
  | .array _ elem _ shape pad =>
    match pad with
    | some p => some p
    | none =>
      match shape with
      | .static n => (staticTy elem).map (n * ·)
      | _ => none

def staticItems : Items → Option Nat
  | .nil => some 0
  | .cons i r =>
    match staticItem i, staticItems r with
    | some a, some b => some (a + b)
    | _, _ => none

def staticBody : Body → Option Nat
  | .root _ items => staticItems items
  | .derived .. => none
end

end Pdlv
