/-
  Pdlv.JavaStruct — struct-typed fields in the model of the emitted Java parser: `T x = T.fromBytes(buf.slice().order(..));
  … buf.position(buf.position() + x.width());` (java/codegen/packet.rs `decoder`, arm `DynBytes(StructRef)`).  The struct's own
  `fromBytes(ByteBuffer)` parses its fields from the rest of the buffer and checks nothing about what is left; the caller then
  advances by the struct's `width()`, a constant for a struct of static size.  Everything else is `Pdlv.Java.decItem`.
-/
import Pdlv.Java
import Pdlv.Static

namespace Pdlv
namespace Java

mutual
/-- `T.fromBytes(buf)` of a struct: the value, or the exception of its field parser -/
def decStructS (en : Endian) : Body → Bytes → Dec Value
  | .root _ items, bs =>
    (decItemsS en items bs DState.empty).bind fun (st, _) =>
      .ok (.obj (st.fields ++ (match st.payload with
                               | some p => [("payload", Value.ofBytes p)]
                               | none => [])))
  | .derived .., _ => .panic .badLayout
/-- the same with what the struct's parser left of the buffer (an array element is parsed on the buffer itself) -/
def decStructR (en : Endian) : Body → Bytes → Dec (Value × Bytes)
  | .root _ items, bs =>
    (decItemsS en items bs DState.empty).bind fun (st, r) =>
      .ok (.obj (st.fields ++ (match st.payload with
                               | some p => [("payload", Value.ofBytes p)]
                               | none => [])), r)
  | .derived .., _ => .panic .badLayout
def decTyS (en : Endian) : Ty → Bytes → Dec Value
  | .struct _ b, bs => decStructS en b bs
  | _, _ => .panic .badLayout
/-- one field of `fromBytes`, struct-typed fields of static size included -/
def decItemS (en : Endian) : Item → Bytes → DState → Dec (DState × Bytes)
  | .typedef id ty (some k), bs, st =>
    (decTyS en ty bs).bind fun v =>
      if bs.length < k then .err .length
      else .ok ({ st with fields := st.fields ++ [(id, v)] }, bs.drop k)
  | .typedef _ _ none, _, _ => .panic .badLayout
  | .chunk fs, bs, st => decItem en (.chunk fs) bs st
  | .payload m, bs, st => decItem en (.payload m) bs st
  | .array id (.struct nm b) (.static k) sh none, bs, st =>
    -- an array of structs of static size: the element count from the static count / count field / size / remaining octets as
    -- for scalars, then `T.fromBytes(buf)` per element on the buffer itself
    if k = 0 then .panic .badLayout
    else
      let count : Dec Nat := match sh with
        | .static n => .ok n
        | .countField => (match (st.ctx.get (.count id)).bind nonNeg with | some n => .ok n | none => .err .length)
        | .sizeField =>
          (match (st.ctx.get (.size id)).bind nonNeg with
           | some sz => if sz % k ≠ 0 then .err .arraySize else .ok (sz / k)
           | none => .err .length)
        | .unknown => if bs.length % k ≠ 0 then .err .arraySize else .ok (bs.length / k)
      count.bind fun n => (decRepeat (decStructR en b) n bs).bind fun (vs, r') =>
        .ok ({ st with fields := st.fields ++ [(id, Value.arr vs)] }, r')
  | .array id el ew sh pad, bs, st => decItem en (.array id el ew sh pad) bs st
  | .optional id ty c v, bs, st => decItem en (.optional id ty c v) bs st
def decItemsS (en : Endian) : Items → Bytes → DState → Dec (DState × Bytes)
  | .nil, bs, st => .ok (st, bs)
  | .cons i r, bs, st => (decItemS en i bs st).bind fun (st', bs') => decItemsS en r bs' st'
end

/-- `fromBytes(byte[])`, struct-typed fields included -/
def decodeFullS (c : Cfg) : Body → Bytes → Dec Value
  | .root _ items, bs =>
    (decItemsS c.e items bs DState.empty).bind fun (st, r) =>
      if r.isEmpty then
        .ok (.obj (st.fields ++ (match st.payload with
                                 | some p => [("payload", Value.ofBytes p)]
                                 | none => [])))
      else .err .trailingBytes
  | .derived .., _ => .panic .badLayout

/-- a field of the class of the parser theorem is parsed as before -/
theorem decItemS_eq (en : Endian) (i : Item) (hw : decWfItems2 (.cons i .nil) = true) (bs : Bytes) (st : DState) :
    decItemS en i bs st = decItem en i bs st := by
  cases i with
  | chunk fs => simp [decItemS]
  | payload m => simp [decItemS]
  | array id el ew sh pad =>
    cases el <;> cases ew <;> cases pad <;> first | (simp [decItemS]; done) | (simp [decWfItems2] at hw)
  | optional a b c d => simp [decItemS]
  | typedef a b c => simp [decWfItems2] at hw

/-- without struct-typed fields nothing changes -/
theorem decItemsS_eq (en : Endian) : ∀ (is : Items), decWfItems2 is = true → ∀ (bs : Bytes) (st : DState),
    decItemsS en is bs st = decItems en is bs st
  | .nil, _, bs, st => by simp [decItemsS, decItems]
  | .cons i r, hw, bs, st => by
    have hr : decWfItems2 r = true := by
      cases i with
      | chunk fs => simp only [decWfItems2, Bool.and_eq_true] at hw; exact hw.2
      | payload m => simp only [decWfItems2, Bool.and_eq_true] at hw; exact hw.2
      | typedef a b c => simp [decWfItems2] at hw
      | optional a b c d => simp [decWfItems2] at hw
      | array id el ew sh pad =>
        cases el <;> cases ew <;> cases pad <;> simp only [decWfItems2, Bool.and_eq_true] at hw <;>
          first | exact hw.2 | (simp at hw)
    have hi : decItemS en i bs st = decItem en i bs st := by
      cases i with
      | chunk fs => simp [decItemS]
      | payload m => simp [decItemS]
      | array id el ew sh pad =>
        cases el <;> cases ew <;> cases pad <;> first | (simp [decItemS]; done) | (simp [decWfItems2] at hw)
      | optional a b c d => simp [decItemS]
      | typedef a b c => simp [decWfItems2] at hw
    simp only [decItemsS, decItems, hi]
    cases decItem en i bs st with
    | ok a => simp only [Outcome.bind]; exact decItemsS_eq en r hr a.2 a.1
    | err e => rfl
    | panic h => rfl

theorem decodeFullS_eq (c : Cfg) (nm : String) (items : Items) (hw : decWfItems2 items = true) (bs : Bytes) :
    decodeFullS c (.root nm items) bs = decodeFull c (.root nm items) bs := by
  simp only [decodeFullS, decodeFull, decItemsS_eq c.e items hw]
  cases decItems c.e items bs DState.empty with
  | ok a =>
    simp only [Outcome.bind]
    split
    · cases a.1.payload <;> rfl
    · rfl
  | err e => rfl
  | panic h => rfl

/-- the class of the parser theorem plus struct-typed fields: the struct has no payload, a static size that is the one
    annotated, and own fields in the class -/
def decWfItems3 : Items → Bool
  | .nil => true
  | .cons (.typedef _ (.struct _ (.root _ sitems)) (some k)) r =>
    decWfItems2 sitems && !sitems.hasPayload && staticItems sitems == some k && localWfItems sitems && decWfItems3 r
  | .cons (.typedef ..) _ => false
  | .cons (.optional ..) _ => false
  | .cons i r => decWfItems2 (.cons i .nil) && decWfItems3 r


/-- the classes grow: what is in the class of `java_reads_arrays_and_payloads` is in the class with struct-typed fields -/
theorem decWfItems3_of_2 : ∀ (is : Items), decWfItems2 is = true → decWfItems3 is = true
  | .nil, _ => rfl
  | .cons i r, hw => by
    have hr : decWfItems2 r = true := by
      cases i with
      | chunk fs => simp only [decWfItems2, Bool.and_eq_true] at hw; exact hw.2
      | payload m => simp only [decWfItems2, Bool.and_eq_true] at hw; exact hw.2
      | typedef a b c => simp [decWfItems2] at hw
      | optional a b c d => simp [decWfItems2] at hw
      | array id el ew sh pad =>
        cases el <;> cases ew <;> cases pad <;> simp only [decWfItems2, Bool.and_eq_true] at hw <;>
          first | exact hw.2 | (simp at hw)
    have h1 : decWfItems2 (.cons i .nil) = true := by
      cases i with
      | chunk fs => simp only [decWfItems2, Bool.and_eq_true] at hw ⊢; exact ⟨hw.1, trivial⟩
      | payload m => simp only [decWfItems2, Bool.and_eq_true] at hw ⊢; exact ⟨hw.1, trivial⟩
      | typedef a b c => simp [decWfItems2] at hw
      | optional a b c d => simp [decWfItems2] at hw
      | array id el ew sh pad =>
        cases el <;> cases ew <;> cases pad <;> simp only [decWfItems2, Bool.and_eq_true] at hw ⊢ <;>
          first | exact ⟨hw.1, trivial⟩ | (simp at hw)
    have ih := decWfItems3_of_2 r hr
    cases i with
    | typedef a b c => simp [decWfItems2] at hw
    | optional a b c d => simp [decWfItems2] at hw
    | chunk fs => simp only [decWfItems3, h1, ih, Bool.and_self]
    | payload m => simp only [decWfItems3, h1, ih, Bool.and_self]
    | array id el ew sh pad => simp only [decWfItems3, h1, ih, Bool.and_self]

/-! ### the serializer: `buf.put(x.toBytes())` for a struct-typed field -/

mutual
def encStructS (en : Endian) : Body → Value → Enc Bytes
  | .root _ items, v =>
    match (if items.hasPayload then (v.get? "payload").bind valBytes else some []) with
    | none => .panic .badValue
    | some p => encItemsS en items p v items
  | .derived .., _ => .panic .badLayout
def encTyS (en : Endian) : Ty → Value → Enc Bytes
  | .struct _ b, v => encStructS en b v
  | _, _ => .panic .badLayout
def encItemS (en : Endian) (all : Items) (payload : Bytes) (v : Value) : Item → Enc Bytes
  | .typedef id ty _ =>
    match v.get? id with
    | some x => encTyS en ty x
    | none => .panic .badValue
  | .chunk fs => encItems en all payload v (.cons (.chunk fs) .nil)
  | .payload m => encItems en all payload v (.cons (.payload m) .nil)
  | .array id (.struct _ b) _ sh none =>
    -- `for (…) buf.put(x[i].toBytes());`
    (listField v id).bind fun vs => (checkCount sh vs.length).bind fun _ => encListWith (encStructS en b) vs
  | .array id el ew sh pad => encItems en all payload v (.cons (.array id el ew sh pad) .nil)
  | .optional id ty c x => encItems en all payload v (.cons (.optional id ty c x) .nil)
def encItemsS (en : Endian) (all : Items) (payload : Bytes) (v : Value) : Items → Enc Bytes
  | .nil => .ok []
  | .cons i r => (encItemS en all payload v i).bind fun a => (encItemsS en all payload v r).bind fun b => .ok (a ++ b)
end

/-- the serializer class plus struct-typed fields whose own fields are in it -/
def encWfItems3 : Items → Bool
  | .nil => true
  | .cons (.typedef _ (.struct _ (.root _ sitems)) _) r => encWfItems sitems && encWfItems3 r
  | .cons (.typedef ..) _ => false
  | .cons (.optional ..) _ => false
  | .cons i r => encWfItems (.cons i .nil) && encWfItems3 r

/-- `toBytes()` of a packet or struct without parent, struct-typed fields included -/
def encBodyS (c : Cfg) : Body → Value → Enc Bytes
  | .root nm items, v => encStructS c.e (.root nm items) v
  | b, v => encBody c b v

theorem bind_single (x : Enc Bytes) (k : Bytes → Enc Bytes) :
    (x.bind fun a => (Outcome.ok ([] : Bytes)).bind fun b => .ok (a ++ b)).bind k = x.bind k := by
  cases x with
  | ok a => simp [Outcome.bind]
  | err e => rfl
  | panic h => rfl

theorem encItems_single (en : Endian) (all : Items) (payload : Bytes) (v : Value) (i : Item) (r : Items) :
    encItems en all payload v (.cons i r) =
      (encItems en all payload v (.cons i .nil)).bind fun a => (encItems en all payload v r).bind fun b => .ok (a ++ b) := by
  simp only [encItems]
  exact (bind_single _ _).symm

/-- a field of the serializer class is written as before -/
theorem encItemS_eq (en : Endian) (all : Items) (payload : Bytes) (v : Value) (i : Item) (hw : encWfItems (.cons i .nil) = true) :
    encItemS en all payload v i = encItems en all payload v (.cons i .nil) := by
  cases i with
  | chunk fs => simp [encItemS]
  | payload m => simp [encItemS]
  | array id el ew sh pad =>
    cases el <;> cases ew <;> cases pad <;> first | (simp [encItemS]; done) | (simp [encWfItems] at hw)
  | optional a b c d => simp [encItemS]
  | typedef a b c => simp [encWfItems] at hw

/-- without struct-typed fields nothing changes -/
theorem encItemsS_eq (en : Endian) (all : Items) (payload : Bytes) (v : Value) : ∀ (is : Items), encWfItems is = true →
    encItemsS en all payload v is = encItems en all payload v is
  | .nil, _ => by simp [encItemsS, encItems]
  | .cons i r, hw => by
    have hr : encWfItems r = true := by
      cases i with
      | chunk fs => simp only [encWfItems, Bool.and_eq_true] at hw; exact hw.2
      | payload m => simpa [encWfItems] using hw
      | typedef a b c => simp [encWfItems] at hw
      | optional a b c d => simp [encWfItems] at hw
      | array id el ew sh pad =>
        cases el <;> cases ew <;> cases pad <;> simp only [encWfItems, Bool.and_eq_true] at hw <;>
          first | exact hw.2 | (simp at hw)
    have hi : encItemS en all payload v i = encItems en all payload v (.cons i .nil) := by
      cases i with
      | chunk fs => simp [encItemS]
      | payload m => simp [encItemS]
      | array id el ew sh pad =>
        cases el <;> cases ew <;> cases pad <;> first | (simp [encItemS]; done) | (simp [encWfItems] at hw)
      | optional a b c d => simp [encItemS]
      | typedef a b c => simp [encWfItems] at hw
    rw [encItems_single en all payload v i r]
    simp only [encItemsS, hi, encItemsS_eq en all payload v r hr]

theorem encBodyS_eq (c : Cfg) (nm : String) (items : Items) (hw : encWfItems items = true) (v : Value) :
    encBodyS c (.root nm items) v = encBody c (.root nm items) v := by
  simp only [encBodyS, encStructS, encBody]
  cases (if items.hasPayload = true then (v.get? "payload").bind valBytes else some []) with
  | none => rfl
  | some p => exact encItemsS_eq c.e items p v items hw

end Java
end Pdlv
