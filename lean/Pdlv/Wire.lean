/-
  Pdlv.Wire — the layout IR and the executable model of the code emitted by the Rust
  back end (pdl-compiler/src/backends/rust/{decoder,encoder,mod}.rs).

  The IR (`Item`, `Ty`, `Body`) is what the generators compute implicitly from an analyzed
  file; `Pdlv.Resolve` builds it from the AST.  Encoder and decoder are structural
  recursions over the IR.  Partial operations are partial: every `get_*`, slice, `chunks`,
  `%`, and every `usize` multiplication on wire-controlled values returns `panic h` where
  the generated code would panic (debug build, overflow checks on).
-/
import Pdlv.Bits
import Pdlv.Enum

namespace Pdlv

/-! ### Outcomes -/

inductive DecErr
  | unwrap | fixedValue | length | arraySize | enumValue | constraintValue
  | trailingBytes | trailingBytesInArray
deriving DecidableEq, Repr, Inhabited

inductive EncErr
  | sizeOverflow | countOverflow | invalidScalarValue | invalidArrayElementSize
  | inconsistentConditionValue
deriving DecidableEq, Repr, Inhabited

/-- Where the emitted code panics (or worse).  Each tag names a call site in the generator. -/
inductive Hazard
  | mulOverflow        -- `count * width` / `count * element_size` on usize (decoder.rs add_array_field)
  | readOOB            -- `get_uint`/`get_uN` with too few bytes
  | optionalRead       -- ... in `add_optional_field` (no length guard before the read)
  | customRead         -- ... in `add_typedef_field` for a sized custom field (no length guard)
  | chunksZero         -- `span.chunks(0)`
  | remZero            -- `size % 0`
  | sliceOOB           -- `&span[n..]` beyond the end
  | nonTermination     -- `while !span.is_empty()` over an element that consumes nothing
  | badValue           -- the value is not a value of the generated Rust type (model-side only)
  | badLayout          -- a construct the Rust back end does not support (`todo!`, compile error)
  | subOverflow        -- usize subtraction below zero
deriving DecidableEq, Repr, Inhabited

inductive Outcome (ε α : Type)
  | ok (a : α)
  | err (e : ε)
  | panic (h : Hazard)
deriving Repr, Inhabited

namespace Outcome
@[inline] def bind {ε α β} (x : Outcome ε α) (f : α → Outcome ε β) : Outcome ε β :=
  match x with
  | ok a => f a
  | err e => err e
  | panic h => panic h

instance {ε} : Monad (Outcome ε) where
  pure := ok
  bind := bind

def isPanic {ε α} : Outcome ε α → Bool
  | panic _ => true
  | _ => false

def isOk {ε α} : Outcome ε α → Bool
  | ok _ => true
  | _ => false
end Outcome

/-- `bind`-inversion -/
theorem bind_ok {ε α β : Type} (x : Outcome ε α) (f : α → Outcome ε β) (b : β)
    (h : x.bind f = .ok b) : ∃ a, x = .ok a ∧ f a = .ok b := by
  cases x with
  | ok a => exact ⟨a, rfl, h⟩
  | err e => simp [Outcome.bind] at h
  | panic p => simp [Outcome.bind] at h


abbrev Dec := Outcome DecErr
abbrev Enc := Outcome EncErr

/-! ### Values (JSON-shaped: what the generated serde impls read and write) -/

inductive Value
  | int (n : Nat)
  | arr (vs : List Value)
  | obj (fs : List (String × Value))
  | null
deriving Repr, Inhabited

namespace Value
def fields : Value → List (String × Value)
  | obj fs => fs
  | _ => []

def get? (v : Value) (k : String) : Option Value := v.fields.lookup k

def asNat? : Value → Option Nat
  | int n => some n
  | _ => none

def asList? : Value → Option (List Value)
  | arr vs => some vs
  | _ => none

def ofBytes (bs : Bytes) : Value := arr (bs.map fun b => int b.toNat)

def isNull : Value → Bool
  | null => true
  | _ => false
end Value

/-! ### Layout IR -/

inductive BitField
  | scalar (id : String) (w : Nat)
  | flag (id : String) (opts : List (String × Nat))
  | enumTy (id : String) (ty : String) (e : Enum.Decl)
  | fixed (w v : Nat)                       -- fixed scalar, or fixed enum with its tag value
  | reserved (w : Nat)
  | size (target : String) (w : Nat) (modifier : Nat)   -- target "_payload_"/"_body_" or an array id
  | count (target : String) (w : Nat)
  | elemSize (target : String) (w : Nat)
deriving Repr, Inhabited

def BitField.width : BitField → Nat
  | .scalar _ w => w
  | .flag _ _ => 1
  | .enumTy _ _ e => e.width
  | .fixed w _ => w
  | .reserved w => w
  | .size _ w _ => w
  | .count _ w => w
  | .elemSize _ w => w

inductive ElemWidth | static (bytes : Nat) | dynamic | unknown
deriving DecidableEq, Repr, Inhabited

inductive Shape | static (n : Nat) | countField | sizeField | unknown
deriving DecidableEq, Repr, Inhabited

/-- how the payload is delimited (decoder.rs `add_payload_field`) -/
inductive PayloadMode
  | sized (modifier : Nat)        -- `_size_(_payload_)` present (modifier 0 if none)
  | last                          -- offset from end = 0
  | beforeStatic (octets : Nat)   -- followed by fields of static size
  | undelimited                   -- followed by dynamic fields: no code is emitted (rustc error)
deriving DecidableEq, Repr, Inhabited

mutual
inductive Ty
  | scalar (w : Nat)
  | enumTy (name : String) (e : Enum.Decl)
  | custom (name : String) (w : Nat)
  | struct (name : String) (body : Body)
inductive Item
  | chunk (fs : List BitField)
  | array (id : String) (elem : Ty) (ew : ElemWidth) (shape : Shape) (pad : Option Nat)
  | typedef (id : String) (ty : Ty) (staticBytes : Option Nat)
  | optional (id : String) (ty : Ty) (condId : String) (condVal : Nat)
  | payload (mode : PayloadMode)
inductive Items
  | nil
  | cons (i : Item) (r : Items)
inductive Body
  | root (name : String) (items : Items)
  /-- `cs`: this level's own constraints (field id, value); `allCs`: constraints of this level
      and of every ancestor (what `iter_constraints` yields), child first -/
  | derived (name : String) (parent : Body) (cs : List (String × Nat)) (allCs : List (String × Nat))
      (items : Items)
end

instance : Inhabited Ty := ⟨.scalar 8⟩
instance : Inhabited Item := ⟨.chunk []⟩
instance : Inhabited Items := ⟨.nil⟩
instance : Inhabited Body := ⟨.root "" .nil⟩

def Items.toList : Items → List Item
  | .nil => []
  | .cons i r => i :: r.toList

def Items.ofList : List Item → Items
  | [] => .nil
  | i :: r => .cons i (Items.ofList r)

def Body.name : Body → String
  | .root n _ => n
  | .derived n .. => n

def Body.items : Body → Items
  | .root _ is => is
  | .derived _ _ _ _ is => is

def Items.hasPayload : Items → Bool
  | .nil => false
  | .cons (.payload _) _ => true
  | .cons _ r => r.hasPayload

def Body.hasPayload (b : Body) : Bool := b.items.hasPayload

/-- `rust`: the code the Rust back end emits at the pinned tree, hazards included.
    `ideal`: the same decoder/encoder with every hazard replaced by the outcome the language
    reference prescribes — the *reference implementation* the other back ends are compared with
    and that the bit-level specification `Pdlv.Ref` is proved against. -/
inductive Mode | rust | ideal
deriving DecidableEq, Repr, Inhabited

structure Cfg where
  e : Endian
  mode : Mode := .rust
deriving Repr, Inhabited

/-! ### Primitive reads and writes -/

/-- `types::Integer::new(w).width` for w ≤ 64 -/
def backingOf (w : Nat) : Nat := Enum.backing w

/-- `put_uint{_le}(v, w/8)` / `put_uN{_le}(v)`: the low `w` bits, in the file's byte order. -/
def putUint (e : Endian) (w : Nat) (v : Nat) : Bytes :=
  match e with
  | .little => toLE (w / 8) v
  | .big => toBE (w / 8) v

/-- `get_uint{_le}(w/8)`: panics in `bytes` when fewer bytes remain. -/
def getUint (e : Endian) (w : Nat) (bs : Bytes) : Dec (Nat × Bytes) :=
  let k := w / 8
  if bs.length < k then .panic .readOOB
  else
    let h := bs.take k
    .ok ((match e with | .little => fromLE h | .big => fromBE h), bs.drop k)

/-- `check_size(span, wanted)` -/
def checkSize (bs : Bytes) (wanted : Nat) : Dec Unit :=
  if bs.length < wanted then .err .length else .ok ()

def umul (a b : Nat) : Dec Nat :=
  if a * b < usizeMax then .ok (a * b) else .panic .mulOverflow

/-! ### Decoder context: what the emitted code has bound so far -/

inductive Key
  | size (t : String) | count (t : String) | esize (t : String) | val (id : String)
deriving DecidableEq, Repr, Inhabited

abbrev Ctx := List (Key × Nat)

def Ctx.get (c : Ctx) (k : Key) : Option Nat := c.lookup k

structure DState where
  ctx : Ctx := []
  fields : List (String × Value) := []
  payload : Option Bytes := none
deriving Inhabited

def DState.empty : DState := { ctx := [], fields := [], payload := none }

/-! ### Enum conversion as the emitted code performs it -/

/-- `E::try_from(x)` succeeded? (the exactness of the emitted arms is C15) -/
def enumOk (e : Enum.Decl) (x : Nat) : Bool := Enum.spec e x != .err

/-! ### Bit-field chunks -/

def chunkBits (fs : List BitField) : Nat := (fs.map BitField.width).foldl (· + ·) 0

/-- decode the fields of one chunk from the chunk integer -/
def decChunkFields (ideal : Bool) : List BitField → Nat → Nat → DState → Dec DState
  | [], _, _, st => .ok st
  | f :: fs, shift, chunk, st =>
    let w := f.width
    let v := (chunk / 2 ^ shift) % 2 ^ w
    let next := decChunkFields ideal fs (shift + w) chunk
    match f with
    | .scalar id _ =>
      next { st with ctx := (.val id, v) :: st.ctx, fields := st.fields ++ [(id, .int v)] }
    | .flag id _ => next { st with ctx := (.val id, v) :: st.ctx }
    | .enumTy id _ e =>
      if enumOk e v then
        next { st with ctx := (.val id, v) :: st.ctx, fields := st.fields ++ [(id, .int v)] }
      else .err .enumValue
    | .fixed _ c => if v = c then next st else .err .fixedValue
    | .reserved _ => next st
    | .size t _ m =>
      -- an array's size field carries `octets + modifier`; the Rust back end ignores the
      -- modifier ("TODO size modifier"), the payload's is handled where the payload is read
      if ideal ∧ t ≠ "_payload_" then
        (if v < m then .err .length else next { st with ctx := (.size t, v - m) :: st.ctx })
      else next { st with ctx := (.size t, v) :: st.ctx }
    | .count t _ => next { st with ctx := (.count t, v) :: st.ctx }
    | .elemSize t _ => next { st with ctx := (.esize t, v) :: st.ctx }

def decChunk (e : Endian) (ideal : Bool) (fs : List BitField) (bs : Bytes) (st : DState) :
    Dec (DState × Bytes) :=
  let bits := chunkBits fs
  let k := bits / 8
  if bs.length < k then .err .length
  else
    let h := bs.take k
    let chunk := match e with | .little => fromLE h | .big => fromBE h
    (decChunkFields ideal fs 0 chunk st).bind fun st' => .ok (st', bs.drop k)

/-! ### Loops (fuelled / counted; the element decoder is a parameter) -/

/-- `for _ in 0..n { v.push(elem?) }` / `(0..n).map(|_| elem).collect::<Result<_,_>>()` -/
def decRepeat (f : Bytes → Dec (Value × Bytes)) : Nat → Bytes → Dec (List Value × Bytes)
  | 0, bs => .ok ([], bs)
  | n + 1, bs =>
    (f bs).bind fun (v, bs') =>
    (decRepeat f n bs').bind fun (vs, bs'') => .ok (v :: vs, bs'')

/-- `while !span.is_empty() { v.push(elem?) }`; fuel = span length + 1.  An element that
    consumes nothing on a non-empty span never terminates in the real code. -/
def decWhile (f : Bytes → Dec (Value × Bytes)) : Nat → Bytes → Dec (List Value)
  | 0, _ => .panic .nonTermination
  | fuel + 1, bs =>
    if bs.isEmpty then .ok []
    else
      (f bs).bind fun (v, bs') =>
      if bs'.length < bs.length then
        (decWhile f fuel bs').bind fun vs => .ok (v :: vs)
      else .panic .nonTermination

/-- `span.chunks(es).take(n).map(|mut chunk| elem(chunk).and_then(|v| chunk.is_empty()…))` -/
def decChunked (f : Bytes → Dec (Value × Bytes)) (es : Nat) : Nat → Bytes → Dec (List Value)
  | 0, _ => .ok []
  | n + 1, bs =>
    if bs.isEmpty then .ok []      -- `chunks` is exhausted
    else
      let c := bs.take es
      (f c).bind fun (v, r) =>
      if r.isEmpty then
        (decChunked f es n (bs.drop es)).bind fun vs => .ok (v :: vs)
      else .err .trailingBytesInArray

/-- `parent.x()`: a data field of the parent value, or the constant an ancestor's constraint
    fixes for it -/
def parentField (parent : Body) (pv : Value) (k : String) : Option Nat :=
  match pv.fields.lookup k with
  | some v => v.asNat?
  | none =>
    (match parent with
     | .derived _ _ _ a _ => a
     | .root .. => []).lookup k

/-- some constraint `(field, value)` of the child does not hold of the parent value -/
def violated (parent : Body) (pv : Value) (cs : List (String × Nat)) : Bool :=
  cs.any fun (k, cv) => parentField parent pv k != some cv

/-- `Child::decode_partial(&parent)`: check this level's constraints on the parent value,
    parse the own fields (`decOwn`) from the parent's payload (all of it), copy the remaining
    fields -/
def decPartialWith (decOwn : Bytes → Dec (DState × Bytes)) (parent : Body) (cs : List (String × Nat))
    (pv : Value) : Dec Value :=
  let pf := pv.fields
  if violated parent pv cs then .err .constraintValue
  else
    let copied := pf.filter fun (k, _) => k != "payload" && !(cs.any (·.1 == k))
    if parent.hasPayload then
      let pbytes : Bytes := match pf.lookup "payload" with
        | some (.arr vs) => vs.map fun v => UInt8.ofNat ((v.asNat?).getD 0)
        | _ => []
      (decOwn pbytes).bind fun (st, rest) =>
        if rest.isEmpty then
          .ok (.obj (st.fields ++ copied ++ (match st.payload with
                               | some p => [("payload", Value.ofBytes p)]
                               | none => [])))
        else .err .trailingBytes
    else .ok (.obj copied)

/-! ### The decoder -/

/-- `count * width` on `usize`: panics (overflow checks on) in the emitted code; the
    reference outcome is `LengthError` (no input can hold that many octets) -/
def umulM (m : Mode) (a b : Nat) : Dec Nat :=
  match m with
  | .rust => umul a b
  | .ideal => if a * b < usizeMax then .ok (a * b) else .err .length

/-- element size 0 with a count: the emitted code calls `chunks(0)` -/
def zeroElem (m : Mode) (el : Bytes → Dec (Value × Bytes)) (n : Nat) (h : Hazard) (rest : Bytes) :
    Dec (List Value × Bytes) :=
  match m with
  | .rust => .panic h
  | .ideal => (decRepeat (fun _ => (el []).bind fun (v, _) => .ok (v, [])) n []).bind fun (vs, _) => .ok (vs, rest)

def unwrapArr (n : Nat) (vs : List Value) : Dec (List Value) :=
  if vs.length = n then .ok vs else .err .unwrap

/-- the context entries an array case reads are bound (a size / count / element-size field
    precedes the array); otherwise the emitted code would not compile -/
def arrayKeysOk (ew : ElemWidth) (shape : Shape) (cnt siz esz : Option Nat) : Bool :=
  (match shape with
   | .countField => cnt.isSome
   | .sizeField => siz.isSome
   | _ => true) &&
  (match ew with
   | .dynamic => esz.isSome
   | _ => true)

/-- the twelve cases of decoder.rs `add_array_field` (element width × array shape) over the
    element decoder `el`, on the span `sp` the array is parsed from -/
def decArray (m : Mode) (el : Bytes → Dec (Value × Bytes)) (ew : ElemWidth) (shape : Shape)
    (cnt siz esz : Option Nat) (sp : Bytes) : Dec (List Value × Bytes) :=
  let ideal := m == .ideal
  match ew, shape with
  | .unknown, .sizeField =>
    match siz with
    | none => .panic .badLayout
    | some sz =>
      if sp.length < sz then .err .length
      else
        -- (before the `fix:` commit "parse padded, size-delimited arrays … from the array
        -- octets" the padded case parsed the elements from what follows the array)
        (decWhile el (sz + 1) (sp.take sz)).bind fun vs => .ok (vs, sp.drop sz)
  | .unknown, .static n =>
      (decRepeat el n sp).bind fun (vs, r) => (unwrapArr n vs).bind fun vs => .ok (vs, r)
  | .unknown, .countField =>
    match cnt with
    | none => .panic .badLayout
    | some n => decRepeat el n sp
  | .unknown, .unknown =>
      (decWhile el (sp.length + 1) sp).bind fun vs => .ok (vs, [])
  | .static w, .static n =>
      if sp.length < n * w then .err .length
      else (decRepeat el n sp).bind fun (vs, r) => (unwrapArr n vs).bind fun vs => .ok (vs, r)
  | .static w, .countField =>
    match cnt with
    | none => .panic .badLayout
    | some n =>
      (umulM m n w).bind fun tot =>
      if sp.length < tot then .err .length else decRepeat el n sp
  | .static w, .sizeField =>
    match siz with
    | none => .panic .badLayout
    | some sz =>
      if sp.length < sz then .err .length
      else if w = 0 then .panic .remZero
      else if sz % w ≠ 0 then .err .arraySize
      else decRepeat el (sz / w) sp
  | .static w, .unknown =>
      let sz := sp.length
      if w = 0 then .panic .remZero
      else if sz % w ≠ 0 then .err .arraySize
      else decRepeat el (sz / w) sp
  | .dynamic, .static n =>
    match esz with
    | none => .panic .badLayout
    | some es =>
      (if n = 1 then .ok es else umulM m n es).bind fun tot =>
      if sp.length < tot then .err .length
      else if es = 0 then zeroElem m el n .chunksZero sp
      else (decChunked el es n sp).bind fun vs =>
        (unwrapArr n vs).bind fun vs => .ok (vs, sp.drop tot)
  | .dynamic, .countField =>
    match esz, cnt with
    | some es, some n =>
      (umulM m n es).bind fun tot =>
      if sp.length < tot then .err .length
      else if es = 0 then zeroElem m el n .chunksZero sp
      else (decChunked el es n sp).bind fun vs => .ok (vs, sp.drop tot)
    | _, _ => .panic .badLayout
  | .dynamic, .sizeField =>
    match esz, siz with
    | some es, some sz =>
      if sp.length < sz then .err .length
      else if es = 0 then (if ideal then (if sz = 0 then .ok ([], sp) else .err .arraySize) else .panic .remZero)
      else if sz % es ≠ 0 then .err .arraySize
      else (decChunked el es (sz / es) sp).bind fun vs => .ok (vs, sp.drop sz)
    | _, _ => .panic .badLayout
  | .dynamic, .unknown =>
    match esz with
    | none => .panic .badLayout
    | some es =>
      let sz := sp.length
      if es = 0 then (if ideal then (if sz = 0 then .ok ([], sp) else .err .arraySize) else .panic .remZero)
      else if sz % es ≠ 0 then .err .arraySize
      else (decChunked el es (sz / es) sp).bind fun vs => .ok (vs, [])

/-- padding: the array is parsed from the first `pad` octets -/
def withPad (pad : Option Nat) (bs : Bytes) (k : Bytes → Dec (List Value × Bytes)) :
    Dec (List Value × Bytes) :=
  match pad with
  | none => k bs
  | some p =>
    if bs.length < p then .err .length
    else (k (bs.take p)).bind fun (vs, _) => .ok (vs, bs.drop p)

mutual
/-- one array element / optional / typedef value -/
def decTy (c : Cfg) : Ty → Bytes → Dec (Value × Bytes)
  | .scalar w, bs => (getUint c.e w bs).bind fun (v, r) => .ok (.int v, r)
  | .enumTy _ en, bs =>
    (getUint c.e en.width bs).bind fun (v, r) =>
      if enumOk en v then .ok (.int v, r) else .err .enumValue
  | .custom _ w, bs =>
    -- `impl Packet for Custom`: guarded
    if bs.length < w / 8 then .err .length
    else (getUint c.e w bs).bind fun (v, r) => .ok (.int v, r)
  | .struct _ b, bs => decBody c b bs

def decItem (c : Cfg) : Item → Bytes → DState → Dec (DState × Bytes)
  | .chunk fs, bs, st => decChunk c.e (c.mode == .ideal) fs bs st
  | .typedef id ty _, bs, st =>
    match ty with
    | .custom _ w =>
      -- decoder.rs add_typedef_field: `get_uint` with no length guard
      if bs.length < w / 8 then
        (match c.mode with | .rust => .panic .customRead | .ideal => .err .length)
      else
      (getUint c.e w bs).bind fun (v, r) =>
        .ok ({ st with fields := st.fields ++ [(id, .int v)] }, r)
    | ty =>
      (decTy c ty bs).bind fun (v, r) =>
        .ok ({ st with fields := st.fields ++ [(id, v)] }, r)
  | .optional id ty cid cval, bs, st =>
    match st.ctx.get (.val cid) with
    | none => .panic .badLayout
    | some cv =>
      if cv = cval then
        -- scalar / enum: unguarded `get_uint`; struct: `decode_mut`
        let short : Bool := match ty with
          | .scalar w => bs.length < w / 8
          | .enumTy _ en => bs.length < en.width / 8
          | _ => false
        -- guarded since the `fix:` commit "check the remaining length before reading an
        -- optional scalar or enum field" (was: unguarded `get_uint`, hazard `optionalRead`)
        if short then .err .length
        else
        (decTy c ty bs).bind fun (v, r) =>
          .ok ({ st with fields := st.fields ++ [(id, v)] }, r)
      else .ok ({ st with fields := st.fields ++ [(id, .null)] }, bs)
  | .payload mode, bs, st =>
    match mode with
    | .sized m =>
      match st.ctx.get (.size "_payload_") with
      | none => .panic .badLayout
      | some sz =>
        if sz < m then .err .length
        else
          let n := sz - m
          if bs.length < n then .err .length
          else .ok ({ st with payload := some (bs.take n) }, bs.drop n)
    | .last => .ok ({ st with payload := some bs }, [])
    | .beforeStatic k =>
      if bs.length < k then .err .length
      else .ok ({ st with payload := some (bs.take (bs.length - k)) }, bs.drop (bs.length - k))
    | .undelimited => .panic .badLayout
  | .array id elem ew shape pad, bs, st =>
    let cnt := st.ctx.get (.count id)
    let siz := st.ctx.get (.size id)
    let esz := st.ctx.get (.esize id)
    if !arrayKeysOk ew shape cnt siz esz then .panic .badLayout
    else
      (withPad pad bs (decArray c.mode (decTy c elem) ew shape cnt siz esz)).bind fun (vs, r) =>
        .ok ({ st with fields := st.fields ++ [(id, .arr vs)] }, r)

def decItems (c : Cfg) : Items → Bytes → DState → Dec (DState × Bytes)
  | .nil, bs, st => .ok (st, bs)
  | .cons i r, bs, st => (decItem c i bs st).bind fun (st', bs') => decItems c r bs' st'

/-- `T::decode(buf)` for a packet or struct -/
def decBody (c : Cfg) : Body → Bytes → Dec (Value × Bytes)
  | .root _ items, bs =>
    (decItems c items bs DState.empty).bind fun (st, r) =>
        .ok (.obj (st.fields ++ (match st.payload with
                               | some p => [("payload", Value.ofBytes p)]
                               | none => [])), r)
  | .derived _ parent cs _ items, bs =>
    (decBody c parent bs).bind fun (pv, r) =>
      (decPartialWith (fun bs => decItems c items bs DState.empty) parent cs pv).bind fun v => .ok (v, r)

end

/-- `Child::decode_partial(&parent)` for a child with the given own items -/
def decPartial (c : Cfg) (parent : Body) (cs : List (String × Nat)) (items : Items) (pv : Value) : Dec Value :=
  decPartialWith (fun bs => decItems c items bs DState.empty) parent cs pv

/-- `Packet::decode_full` (pdl-runtime) -/
def decodeFull (c : Cfg) (b : Body) (bs : Bytes) : Dec Value :=
  (decBody c b bs).bind fun (v, r) => if r.isEmpty then .ok v else .err .trailingBytes

/-! ### The encoder -/

def maskBits (w : Nat) : Nat := 2 ^ w - 1

def valBytes (v : Value) : Option Bytes :=
  match v with
  | .arr vs => vs.mapM fun x => match x with
      | .int n => if n < 256 then some (UInt8.ofNat n) else none
      | _ => none
  | _ => none

/-- `iter().map(f).sum()` -/
def sumLen (f : Value → Nat) : List Value → Nat
  | [] => 0
  | v :: vs => f v + sumLen f vs

mutual
/-- `encoded_len()` of a value of the given type, as the emitted expression computes it -/
def lenTy : Ty → Value → Nat
  | .scalar w, _ => w / 8
  | .enumTy _ en, _ => en.width / 8
  | .custom _ w, _ => w / 8
  | .struct _ b, v => lenBody b v

def lenItem : Item → Value → Nat
  | .chunk fs, _ => chunkBits fs / 8
  | .typedef id ty sb, v =>
    match sb with
    | some n => n
    | none => lenTy ty ((v.get? id).getD .null)
  | .optional id ty _ _, v =>
    match v.get? id with
    | some .null | none => 0
    | some x => lenTy ty x
  | .payload _, v => ((v.get? "payload").bind Value.asList?).getD [] |>.length
  | .array id elem ew _ pad, v =>
    match pad with
    | some p => p
    | none =>
      let vs := ((v.get? id).bind Value.asList?).getD []
      match ew with
      | .static w => vs.length * w
      | _ => sumLen (lenTy elem) vs

def lenItems : Items → Value → Nat
  | .nil, _ => 0
  | .cons i r, v => lenItem i v + lenItems r v

/-- own items only (`encode_partial`'s length; what a parent sees as its payload size) -/
def lenBody : Body → Value → Nat
  | .root _ items, v => lenItems items v
  | .derived _ parent _ _ items, v =>
    -- encode_with_parents: parent's fields around the child's bytes
    lenItems items v + lenBodyAround parent v

/-- the parent levels' contribution: their own non-payload items -/
def lenBodyAround : Body → Value → Nat
  | .root _ items, v => lenItemsNoPayload items v
  | .derived _ parent _ _ items, v => lenItemsNoPayload items v + lenBodyAround parent v

def lenItemsNoPayload : Items → Value → Nat
  | .nil, _ => 0
  | .cons (.payload _) r, v => lenItemsNoPayload r v
  | .cons i r, v => lenItem i v + lenItemsNoPayload r v
end

/-- value of an enum / custom typed field as the backing integer; `badValue` when the JSON
    integer is not a value of the generated type (serde rejects it before `encode` runs) -/
def natField (v : Value) (id : String) : Enc Nat :=
  match v.get? id with
  | some (.int n) => .ok n
  | _ => .panic .badValue

def listField (v : Value) (id : String) : Enc (List Value) :=
  match v.get? id with
  | some (.arr vs) => .ok vs
  | _ => .panic .badValue

def isPresent (v : Value) (id : String) : Bool :=
  match v.get? id with
  | some .null | none => false
  | some _ => true

/-- Size in octets the emitted size-field expression computes for its target. -/
def sizeOfTarget (items : Items) (target : String) (payloadLen : Nat) (v : Value) : Enc Nat :=
  if target == "_payload_" || target == "_body_" then .ok payloadLen
  else
    let rec find : Items → Enc Nat
      | .nil => .panic .badLayout
      | .cons (.array id elem ew _ _) r =>
        if id == target then
          (listField v id).bind fun vs =>
            match elem, ew with
            | .scalar w, _ => .ok (vs.length * (w / 8))
            | .enumTy _ en, _ => .ok (vs.length * (en.width / 8))
            | t, _ => .ok (sumLen (lenTy t) vs)
        else find r
      | .cons _ r => find r
    find items

/-- the values and checks of one chunk, in field order; returns the chunk integer -/
def encChunkFields (ideal : Bool) (items : Items) (payloadLen : Nat) (v : Value) :
    List BitField → Nat → Nat → Enc Nat
  | [], _, acc => .ok acc
  | f :: fs, shift, acc =>
    let next (x : Nat) := encChunkFields ideal items payloadLen v fs (shift + f.width) (acc + x * 2 ^ shift)
    match f with
    | .scalar id w =>
      (natField v id).bind fun x =>
        if x ≥ 2 ^ backingOf w then .panic .badValue
        else if backingOf w > w ∧ x > maskBits w then .err .invalidScalarValue
        else next x
    | .flag _ opts =>
      match opts with
      | [] => .panic .badLayout
      | (o, setv) :: _ =>
        let one := opts.any fun (k, val) => if val = 1 then isPresent v k else !isPresent v k
        let zero := opts.any fun (k, val) => if val = 1 then !isPresent v k else isPresent v k
        if opts.length ≥ 2 ∧ zero ∧ one then .err .inconsistentConditionValue
        else next (if isPresent v o then setv else 1 - setv)
    | .enumTy id _ e =>
      (natField v id).bind fun x => if enumOk e x then next x else .panic .badValue
    | .fixed _ c => next c
    | .reserved _ => next 0
    | .size t w m =>
      (sizeOfTarget items t payloadLen v).bind fun s =>
        -- the modifier is only applied for payloads (encoder.rs "TODO: size modifier")
        let s := if ideal || t == "_payload_" || t == "_body_" then s + m else s
        if s > maskBits w then .err .sizeOverflow else next s
    | .elemSize t w =>
      (listField v t).bind fun vs =>
        let rec elemTy : Items → Option Ty
          | .nil => none
          | .cons (.array id elem _ _ _) r => if id == t then some elem else elemTy r
          | .cons _ r => elemTy r
        match elemTy items with
        | none => .panic .badLayout
        | some ty =>
          let es := match vs with | [] => 0 | x :: _ => lenTy ty x
          if vs.any (fun x => lenTy ty x != es) then .err .invalidArrayElementSize
          else if es > maskBits w then .err .sizeOverflow
          else next es
    | .count t w =>
      (listField v t).bind fun vs =>
        -- the range check is emitted for every count field narrower than usize (since the
        -- `fix:` commit "emit the CountOverflow check for count fields as wide as their backing
        -- integer"; before, `len as uN` wrapped silently when w ∈ {8,16,32})
        if (ideal ∨ w < 64) ∧ vs.length > maskBits w then .err .countOverflow
        else next (vs.length % 2 ^ backingOf w)

/-- the reference rejects an array element beyond its declared width; the emitted code has no
    such check (`put_uint` keeps the low bits) -/
def elemOutOfRange (m : Mode) (w x : Nat) : Bool :=
  match m with
  | .ideal => decide (x > maskBits w)
  | .rust => false

/-- a static count is a Rust array type `[T; N]`: a value of another length does not exist -/
def checkCount (shape : Shape) (len : Nat) : Enc Unit :=
  match shape with
  | .static n => if len = n then .ok () else .panic .badValue
  | _ => .ok ()

/-- `if array_size > padding_octets { return Err(SizeOverflow) }` -/
def checkPad (pad : Option Nat) (sz : Nat) : Enc Unit :=
  match pad with
  | none => .ok ()
  | some p => if sz > p then .err .sizeOverflow else .ok ()

/-- the `array_size` expression of `encode_array_field` -/
def arrSize (ew : ElemWidth) (elemLen : Value → Nat) (vs : List Value) : Nat :=
  match ew with
  | .static w => vs.length * w
  | _ => sumLen elemLen vs

/-- `buf.put_bytes(0, padding_octets - array_size)` -/
def padTo (pad : Option Nat) (bs : Bytes) : Enc Bytes :=
  match pad with
  | none => .ok bs
  | some p => if bs.length ≤ p then .ok (bs ++ zeros (p - bs.length)) else .panic .subOverflow

/-- `for elem in &self.x { put(elem) }` -/
def encListWith (f : Value → Enc Bytes) : List Value → Enc Bytes
  | [] => .ok []
  | v :: vs => (f v).bind fun a => (encListWith f vs).bind fun b => .ok (a ++ b)

mutual
def encTy (c : Cfg) : Ty → Value → Enc Bytes
  | .scalar w, v =>
    match v with
    | .int x =>
      if x ≥ 2 ^ backingOf w then .panic .badValue
      -- array elements get no range check in the emitted code: `put_uint` keeps the low w bits
      else if elemOutOfRange c.mode w x then .err .invalidScalarValue
      else .ok (putUint c.e w x)
    | _ => .panic .badValue
  | .enumTy _ en, v =>
    match v with
    | .int x => if enumOk en x then .ok (putUint c.e en.width x) else .panic .badValue
    | _ => .panic .badValue
  | .custom _ w, v =>
    match v with
    | .int x => if x < 2 ^ w then .ok (putUint c.e w x) else .panic .badValue
    | _ => .panic .badValue
  | .struct _ b, v => encBody c b v

def encItem (c : Cfg) (all : Items) (payload : Enc Bytes) (payloadLen : Nat) (v : Value) :
    Item → Enc Bytes
  | .chunk fs =>
    (encChunkFields (c.mode == .ideal) all payloadLen v fs 0 0).bind fun x => .ok (putUint c.e (chunkBits fs) x)
  | .typedef id ty _ =>
    match v.get? id with
    | some x => encTy c ty x
    | none => .panic .badValue
  | .optional id ty _ _ =>
    match v.get? id with
    | some .null | none => .ok []
    | some x =>
      match ty with
      | .scalar w =>
        match x with
        | .int n =>
          if n ≥ 2 ^ backingOf w then .panic .badValue
          else if backingOf w > w ∧ n > maskBits w then .err .invalidScalarValue
          else .ok (putUint c.e w n)
        | _ => .panic .badValue
      | _ => encTy c ty x
  -- the child's serialization runs here, *after* the checks of the fields before the payload
  | .payload _ => payload
  | .array id elem ew shape pad =>
    (listField v id).bind fun vs =>
    (checkCount shape vs.length).bind fun _ =>
    (checkPad pad (arrSize ew (lenTy elem) vs)).bind fun _ =>
    (encListWith (encTy c elem) vs).bind fun bs => padTo pad bs

def encItems (c : Cfg) (all : Items) (payload : Enc Bytes) (payloadLen : Nat) (v : Value) :
    Items → Enc Bytes
  | .nil => .ok []
  | .cons i r =>
    (encItem c all payload payloadLen v i).bind fun a =>
    (encItems c all payload payloadLen v r).bind fun b => .ok (a ++ b)

/-- `encode`: own items, wrapped by each ancestor's items (`encode_with_parents`).
    `v` holds the data fields; constrained fields are supplied from `allCs`. -/
def encBody (c : Cfg) : Body → Value → Enc Bytes
  | .root _ items, v =>
    match (if items.hasPayload then (v.get? "payload").bind valBytes else some []) with
    | none => .panic .badValue
    | some p => encItems c items (.ok p) p.length v items
  | .derived _ parent _ allCs items, v =>
    match (if items.hasPayload then (v.get? "payload").bind valBytes else some []) with
    | none => .panic .badValue
    | some p =>
      -- constants for every constrained ancestor field
      let v' := Value.obj (v.fields ++ allCs.map fun (k, c) => (k, Value.int c))
      encAround c parent v' (encItems c items (.ok p) p.length v' items) (lenItems items v')

/-- the ancestors' items around the child's bytes; `len` is the child's `packet_size` -/
def encAround (c : Cfg) : Body → Value → Enc Bytes → Nat → Enc Bytes
  | .root _ items, v, inner, len => encItems c items inner len v items
  | .derived _ parent _ _ items, v, inner, len =>
    encAround c parent v (encItems c items inner len v items) (lenItemsNoPayload items v + len)
end

end Pdlv
