/-
  Pdlv.Interop — the class of layouts on which the models of all four back ends are covered by their theorems at once
  (serializer and parser side): the hypothesis of `four_models_interoperate` (Thm/C07_models), evaluated per type on every
  run of C07.
-/
import Pdlv.Static
import Pdlv.Ref
import Pdlv.Py
import Pdlv.Cxx
import Pdlv.Java

namespace Pdlv
namespace Interop

/-- the common class of a packet or struct without parent (decidable) -/
def commonWf (nm : String) (items : Items) : Bool :=
  rtWfBody (.root nm items) && noModBody (.root nm items) && refWfBody (.root nm items) &&
  Py.serWfBody (.root nm items) && Py.wfBody (.root nm items) &&
  Cxx.serWfBody (.root nm items) && Cxx.vwfBody (.root nm items) &&
  Java.encWfItems items && Java.decWfItems2 items

end Interop
end Pdlv
