/-
  Pdlv.Py — model of the parser the Python back end emits (pdl-compiler/src/backends/python.rs,
  `FieldParser`), over the layout IR, for packets and structs without parent.

  The emitted `parse` walks the fields like the Rust decoder does, with these differences, all
  taken from python.rs:
  * **static runs** — consecutive bit-field groups and statically sized typedef fields only advance
    a compile-time `offset`; their code is collected in `unchecked_code` and flushed behind ONE
    `if len(span) < offset: raise LengthError` (`check_code`), emitted only when the run produced
    code.  A one-octet group made only of `_reserved_` fields produces none, so a run that consists
    only of such groups is skipped with `span = span[offset:]` and never length-checked
    (`silentRun`; known finding KF-C13-py-reserved8);
  * **payload size modifier** — `_payload__size -= modifier` without a lower bound: a negative size
    slices from the end of the span (KF-C13-py-payload-modifier);
  * integer arithmetic is unbounded (no `usize` overflow), element-size fields are `todo!()`.
  Errors are all subclasses of `DecodeError`; which subclass is raised first may differ from the
  Rust decoder (a truncated run is reported before a fixed-value mismatch inside it), so the model
  is compared on accept / reject and on the value, not on the error variant.
-/
import Pdlv.Static

namespace Pdlv
namespace Py

/-- octets a static-run item covers -/
def runLen : Item → Option Nat
  | .chunk fs => some (chunkBits fs / 8)
  | .typedef _ _ (some n) => some n
  | _ => none

/-- a run item for which `parse_bit_field` emits no code at all -/
def silent : Item → Bool
  | .chunk fs => chunkBits fs == 8 && fs.all (fun f => match f with | .reserved _ => true | _ => false)
  | _ => false

/-- the static run starting at these items: total octets, and whether it produced no code -/
def runInfo : Items → Nat × Bool
  | .nil => (0, true)
  | .cons i r =>
    match runLen i with
    | none => (0, true)
    | some n => let (m, s) := runInfo r; (n + m, silent i && s)

/-- octets `parse_payload_field` keeps for the fields after an unsized payload: `padded_size` where the field is
    followed by `_padding_`, else its static `field_size` (the padded size is used since the `fix:` commit
    "keep the padded size of the arrays that follow an unsized payload"; before, a padded array counted for
    the size of its elements and the back end rejected its own output) -/
def tailKeep : Items → Nat
  | .nil => 0
  | .cons (.chunk fs) r => chunkBits fs / 8 + tailKeep r
  | .cons (.typedef _ _ (some n)) r => n + tailKeep r
  | .cons (.array _ _ _ _ (some p)) r => p + tailKeep r
  | .cons (.array _ _ (.static w) (.static n) none) r => n * w + tailKeep r
  | .cons _ r => tailKeep r

mutual
/-- `T.parse(span)` / `int.from_bytes` / `E.from_int` for one element or field value -/
def decTy (c : Cfg) : Ty → Bytes → Dec (Value × Bytes)
  -- `int.from_bytes(slice)`: the callers check the length (arrays: the total size; optional fields: explicitly)
  | .scalar w, bs => (getUint c.e w bs).bind fun (v, r) => .ok (.int v, r)
  | .enumTy _ en, bs =>
    (getUint c.e en.width bs).bind fun (v, r) => if enumOk en v then .ok (.int v, r) else .err .enumValue
  | .custom _ _, _ => .panic .badLayout          -- custom fields are outside the Python back end
  | .struct _ b, bs => decBody c b bs

/-- one field; `checked`: this item belongs to a static run whose length check was emitted -/
def decItem (c : Cfg) (rest : Items) : Item → Bytes → DState → Dec (DState × Bytes)
  | .chunk fs, bs, st =>
    if silent (.chunk fs) then
      -- no code: the octet is skipped by the slice `span[offset:]`, which never fails
      .ok (st, bs.drop 1)
    else decChunk c.e false fs bs st
  | .typedef id ty sb, bs, st =>
    match sb with
    | some n =>
      -- `fields[id] = T.parse_all(span[a:b])` inside a checked run
      if bs.length < n then .err .length
      else (decTy c ty (bs.take n)).bind fun (v, r) =>
        if r.isEmpty then .ok ({ st with fields := st.fields ++ [(id, v)] }, bs.drop n) else .err .trailingBytes
    | none =>
      (decTy c ty bs).bind fun (v, r) => .ok ({ st with fields := st.fields ++ [(id, v)] }, r)
  | .optional id ty cid cval, bs, st =>
    match st.ctx.get (.val cid) with
    | none => .panic .badLayout
    | some cv =>
      if cv = cval then
        -- scalar / enum: `if len(span) < width / 8: raise LengthError`; struct: `T.parse(span)`
        let short : Bool := match ty with
          | .scalar w => bs.length < w / 8
          | .enumTy _ en => bs.length < en.width / 8
          | _ => false
        if short then .err .length
        else (decTy c ty bs).bind fun (v, r) => .ok ({ st with fields := st.fields ++ [(id, v)] }, r)
      else .ok ({ st with fields := st.fields ++ [(id, .null)] }, bs)
  | .payload mode, bs, st =>
    match mode with
    | .sized m =>
      match st.ctx.get (.size "_payload_") with
      | none => .panic .badLayout
      | some sz =>
        if sz < m then
          -- negative size: `len(span) < size` is false, `span[:size]` / `span[size:]` count from the end
          let k := m - sz
          .ok ({ st with payload := some (bs.take (bs.length - k)) }, bs.drop (bs.length - k))
        else
          let n := sz - m
          if bs.length < n then .err .length
          else .ok ({ st with payload := some (bs.take n) }, bs.drop n)
    | _ =>
      -- no size field: everything but the octets of the static fields that follow
      let k := tailKeep rest
      if k = 0 then .ok ({ st with payload := some bs }, [])
      else if bs.length < k then .err .length
      else .ok ({ st with payload := some (bs.take (bs.length - k)) }, bs.drop (bs.length - k))
  | .array id elem ew shape pad, bs, st =>
    let cnt := st.ctx.get (.count id)
    let siz := st.ctx.get (.size id)
    let esz := st.ctx.get (.esize id)
    match ew with
    | .dynamic => .panic .badLayout               -- `todo!()`
    | _ =>
      if !arrayKeysOk ew shape cnt siz esz then .panic .badLayout
      else
        (withPad pad bs (decArray .ideal (decTy c elem) ew shape cnt siz esz)).bind fun (vs, r) =>
          .ok ({ st with fields := st.fields ++ [(id, .arr vs)] }, r)

/-- the field list; `inRun`: the length check of the current static run has been emitted (or the run is silent) -/
def decItems (c : Cfg) : Items → Bool → Bytes → DState → Dec (DState × Bytes)
  | .nil, _, bs, st => .ok (st, bs)
  | .cons i r, inRun, bs, st =>
    match runLen i with
    | some _ =>
      let (total, quiet) := runInfo (.cons i r)
      if !inRun && !quiet && bs.length < total then .err .length
      else (decItem c r i bs st).bind fun (st', bs') => decItems c r true bs' st'
    | none => (decItem c r i bs st).bind fun (st', bs') => decItems c r false bs' st'

/-- `T.parse(span)` of a packet or struct without parent -/
def decBody (c : Cfg) : Body → Bytes → Dec (Value × Bytes)
  | .root _ items, bs =>
    (decItems c items false bs DState.empty).bind fun (st, r) =>
      .ok (.obj (st.fields ++ (match st.payload with
                             | some p => [("payload", Value.ofBytes p)]
                             | none => [])), r)
  | .derived .., _ => .panic .badLayout            -- children are dispatched by trial parsing: not modelled
end


/-! ### the layouts on which the emitted parser is shown to agree with the reference decoder -/

/-- size fields other than the payload's carry no modifier -/
def bfPlain : BitField → Bool
  | .size t _ m => t == "_payload_" || m == 0
  | _ => true

mutual
def wfTy : Ty → Bool
  | .custom .. => false
  | .struct _ (.root _ items) => wfItems items
  | .struct _ (.derived ..) => false
  | _ => true
/-- no one-octet reserved-only group, no array size modifier, a payload size modifier of 0, the octets kept
    after an unsized payload equal to what the fields that follow occupy (no `_padding_` among them) -/
def wfItem (rest : Items) : Item → Bool
  | .chunk fs => !silent (.chunk fs) && fs.all bfPlain
  | .typedef _ ty sb =>
    wfTy ty && (match sb with
      | some n => staticTy ty == some n && localWfTy ty
      | none => true)
  | .optional _ ty _ _ => wfTy ty
  | .payload (.sized m) => m == 0
  | .payload .last => tailKeep rest == 0
  | .payload (.beforeStatic k) => tailKeep rest == k
  | .payload .undelimited => false
  | .array _ elem ew _ _ => wfTy elem && (match ew with | .dynamic => false | _ => true)
def wfItems : Items → Bool
  | .nil => true
  | .cons i r => wfItem r i && wfItems r
end

def wfBody : Body → Bool
  | .root _ items => wfItems items
  | .derived .. => false

/-- `T.parse_all(span)` -/
def decodeFull (c : Cfg) (b : Body) (bs : Bytes) : Dec Value :=
  (decBody c b bs).bind fun (v, r) => if r.isEmpty then .ok v else .err .trailingBytes

/-! ### the serializer (`FieldSerializer`) -/

/-- the checks and the packing of one bit-field group as python.rs emits them: scalars, sizes and counts are
    range-checked (`ValueError`), enum values are not validated (anything that does not fit the group makes
    `int.to_bytes` / `bytearray.append` raise), the flag is taken from the FIRST optional field it governs
    without a consistency check; size modifiers are applied to payloads and arrays alike -/
def encChunkFields (items : Items) (payloadLen : Nat) (v : Value) : List BitField → Nat → Nat → Enc Nat
  | [], _, acc => .ok acc
  | f :: fs, shift, acc =>
    let next (x : Nat) := encChunkFields items payloadLen v fs (shift + f.width) (acc + x * 2 ^ shift)
    match f with
    | .scalar id w => (natField v id).bind fun x => if x > maskBits w then .err .invalidScalarValue else next x
    | .flag _ opts =>
      match opts with
      | [] => .panic .badLayout
      | (o, setv) :: _ => next (if isPresent v o then setv else 1 - setv)
    | .enumTy id _ e => (natField v id).bind fun x => if x ≥ 2 ^ e.width then .err .invalidScalarValue else next x
    | .fixed _ c => next c
    | .reserved _ => next 0
    | .size t w m =>
      (sizeOfTarget items t payloadLen v).bind fun s => if s + m > maskBits w then .err .sizeOverflow else next (s + m)
    | .count t w => (listField v t).bind fun vs => if vs.length > maskBits w then .err .countOverflow else next vs.length
    | .elemSize _ _ => .panic .badLayout       -- `todo!()`

/-- `_span.extend([0] * (padded - written))`: a negative count appends nothing, no error -/
def pad (p : Option Nat) (bs : Bytes) : Bytes :=
  match p with
  | none => bs
  | some n => bs ++ zeros (n - bs.length)

mutual
def encTy (c : Cfg) : Ty → Value → Enc Bytes
  | .scalar w, v =>
    match v with
    | .int x => if x < 2 ^ w then .ok (putUint c.e w x) else .err .invalidScalarValue      -- OverflowError
    | _ => .panic .badValue
  | .enumTy _ en, v =>
    match v with
    | .int x => if x < 2 ^ en.width then .ok (putUint c.e en.width x) else .err .invalidScalarValue
    | _ => .panic .badValue
  | .custom _ _, _ => .panic .badLayout
  | .struct _ b, v => encBody c b v

def encItem (c : Cfg) (all : Items) (payload : Bytes) (v : Value) : Item → Enc Bytes
  | .chunk fs => (encChunkFields all payload.length v fs 0 0).bind fun x => .ok (putUint c.e (chunkBits fs) x)
  | .typedef id ty _ =>
    match v.get? id with
    | some x => encTy c ty x
    | none => .panic .badValue
  | .optional id ty _ _ =>
    match v.get? id with
    | some .null | none => .ok []
    | some x => encTy c ty x
  | .payload _ => .ok payload
  | .array id elem _ _ pd =>
    (listField v id).bind fun vs => (encListWith (encTy c elem) vs).bind fun bs => .ok (pad pd bs)

def encItems (c : Cfg) (all : Items) (payload : Bytes) (v : Value) : Items → Enc Bytes
  | .nil => .ok []
  | .cons i r => (encItem c all payload v i).bind fun a => (encItems c all payload v r).bind fun b => .ok (a ++ b)

/-- `serialize()`: a packet or struct without parent writes its fields; a child writes its own fields into a
    buffer and returns `Parent.serialize(self, payload=bytes(_span))` — the parent's fields around those octets, the
    parent's size field computed from their actual length, the constrained fields read from the constants the
    child's `__post_init__` has stored -/
def encBody (c : Cfg) : Body → Value → Enc Bytes
  | .root _ items, v =>
    match (if items.hasPayload then (v.get? "payload").bind valBytes else some []) with
    | none => .panic .badValue
    | some p => encItems c items p v items
  | .derived _ parent _ allCs items, v =>
    match (if items.hasPayload then (v.get? "payload").bind valBytes else some []) with
    | none => .panic .badValue
    | some p =>
      let v' := Value.obj (v.fields ++ allCs.map fun (k, c) => (k, Value.int c))
      (encItems c items p v' items).bind fun inner => encAround c parent v' inner

/-- the ancestors' `serialize(self, payload=inner)`, innermost first -/
def encAround (c : Cfg) : Body → Value → Bytes → Enc Bytes
  | .root _ items, v, inner => encItems c items inner v items
  | .derived _ parent _ _ items, v, inner =>
    (encItems c items inner v items).bind fun x => encAround c parent v x
end

mutual
/-- serializer side of the class: no element-size fields, no custom fields, enums narrower than ... -/
def serWfTy : Ty → Bool
  | .custom .. => false
  | .struct _ (.root _ items) => serWfItems items
  | .struct _ (.derived ..) => false
  | .scalar w => decide (w ≤ 64)
  | .enumTy _ e => decide (e.width ≤ 64)
def serWfItem : Item → Bool
  | .chunk fs => fs.all fun f => match f with
      | .elemSize .. => false
      | .scalar _ w => decide (w ≤ 64)
      | .enumTy _ _ e => decide (e.width ≤ 64)
      | .count _ w => decide (w ≤ 64)
      | _ => true
  | .typedef _ ty _ => serWfTy ty
  | .optional _ ty _ _ => serWfTy ty
  | .payload _ => true
  | .array _ elem _ _ _ => serWfTy elem
def serWfItems : Items → Bool
  | .nil => true
  | .cons i r => serWfItem i && serWfItems r
end

def serWfBody : Body → Bool
  | .root _ items => serWfItems items
  | .derived .. => false

/-- a child and its ancestors: every level in the serializer class, every ancestor with exactly one payload, the
    static annotations in agreement with the types (`lenWfBody`, what `Schema` guarantees) -/
def serWfChain : Body → Bool
  | .root _ items => serWfItems items && items.hasPayload && decide ((payloadModes items).length ≤ 1)
  | .derived _ parent _ _ items =>
    serWfItems items && items.hasPayload && decide ((payloadModes items).length ≤ 1) && serWfChain parent

def serWfChild : Body → Bool
  | .derived nm parent cs allCs items => serWfItems items && serWfChain parent && lenWfBody (.derived nm parent cs allCs items)
  | .root .. => false

end Py
end Pdlv
